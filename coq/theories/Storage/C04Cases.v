(* Storage/C04Cases.v - entry module for the generated C04 case files: byte strings arrive as
   lower-case hex string literals of a private literal type whose terms are one constructor
   per character (parsed several times faster than lists of N or [string]). No proofs. *)
From Coq Require Import Strings.Byte.
From HV Require Export Base.Prelude Storage.C04Reader.
Local Open Scope N_scope.

Inductive hexs := HexS (l : list Byte.byte).
Definition hexs_parse (l : list Byte.byte) : hexs := HexS l.
Definition hexs_print (h : hexs) : list Byte.byte := match h with HexS l => l end.
Declare Scope hexs_scope.
Delimit Scope hexs_scope with hexs.
Bind Scope hexs_scope with hexs.
String Notation hexs hexs_parse hexs_print : hexs_scope.

Definition hexval (c : Byte.byte) : N :=
  let n := Byte.to_N c in if n <? 58 then n - 48 else n - 87.

Fixpoint hx_list (l : list Byte.byte) : list N :=
  match l with
  | a :: b :: t => (16 * hexval a + hexval b) :: hx_list t
  | _ => []
  end.

Definition hx (h : hexs) : list N := hx_list (hexs_print h).
