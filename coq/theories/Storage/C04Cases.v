(* Storage/C04Cases.v - entry module for the generated C04 case files: byte strings arrive as
   lower-case hex string literals (parsed much faster than lists of N). No proofs. *)
From Coq Require Export String Ascii.
From HV Require Export Base.Prelude Storage.C04Reader.
Local Open Scope N_scope.

Definition hexval (c : ascii) : N :=
  let n := N_of_ascii c in if n <? 58 then n - 48 else n - 87.

Fixpoint hx (s : string) : list N :=
  match s with
  | String a (String b t) => (16 * hexval a + hexval b) :: hx t
  | _ => []
  end.
