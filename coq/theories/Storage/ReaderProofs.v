(* Storage/ReaderProofs.v — the reader applied to the bytes of a well-formed logical file gives
   back exactly its blocks and its name (file_roundtrip), hence LoadIndex gives the replay of
   its log.  Compression is any pair with decompress (compress x) = Some x; crc is any function. *)
From HV Require Import Base.Prelude Storage.Format Storage.FormatProofs Storage.Lww Storage.LwwProofs
  Storage.Writer Storage.WriterProofs Storage.Reader.
From Coq Require Import ZifyN ZifyNat ZifyBool.
Local Open Scope N_scope.

Section ReaderProofs.
Variable compress : list N -> list N.
Variable decompress : list N -> option (list N).
Variable crc : list N -> N.
Hypothesis decompress_compress : forall x, decompress (compress x) = Some x.

Notation bent := (lentry (list N) (list N)).
Notation bfile := (lfile (list N) (list N) (list N)).
Notation cfits := (Reader.cfits compress).
Notation wfe := (wfe (list N) (list N) nlen nlen).
Notation wf_block := (wf_block (list N) (list N) nlen nlen cfits).
Notation wf_file := (wf_file (list N) (list N) (list N) nlen nlen cfits).
Notation render_block := (render_block compress crc).
Notation block_header := (block_header compress crc).
Notation block_payload := (block_payload compress).
Notation render := (render compress crc).
Notation parse_block := (parse_block decompress crc).
Notation read_blocks := (read_blocks decompress crc).
Notation read_file := (read_file decompress crc).
Notation load_index := (load_index decompress crc).

Lemma of_to_entry e : of_entry (to_entry e) = e.
Proof. now destruct e. Qed.

Lemma map_of_to es : map of_entry (map to_entry es) = es.
Proof. rewrite map_map. rewrite <- (map_id es) at 2. apply map_ext. exact of_to_entry. Qed.

Lemma of_to_blocks (bs : list (list bent)) : map of_entry (concat (map (map to_entry) bs)) = concat bs.
Proof.
  induction bs as [|b bs IH]; cbn [map concat]; [reflexivity|].
  now rewrite map_app, map_of_to, IH.
Qed.

Lemma wfe_wf_entry e : wfe e -> wf_entry (to_entry e).
Proof.
  unfold WriterProofs.wfe, encodable, wf_entry, MaxKeySize. cbn [to_entry e_key e_data].
  intro H. apply andb_true_iff in H as [H H3]. apply andb_true_iff in H as [H1 H2].
  apply N.leb_le in H1, H2. apply N.ltb_lt in H3. unfold two16. lia.
Qed.

Lemma parse_block_render b :
  wf_block b ->
  parse_block (trunc_bh (block_header b)) (block_payload b) = Some (map to_entry b).
Proof.
  intros (Hne & Hok & Hall).
  unfold Writer.block_ok in Hok. apply andb_true_iff in Hok as [Hcnt Hfit].
  unfold Reader.parse_block, Reader.block_header, Reader.block_payload, trunc_bh.
  cbn [bh_crc bh_usize bh_count].
  rewrite N.eqb_refl. cbn [negb]. rewrite decompress_compress.
  rewrite N.eqb_refl. cbn [negb].
  apply N.leb_le in Hcnt. unfold MaxEntriesPerBlock in Hcnt.
  rewrite N.mod_small by (unfold two16; lia).
  unfold nlen at 1. rewrite Nat2N.id.
  rewrite <- (map_length to_entry b).
  rewrite <- (app_nil_r (ser_entries (map to_entry b))).
  apply entries_roundtrip.
  rewrite Forall_forall in *. intros x Hx. apply in_map_iff in Hx as (y & <- & Hy).
  apply wfe_wf_entry. now apply Hall.
Qed.

Lemma take16_nil : take BlockHeaderSize (@nil N) = None.
Proof. apply take_short. reflexivity. Qed.

Lemma read_blocks_render bs :
  Forall wf_block bs -> forall fuel, (length bs < fuel)%nat ->
  read_blocks fuel (concat (map render_block bs)) = RDone (map (map to_entry) bs).
Proof.
  induction bs as [|b bs IH]; intros Hwf fuel Hfuel.
  - destruct fuel; [lia|]. cbn [map concat Reader.read_blocks]. now rewrite take16_nil.
  - inversion Hwf as [|? ? Hb Hbs]; subst.
    destruct fuel as [|fu]; [lia|]. cbn [map concat Reader.read_blocks].
    unfold Reader.render_block at 1. rewrite <- app_assoc.
    rewrite (take_app BlockHeaderSize (ser_bh (block_header b))) by (now rewrite ser_bh_len).
    rewrite bh_roundtrip_trunc.
    assert (Hc : bh_csize (trunc_bh (block_header b)) = nlen (block_payload b)).
    { destruct Hb as (_ & Hok & _). unfold Writer.block_ok in Hok.
      apply andb_true_iff in Hok as [_ Hfit]. unfold Reader.cfits in Hfit.
      apply andb_true_iff in Hfit as [_ Hfit]. apply N.ltb_lt in Hfit.
      cbn. rewrite N.mod_small; [reflexivity | exact Hfit]. }
    rewrite Hc. rewrite (take_app (nlen (block_payload b)) (block_payload b)) by reflexivity.
    rewrite (parse_block_render b Hb).
    rewrite (IH Hbs fu) by (cbn in Hfuel; lia). reflexivity.
Qed.

Lemma render_blocks_len bs : (length bs <= length (concat (map render_block bs)))%nat.
Proof.
  induction bs as [|b bs IH]; cbn [map concat length]; [lia|].
  rewrite app_length. unfold Reader.render_block at 1. rewrite app_length.
  pose proof (ser_bh_len (block_header b)) as H. unfold nlen in H. lia.
Qed.

(* the header fields the reader sees *)
Definition seen_header (hm : hmeta) (f : bfile) : fheader := trunc_fh (file_header hm f).

Definition ver_ok (f : bfile) : Prop :=
  (f_ver f = Version2) \/ (f_ver f = Version3 /\ nlen (f_name f) < two16).

Definition stored_name (f : bfile) : list N := if N.eqb (f_ver f) Version3 then f_name f else [].

Lemma seen_ver hm f : fh_version (seen_header hm f) = f_ver f.
Proof. reflexivity. Qed.
Lemma seen_namelen hm f :
  fh_namelen (seen_header hm f) = if N.eqb (f_ver f) Version3 then nlen (f_name f) mod two16 else 0.
Proof. unfold seen_header, trunc_fh, file_header. cbn [fh_version fh_namelen]. now destruct (N.eqb (f_ver f) Version3). Qed.

Lemma open_reader_render hm f :
  ver_ok f -> open_reader (render hm f) = Some (seen_header hm f, stored_name f).
Proof.
  intro Hv. unfold open_reader, Reader.render.
  rewrite (take_app FileHeaderSize (ser_fh (file_header hm f))) by (now rewrite ser_fh_len).
  rewrite fh_roundtrip by (unfold file_header; cbn; destruct Hv as [->|[-> _]]; auto).
  fold (seen_header hm f). rewrite seen_ver, seen_namelen. unfold stored_name.
  destruct Hv as [Hv|[Hv Hn]]; rewrite Hv.
  - reflexivity.
  - cbn [N.eqb Version3 Pos.eqb andb]. rewrite N.mod_small by exact Hn.
    destruct (0 <? nlen (f_name f)) eqn:E.
    + rewrite (take_app (nlen (f_name f)) (f_name f)) by reflexivity. reflexivity.
    + apply N.ltb_ge in E. destruct (f_name f); [reflexivity | rewrite nlen_cons in E; lia].
Qed.

Theorem file_roundtrip hm f :
  ver_ok f -> wf_file f ->
  read_file (render hm f) = Some (seen_header hm f, stored_name f, map (map to_entry) (f_blocks f)).
Proof.
  intros Hv Hwf. unfold Reader.read_file. rewrite (open_reader_render hm f Hv).
  unfold read_all.
  assert (Hskip : skipn (N.to_nat (data_start (seen_header hm f))) (render hm f)
                  = concat (map render_block (f_blocks f))).
  { unfold Reader.render. rewrite app_assoc.
    set (pre := ser_fh (file_header hm f) ++ _).
    assert (Hpre : N.to_nat (data_start (seen_header hm f)) = length pre).
    { subst pre. rewrite app_length. pose proof (ser_fh_len (file_header hm f)) as Hl.
      unfold nlen in Hl. unfold data_start. rewrite seen_ver, seen_namelen. unfold FileHeaderSize.
      destruct Hv as [Hv|[Hv Hn]]; rewrite Hv; cbn [N.eqb Version2 Version3 Pos.eqb].
      - cbn [length]. lia.
      - rewrite N.mod_small by exact Hn. unfold nlen. lia. }
    rewrite Hpre. apply skipn_len_app. }
  rewrite Hskip.
  rewrite read_blocks_render; [reflexivity | exact Hwf |].
  pose proof (render_blocks_len (f_blocks f)) as H1.
  unfold Reader.render. rewrite !app_length. lia.
Qed.

(* LoadIndex on the bytes of a well-formed file = replay of its log *)
Theorem load_index_render hm f :
  ver_ok f -> wf_file f ->
  load_index (render hm f) =
  Some (replay (list N) (list N) bytes_eqb (concat (f_blocks f)),
        match stored_name f with
        | [] => meta_name (concat (map (map to_entry) (f_blocks f)))
        | nm => nm
        end).
Proof.
  intros Hv Hwf. pose proof (file_roundtrip hm f Hv Hwf) as H.
  unfold Reader.read_file in H. unfold Reader.load_index.
  destruct (open_reader (render hm f)) as [[h nm]|]; [|discriminate].
  destruct (read_all decompress crc (render hm f) h) as [bs| |]; try discriminate.
  inversion H; subst. rewrite of_to_blocks. now destruct (stored_name f).
Qed.

End ReaderProofs.
