(* Storage/C02Writer.v — the V2 FileWriter (writer.go) as a function from API calls to the
   file operations it issues.  Model only (no proofs).

   Everything the crash/fault properties are indifferent to is an oracle carried by the API
   call and, in the correspondence check, observed from the implementation (M2):
     - whether a WriteEntry triggered a flush (buffer threshold),
     - the compressed payload length of the block a flush produced,
     - what the environment did to the writes of that flush ([flush_fault]) and to the
       header update / fsync of a Sync or Close ([sync ok] flag).

   [w_step_gen fixed] has the writer before ([fixed = false]) and after ([fixed = true]) the
   repairs of writer.go: before, opening an existing file seeks to its physical end and a
   failed block write leaves its bytes in the file and drops the buffered entries; after, the
   writer cuts a torn tail off on open (truncate to the end of the last complete block,
   fsync), re-creates a file whose header/name area is incomplete, and on a failed block
   write truncates back and keeps the entries.  The truncation back may fail too
   ([FFshortDirty]): the writer then remembers the dirty tail ([w_dirty] = tailDirty) and cuts
   it off before the next block, failing the flush as long as that truncation fails
   ([FFpre]). *)
From HV Require Import Base.Prelude Storage.C02Fs.
Local Open Scope N_scope.

Inductive flush_fault :=
| FFok                 (* both writes of the block succeeded, header update too *)
| FFshort (j : N)      (* the block write stopped after j bytes (j < 16 + payload) and failed *)
| FFhdr                (* block written, the in-place header update failed *)
| FFshortDirty (j : N) (* as FFshort, and the truncation back to the last block failed too *)
| FFpre.               (* the flush found a dirty tail and its truncation failed again: nothing
                          else was attempted (as FFok when there is no dirty tail) *)

Inductive api :=
| AWrite (e : entry) (fl : option (N * flush_fault))  (* WriteEntry; Some = it flushed *)
| AFlush (sz : N) (ff : flush_fault)
| ASync (sz : N) (ff : flush_fault) (sync_ok : bool)
| AClose (sz : N) (ff : flush_fault) (sync_ok : bool)
| AOpen                                                (* NewFileWriter[WithName] *)
| AOpenFail (truncated : bool).  (* opening an existing file failed while cutting its torn tail
                                    off: the ftruncate failed (false) or it succeeded and the
                                    fsync after it failed (true); no writer results *)

Record wstate := mkw { w_open : bool; w_buf : list entry; w_end : N; w_dirty : bool }.

Definition w_closed : wstate := mkw false [] 0 false.

(* the appending writes that put the first j bytes of block b into the file *)
Definition block_write_ops (b : block) (j : N) : list fsop :=
  if j <=? BH then [OApp (SBh b) j]
  else [OApp (SBh b) BH; OApp (SPl b) (j - BH)].

Definition blen (b : block) : N := BH + b_plen b.

(* flushLocked once no dirty tail is left *)
Definition flush_clean (fixed : bool) (w : wstate) (sz : N) (ff : flush_fault)
  : wstate * list fsop * bool :=
  match w_buf w with
  | [] => (w, [], true)
  | _ =>
      let b := mkblock (w_buf w) sz in
      let done := mkw (w_open w) [] (w_end w + blen b) false in
      match ff with
      | FFshort j =>
          if fixed
          then (w, block_write_ops b j ++ [OTrunc (w_end w)], false)
          else (mkw (w_open w) [] (w_end w) false, block_write_ops b j, false)
      | FFshortDirty j =>
          if fixed
          then (mkw (w_open w) (w_buf w) (w_end w) true, block_write_ops b j, false)
          else (mkw (w_open w) [] (w_end w) false, block_write_ops b j, false)
      | FFok | FFpre => (done, block_write_ops b (blen b) ++ [OHdr], true)
      | FFhdr => (done, block_write_ops b (blen b) ++ [OHdr], false)
      end
  end.

(* flushLocked *)
Definition flush (fixed : bool) (w : wstate) (sz : N) (ff : flush_fault)
  : wstate * list fsop * bool :=
  if w_dirty w then
    match ff with
    | FFpre => (w, [], false)
    | _ =>
        let '(w1, ops, ok) :=
          flush_clean fixed (mkw (w_open w) (w_buf w) (w_end w) false) sz ff in
        (w1, OTrunc (w_end w) :: ops, ok)
    end
  else flush_clean fixed w sz ff.

Definition create_ops (nlen : N) : list fsop :=
  [OCreate; OApp (SHdr nlen) FH; OApp (SName nlen) nlen].

(* NewFileWriterWithName: createNewFile / openExistingFile *)
Definition open_file (fixed : bool) (nlen : N) (f : fs) : wstate * list fsop :=
  match vol f with
  | None => (mkw true [] (pre_len nlen) false, create_ops nlen)
  | Some c =>
      if fixed then
        if clen c <? pre_len nlen then (mkw true [] (pre_len nlen) false, create_ops nlen)
        else
          let g := good_len nlen c in
          (mkw true [] g false, if g <? clen c then [OTrunc g; OFsync] else [])
      else (mkw true [] (clen c) false, [])
  end.

Definition w_step_gen (fixed : bool) (nlen : N) (f : fs) (w : wstate) (a : api)
  : wstate * list fsop * bool :=
  match a with
  | AOpen =>
      if w_open w then (w, [], false)
      else let '(w', ops) := open_file fixed nlen f in (w', ops, true)
  | AOpenFail tr =>
      if w_open w then (w, [], false)
      else
        match vol f with
        | Some c =>
            if fixed && (pre_len nlen <=? clen c) && (good_len nlen c <? clen c)
            then (w, (if tr then [OTrunc (good_len nlen c)] else []) ++ [OClose], false)
            else (w, [], false)
        | None => (w, [], false)
        end
  | AWrite e fl =>
      if negb (w_open w) then (w, [], false)
      else
        let w1 := mkw true (w_buf w ++ [e]) (w_end w) (w_dirty w) in
        match fl with
        | None => (w1, [], true)
        | Some (sz, ff) => flush fixed w1 sz ff
        end
  | AFlush sz ff =>
      if negb (w_open w) then (w, [], false) else flush fixed w sz ff
  | ASync sz ff sok =>
      if negb (w_open w) then (w, [], false)
      else
        let '(w1, ops, ok) := flush fixed w sz ff in
        if negb ok then (w1, ops, false)
        else if sok then (w1, ops ++ [OHdr; OFsync], true)
        else (w1, ops ++ [OHdr], false)
  | AClose sz ff sok =>
      if negb (w_open w) then (w, [], true)
      else
        let '(w1, ops, ok) := flush fixed w sz ff in
        if negb ok then (w_closed, ops ++ [OClose], false)
        else if sok then (w_closed, ops ++ [OHdr; OFsync; OClose], true)
        else (w_closed, ops ++ [OHdr; OClose], false)
  end.

Definition w_step := w_step_gen true.

(* run a history: final file system, final writer, the op log, the result of every call *)
Fixpoint w_run_gen (fixed : bool) (nlen : N) (f : fs) (w : wstate) (h : list api)
  : fs * wstate * list fsop * list bool :=
  match h with
  | [] => (f, w, [], [])
  | a :: t =>
      let '(w1, ops, ok) := w_step_gen fixed nlen f w a in
      let '(f2, w2, ops2, oks) := w_run_gen fixed nlen (fs_run f ops) w1 t in
      (f2, w2, ops ++ ops2, ok :: oks)
  end.

Definition w_run := w_run_gen true.

Definition oplog_gen (fixed : bool) (nlen : N) (f : fs) (w : wstate) (h : list api) : list fsop :=
  let '(_, _, ops, _) := w_run_gen fixed nlen f w h in ops.

Definition oplog := oplog_gen true.

(* entries submitted by a history (WriteEntry calls reaching an open writer) and whether a
   Close failed (which discards what was still buffered) – used by the specifications *)
Definition ff_ok (sz : N) (ff : flush_fault) : Prop :=
  1 <= sz /\ match ff with FFshort j | FFshortDirty j => j < BH + sz | _ => True end.

Definition api_ok (a : api) : Prop :=
  match a with
  | AWrite _ (Some (sz, ff)) => ff_ok sz ff
  | AFlush sz ff | ASync sz ff _ | AClose sz ff _ => ff_ok sz ff
  | _ => True
  end.

Definition ff_okb (sz : N) (ff : flush_fault) : bool :=
  (1 <=? sz) && match ff with FFshort j | FFshortDirty j => j <? BH + sz | _ => true end.

Definition api_okb (a : api) : bool :=
  match a with
  | AWrite _ (Some (sz, ff)) => ff_okb sz ff
  | AFlush sz ff | ASync sz ff _ | AClose sz ff _ => ff_okb sz ff
  | _ => true
  end.

(* entries handed to an open writer by a history, given the writer's open flag at its start *)
Fixpoint submitted (open : bool) (h : list api) : list entry :=
  match h with
  | [] => []
  | AWrite e _ :: t => if open then e :: submitted open t else submitted open t
  | AOpen :: t => submitted true t
  | AClose _ _ _ :: t => submitted false t
  | _ :: t => submitted open t
  end.
