(* Storage/LwwProofs.v — the replay fold of LoadIndex computes the last-writer-wins map. *)
From HV Require Import Base.Prelude Storage.Lww.
Local Open Scope N_scope.

Section LwwProofs.
Variables (K D : Type) (keqb : K -> K -> bool).
Hypothesis keqb_spec : forall a b, keqb a b = true <-> a = b.

Notation mget := (mget K D keqb).
Notation mdel := (mdel K D keqb).
Notation mset := (mset K D keqb).
Notation replay := (replay K D keqb).
Notation lww_get := (lww_get K D keqb).
Notation first_write := (first_write K D keqb).

Lemma keqb_refl a : keqb a a = true.
Proof. now apply keqb_spec. Qed.

Lemma keqb_sym a b : keqb a b = keqb b a.
Proof.
  destruct (keqb a b) eqn:E1, (keqb b a) eqn:E2; try reflexivity.
  - apply keqb_spec in E1; subst. now rewrite keqb_refl in E2.
  - apply keqb_spec in E2; subst. now rewrite keqb_refl in E1.
Qed.

Lemma mget_mdel k m k' : mget (mdel k m) k' = if keqb k k' then None else mget m k'.
Proof.
  induction m as [|[k0 d0] m IH]; simpl.
  - now destruct (keqb k k').
  - destruct (keqb k0 k) eqn:E0.
    + apply keqb_spec in E0; subst k0. rewrite IH. now destruct (keqb k k').
    + simpl. destruct (keqb k0 k') eqn:E1.
      * apply keqb_spec in E1; subst k0. rewrite keqb_sym, E0. reflexivity.
      * exact IH.
Qed.

Lemma mget_mset k d m k' : mget (mset k d m) k' = if keqb k k' then Some d else mget m k'.
Proof.
  unfold Lww.mset. simpl. destruct (keqb k k') eqn:E; [reflexivity|].
  rewrite mget_mdel, E. reflexivity.
Qed.

Lemma first_write_app h1 h2 k :
  first_write (h1 ++ h2) k =
  if existsb (fun w => keqb (fst w) k) h1 then first_write h1 k else first_write h2 k.
Proof.
  induction h1 as [|[k0 v0] h1 IH]; simpl; [reflexivity|].
  destruct (keqb k0 k); simpl; [reflexivity | exact IH].
Qed.

(* the central statement at the level of logical logs *)
Theorem replay_lww es k : mget (replay es) k = lww_get (writes_of K D es) k.
Proof.
  induction es as [|e es IH] using rev_ind; [reflexivity|].
  unfold Lww.replay, Lww.lww_get, writes_of in *.
  rewrite fold_left_app, flat_map_app, rev_app_distr, first_write_app.
  cbn [fold_left flat_map]. rewrite app_nil_r.
  remember (fold_left (apply_entry K D keqb) es []) as m eqn:Hm.
  remember (rev (flat_map (write_of K D) es)) as h eqn:Hh. clear Hm Hh.
  unfold apply_entry, write_of.
  destruct (N.eqb (l_op e) 3) eqn:E3.
  - cbn [rev app existsb fst Lww.first_write]. rewrite mget_mdel.
    destruct (keqb (l_key e) k); [reflexivity | exact IH].
  - destruct (N.eqb (l_op e) 1 || N.eqb (l_op e) 2) eqn:E12.
    + cbn [rev app existsb fst Lww.first_write]. rewrite mget_mset.
      destruct (keqb (l_key e) k); [reflexivity | exact IH].
    + cbn [rev existsb]. exact IH.
Qed.

Lemma mkeys_mdel_incl k m x : In x (mkeys K D (mdel k m)) -> In x (mkeys K D m) /\ x <> k.
Proof.
  induction m as [|[k0 d0] m IH]; simpl; [tauto|].
  destruct (keqb k0 k) eqn:E.
  - intro H. apply IH in H. tauto.
  - simpl. intros [H|H].
    + subst. split; [now left|]. intro; subst. now rewrite keqb_refl in E.
    + apply IH in H. tauto.
Qed.

Lemma nodup_mdel k m : NoDup (mkeys K D m) -> NoDup (mkeys K D (mdel k m)).
Proof.
  induction m as [|[k0 d0] m IH]; simpl; intro H; [constructor|].
  inversion H as [|? ? Hn Hm]; subst.
  destruct (keqb k0 k); [now apply IH|].
  simpl. constructor; [|now apply IH].
  intro Hin. apply mkeys_mdel_incl in Hin. tauto.
Qed.

Theorem replay_nodup es : NoDup (mkeys K D (replay es)).
Proof.
  induction es as [|e es IH] using rev_ind; [constructor|].
  unfold Lww.replay in *. rewrite fold_left_app. simpl.
  unfold apply_entry.
  destruct (N.eqb (l_op e) 3); [now apply nodup_mdel|].
  destruct (N.eqb (l_op e) 1 || N.eqb (l_op e) 2); [|exact IH].
  unfold Lww.mset. simpl. constructor; [|now apply nodup_mdel].
  intro Hin. apply mkeys_mdel_incl in Hin. tauto.
Qed.

(* "and nothing else": a key is present exactly when its last write is a set *)
Corollary replay_keys es k :
  In k (mkeys K D (replay es)) <-> exists d, lww_get (writes_of K D es) k = Some d.
Proof.
  rewrite <- replay_lww. generalize (replay es) as m. intro m.
  induction m as [|[k0 d0] m IH]; simpl.
  - split; [tauto | intros [d Hd]; discriminate].
  - destruct (keqb k0 k) eqn:E.
    + apply keqb_spec in E; subst. split; [intros _; now exists d0 | now left].
    + rewrite <- IH. split; [intros [H|H]; [subst; now rewrite keqb_refl in E | exact H] | now right].
Qed.

End LwwProofs.

(* both halves of "exactly the last value of every live key, nothing else", as one statement *)
Theorem index_fold_is_lww (K D : Type) (keqb : K -> K -> bool) :
  (forall a b, keqb a b = true <-> a = b) ->
  forall es k,
    mget K D keqb (replay K D keqb es) k = lww_get K D keqb (writes_of K D es) k /\
    NoDup (mkeys K D (replay K D keqb es)).
Proof. intros H es k. split; [exact (replay_lww K D keqb H es k) | exact (replay_nodup K D keqb H es)]. Qed.
