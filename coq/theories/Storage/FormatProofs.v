(* Storage/FormatProofs.v — round-trip theorems of the byte codecs in Format.v. *)
From HV Require Import Base.Prelude Storage.Format.
From Coq Require Import ZifyN ZifyNat ZifyBool.
Local Open Scope N_scope.

Lemma nlen_app {A} (a b : list A) : nlen (a ++ b) = nlen a + nlen b.
Proof. unfold nlen. rewrite app_length. lia. Qed.

Lemma nlen_cons {A} (x : A) l : nlen (x :: l) = 1 + nlen l.
Proof. unfold nlen. cbn [length]. lia. Qed.

Lemma nlen_nil {A} : nlen (@nil A) = 0.
Proof. reflexivity. Qed.

Lemma le_length k n : length (le k n) = k.
Proof. revert n; induction k as [|k IH]; intro n; simpl; [reflexivity | now rewrite IH]. Qed.

Lemma nlen_le k n : nlen (le k n) = N.of_nat k.
Proof. unfold nlen. now rewrite le_length. Qed.

Lemma unle_le k n : unle (le k n) = n mod (256 ^ N.of_nat k).
Proof.
  revert n; induction k as [|k IH]; intro n.
  - simpl. now rewrite N.mod_1_r.
  - cbn [le unle]. rewrite IH. rewrite Nat2N.inj_succ, N.pow_succ_r'.
    rewrite N.mod_mul_r; [reflexivity | lia | apply N.pow_nonzero; lia].
Qed.

Lemma unle_le2 n : unle (le 2 n) = n mod two16.
Proof. rewrite unle_le. reflexivity. Qed.
Lemma unle_le4 n : unle (le 4 n) = n mod two32.
Proof. rewrite unle_le. reflexivity. Qed.
Lemma unle_le8 n : unle (le 8 n) = n mod two64.
Proof. rewrite unle_le. reflexivity. Qed.

Lemma firstn_len_app {A} (a b : list A) : firstn (length a) (a ++ b) = a.
Proof. induction a as [|x a IH]; simpl; [now destruct b | now rewrite IH]. Qed.
Lemma skipn_len_app {A} (a b : list A) : skipn (length a) (a ++ b) = b.
Proof. induction a as [|x a IH]; simpl; [reflexivity | exact IH]. Qed.

Lemma take_app n (a b : bytes) : n = nlen a -> take n (a ++ b) = Some (a, b).
Proof.
  intros ->. unfold take. rewrite nlen_app.
  destruct (nlen a + nlen b <? nlen a) eqn:E; [apply N.ltb_lt in E; lia|].
  unfold nlen. rewrite Nat2N.id, firstn_len_app, skipn_len_app. reflexivity.
Qed.

Lemma take_short n (l : bytes) : nlen l < n -> take n l = None.
Proof. intro H. unfold take. apply N.ltb_lt in H. now rewrite H. Qed.

Lemma take_some n l a b : take n l = Some (a, b) -> l = a ++ b /\ nlen a = n.
Proof.
  unfold take. destruct (nlen l <? n) eqn:E; [discriminate|].
  intro H; inversion H; subst. split; [now rewrite firstn_skipn|].
  apply N.ltb_ge in E. unfold nlen in *. rewrite firstn_length. lia.
Qed.

Lemma bytes_eqb_refl a : bytes_eqb a a = true.
Proof. induction a; simpl; [reflexivity | now rewrite N.eqb_refl]. Qed.

Lemma bytes_eqb_eq a b : bytes_eqb a b = true <-> a = b.
Proof.
  revert b; induction a as [|x a IH]; intros [|y b]; simpl; split; intro H;
    try reflexivity; try discriminate.
  - apply andb_true_iff in H as [H1 H2]. apply N.eqb_eq in H1. apply IH in H2. congruence.
  - inversion H; subst. now rewrite N.eqb_refl, bytes_eqb_refl.
Qed.

Global Opaque take.
Arguments le : simpl never.
Arguments unle : simpl never.

(* ---- entries ---------------------------------------------------------------------------- *)
Definition wf_entry (e : entry) : Prop :=
  1 <= nlen (e_key e) /\ nlen (e_key e) < two16 /\ nlen (e_data e) < two32.

Theorem entry_roundtrip e r : wf_entry e -> deser_entry (ser_entry e ++ r) = Some (e, r).
Proof.
  destruct e as [op key data]. unfold wf_entry; cbn [e_key e_data]. intros (Hk1 & Hk2 & Hd).
  unfold deser_entry, ser_entry; cbn [e_op e_key e_data].
  repeat rewrite <- app_assoc.
  match goal with |- context [nlen ?b <? 7] => set (buf := b) end.
  assert (Hlen : nlen buf = 7 + nlen key + nlen data + nlen r).
  { subst buf. rewrite ?nlen_app, ?nlen_le, ?nlen_cons, ?nlen_nil. lia. }
  destruct (nlen buf <? 7) eqn:E1; [apply N.ltb_lt in E1; lia|].
  subst buf.
  rewrite (take_app 1 [op]) by reflexivity.
  rewrite (take_app 2 (le 2 (nlen key))) by (now rewrite nlen_le).
  rewrite unle_le2, N.mod_small by exact Hk2.
  rewrite Hlen.
  destruct (7 + nlen key + nlen data + nlen r <? 3 + nlen key + 4) eqn:E2; [apply N.ltb_lt in E2; lia|].
  rewrite (take_app (nlen key) key) by reflexivity.
  destruct key as [|k0 key']; [rewrite nlen_nil in Hk1; lia|].
  rewrite (take_app 4 (le 4 (nlen data))) by (now rewrite nlen_le).
  rewrite unle_le4, N.mod_small by exact Hd.
  destruct (7 + nlen (k0 :: key') + nlen data + nlen r <? 3 + nlen (k0 :: key') + 4 + nlen data) eqn:E3;
    [apply N.ltb_lt in E3; lia|].
  rewrite (take_app (nlen data) data) by reflexivity.
  reflexivity.
Qed.

Theorem entries_roundtrip es r :
  Forall wf_entry es -> parse_entries (length es) (ser_entries es ++ r) = Some es.
Proof.
  induction es as [|e es IH]; intro H; [reflexivity|].
  inversion H as [|? ? He Hes]; subst.
  unfold ser_entries in *. cbn [length map concat parse_entries].
  rewrite <- app_assoc, (entry_roundtrip e _ He), (IH Hes). reflexivity.
Qed.

(* ---- block header ----------------------------------------------------------------------- *)
Definition wf_bh (h : bheader) : Prop :=
  bh_csize h < two32 /\ bh_usize h < two32 /\ bh_count h < two16 /\ bh_crc h < two32 /\ bh_flags h < two16.

(* what comes back in general: every field truncated to its width *)
Definition trunc_bh (h : bheader) : bheader :=
  mkBH (bh_csize h mod two32) (bh_usize h mod two32) (bh_count h mod two16) (bh_crc h mod two32) (bh_flags h mod two16).

Lemma ser_bh_len h : nlen (ser_bh h) = 16.
Proof. unfold ser_bh. repeat rewrite nlen_app. repeat rewrite nlen_le. reflexivity. Qed.

Theorem bh_roundtrip_trunc h : deser_bh (ser_bh h) = Some (trunc_bh h).
Proof.
  unfold deser_bh, ser_bh.
  rewrite (take_app 4 (le 4 (bh_csize h))) by (now rewrite nlen_le).
  rewrite (take_app 4 (le 4 (bh_usize h))) by (now rewrite nlen_le).
  rewrite (take_app 2 (le 2 (bh_count h))) by (now rewrite nlen_le).
  rewrite (take_app 4 (le 4 (bh_crc h))) by (now rewrite nlen_le).
  rewrite <- (app_nil_r (le 2 (bh_flags h))).
  rewrite (take_app 2 (le 2 (bh_flags h))) by (now rewrite nlen_le).
  rewrite !unle_le4, !unle_le2. reflexivity.
Qed.

(* ---- file header ------------------------------------------------------------------------ *)
Lemma pad_len k l : length (pad k l) = k.
Proof. unfold pad. rewrite firstn_length, app_length, repeat_length. lia. Qed.

Lemma pad_exact k l : length l = k -> pad k l = l.
Proof.
  intros <-. unfold pad. now rewrite firstn_len_app.
Qed.

Lemma ser_fh_len h : nlen (ser_fh h) = 64.
Proof.
  unfold ser_fh. repeat rewrite nlen_app. repeat rewrite nlen_le.
  unfold nlen at 2. rewrite pad_len. reflexivity.
Qed.

(* the header that comes back: fields truncated, NameLength forced to 0 for V2 *)
Definition trunc_fh (h : fheader) : fheader :=
  mkFH (fh_version h) (fh_flags h mod two16) (fh_created h mod two64) (fh_modified h mod two64)
       (fh_blocksize h mod two32) (fh_entrycount h mod two64) (fh_blockcount h mod two64)
       (if N.eqb (fh_version h) Version3 then fh_namelen h mod two16 else 0)
       (pad 14 (fh_reserved h)).

Theorem fh_roundtrip h :
  fh_version h = Version2 \/ fh_version h = Version3 ->
  deser_fh (ser_fh h) = Some (trunc_fh h).
Proof.
  intro Hv. unfold deser_fh, ser_fh.
  rewrite (take_app 4 Magic) by reflexivity.
  rewrite bytes_eqb_refl. cbn [negb].
  rewrite (take_app 2 (le 2 (fh_version h))) by (now rewrite nlen_le).
  rewrite unle_le2.
  assert (Hm : fh_version h mod two16 = fh_version h).
  { destruct Hv as [-> | ->]; reflexivity. }
  rewrite Hm.
  assert (Hvv : (fh_version h =? Version2) || (fh_version h =? Version3) = true).
  { destruct Hv as [-> | ->]; reflexivity. }
  rewrite Hvv. cbn [negb].
  rewrite (take_app 2 (le 2 (fh_flags h))) by (now rewrite nlen_le).
  rewrite (take_app 8 (le 8 (fh_created h))) by (now rewrite nlen_le).
  rewrite (take_app 8 (le 8 (fh_modified h))) by (now rewrite nlen_le).
  rewrite (take_app 4 (le 4 (fh_blocksize h))) by (now rewrite nlen_le).
  rewrite (take_app 8 (le 8 (fh_entrycount h))) by (now rewrite nlen_le).
  rewrite (take_app 8 (le 8 (fh_blockcount h))) by (now rewrite nlen_le).
  rewrite (take_app 2 (le 2 (fh_namelen h))) by (now rewrite nlen_le).
  rewrite (take_app 14 (pad 14 (fh_reserved h))) by (unfold nlen; now rewrite pad_len).
  rewrite <- (app_nil_r [0; 0; 0; 0]).
  rewrite (take_app 4 [0;0;0;0]) by reflexivity.
  rewrite !unle_le8, !unle_le4, !unle_le2. reflexivity.
Qed.
