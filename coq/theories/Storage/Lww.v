(* Storage/Lww.v — the specification side of C01: "the last value written for every key that
   was not deleted afterwards, and nothing else", and the replay fold of reader.go:LoadIndex.
   Generic in the key type K (decidable equality [keqb]) and the payload type D (M4: the
   engine never inspects payloads).  Executable, no proofs. *)
From HV Require Import Base.Prelude.
Local Open Scope N_scope.

Section Lww.
Variables (K D : Type) (keqb : K -> K -> bool).

(* a write of the history: Some d = insert/update with payload d, None = delete *)
Definition wr := (K * option D)%type.

(* SPEC.  The most recent write to k decides: search the history backwards. *)
Fixpoint first_write (h : list wr) (k : K) : option D :=
  match h with
  | [] => None
  | (k', v) :: t => if keqb k' k then v else first_write t k
  end.
Definition lww_get (h : list wr) (k : K) : option D := first_write (rev h) k.

(* finite maps as association lists without duplicate keys *)
Definition amap := list (K * D).
Fixpoint mget (m : amap) (k : K) : option D :=
  match m with
  | [] => None
  | (k', d) :: t => if keqb k' k then Some d else mget t k
  end.
Fixpoint mdel (k : K) (m : amap) : amap :=
  match m with
  | [] => []
  | (k', d) :: t => if keqb k' k then mdel k t else (k', d) :: mdel k t
  end.
Definition mset (k : K) (d : D) (m : amap) : amap := (k, d) :: mdel k m.
Definition mkeys (m : amap) : list K := map fst m.

(* logical entries of the log: op code, key, payload *)
Record lentry := mkL { l_op : N; l_key : K; l_data : D }.

(* reader.go:LoadIndex – OpDelete removes, OpInsert/OpUpdate set, everything else (OpMetadata,
   unknown op codes) leaves the index alone (the Go switch has no default branch) *)
Definition apply_entry (m : amap) (e : lentry) : amap :=
  if N.eqb (l_op e) 3 then mdel (l_key e) m
  else if N.eqb (l_op e) 1 || N.eqb (l_op e) 2 then mset (l_key e) (l_data e) m
  else m.
Definition replay (es : list lentry) : amap := fold_left apply_entry es [].

(* the history a log stands for *)
Definition write_of (e : lentry) : list wr :=
  if N.eqb (l_op e) 3 then [(l_key e, None)]
  else if N.eqb (l_op e) 1 || N.eqb (l_op e) 2 then [(l_key e, Some (l_data e))]
  else [].
Definition writes_of (es : list lentry) : list wr := flat_map write_of es.

(* observed map (list of pairs, any order) = model map: same size, no duplicate key in the
   observation, every observed pair is in the model *)
Fixpoint kmem (k : K) (l : list K) : bool :=
  match l with [] => false | x :: t => keqb x k || kmem k t end.
Fixpoint knodup (l : list K) : bool :=
  match l with [] => true | x :: t => negb (kmem x t) && knodup t end.
Definition amap_eqb (deqb : D -> D -> bool) (obs m : amap) : bool :=
  Nat.eqb (length obs) (length m) && knodup (mkeys obs) &&
  forallb (fun p => option_eqb deqb (mget m (fst p)) (Some (snd p))) obs.

End Lww.

Arguments mkL {K D}.
Arguments l_op {K D}.
Arguments l_key {K D}.
Arguments l_data {K D}.
