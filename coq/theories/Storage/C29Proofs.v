(* Storage/C29Proofs.v — composition for C29: what the writer model leaves on disk, after any
   history, is read by ReadSwampName and by the explorer scan under the creation name. *)
From HV Require Import Base.Prelude Storage.Format Storage.FormatProofs Storage.Lww Storage.LwwProofs
  Storage.Writer Storage.WriterProofs Storage.Reader Storage.ReaderProofs Storage.ReplayProofs
  Storage.SwampName Storage.SwampNameProofs.
From Coq Require Import ZifyN ZifyNat ZifyBool.
Local Open Scope N_scope.

Section C29.
Variable compress : list N -> list N.
Variable decompress : list N -> option (list N).
Variable crc : list N -> N.
Hypothesis decompress_compress : forall x, decompress (compress x) = Some x.

Notation cfits := (Reader.cfits compress).
Notation wf_file := (wf_file B B B nlen nlen cfits).
Notation render := (render compress crc).
Notation read_swamp_name := (read_swamp_name decompress crc).
Notation scan_name := (scan_name decompress crc).
Notation scan_file := (scan_file decompress crc).

(* A file created by the (repaired) writer under name nm - fresh, or the temp file of a
   compaction - and then subjected to ANY further operations in any number of sessions, with
   any results: it is a V3 file, ReadSwampName returns nm, and so does the explorer's name
   lookup when nm is not empty. *)
Theorem name_roundtrip hm nm (ops : list bop) st' rs f :
  brun compress true init (OOpen nm :: ops) = (st', ROk :: rs) -> s_file st' = Some f ->
  f_ver f = Version3 /\ read_swamp_name (render hm f) = Some nm /\
  (nm <> [] -> scan_name (render hm f) = Some nm).
Proof.
  unfold brun. cbn [Writer.run]. cbn [Writer.step init s_file s_w andb].
  destruct (MaxNameSize <? nlen nm) eqn:En.
  - destruct (run _ _ _ _ _ _ _ _ _ ops) as [st2 rs2]. intro H; inversion H.
  - set (st1 := mkS (Some (mkF Version3 nm 0 0 [])) (Some (mkW [] 0 0))).
    destruct (run B B B nlen nlen nlen cfits true st1 ops) as [st2 rs2] eqn:E2.
    intro H; inversion H; subst. intro Hf.
    pose proof (run_name B B B nlen nlen nlen cfits ops st1 _ eq_refl) as [Hn Hv].
    rewrite E2 in Hn, Hv. cbn [fst] in Hn, Hv. unfold name_of, ver_of in Hn, Hv. rewrite Hf in Hn, Hv.
    cbn in Hn, Hv. injection Hn as Hn'. injection Hv as Hv'.
    apply N.ltb_ge in En. unfold MaxNameSize in En.
    assert (Hlt : nlen (f_name f) < two16) by (rewrite Hn'; unfold two16; lia).
    assert (HI1 : Inv B B B nlen nlen cfits st1) by (split; constructor).
    pose proof (run_inv B B B nlen nlen nlen cfits ops st1 HI1) as HI.
    rewrite E2 in HI. cbn [fst] in HI. unfold Inv in HI. rewrite Hf in HI.
    assert (Hwf : wf_file f) by (destruct (s_w st'); [exact (proj1 HI) | exact HI]).
    split; [exact Hv'|]. split.
    + rewrite <- Hn'. now apply read_swamp_name_v3.
    + intro Hne. rewrite (scan_name_render compress decompress crc decompress_compress hm f) by (auto; right; auto).
      unfold stored_name. rewrite Hv'. cbn. rewrite Hn'. destruct nm; [contradiction | reflexivity].
Qed.

(* Legacy V2 file (name in a metadata entry) appended to by the current writer, any history,
   any results: both lookups keep returning the legacy name. *)
Theorem v2_appends_keep_name hm f0 (ops : list bop) st' rs f nm :
  f_ver f0 = Version2 -> wf_file f0 -> nm <> [] ->
  meta_name (entries_of f0) = nm -> scan_meta (entries_of f0) = nm ->
  brun compress true (mkS (Some f0) None) ops = (st', rs) -> s_file st' = Some f ->
  f_ver f = Version2 /\ read_swamp_name (render hm f) = Some nm /\ scan_name (render hm f) = Some nm.
Proof.
  intros Hv0 Hwf0 Hne Hm Hs Hrun Hf. unfold brun in Hrun.
  set (st0 := mkS (Some f0) None) in *.
  pose proof (run_name B B B nlen nlen nlen cfits ops st0 f0 eq_refl) as [_ Hv].
  rewrite Hrun in Hv. cbn [fst] in Hv. unfold ver_of in Hv. rewrite Hf in Hv. cbn in Hv. injection Hv as Hv'.
  destruct (run_blocks B B B nlen nlen nlen cfits ops st0 f0 eq_refl) as (f' & extra & Hf' & Hb).
  rewrite Hrun in Hf'. cbn [fst] in Hf'. rewrite Hf in Hf'. inversion Hf'; subst f'.
  assert (HI0 : Inv B B B nlen nlen cfits st0) by exact Hwf0.
  pose proof (run_inv B B B nlen nlen nlen cfits ops st0 HI0) as HI.
  rewrite Hrun in HI. cbn [fst] in HI. unfold Inv in HI. rewrite Hf in HI.
  assert (Hwf : wf_file f) by (destruct (s_w st'); [exact (proj1 HI) | exact HI]).
  assert (He : entries_of f = entries_of f0 ++ concat (map (map to_entry) extra)).
  { unfold entries_of. now rewrite Hb, map_app, concat_app. }
  assert (Hv2 : f_ver f = Version2) by congruence.
  split; [exact Hv2|]. split.
  - rewrite (read_swamp_name_v2 compress decompress crc decompress_compress hm f Hv2 Hwf).
    rewrite He, meta_name_app; congruence.
  - rewrite (scan_name_render compress decompress crc decompress_compress hm f) by (auto; left; auto).
    unfold stored_name. rewrite Hv2. cbn. rewrite He, scan_meta_app; congruence.
Qed.

(* the explorer entry of such a file: the three parts of its name *)
Theorem scan_three_parts hm f s r w :
  ver_ok f -> wf_file f -> slash_free s -> slash_free r ->
  scan_name (render hm f) = Some (s ++ slash :: r ++ slash :: w) ->
  scan_file (render hm f) = Some (s, r, w).
Proof.
  intros Hv Hwf Hs Hr Hn. unfold SwampName.scan_file. rewrite Hn.
  destruct (s ++ slash :: r ++ slash :: w) as [|b l] eqn:E.
  - destruct s; discriminate.
  - rewrite <- E. now apply split3_parts.
Qed.

(* Load's self-heal compaction by a chronicler that has no name of its own, or the same name as
   the file: whatever the live entries and flush decisions, the rewritten file is V3 and is
   found under the name the old file carried *)
Theorem selfheal_keeps_name hm cname fname live st' rs f :
  cname = [] \/ cname = fname ->
  brun compress true init (selfheal_ops cname fname live) = (st', ROk :: rs) -> s_file st' = Some f ->
  f_ver f = Version3 /\ read_swamp_name (render hm f) = Some fname /\
  (fname <> [] -> scan_name (render hm f) = Some fname).
Proof.
  intros Hc. assert (Ha : adopt_name cname fname = fname).
  { destruct Hc as [-> | ->]; [reflexivity | now destruct fname]. }
  unfold selfheal_ops. rewrite Ha. apply name_roundtrip.
Qed.

End C29.

(* An over-long name never produces a file *)
Theorem long_name_no_file (compress : list N -> list N) nm st' rs :
  two16 <= nlen nm -> brun compress true init [OOpen nm] = (st', rs) -> s_file st' = None /\ rs = [RErr].
Proof.
  intro H. unfold brun. cbn. assert (E : MaxNameSize <? nlen nm = true) by (apply N.ltb_lt; unfold MaxNameSize, two16 in *; lia).
  rewrite E. intro H1; inversion H1; subst. auto.
Qed.

(* pinned writer: a 65536-byte name is written behind NameLength = 0; the fast lookup then
   answers the empty name for a file created under a 65536-byte one *)
Theorem old_writer_long_name_lookup_refuted :
  match final_bytes false long_name_ops with
  | Some b => read_swamp_name idd crc0 b
  | None => None
  end = Some [].
Proof. vm_compute. reflexivity. Qed.
