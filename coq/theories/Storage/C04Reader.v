(* Storage/C04Reader.v — byte-exact model of the V2/V3 .hyd reader
   (app/core/hydra/swamp/chronicler/v2: reader.go NewFileReader / readNextBlock / ReadAllEntries /
   LoadIndex / ScanBlockHeaders / ReadSwampName, block.go ParseBlock, types.go
   FileHeader.Deserialize / BlockHeader.Deserialize / Entry.Deserialize).
   Model only, no proofs (Storage/C04ReaderProofs.v).

   Conventions: a file is a [list N] of bytes. hydraide's own slice expressions are modelled
   with *checked* slicing ([sub], [rd], [idx1]) that yields [Panic] when Go would panic, so
   "never panics" is a theorem about the guards, not a by-product of the encoding (M8).
   Every make(...) of the Go code is logged as an [alloc] request.

   What the property is indifferent to is a parameter ([policy], M2): how an *incomplete tail*
   (short block header / header without payload / header with part of its payload) is
   classified - clean end of log or error. It is observed from the implementation by the
   harness. [p_bound_first]/[p_sn_bound] select the repaired code (true) or the code before
   the two C04 fix: commits (false; kept for the refutation theorems). *)
From HV Require Import Base.Prelude Storage.Crc32 Storage.Snappy.
Local Open Scope N_scope.

(* ---- outcomes --------------------------------------------------------------------------- *)

Inductive err :=
| EShort      (* io.EOF / io.ErrUnexpectedEOF: something is shorter than announced *)
| EMagic      (* ErrInvalidMagic *)
| EVersion    (* ErrUnsupportedVer *)
| ECorrupt    (* ErrCorruptedBlock or a snappy decode error: block payload is damaged *)
| EEntry      (* ErrCorruptedEntry / ErrEmptyKey *)
| EOther.     (* anything else the implementation may report; never produced by the model *)

Definition err_eqb (a b : err) : bool :=
  match a, b with
  | EShort, EShort | EMagic, EMagic | EVersion, EVersion | ECorrupt, ECorrupt | EEntry, EEntry
  | EOther, EOther => true
  | _, _ => false
  end.

Inductive res (A : Type) :=
| Ok (a : A)
| Err (e : err)
| Panic
| OutOfFuel.
Arguments Ok {A} a.
Arguments Err {A} e.
Arguments Panic {A}.
Arguments OutOfFuel {A}.

Definition bind {A B} (r : res A) (f : A -> res B) : res B :=
  match r with
  | Ok a => f a
  | Err e => Err e
  | Panic => Panic
  | OutOfFuel => OutOfFuel
  end.

Inductive alloc :=
| ABuf (n : N)        (* make([]byte, n) or a string/data copy of n bytes *)
| AEntries (n : N).   (* make([]Entry, 0, n) *)

Record policy := {
  p_partial_hdr_eof : bool;    (* 1..15 bytes of a block header: end of log (true) or error *)
  p_nopayload_eof : bool;      (* complete header, 0 payload bytes present *)
  p_shortpayload_eof : bool;   (* complete header, 1..CompressedSize-1 payload bytes present *)
  p_bound_first : bool;        (* CompressedSize compared with the remaining length BEFORE make *)
  p_sn_bound : bool            (* ParseBlock checks the Snappy length preamble before decoding *)
}.

(* ---- constants (values of the compiled code; re-checked against Gen/C04Consts.v) --------- *)

Definition file_header_size : N := 64.
Definition block_header_size : N := 16.
Definition magic_bytes : list N := [72; 89; 68; 82].     (* "HYDR" *)
Definition version2 : N := 2.
Definition version3 : N := 3.
Definition op_insert : N := 1.
Definition op_update : N := 2.
Definition op_delete : N := 3.
Definition op_metadata : N := 4.
Definition metadata_entry_key : list N :=                  (* "__swamp_meta__" *)
  [95; 95; 115; 119; 97; 109; 112; 95; 109; 101; 116; 97; 95; 95].
Definition max_snappy_expansion : N := 22.

(* ---- checked slicing --------------------------------------------------------------------- *)

(* buf[lo:hi] *)
Definition sub (l : list N) (lo hi : N) : option (list N) :=
  if (lo <=? hi) && (hi <=? lenN l)
  then Some (firstn (N.to_nat (hi - lo)) (skipn (N.to_nat lo) l))
  else None.

Definition slice (l : list N) (lo hi : N) : res (list N) :=
  match sub l lo hi with Some s => Ok s | None => Panic end.

(* l[n:] for a position that may lie beyond the end (file Seek past EOF); never builds a
   unary number larger than the list *)
Definition skipN (n : N) (l : list N) : list N :=
  if lenN l <=? n then [] else skipn (N.to_nat n) l.

(* little-endian value of a byte string *)
Fixpoint le (l : list N) : N :=
  match l with [] => 0 | b :: t => b + 256 * le t end.

(* binary.LittleEndian.UintXX(buf[lo:hi]) *)
Definition rd (l : list N) (lo hi : N) : res N := bind (slice l lo hi) (fun s => Ok (le s)).

(* buf[i] *)
Definition idx1 (l : list N) (i : N) : res N :=
  match nth_error l (N.to_nat i) with Some b => Ok b | None => Panic end.

Definition bytes_eqb (a b : list N) : bool := list_eqb N.eqb a b.

(* ---- types.go: FileHeader.Deserialize ------------------------------------------------------ *)

Record fhdr := { fh_version : N; fh_namelen : N }.

Definition fhdr_deserialize (buf : list N) : res fhdr :=
  if lenN buf <? file_header_size then Err EOther
  else
    bind (slice buf 0 4) (fun magic =>
    if negb (bytes_eqb magic magic_bytes) then Err EMagic else
    bind (rd buf 4 6) (fun ver =>
    if negb (ver =? version2) && negb (ver =? version3) then Err EVersion else
    (* Flags, CreatedAt, ModifiedAt, BlockSize, EntryCount, BlockCount: read, never used by the reader *)
    bind (rd buf 44 46) (fun nl =>
    Ok {| fh_version := ver; fh_namelen := if ver =? version3 then nl else 0 |}))).

Definition data_start_offset (h : fhdr) : N :=
  if fh_version h =? version3 then file_header_size + fh_namelen h else file_header_size.

(* ---- reader.go: NewFileReader ----------------------------------------------------------------
   io.ReadFull(file, buf): fewer bytes than len(buf) available => io.EOF / io.ErrUnexpectedEOF. *)

Record opened := { o_hdr : fhdr; o_name : list N }.

Definition new_file_reader (b : list N) : res opened * list alloc :=
  let log1 := [ABuf file_header_size] in
  if lenN b <? file_header_size then (Err EShort, log1)
  else
    match bind (slice b 0 file_header_size) fhdr_deserialize with
    | Ok h =>
        if (fh_version h =? version3) && (0 <? fh_namelen h) then
          let log2 := log1 ++ [ABuf (fh_namelen h)] in
          if lenN b - file_header_size <? fh_namelen h then (Err EShort, log2)
          else
            match slice b file_header_size (file_header_size + fh_namelen h) with
            | Ok nm => (Ok {| o_hdr := h; o_name := nm |}, log2)
            | Err e => (Err e, log2) | Panic => (Panic, log2) | OutOfFuel => (OutOfFuel, log2)
            end
        else (Ok {| o_hdr := h; o_name := [] |}, log1)
    | Err e => (Err e, log1)
    | Panic => (Panic, log1)
    | OutOfFuel => (OutOfFuel, log1)
    end.

(* ---- types.go: BlockHeader.Deserialize ----------------------------------------------------- *)

Record bhdr := { bh_csize : N; bh_usize : N; bh_count : N; bh_crc : N }.

Definition bhdr_deserialize (buf : list N) : res bhdr :=
  if lenN buf <? block_header_size then Err EOther
  else
    bind (rd buf 0 4) (fun cs =>
    bind (rd buf 4 8) (fun us =>
    bind (rd buf 8 10) (fun cnt =>
    bind (rd buf 10 14) (fun crc =>
    (* Flags buf[14:16]: read, never used *)
    Ok {| bh_csize := cs; bh_usize := us; bh_count := cnt; bh_crc := crc |})))).

(* ---- types.go: Entry.Deserialize ------------------------------------------------------------- *)

Record entry := { e_op : N; e_key : list N; e_data : list N }.

(* returns the entry and the number of bytes consumed *)
Definition entry_deserialize (buf : list N) : res (entry * N) :=
  if lenN buf <? 7 then Err EEntry else
  bind (idx1 buf 0) (fun op =>
  bind (rd buf 1 3) (fun keylen =>
  if lenN buf <? 3 + keylen + 4 then Err EEntry else
  bind (slice buf 3 (3 + keylen)) (fun key =>
  match key with
  | [] => Err EEntry                                   (* ErrEmptyKey *)
  | _ =>
    bind (rd buf (3 + keylen) (3 + keylen + 4)) (fun datalen =>
    let off := 3 + keylen + 4 in
    if lenN buf <? off + datalen then Err EEntry else
    bind (slice buf off (off + datalen)) (fun data =>
    Ok ({| e_op := op; e_key := key; e_data := data |}, off + datalen)))
  end))).

(* block.go: the entry loop of ParseBlock; [off] is Go's offset into uncompressed *)
Fixpoint parse_entries (count : nat) (unc : list N) (off : N) : res (list entry) :=
  match count with
  | O => Ok []
  | S k =>
      bind (slice unc off (lenN unc)) (fun buf =>          (* uncompressed[offset:] *)
      bind (entry_deserialize buf) (fun ec =>
      bind (parse_entries k unc (off + snd ec)) (fun es => Ok (fst ec :: es))))
  end.

Definition entry_allocs (es : list entry) : list alloc :=
  flat_map (fun e => [ABuf (lenN (e_key e)); ABuf (lenN (e_data e))]) es.

(* ---- block.go: ParseBlock ----------------------------------------------------------------------- *)

Definition sn_to_res (r : sn_result) : res (list N) :=
  match r with
  | SnOk out => Ok out
  | SnCorrupt => Err ECorrupt
  | SnPanic => Panic
  | SnOutOfFuel => OutOfFuel
  end.

Definition parse_block (pol : policy) (h : bhdr) (comp : list N) : res (list entry) * list alloc :=
  if negb (crc32 comp =? bh_crc h) then (Err ECorrupt, [])
  else
    match sn_decoded_len comp with
    | None => (Err ECorrupt, [])                  (* DecodedLen / Decode: ErrCorrupt, nothing allocated *)
    | Some (dl, _) =>
        if p_sn_bound pol && (negb (dl =? bh_usize h) || (max_snappy_expansion * lenN comp <? dl))
        then (Err ECorrupt, [])
        else
          let log1 := [ABuf dl] in                (* snappy.Decode: make([]byte, dLen) *)
          match sn_to_res (snappy_decode comp) with
          | Ok unc =>
              if negb (lenN unc =? bh_usize h) then (Err ECorrupt, log1)
              else
                let log2 := log1 ++ [AEntries (bh_count h)] in
                match parse_entries (N.to_nat (bh_count h)) unc 0 with
                | Ok es => (Ok es, log2 ++ entry_allocs es)
                | Err e => (Err e, log2) | Panic => (Panic, log2) | OutOfFuel => (OutOfFuel, log2)
                end
          | Err e => (Err e, log1) | Panic => (Panic, log1) | OutOfFuel => (OutOfFuel, log1)
          end
    end.

(* ---- reader.go: readNextBlock --------------------------------------------------------------------
   [rest] is the file content from the current position. *)

Inductive step :=
| StEOF
| StErr (e : err)
| StPanic
| StFuel
| StBlock (es : list entry) (rest' : list N).

Definition tail_class (eof : bool) : step := if eof then StEOF else StErr EShort.

(* at least one byte is left *)
Definition next_block_ne (pol : policy) (rest : list N) : step * list alloc :=
  let log0 := [ABuf block_header_size] in
    if lenN rest <? block_header_size then (tail_class (p_partial_hdr_eof pol), log0)
    else
      match bind (slice rest 0 block_header_size) bhdr_deserialize with
      | Ok h =>
          let remaining := lenN rest - block_header_size in
          let short := remaining <? bh_csize h in
          let cls := tail_class (if remaining =? 0 then p_nopayload_eof pol else p_shortpayload_eof pol) in
          if p_bound_first pol && short then (cls, log0)
          else
            let log1 := log0 ++ [ABuf (bh_csize h)] in            (* make([]byte, CompressedSize) *)
            if short then (cls, log1)
            else
              match slice rest block_header_size (block_header_size + bh_csize h) with
              | Ok comp =>
                  let (r, plog) := parse_block pol h comp in
                  let log2 := log1 ++ plog in
                  match r with
                  | Ok es => (StBlock es (skipn (N.to_nat (block_header_size + bh_csize h)) rest), log2)
                  | Err e => (StErr e, log2) | Panic => (StPanic, log2) | OutOfFuel => (StFuel, log2)
                  end
              | _ => (StPanic, log1)
              end
      | Err e => (StErr e, log0)
      | Panic => (StPanic, log0)
      | OutOfFuel => (StFuel, log0)
      end.

Definition next_block (pol : policy) (rest : list N) : step * list alloc :=
  match rest with
  | [] => (StEOF, [ABuf block_header_size])                   (* Read: 0, io.EOF *)
  | _ => next_block_ne pol rest
  end.

(* ReadAllEntries: all entries of all blocks in file order (the callback of LoadIndex never stops) *)
Fixpoint read_blocks (pol : policy) (fuel : nat) (rest : list N) : res (list entry) * list alloc :=
  match fuel with
  | O => (OutOfFuel, [])
  | S f =>
      let (st, log) := next_block pol rest in
      match st with
      | StEOF => (Ok [], log)
      | StErr e => (Err e, log)
      | StPanic => (Panic, log)
      | StFuel => (OutOfFuel, log)
      | StBlock es rest' =>
          let (r, log') := read_blocks pol f rest' in
          (bind r (fun es' => Ok (es ++ es')), log ++ log')
      end
  end.

Definition blocks_fuel (rest : list N) : nat := length rest / 16 + 2.

(* ---- reader.go: LoadIndex ------------------------------------------------------------------------- *)

Definition index := list (list N * list N).      (* key -> data, keys unique *)

Definition idx_remove (k : list N) (m : index) : index :=
  filter (fun p => negb (bytes_eqb (fst p) k)) m.
Definition idx_set (k v : list N) (m : index) : index := (k, v) :: idx_remove k m.
Fixpoint idx_get (k : list N) (m : index) : option (list N) :=
  match m with
  | [] => None
  | (k', v) :: t => if bytes_eqb k' k then Some v else idx_get k t
  end.

Definition apply_entry (st : index * list N) (e : entry) : index * list N :=
  let (m, name) := st in
  if e_op e =? op_delete then (idx_remove (e_key e) m, name)
  else if (e_op e =? op_insert) || (e_op e =? op_update) then (idx_set (e_key e) (e_data e) m, name)
  else if e_op e =? op_metadata then
    match name, e_data e with
    | [], _ :: _ => if bytes_eqb (e_key e) metadata_entry_key then (m, e_data e) else (m, name)
    | _, _ => (m, name)
    end
  else (m, name).

Definition apply_entries (name0 : list N) (es : list entry) : index * list N :=
  fold_left apply_entry es ([], name0).

(* data copies made by the LoadIndex callback *)
Definition load_allocs (es : list entry) : list alloc :=
  flat_map (fun e => if (e_op e =? op_insert) || (e_op e =? op_update) then [ABuf (lenN (e_data e))] else []) es.

(* NewFileReader + LoadIndex with explicit fuel *)
Definition read_file_fuel (pol : policy) (fuel : nat) (b : list N) : res (index * list N) * list alloc :=
  let (o, log0) := new_file_reader b in
  match o with
  | Ok op =>
      (* Seek(DataStartOffset, SeekStart) *)
      let rest := skipN (data_start_offset (o_hdr op)) b in
      let (r, log1) := read_blocks pol fuel rest in
      match r with
      | Ok es => (Ok (apply_entries (o_name op) es), log0 ++ log1 ++ load_allocs es)
      | Err e => (Err e, log0 ++ log1) | Panic => (Panic, log0 ++ log1) | OutOfFuel => (OutOfFuel, log0 ++ log1)
      end
  | Err e => (Err e, log0) | Panic => (Panic, log0) | OutOfFuel => (OutOfFuel, log0)
  end.

Definition read_file_bytes (pol : policy) (b : list N) : res (index * list N) * list alloc :=
  read_file_fuel pol (blocks_fuel b) b.

(* ---- reader.go: CalculateFragmentation, ReadAllBlocks -------------------------------------------------
   both run the same block loop (readNextBlock) as LoadIndex. *)

(* all entries of the file, in order *)
Definition read_entries (pol : policy) (b : list N) : res (list entry) :=
  match fst (new_file_reader b) with
  | Ok op => fst (read_blocks pol (blocks_fuel b) (skipN (data_start_offset (o_hdr op)) b))
  | Err e => Err e | Panic => Panic | OutOfFuel => OutOfFuel
  end.

(* (live keys, total entries): liveKeys follows insert/update/delete exactly like the index *)
Definition calc_fragmentation (pol : policy) (b : list N) : res (N * N) :=
  bind (read_entries pol b) (fun es => Ok (lenN (fst (apply_entries [] es)), lenN es)).

Fixpoint count_blocks (pol : policy) (fuel : nat) (rest : list N) : N :=
  match fuel with
  | O => 0
  | S f => match fst (next_block pol rest) with
           | StBlock _ rest' => 1 + count_blocks pol f rest'
           | _ => 0
           end
  end.

(* (number of blocks, number of entries in them) *)
Definition read_all_blocks (pol : policy) (b : list N) : res (N * N) :=
  match fst (new_file_reader b) with
  | Ok op =>
      let rest := skipN (data_start_offset (o_hdr op)) b in
      bind (fst (read_blocks pol (blocks_fuel b) rest)) (fun es =>
      Ok (count_blocks pol (blocks_fuel b) rest, lenN es))
  | Err e => Err e | Panic => Panic | OutOfFuel => OutOfFuel
  end.

(* ---- reader.go: ReadSwampName ------------------------------------------------------------------------ *)

Definition read_swamp_name (pol : policy) (b : list N) : res (list N) :=
  match fst (new_file_reader b) with
  | Ok op =>
      if fh_version (o_hdr op) =? version3 then Ok (o_name op)
      else bind (fst (read_file_bytes pol b)) (fun r => Ok (snd r))
  | Err e => Err e | Panic => Panic | OutOfFuel => OutOfFuel
  end.

(* ---- reader.go: ScanBlockHeaders ------------------------------------------------------------------------ *)

Fixpoint scan_loop (fuel : nat) (rest : list N) (bc ec us : N) : res (N * N * N) :=
  match fuel with
  | O => OutOfFuel
  | S f =>
      if lenN rest <? block_header_size then Ok (bc, ec, us)         (* 0 bytes: EOF; 1..15: break *)
      else
        bind (bind (slice rest 0 block_header_size) bhdr_deserialize) (fun h =>
        (* Seek(CompressedSize, SeekCurrent): may go past the end, the next Read then returns EOF *)
        scan_loop f (skipN (block_header_size + bh_csize h) rest)
                  (bc + 1) (ec + bh_count h) (us + bh_usize h))
  end.

Definition scan_block_headers (b : list N) : res (N * N * N) :=
  match fst (new_file_reader b) with
  | Ok op =>
      let rest := skipN (data_start_offset (o_hdr op)) b in
      scan_loop (blocks_fuel rest) rest 0 0 0
  | Err e => Err e | Panic => Panic | OutOfFuel => OutOfFuel
  end.

(* ---- the allocation bound of the property ------------------------------------------------------------------
   a request is in proportion to a file of [n] bytes: a fixed-width field's range (uint16), or
   at most the Snappy expansion factor times the file length *)
Definition alloc_ok (n : N) (a : alloc) : bool :=
  match a with
  | ABuf k => (k <=? 65535) || (k <=? max_snappy_expansion * n)
  | AEntries k => k <=? 65535
  end.

(* bytes a request stands for (Entry is 48 bytes on 64-bit) *)
Definition alloc_bytes (a : alloc) : N :=
  match a with ABuf k => k | AEntries k => 48 * k end.
Definition alloc_total (l : list alloc) : N := fold_left (fun s a => s + alloc_bytes a) l 0.

(* ---- correspondence cases (harness/cmd/c04) ------------------------------------------------------------------- *)

Inductive obs_load := LOk (idx : index) (name : list N) | LErr (e : err) | LPanic | LTimeout.
Inductive obs_scan := SOk (bc ec us : N) | SErr (e : err) | SPanic | STimeout.
Inductive obs_name := NOk (name : list N) | NErr (e : err) | NPanic | NTimeout.
Inductive obs_sn := GOk (out : list N) | GErr.
Inductive obs_cnt := COk (a b : N) | CErr (e : err) | CPanic | CTimeout.

Record case := MkCase {
  c_eofs : bool * bool * bool;   (* observed tail classification: partial header, no payload, short payload *)
  c_file : list N;
  c_crc : N;                     (* crc32.ChecksumIEEE(file) *)
  c_sn_in : list N;              (* an independent input for snappy.Decode *)
  c_sn_out : obs_sn;
  c_load : obs_load;             (* NewFileReader + LoadIndex *)
  c_scan : obs_scan;             (* NewFileReader + ScanBlockHeaders *)
  c_name : obs_name;             (* ReadSwampName *)
  c_frag : obs_cnt;              (* NewFileReader + CalculateFragmentation: live keys, total entries *)
  c_blocks : obs_cnt;            (* NewFileReader + ReadAllBlocks: blocks, entries *)
  c_alloc_all : N;               (* largest runtime TotalAlloc delta of one of the five entry points *)
  c_alloc_load : N               (* ... over NewFileReader + LoadIndex only *)
}.

Definition cur_policy (e : bool * bool * bool) : policy :=
  let '(a, b, c) := e in
  {| p_partial_hdr_eof := a; p_nopayload_eof := b; p_shortpayload_eof := c;
     p_bound_first := true; p_sn_bound := true |}.

Fixpoint idx_keys_nodup (m : index) : bool :=
  match m with
  | [] => true
  | (k, _) :: t => match idx_get k t with None => idx_keys_nodup t | Some _ => false end
  end.

Definition idx_eqb (a b : index) : bool :=
  Nat.eqb (length a) (length b) && idx_keys_nodup a && idx_keys_nodup b &&
  forallb (fun p => option_eqb bytes_eqb (idx_get (fst p) b) (Some (snd p))) a.

(* what "in proportion to the file" means for the measured allocation of ONE entry point: one
   entry table of at most 65535 entries (48 bytes each, < 4 MiB) for the block that fails or is
   being parsed, everything else linear in the file *)
Definition impl_alloc_bound (n : N) : N := 4194304 + 64 * n.
(* tie between the model's request log and the runtime's accounting for NewFileReader+LoadIndex
   (slack for the map, growing slices, os.File, error values) *)
Definition impl_alloc_tie (model_total : N) : N := 16384 + 4 * model_total.

Definition check_case (c : case) : N :=
  let pol := cur_policy (c_eofs c) in
  let (mload, mlog) := read_file_bytes pol (c_file c) in
  let panicked := match c_load c, c_scan c, c_name c with
                  | LPanic, _, _ | _, SPanic, _ | _, _, NPanic => true | _, _, _ => false end
                  || match c_frag c, c_blocks c with CPanic, _ | _, CPanic => true | _, _ => false end in
  let hung := match c_load c, c_scan c, c_name c with
              | LTimeout, _, _ | _, STimeout, _ | _, _, NTimeout => true | _, _, _ => false end
              || match c_frag c, c_blocks c with CTimeout, _ | _, CTimeout => true | _, _ => false end in
  if panicked then 2
  else if hung then 3
  else if impl_alloc_bound (lenN (c_file c)) <? c_alloc_all c then 4
  else
    (* oracle: records are only returned from a file all of whose blocks check out *)
    let misread :=
      match c_load c, mload with
      | LOk _ _, Err _ => 5
      | LOk idx _, Ok (midx, _) => if idx_eqb idx midx then 0 else 6
      | _, _ => 0
      end in
    if negb (misread =? 0) then misread
    else if negb (crc32 (c_file c) =? c_crc c) then 11
    else if negb (match snappy_decode (c_sn_in c), c_sn_out c with
                  | SnOk a, GOk b => bytes_eqb a b
                  | SnCorrupt, GErr => true
                  | _, _ => false end) then 12
    else if negb (match mload, c_load c with
                  | Ok (_, mn), LOk _ n => bytes_eqb mn n
                  | Err e, LErr e' => err_eqb e e'
                  | _, _ => false end) then 1
    else if negb (match scan_block_headers (c_file c), c_scan c with
                  | Ok (a, b, d), SOk a' b' d' => (a =? a') && (b =? b') && (d =? d')
                  | Err e, SErr e' => err_eqb e e'
                  | _, _ => false end) then 13
    else if negb (match read_swamp_name pol (c_file c), c_name c with
                  | Ok n, NOk n' => bytes_eqb n n'
                  | Err e, NErr e' => err_eqb e e'
                  | _, _ => false end) then 14
    else if negb (match calc_fragmentation pol (c_file c), c_frag c with
                  | Ok (a, b), COk a' b' => (a =? a') && (b =? b')
                  | Err e, CErr e' => err_eqb e e'
                  | _, _ => false end) then 16
    else if negb (match read_all_blocks pol (c_file c), c_blocks c with
                  | Ok (a, b), COk a' b' => (a =? a') && (b =? b')
                  | Err e, CErr e' => err_eqb e e'
                  | _, _ => false end) then 17
    (* every entry point runs the same block loop with at most the allocations of LoadIndex *)
    else if impl_alloc_tie (alloc_total mlog) <? N.max (c_alloc_load c) (c_alloc_all c) then 15
    else 0.

Definition check_all (cases : list case) : list verdict := check_cases check_case cases.
