(* Storage/C02Fs.v — structured image of one .hyd file, the file operations the V2 writer
   issues, the durable / volatile views, and the two recovery functions (reader.go).

   Model only (no proofs).  Payloads are abstract (M4): a block is its list of entries plus
   the byte length of its compressed payload; an entry is (key, Some value-id) for
   insert/update and (key, None) for delete.  A file is a list of *segments* in file order,
   each with the number of its bytes that are present:

       SHdr n   the 64-byte file header announcing a swamp name of n bytes
       SName n  the n name bytes (V3)
       SBh b    the 16-byte block header of block b
       SPl b    the compressed payload of b  (b_plen b bytes)

   A segment with fewer bytes than its length is torn.  The in-place rewrite of the file
   header only changes the two counters, which neither recovery nor the (repaired) writer's
   positioning reads, so it does not change the structured image ([OHdr] is the identity;
   the harness materialises old/new/torn header variants to validate exactly that). *)
From HV Require Import Base.Prelude.
Local Open Scope N_scope.

Definition key := N.
Definition vid := N.
Definition entry := (key * option vid)%type.

Record block := mkblock { b_entries : list entry; b_plen : N }.

Definition FH : N := 64.   (* v2.FileHeaderSize  *)
Definition BH : N := 16.   (* v2.BlockHeaderSize *)

Inductive seg :=
| SHdr (nlen : N)
| SName (nlen : N)
| SBh (b : block)
| SPl (b : block).

Definition seg_len (s : seg) : N :=
  match s with
  | SHdr _ => FH
  | SName n => n
  | SBh _ => BH
  | SPl b => b_plen b
  end.

(* (segment, bytes of it that are present) *)
Definition content := list (seg * N).

Fixpoint clen (c : content) : N :=
  match c with
  | [] => 0
  | (_, h) :: t => h + clen t
  end.

(* the first k bytes of a file *)
Fixpoint cut (k : N) (c : content) : content :=
  match c with
  | [] => []
  | (s, h) :: t =>
      if k =? 0 then []
      else if h <=? k then (s, h) :: cut (k - h) t
      else [(s, k)]
  end.

(* rendering of complete blocks *)
Definition bseg (b : block) : content := [(SBh b, BH); (SPl b, b_plen b)].
Definition bc (bs : list block) : content := flat_map bseg bs.

(* header + name area of a file whose swamp name has nlen bytes *)
Definition pre (nlen : N) : content :=
  (SHdr nlen, FH) :: (if nlen =? 0 then [] else [(SName nlen, nlen)]).

(* ---------------------------------------------------------------- reader.go *)

(* readNextBlock / ReadAllEntries over the block area.
   [tolerant = false] is the reader before the repair: a payload of which 1..n-1 bytes are
   present is a hard error; [tolerant = true] treats it as the end of the log.
   In both: a short block header, and a complete header with no payload byte at all, are a
   clean EOF.  Anything torn that is *followed* by more bytes is garbage (the CRC / decoder
   rejects it): error. *)
Fixpoint parse_blocks (tolerant : bool) (c : content) : option (list block) :=
  match c with
  | [] => Some []
  | (SBh b, h) :: t =>
      if h <? BH then (match t with [] => Some [] | _ => None end)
      else
        match t with
        | [] => Some []
        | (SPl _, h') :: t' =>
            if h' =? b_plen b then
              match parse_blocks tolerant t' with
              | Some bs => Some (b :: bs)
              | None => None
              end
            else (match t' with
                  | [] => if tolerant then Some [] else None
                  | _ => None
                  end)
        | _ => None
        end
  | _ => None
  end.

(* NewFileReader + LoadIndex on a file image; None = the reader reports an error. *)
Definition read_file (tolerant : bool) (c : content) : option (list block) :=
  match c with
  | (SHdr n, h) :: rest =>
      if h <? FH then None
      else if n =? 0 then parse_blocks tolerant rest
      else match rest with
           | (SName _, hn) :: rest' => if hn <? n then None else parse_blocks tolerant rest'
           | _ => None
           end
  | _ => None
  end.

(* chronicler Load: no file -> empty swamp; reader error -> logged, swamp stays empty. *)
Definition recover (tolerant : bool) (img : option content) : option (list block) :=
  match img with
  | None => Some []
  | Some c => read_file tolerant c
  end.

Definition loaded_blocks (tolerant : bool) (img : option content) : list block :=
  match recover tolerant img with
  | Some bs => bs
  | None => []
  end.

(* ---------------------------------------------------------------- LoadIndex fold *)

Fixpoint st_remove (k : key) (st : list (key * vid)) : list (key * vid) :=
  match st with
  | [] => []
  | (k', v) :: t => if k' =? k then st_remove k t else (k', v) :: st_remove k t
  end.

(* sorted insertion keeps the association list canonical (ascending keys, no duplicates) *)
Fixpoint st_insert (k : key) (v : vid) (st : list (key * vid)) : list (key * vid) :=
  match st with
  | [] => [(k, v)]
  | (k', v') :: t =>
      if k <? k' then (k, v) :: (k', v') :: t
      else if k =? k' then (k, v) :: t
      else (k', v') :: st_insert k v t
  end.

Definition st_apply (st : list (key * vid)) (e : entry) : list (key * vid) :=
  match snd e with
  | Some v => st_insert (fst e) v st
  | None => st_remove (fst e) st
  end.

Definition state_of_entries (st : list (key * vid)) (es : list entry) : list (key * vid) :=
  fold_left st_apply es st.

Definition elog_of (bs : list block) : list entry := flat_map b_entries bs.

Definition state_of (bs : list block) : list (key * vid) := state_of_entries [] (elog_of bs).

(* ---------------------------------------------------------------- writer's scan on open *)

(* writer.go:lastCompleteBlockEnd – byte length of the longest run of complete blocks *)
Fixpoint good_blocks_len (c : content) : N :=
  match c with
  | (SBh b, h) :: (SPl _, h') :: t =>
      if (h =? BH) && (h' =? b_plen b) then BH + h' + good_blocks_len t else 0
  | _ => 0
  end.

(* number of bytes of the header+name area present / required *)
Definition pre_len (nlen : N) : N := clen (pre nlen).

(* [good_len nlen c]: end of the last complete block of a file whose header+name area is
   complete; 0 when that area itself is incomplete (the file then holds no block). *)
Definition good_len (nlen : N) (c : content) : N :=
  if clen c <? pre_len nlen then 0
  else pre_len nlen + good_blocks_len (skipn (length (pre nlen)) c).

(* ---------------------------------------------------------------- file operations (M7) *)

Inductive fsop :=
| OCreate                 (* open(O_CREAT|O_TRUNC) *)
| OApp (s : seg) (n : N)  (* an appending write that put n bytes of segment s into the file
                             (n = seg_len s unless a fault cut it short; n = 0: nothing) *)
| OHdr                    (* in-place rewrite of the 64-byte file header (counters) *)
| OTrunc (n : N)          (* ftruncate to n bytes *)
| OFsync
| OClose.

(* durable view (what a power loss certainly keeps) and volatile view (what the process sees) *)
Record fs := mkfs { dur : option content; vol : option content }.

Definition fs_step (f : fs) (o : fsop) : fs :=
  match o with
  | OCreate => mkfs (dur f) (Some [])
  | OApp s n =>
      if n =? 0 then f
      else mkfs (dur f) (match vol f with Some c => Some (c ++ [(s, n)]) | None => None end)
  | OHdr => f
  | OTrunc n => mkfs (dur f) (match vol f with Some c => Some (cut n c) | None => None end)
  | OFsync => mkfs (vol f) (vol f)
  | OClose => f
  end.

Definition fs_run (f : fs) (ops : list fsop) : fs := fold_left fs_step ops f.

Definition fs_empty : fs := mkfs None None.

(* the file system right after a crash that left [img] on disk *)
Definition fs_crashed (img : option content) : fs := mkfs img img.
