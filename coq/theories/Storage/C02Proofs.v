(* Storage/C02Proofs.v — lemmas and theorems about C02Fs / C02Writer / C02Crash. *)
From HV Require Import Base.Prelude Storage.C02Fs Storage.C02Writer Storage.C02Crash.
From Coq Require Import ZifyN ZifyNat ZifyBool Lia.
Local Open Scope N_scope.

Arguments N.eqb : simpl never.
Arguments N.leb : simpl never.
Arguments N.ltb : simpl never.
Arguments N.sub : simpl never.
Arguments N.add : simpl never.

Ltac flia := unfold FH, BH in *; lia.

Definition cpos (c : content) : Prop := Forall (fun p => 1 <= snd p) c.
Definition blocks_ok (bs : list block) : Prop := Forall (fun b => 1 <= b_plen b) bs.
Definition prefix {A} (l1 l2 : list A) : Prop := exists x, l2 = l1 ++ x.

Lemma prefix_refl {A} (l : list A) : prefix l l.
Proof. exists []. now rewrite app_nil_r. Qed.

Lemma prefix_trans {A} (a b c : list A) : prefix a b -> prefix b c -> prefix a c.
Proof. intros [x ->] [y ->]. exists (x ++ y). now rewrite app_assoc. Qed.

Lemma prefix_nil {A} (l : list A) : prefix [] l.
Proof. now exists l. Qed.

Lemma prefix_app {A} (a x : list A) : prefix a (a ++ x).
Proof. now exists x. Qed.

Lemma firstn_prefix {A} (l : list A) n m : (n <= m)%nat -> prefix (firstn n l) (firstn m l).
Proof.
  revert n m; induction l as [|a l IH]; intros n m Hnm.
  - rewrite !firstn_nil. apply prefix_refl.
  - destruct n as [|n]; [apply prefix_nil|]. destruct m as [|m]; [lia|].
    simpl. destruct (IH n m ltac:(lia)) as [x Hx]. exists x. simpl. now rewrite Hx.
Qed.

Lemma firstn_is_prefix {A} (l : list A) n : prefix (firstn n l) l.
Proof. exists (skipn n l). now rewrite firstn_skipn. Qed.

(* ---------------------------------------------------------------- clen / cut *)

Lemma clen_app a b : clen (a ++ b) = clen a + clen b.
Proof. induction a as [|[s h] a IH]; simpl; [lia|]. rewrite IH. lia. Qed.

Lemma cut_0 c : cut 0 c = [].
Proof. destruct c as [|[s h] t]; reflexivity. Qed.

Lemma cut_nil k : cut k [] = [].
Proof. reflexivity. Qed.

Lemma cut_cons k s h t :
  cut k ((s, h) :: t) =
  if k =? 0 then [] else if h <=? k then (s, h) :: cut (k - h) t else [(s, k)].
Proof. reflexivity. Qed.

Lemma cut_all c k : cpos c -> clen c <= k -> cut k c = c.
Proof.
  revert k; induction c as [|[s h] t IH]; intros k Hp Hk; [reflexivity|].
  inversion Hp as [|? ? Hh Ht]; subst. simpl in Hh, Hk. rewrite cut_cons.
  destruct (N.eqb_spec k 0); [lia|]. destruct (N.leb_spec h k); [|lia].
  f_equal. apply IH; [assumption|lia].
Qed.

Lemma cut_app_le a b k : k <= clen a -> cut k (a ++ b) = cut k a.
Proof.
  revert k; induction a as [|[s h] a IH]; intros k Hk; simpl in Hk.
  - assert (k = 0) by lia. subst. now rewrite !cut_0.
  - simpl app. rewrite !cut_cons. destruct (N.eqb_spec k 0); [reflexivity|].
    destruct (N.leb_spec h k); [|reflexivity]. f_equal. apply IH. lia.
Qed.

Lemma cut_app_ge a b k : cpos a -> clen a <= k -> cut k (a ++ b) = a ++ cut (k - clen a) b.
Proof.
  revert k; induction a as [|[s h] a IH]; intros k Hp Hk.
  - simpl. f_equal. lia.
  - inversion Hp as [|? ? Hh Ht]; subst. simpl in Hh, Hk. simpl app. rewrite cut_cons.
    destruct (N.eqb_spec k 0); [lia|]. destruct (N.leb_spec h k); [|lia].
    f_equal. rewrite IH by (assumption || lia). f_equal. f_equal. simpl. lia.
Qed.

Lemma clen_cut_le k c : clen (cut k c) <= k.
Proof.
  revert k; induction c as [|[s h] t IH]; intros k; [simpl; lia|].
  rewrite cut_cons. destruct (N.eqb_spec k 0); [simpl; lia|].
  destruct (N.leb_spec h k); simpl; [|lia]. specialize (IH (k - h)). lia.
Qed.

Lemma cut_cut k m c : cut k (cut m c) = cut (N.min k m) c.
Proof.
  revert k m; induction c as [|[s h] t IH]; intros k m; [reflexivity|].
  rewrite (cut_cons m). destruct (N.eqb_spec m 0) as [->|Hm].
  - rewrite cut_nil. replace (N.min k 0) with 0 by lia. now rewrite cut_0.
  - destruct (N.leb_spec h m) as [Hhm|Hhm].
    + rewrite !cut_cons. destruct (N.eqb_spec k 0) as [->|Hk].
      * replace (N.min 0 m) with 0 by lia. reflexivity.
      * destruct (N.eqb_spec (N.min k m) 0); [lia|].
        destruct (N.leb_spec h k) as [Hhk|Hhk].
        -- destruct (N.leb_spec h (N.min k m)); [|lia]. f_equal. rewrite IH. f_equal. lia.
        -- destruct (N.leb_spec h (N.min k m)); [lia|]. f_equal. f_equal. lia.
    + rewrite !cut_cons, cut_nil. destruct (N.eqb_spec k 0) as [->|Hk].
      * replace (N.min 0 m) with 0 by lia. reflexivity.
      * destruct (N.eqb_spec (N.min k m) 0); [lia|].
        destruct (N.leb_spec m k) as [Hmk|Hmk].
        -- destruct (N.leb_spec h (N.min k m)); [lia|]. f_equal. f_equal. lia.
        -- destruct (N.leb_spec h (N.min k m)); [lia|]. f_equal. f_equal. lia.
Qed.

(* ---------------------------------------------------------------- blocks, torn tails *)

Lemma bc_app a b : bc (a ++ b) = bc a ++ bc b.
Proof. unfold bc. now rewrite flat_map_app. Qed.

Lemma bc_cons b bs : bc (b :: bs) = (SBh b, BH) :: (SPl b, b_plen b) :: bc bs.
Proof. reflexivity. Qed.

Lemma clen_bc_cons b bs : clen (bc (b :: bs)) = BH + b_plen b + clen (bc bs).
Proof. rewrite bc_cons. simpl. lia. Qed.

Lemma cpos_bc bs : blocks_ok bs -> cpos (bc bs).
Proof.
  induction 1 as [|b bs Hb _ IH]; [constructor|].
  rewrite bc_cons. constructor; [simpl; unfold BH; lia|]. constructor; [simpl; lia|exact IH].
Qed.

Lemma blocks_ok_app a b : blocks_ok a -> blocks_ok b -> blocks_ok (a ++ b).
Proof. intros. apply Forall_app. now split. Qed.

Lemma blocks_ok_prefix a b : prefix a b -> blocks_ok b -> blocks_ok a.
Proof. intros [x ->] H. apply Forall_app in H. tauto. Qed.

Inductive torn : content -> Prop :=
| torn_nil : torn []
| torn_bh : forall b h, 1 <= h <= BH -> torn [(SBh b, h)]
| torn_pl : forall b b' h, 1 <= h < b_plen b -> torn [(SBh b, BH); (SPl b', h)].

Lemma torn_cut t k : torn t -> torn (cut k t).
Proof.
  intros Ht; inversion Ht as [|b h Hh|b b' h Hh]; subst.
  - constructor.
  - rewrite cut_cons. destruct (N.eqb_spec k 0); [constructor|].
    destruct (N.leb_spec h k); [rewrite cut_nil; now constructor|]. constructor. lia.
  - rewrite cut_cons. destruct (N.eqb_spec k 0); [constructor|].
    destruct (N.leb_spec BH k) as [H1|H1].
    + rewrite cut_cons. destruct (N.eqb_spec (k - BH) 0).
      * constructor. unfold BH. lia.
      * destruct (N.leb_spec h (k - BH)); [rewrite cut_nil; now constructor|].
        constructor. lia.
    + constructor. lia.
Qed.

Lemma parse_torn t : torn t -> parse_blocks true t = Some [].
Proof.
  intros Ht; inversion Ht as [|b h Hh|b b' h Hh]; subst; simpl.
  - reflexivity.
  - destruct (N.ltb_spec h BH); reflexivity.
  - destruct (N.ltb_spec BH BH); [lia|]. destruct (N.eqb_spec h (b_plen b)); [lia|]. reflexivity.
Qed.

Lemma parse_bc_torn bs t : torn t -> parse_blocks true (bc bs ++ t) = Some bs.
Proof.
  intros Ht. induction bs as [|b bs IH]; [simpl; now apply parse_torn|].
  rewrite bc_cons. simpl app.
  change (parse_blocks true ((SBh b, BH) :: (SPl b, b_plen b) :: (bc bs ++ t)))
    with (if BH <? BH then (match (SPl b, b_plen b) :: (bc bs ++ t) with [] => Some [] | _ => None end)
          else if b_plen b =? b_plen b then
                 match parse_blocks true (bc bs ++ t) with Some bs0 => Some (b :: bs0) | None => None end
               else (match bc bs ++ t with [] => Some [] | _ => None end)).
  destruct (N.ltb_spec BH BH); [lia|]. rewrite N.eqb_refl, IH. reflexivity.
Qed.

Lemma good_blocks_len_torn t : torn t -> good_blocks_len t = 0.
Proof.
  intros Ht; inversion Ht as [|b h Hh|b b' h Hh]; subst; simpl; try reflexivity.
  destruct (N.eqb_spec BH BH); [|lia]. destruct (N.eqb_spec h (b_plen b)); [lia|]. reflexivity.
Qed.

Lemma good_blocks_len_bc bs t : torn t -> good_blocks_len (bc bs ++ t) = clen (bc bs).
Proof.
  intros Ht. induction bs as [|b bs IH]; [simpl; now apply good_blocks_len_torn|].
  rewrite clen_bc_cons, bc_cons. simpl app.
  change (good_blocks_len ((SBh b, BH) :: (SPl b, b_plen b) :: (bc bs ++ t)))
    with (if (BH =? BH) && (b_plen b =? b_plen b) then BH + b_plen b + good_blocks_len (bc bs ++ t) else 0).
  rewrite !N.eqb_refl. simpl andb. cbv iota. rewrite IH. reflexivity.
Qed.

(* cutting a run of complete blocks followed by a torn tail gives a shorter such run *)
Lemma cut_bc bs t k :
  blocks_ok bs -> torn t ->
  exists j t', torn t' /\ cut k (bc bs ++ t) = bc (firstn j bs) ++ t' /\
               (forall n, (n <= length bs)%nat -> clen (bc (firstn n bs)) <= k -> (n <= j)%nat).
Proof.
  intros Hok Ht. revert k. induction Hok as [|b bs Hb Hok IH]; intros k.
  - exists 0%nat, (cut k t). simpl. split; [now apply torn_cut|]. split; [reflexivity|]. intros; lia.
  - rewrite bc_cons. simpl app.
    assert (Hbig : forall n, (n <= length (b :: bs))%nat -> k < BH + b_plen b ->
                             clen (bc (firstn n (b :: bs))) <= k -> (n <= 0)%nat).
    { intros n _ Hk Hc. destruct n as [|n]; [lia|]. simpl firstn in Hc. rewrite clen_bc_cons in Hc. lia. }
    rewrite cut_cons. destruct (N.eqb_spec k 0) as [->|Hk0].
    { exists 0%nat, []. split; [constructor|]. split; [reflexivity|]. intros n Hn Hc. apply Hbig; auto. unfold BH; lia. }
    destruct (N.leb_spec BH k) as [H16|H16].
    2:{ exists 0%nat, [(SBh b, k)]. split; [constructor; lia|]. split; [reflexivity|].
        intros n Hn Hc. apply Hbig; auto. lia. }
    rewrite cut_cons. destruct (N.eqb_spec (k - BH) 0) as [Hz|Hz].
    { exists 0%nat, [(SBh b, BH)]. split; [constructor; unfold BH; lia|]. split; [reflexivity|].
      intros n Hn Hc. apply Hbig; auto. lia. }
    destruct (N.leb_spec (b_plen b) (k - BH)) as [Hp|Hp].
    2:{ exists 0%nat, [(SBh b, BH); (SPl b, k - BH)]. split; [constructor; lia|]. split; [reflexivity|].
        intros n Hn Hc. apply Hbig; auto. lia. }
    destruct (IH (k - BH - b_plen b)) as (j & t' & Ht' & Hcut & Hmax).
    exists (S j), t'. split; [exact Ht'|]. split.
    + simpl firstn. rewrite bc_cons. simpl app. now rewrite Hcut.
    + intros n Hn Hc. destruct n as [|n]; [lia|]. simpl firstn in Hc. rewrite clen_bc_cons in Hc.
      simpl in Hn. assert (n <= j)%nat; [|lia]. apply Hmax; lia.
Qed.

(* ---------------------------------------------------------------- header + name area *)

Section WithName.
Variable nlen : N.

Lemma pre_cases :
  (nlen = 0 /\ pre nlen = [(SHdr nlen, FH)]) \/
  (1 <= nlen /\ pre nlen = [(SHdr nlen, FH); (SName nlen, nlen)]).
Proof. unfold pre. destruct (N.eqb_spec nlen 0); [left|right]; split; auto; lia. Qed.

Lemma cpos_pre : cpos (pre nlen).
Proof.
  destruct pre_cases as [[_ ->]|[H ->]]; repeat constructor; simpl; unfold FH; lia.
Qed.

Lemma pre_len_ge : FH <= pre_len nlen.
Proof. unfold pre_len. destruct pre_cases as [[_ ->]|[H ->]]; simpl; lia. Qed.

Lemma read_pre rest : read_file true (pre nlen ++ rest) = parse_blocks true rest.
Proof.
  destruct pre_cases as [[Hn ->]|[Hn ->]]; simpl.
  - destruct (N.ltb_spec FH FH); [lia|]. destruct (N.eqb_spec nlen 0); [reflexivity|lia].
  - destruct (N.ltb_spec FH FH); [lia|]. destruct (N.eqb_spec nlen 0); [lia|].
    destruct (N.ltb_spec nlen nlen); [lia|reflexivity].
Qed.

Lemma read_short tol m : m < pre_len nlen -> read_file tol (cut m (pre nlen)) = None.
Proof.
  intros Hm. unfold pre_len in Hm.
  destruct pre_cases as [[Hn E]|[Hn E]]; rewrite E in *; simpl in Hm; rewrite cut_cons.
  - destruct (N.eqb_spec m 0); [reflexivity|]. destruct (N.leb_spec FH m); [flia|].
    simpl. destruct (N.ltb_spec m FH); [reflexivity|flia].
  - destruct (N.eqb_spec m 0); [reflexivity|]. destruct (N.leb_spec FH m) as [H1|H1].
    + rewrite cut_cons. destruct (N.eqb_spec (m - FH) 0).
      * simpl. destruct (N.ltb_spec FH FH); [flia|]. destruct (N.eqb_spec nlen 0); [flia|reflexivity].
      * destruct (N.leb_spec nlen (m - FH)); [flia|].
        simpl. destruct (N.ltb_spec FH FH); [flia|]. destruct (N.eqb_spec nlen 0); [flia|].
        destruct (N.ltb_spec (m - FH) nlen); [reflexivity|flia].
    + simpl. destruct (N.ltb_spec m FH); [reflexivity|flia].
Qed.

Opaque pre.

(* the shapes a file image can have: absent, an incomplete header/name area, or a complete
   one followed by complete blocks [bs] and a torn tail *)
Inductive shaped (bs : list block) : option content -> Prop :=
| sh_none : bs = [] -> shaped bs None
| sh_short : forall m, bs = [] -> m < pre_len nlen -> shaped bs (Some (cut m (pre nlen)))
| sh_full : forall t, torn t -> shaped bs (Some (pre nlen ++ bc bs ++ t)).

Lemma loaded_shaped bs img : shaped bs img -> loaded_blocks true img = bs.
Proof.
  intros H; inversion H as [E|m E Hm|t Ht]; subst; unfold loaded_blocks, recover.
  - reflexivity.
  - now rewrite read_short.
  - now rewrite read_pre, parse_bc_torn.
Qed.

Lemma recover_shaped bs img : shaped bs img ->
  recover true img = Some bs \/ (recover true img = None /\ bs = []).
Proof.
  intros H; inversion H as [E|m E Hm|t Ht]; subst; unfold recover.
  - now left.
  - right. now rewrite read_short.
  - left. now rewrite read_pre, parse_bc_torn.
Qed.

Lemma skipn_pre x : skipn (length (pre nlen)) (pre nlen ++ x) = x.
Proof. rewrite skipn_app, skipn_all, Nat.sub_diag. reflexivity. Qed.

Lemma good_len_full bs t : torn t -> good_len nlen (pre nlen ++ bc bs ++ t) = clen (pre nlen ++ bc bs).
Proof.
  intros Ht. unfold good_len. rewrite !clen_app.
  destruct (N.ltb_spec (clen (pre nlen) + (clen (bc bs) + clen t)) (pre_len nlen)) as [H|H].
  - unfold pre_len in H. lia.
  - rewrite skipn_pre, good_blocks_len_bc by assumption. reflexivity.
Qed.

Lemma good_len_short m : m < pre_len nlen -> good_len nlen (cut m (pre nlen)) = 0.
Proof.
  intros Hm. unfold good_len. pose proof (clen_cut_le m (pre nlen)).
  destruct (N.ltb_spec (clen (cut m (pre nlen))) (pre_len nlen)); [reflexivity|lia].
Qed.

Lemma good_len_opt_shaped ds d : shaped ds d ->
  (ds = [] /\ good_len_opt nlen d = 0) \/
  (good_len_opt nlen d = pre_len nlen + clen (bc ds)).
Proof.
  intros H; inversion H as [E|m E Hm|t Ht]; subst; cbn [good_len_opt].
  - now left.
  - left. split; [reflexivity|now apply good_len_short].
  - right. rewrite good_len_full, clen_app by assumption. reflexivity.
Qed.

(* ---------------------------------------------------------------- the invariant *)

Definition Inv (f : fs) (ds bs : list block) : Prop :=
  shaped ds (dur f) /\ shaped bs (vol f) /\ prefix ds bs /\ blocks_ok bs.

Lemma inv_blocks f ds bs : Inv f ds bs ->
  loaded_blocks true (dur f) = ds /\ loaded_blocks true (vol f) = bs.
Proof. intros (Hd & Hv & _ & _). split; now apply loaded_shaped. Qed.

Lemma inv_crashed img cs : shaped cs img -> blocks_ok cs -> Inv (fs_crashed img) cs cs.
Proof. intros H Hok. repeat split; simpl; auto using prefix_refl. Qed.

(* Every crash image of a state satisfying the invariant is a well-shaped file whose
   complete blocks lie between the durable and the volatile block list. *)
Lemma crash_image_shaped f ds bs img :
  Inv f ds bs -> crash_image nlen f img ->
  exists cs, shaped cs img /\ prefix ds cs /\ prefix cs bs.
Proof.
  intros (Hd & Hv & Hpre & Hok) [->|(k & c & Hk & Hvol & ->)].
  - exists ds. auto using prefix_refl.
  - rewrite Hvol in Hv. inversion Hv as [|m E Hm|t Ht]; subst.
    + (* volatile file has an incomplete header area: no block anywhere *)
      destruct Hpre as [x Hx]. symmetry in Hx. apply app_eq_nil in Hx as [-> _].
      exists []. split; [|split; apply prefix_refl].
      rewrite cut_cut. apply sh_short; [reflexivity|lia].
    + destruct (N.lt_ge_cases k (pre_len nlen)) as [Hlt|Hge].
      * (* the cut falls into the header area: then nothing was durable *)
        assert (ds = []) as ->.
        { destruct (good_len_opt_shaped _ _ Hd) as [[E _]|E]; [exact E|]. lia. }
        exists []. split; [|split; [apply prefix_refl|apply prefix_nil]].
        rewrite cut_app_le by (unfold pre_len in Hlt; lia). now apply sh_short.
      * rewrite cut_app_ge by (apply cpos_pre || (unfold pre_len in Hge; lia)).
        destruct (cut_bc bs t (k - clen (pre nlen)) Hok Ht) as (j & t' & Ht' & Hcut & Hmax).
        rewrite Hcut. exists (firstn j bs). split; [now apply sh_full|]. split.
        2:{ apply firstn_is_prefix. }
        destruct Hpre as [x Hx]. subst bs.
        assert (Hds : firstn (length ds) (ds ++ x) = ds).
        { rewrite firstn_app, Nat.sub_diag, firstn_all. simpl. now rewrite app_nil_r. }
        rewrite <- Hds at 1. apply firstn_prefix. apply Hmax.
        -- rewrite app_length. lia.
        -- rewrite Hds. destruct (good_len_opt_shaped _ _ Hd) as [[E _]|E].
           ++ subst ds. simpl. lia.
           ++ unfold pre_len in *. lia.
Qed.

End WithName.
