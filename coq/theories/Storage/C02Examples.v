(* Storage/C02Examples.v — concrete instances: the hypotheses of the C02/C25 theorems are
   satisfiable by non-trivial states, and the writer/reader BEFORE the repairs (strict reader,
   no truncation on open, no truncation after a failed block write) violate the properties
   (witnesses by computation; the same inputs are replayed on the real code by the harness). *)
From HV Require Import Base.Prelude Storage.C02Fs Storage.C02Writer Storage.C02Crash
  Storage.C02Proofs Storage.C02WriterProofs Storage.C25Fault.
Local Open Scope N_scope.

Definition ex_b1 : block := mkblock [(1, Some 10)] 5.
Definition ex_b2 : block := mkblock [(2, Some 20)] 7.

(* open, write k1 (flushes a 5-byte block), sync, write k2 (flushes a 7-byte block) *)
Definition ex_h : list api :=
  [AOpen; AWrite (1, Some 10) (Some (5, FFok)); ASync 1 FFok true; AWrite (2, Some 20) (Some (7, FFok))].

(* crash while the payload of the second block is being written: 3 of its 7 bytes made it *)
Definition ex_p : list fsop := firstn 10 (oplog 0 fs_empty w_closed ex_h).
Definition ex_img : option content := Some (cut 104 (match vol (fs_run fs_empty ex_p) with Some c => c | None => [] end)).

Example ex_hyps_ok : Forall api_ok ex_h.
Proof. repeat constructor; vm_compute; intuition discriminate. Qed.

Example ex_split : oplog 0 fs_empty w_closed ex_h = ex_p ++ [OHdr].
Proof. vm_compute. reflexivity. Qed.

Example ex_is_crash_image : crash_image 0 (fs_run fs_empty ex_p) ex_img.
Proof.
  right. exists 104. eexists. split; [vm_compute; discriminate|]. split; vm_compute; reflexivity.
Qed.

(* the repaired reader recovers exactly the synced block from the torn image ... *)
Example ex_tolerant_recovers : recover true ex_img = Some [ex_b1].
Proof. vm_compute. reflexivity. Qed.

(* ... and after reopening (truncation), appending and closing, both old and new data load *)
Example ex_append_after_recovery :
  let '(f2, _, _, oks) := w_run 0 (fs_crashed ex_img) w_closed
                            [AOpen; AWrite (3, Some 30) (Some (4, FFok)); AClose 1 FFok true] in
  state_of (loaded_blocks true (dur f2)) = [(1, 10); (3, 30)] /\ oks = [true; true; true].
Proof. vm_compute. split; reflexivity. Qed.

(* ---- before the repairs *)

(* strict reader: the torn image is unreadable although a block was durable -> swamp empty *)
Lemma torn_tail_refuted_strict_reader :
  exists h p q img,
    oplog_gen false 0 fs_empty w_closed h = p ++ q /\
    crash_image 0 (fs_run fs_empty p) img /\
    recover false img = None /\
    loaded_blocks false (dur (fs_run fs_empty p)) <> [].
Proof.
  exists ex_h, ex_p, [OHdr], ex_img. split; [vm_compute; reflexivity|].
  split; [exact ex_is_crash_image|]. split; [vm_compute; reflexivity|]. vm_compute. discriminate.
Qed.

(* writer without truncation on open: what is appended after the recovery lands behind the
   torn bytes and is lost, even for the tolerant reader *)
Lemma append_after_torn_tail_refuted_no_truncate :
  let '(f2, _, _, oks) := w_run_gen false 0 (fs_crashed ex_img) w_closed
                            [AOpen; AWrite (3, Some 30) (Some (4, FFok)); AClose 1 FFok true] in
  oks = [true; true; true] /\
  state_of (loaded_blocks true (vol f2)) <> [(1, 10); (3, 30)] /\
  state_of (loaded_blocks false (vol f2)) <> [(1, 10); (3, 30)].
Proof. vm_compute. repeat split; discriminate. Qed.

(* C25: a block write that stops after 20 of 23 bytes; the fault clears; a later write and a
   clean Close *)
Definition ex_fault_h : list api :=
  [AOpen; AWrite (1, Some 10) (Some (5, FFok)); AWrite (2, Some 20) (Some (7, FFshort 20));
   AWrite (3, Some 30) (Some (4, FFok)); AClose 1 FFok true].

Example ex_fault_hyps_ok : Forall api_ok ex_fault_h.
Proof. repeat constructor; vm_compute; intuition discriminate. Qed.

(* repaired writer: everything submitted is in the file (the entry of the failed block goes
   out with the next flush) *)
Example ex_fault_repaired :
  let '(f2, _, _, oks) := w_run 0 fs_empty w_closed
        [AOpen; AWrite (1, Some 10) (Some (5, FFok)); AWrite (2, Some 20) (Some (7, FFshort 20));
         AWrite (3, Some 30) (Some (9, FFok)); AClose 1 FFok true] in
  state_of (loaded_blocks true (dur f2)) = [(1, 10); (2, 20); (3, 30)] /\
  oks = [true; true; false; true; true].
Proof. vm_compute. split; reflexivity. Qed.

(* writer before the repair: the partial block stays in the file, the later block is behind
   it, and the entry of the failed block is gone *)
Lemma short_block_write_refuted_before_repair :
  let '(f2, _, _, _) := w_run_gen false 0 fs_empty w_closed ex_fault_h in
  state_of (loaded_blocks true (vol f2)) = [] /\
  recover false (vol f2) = None /\
  state_of_entries [] (submitted false ex_fault_h) = [(1, 10); (2, 20); (3, 30)].
Proof. vm_compute. repeat split; reflexivity. Qed.

(* a short block write whose truncation back fails too (the tail stays in the file), a flush
   that still cannot remove it, then the fault clears: the next flush cuts the tail off first
   and everything submitted is stored *)
Definition ex_dirty_h : list api :=
  [AOpen; AWrite (1, Some 10) (Some (5, FFok)); AWrite (2, Some 20) (Some (7, FFshortDirty 20));
   AWrite (3, Some 30) (Some (9, FFpre)); AWrite (4, Some 40) (Some (11, FFok)); AClose 1 FFok true].

Example ex_dirty_hyps_ok : Forall api_ok ex_dirty_h.
Proof. repeat constructor; vm_compute; intuition discriminate. Qed.

Example ex_dirty_tail_repaired :
  let '(f2, _, ops, oks) := w_run 0 fs_empty w_closed ex_dirty_h in
  state_of (loaded_blocks true (dur f2)) = [(1, 10); (2, 20); (3, 30); (4, 40)] /\
  oks = [true; true; false; false; true; true] /\
  canon_log ops = [(1, 0); (2, 64); (2, 16); (2, 5); (3, 64); (2, 16); (2, 4);
                   (4, 85); (2, 16); (2, 11); (3, 64); (3, 64); (5, 0); (6, 0)].
Proof. vm_compute. repeat split; reflexivity. Qed.
