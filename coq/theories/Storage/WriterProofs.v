(* Storage/WriterProofs.v — invariants of the (repaired, guard = true) writer of Writer.v:
   every block it ever puts into a file is well-formed; the file plus the buffer always stand
   for exactly the accepted entries, in order; the stored name never changes; entries that
   cannot be encoded are rejected without any effect. *)
From HV Require Import Base.Prelude Storage.Format Storage.Lww Storage.Writer.
From Coq Require Import ZifyN ZifyNat ZifyBool.
Local Open Scope N_scope.

Section WriterProofs.
Variables (K D NM : Type).
Variables (klen : K -> N) (dlen : D -> N) (nmlen : NM -> N).
Variable cfits : list (lentry K D) -> bool.

Notation lent := (lentry K D).
Notation encodable := (encodable K D klen dlen).
Notation block_ok := (block_ok K D cfits).
Notation flush := (flush K D NM cfits true).
Notation step := (step K D NM klen dlen nmlen cfits true).
Notation run := (run K D NM klen dlen nmlen cfits true).
Notation state := (state K D NM).
Notation lfile := (lfile K D NM).

Definition wfe (e : lent) : Prop := encodable e = true.
Definition wf_block (b : list lent) : Prop := b <> [] /\ block_ok b = true /\ Forall wfe b.
Definition wf_file (f : lfile) : Prop := Forall wf_block (f_blocks f).

Definition Inv (st : state) : Prop :=
  match s_file st, s_w st with
  | Some f, Some w => wf_file f /\ Forall wfe (w_buf w)
  | Some f, None => wf_file f
  | None, Some _ => False
  | None, None => True
  end.

Lemma flush_spec f w f' w' r :
  flush f w = (f', w', r) ->
  f_name f' = f_name f /\ f_ver f' = f_ver f /\
  concat (f_blocks f') ++ w_buf w' = concat (f_blocks f) ++ w_buf w /\
  (r = ROk -> w_buf w' = []) /\
  (wf_file f -> Forall wfe (w_buf w) -> wf_file f' /\ Forall wfe (w_buf w')).
Proof.
  unfold Writer.flush. destruct (w_buf w) as [|e b] eqn:Eb.
  - intro H; inversion H; subst. rewrite Eb. repeat split; auto.
  - cbn [andb]. destruct (block_ok (e :: b)) eqn:Ebo; cbn [negb].
    + intro H; inversion H; subst; clear H. cbn [f_name f_ver f_blocks w_buf].
      repeat split; auto.
      * rewrite concat_app. simpl. now rewrite !app_nil_r.
      * unfold wf_file in *. cbn [f_blocks]. apply Forall_app. split; [assumption|].
        constructor; [|constructor]. repeat split; [discriminate | exact Ebo | assumption].
    + intro H; inversion H; subst; clear H. rewrite Eb.
      repeat split; auto. discriminate.
Qed.

(* ---- every step keeps the invariant (whatever its result) ------------------------------- *)
Lemma step_inv st op : Inv st -> Inv (fst (step st op)).
Proof.
  unfold Inv. destruct st as [[f|] [w|]]; cbn [s_file s_w]; intro HI; try contradiction;
  destruct op as [nm|e fl| | |]; cbn [Writer.step s_file s_w fst andb]; auto.
  - (* write *)
    destruct HI as [Hf Hb].
    destruct (encodable e) eqn:Ee; cbn [negb]; [|cbn; auto].
    set (w1 := mkW (w_buf w ++ [e]) (w_bc w) (w_ec w)).
    assert (Hb1 : Forall wfe (w_buf w1)).
    { cbn. apply Forall_app. split; [assumption | constructor; [exact Ee | constructor]]. }
    destruct (fl || (MaxEntriesPerBlock <=? nlen (w_buf w1))).
    + destruct (flush f w1) as [[f' w'] r] eqn:Efl. cbn.
      apply flush_spec in Efl. destruct Efl as (_ & _ & _ & _ & H). now apply H.
    + cbn. auto.
  - destruct HI as [Hf Hb]. destruct (flush f w) as [[f' w'] r] eqn:Efl. cbn.
    apply flush_spec in Efl. destruct Efl as (_ & _ & _ & _ & H). now apply H.
  - destruct HI as [Hf Hb]. destruct (flush f w) as [[f' w'] r] eqn:Efl. cbn.
    apply flush_spec in Efl. destruct Efl as (_ & _ & _ & _ & H). now apply H.
  - destruct HI as [Hf Hb]. destruct (flush f w) as [[f' w'] r] eqn:Efl. cbn.
    apply flush_spec in Efl. destruct Efl as (_ & _ & _ & _ & H). now apply H.
  - (* open existing *) cbn. split; [assumption | constructor].
  - (* create *)
    destruct (MaxNameSize <? nmlen nm); cbn; auto. split; constructor.
Qed.

Lemma run_inv ops : forall st, Inv st -> Inv (fst (run st ops)).
Proof.
  induction ops as [|op ops IH]; intros st HI; [exact HI|].
  cbn [Writer.run]. destruct (step st op) as [st1 r] eqn:E1.
  destruct (run st1 ops) as [st2 rs] eqn:E2. cbn.
  specialize (IH st1). rewrite E2 in IH. apply IH.
  pose proof (step_inv st op HI) as H. now rewrite E1 in H.
Qed.

(* ---- an accepted step extends the log by exactly its entry ------------------------------ *)
Lemma step_log st op st' :
  step st op = (st', ROk) -> log st' = log st ++ ents op.
Proof.
  unfold log. destruct st as [[f|] [w|]]; cbn [s_file s_w];
  destruct op as [nm|e fl| | |]; cbn [Writer.step s_file s_w andb ents file_log];
  try (intro H; inversion H; subst; cbn; now rewrite ?app_nil_r);
  try discriminate.
  - destruct (encodable e); cbn [negb]; [|discriminate].
    destruct (fl || (MaxEntriesPerBlock <=? nlen (w_buf (mkW (w_buf w ++ [e]) (w_bc w) (w_ec w))))).
    + destruct (flush f _) as [[f' w'] r] eqn:Efl. intro H; inversion H; subst.
      apply flush_spec in Efl. destruct Efl as (_ & _ & Hl & _ & _). cbn [s_file s_w file_log].
      rewrite Hl. cbn. now rewrite app_assoc.
    + intro H; inversion H; subst. cbn. now rewrite app_assoc.
  - destruct (flush f w) as [[f' w'] r] eqn:Efl. intro H; inversion H; subst.
    apply flush_spec in Efl. destruct Efl as (_ & _ & Hl & _ & _). cbn [s_file s_w file_log].
    rewrite Hl. now rewrite app_nil_r.
  - destruct (flush f w) as [[f' w'] r] eqn:Efl. intro H; inversion H; subst.
    apply flush_spec in Efl. destruct Efl as (_ & _ & Hl & _ & _). cbn [s_file s_w file_log].
    rewrite Hl. now rewrite app_nil_r.
  - destruct (flush f w) as [[f' w'] r] eqn:Efl. intro H; inversion H; subst.
    apply flush_spec in Efl. destruct Efl as (_ & _ & Hl & Hr & _). cbn [s_file s_w file_log].
    rewrite (Hr eq_refl) in Hl. rewrite !app_nil_r in *. exact Hl.
  - destruct (MaxNameSize <? nmlen nm); cbn; [discriminate|].
    intro H; inversion H; subst. reflexivity.
Qed.

Lemma run_log ops : forall st st' rs,
  run st ops = (st', rs) -> all_ok rs = true -> log st' = log st ++ flat_map ents ops.
Proof.
  induction ops as [|op ops IH]; intros st st' rs.
  - cbn. intro H; inversion H; subst. now rewrite app_nil_r.
  - cbn [Writer.run]. destruct (step st op) as [st1 r] eqn:E1.
    destruct (run st1 ops) as [st2 rs2] eqn:E2. intro H; inversion H; subst.
    cbn [all_ok forallb]. intro Hok. apply andb_true_iff in Hok as [Hr Hrs].
    destruct r; [|discriminate].
    rewrite (IH _ _ _ E2 Hrs), (step_log _ _ _ E1). cbn [flat_map]. now rewrite app_assoc.
Qed.

(* ---- the stored name and the version never change once the file exists ------------------ *)
Definition name_of (st : state) : option NM := option_map f_name (s_file st).
Definition ver_of (st : state) : option N := option_map f_ver (s_file st).

Lemma step_name st op f :
  s_file st = Some f ->
  name_of (fst (step st op)) = Some (f_name f) /\ ver_of (fst (step st op)) = Some (f_ver f).
Proof.
  unfold name_of, ver_of. destruct st as [[f0|] [w|]]; cbn [s_file s_w]; intro H; inversion H; subst;
  destruct op as [nm|e fl| | |]; cbn [Writer.step s_file s_w fst andb]; auto.
  - destruct (encodable e); cbn [negb]; [|cbn; auto].
    destruct (fl || _).
    + destruct (flush f _) as [[f' w'] r] eqn:Efl. cbn.
      apply flush_spec in Efl. destruct Efl as (Hn & Hv & _). now rewrite Hn, Hv.
    + cbn; auto.
  - destruct (flush f w) as [[f' w'] r] eqn:Efl. cbn.
    apply flush_spec in Efl. destruct Efl as (Hn & Hv & _). now rewrite Hn, Hv.
  - destruct (flush f w) as [[f' w'] r] eqn:Efl. cbn.
    apply flush_spec in Efl. destruct Efl as (Hn & Hv & _). now rewrite Hn, Hv.
  - destruct (flush f w) as [[f' w'] r] eqn:Efl. cbn.
    apply flush_spec in Efl. destruct Efl as (Hn & Hv & _). now rewrite Hn, Hv.
Qed.

Lemma run_name ops : forall st f,
  s_file st = Some f ->
  name_of (fst (run st ops)) = Some (f_name f) /\ ver_of (fst (run st ops)) = Some (f_ver f).
Proof.
  induction ops as [|op ops IH]; intros st f Hf.
  - unfold name_of, ver_of. cbn. now rewrite Hf.
  - cbn [Writer.run]. destruct (step st op) as [st1 r] eqn:E1.
    destruct (run st1 ops) as [st2 rs2] eqn:E2. cbn [fst].
    pose proof (step_name st op f Hf) as [Hn Hv]. rewrite E1 in Hn, Hv. cbn [fst] in Hn, Hv.
    unfold name_of, ver_of in Hn, Hv. destruct (s_file st1) as [f1|] eqn:Ef1; [|discriminate].
    cbn in Hn, Hv. inversion Hn; inversion Hv.
    specialize (IH st1 f1 Ef1). rewrite E2 in IH. cbn [fst] in IH. congruence.
Qed.

(* a file is only ever created by OOpen, as V3, with the name passed to it *)
Lemma step_create st op f' :
  s_file st = None -> s_file (fst (step st op)) = Some f' ->
  exists nm, op = OOpen nm /\ f_name f' = nm /\ f_ver f' = Version3 /\ f_blocks f' = [] /\ nmlen nm <= MaxNameSize.
Proof.
  destruct st as [[f0|] [w|]]; cbn [s_file s_w]; intro H; try discriminate;
  destruct op as [nm|e fl| | |]; cbn [Writer.step s_file s_w fst andb]; try discriminate.
  destruct (MaxNameSize <? nmlen nm) eqn:E; cbn; [discriminate|].
  intro H1; inversion H1; subst. exists nm. cbn. repeat split; auto. apply N.ltb_ge in E. exact E.
Qed.

(* ---- rejection clause ------------------------------------------------------------------- *)
(* an entry outside the encodable range is refused and nothing at all changes *)
Theorem write_unencodable_rejected st e fl :
  encodable e = false -> step st (OWrite e fl) = (st, RErr).
Proof.
  intro He. destruct st as [[f|] [w|]]; cbn [Writer.step s_file s_w andb]; try reflexivity.
  now rewrite He.
Qed.

(* an accepted write was encodable *)
Theorem write_ok_encodable st e fl st' :
  step st (OWrite e fl) = (st', ROk) -> encodable e = true.
Proof.
  destruct (encodable e) eqn:He; [reflexivity|].
  rewrite (write_unencodable_rejected st e fl He). discriminate.
Qed.

(* an over-long name is refused and no file appears *)
Theorem open_long_name_rejected nm :
  MaxNameSize < nmlen nm -> step init (OOpen nm) = (init, RErr).
Proof.
  intro H. cbn. apply N.ltb_lt in H. now rewrite H.
Qed.

(* ---- the name of a file created by this run is the name of the first OOpen --------------- *)
Fixpoint first_open (ops : list (wop K D NM)) : option NM :=
  match ops with
  | [] => None
  | OOpen nm :: _ => Some nm
  | _ :: t => first_open t
  end.

Lemma run_first_open ops : forall st' rs f,
  run init ops = (st', rs) -> all_ok rs = true -> s_file st' = Some f ->
  first_open ops = Some (f_name f) /\ f_ver f = Version3 /\ nmlen (f_name f) <= MaxNameSize.
Proof.
  induction ops as [|op ops IH]; intros st' rs f.
  - cbn. intro H; inversion H; subst. cbn. discriminate.
  - cbn [Writer.run]. destruct (step init op) as [st1 r] eqn:E1.
    destruct (run st1 ops) as [st2 rs2] eqn:E2. intro H; inversion H; subst.
    cbn [all_ok forallb]. intro Hok. apply andb_true_iff in Hok as [Hr Hrs]. intro Hf.
    destruct op as [nm|e fl| | |]; cbn in E1.
    + destruct (MaxNameSize <? nmlen nm) eqn:En; inversion E1; subst; [discriminate|].
      cbn [first_open].
      pose proof (run_name ops (mkS (Some (mkF Version3 nm 0 0 [])) (Some (mkW [] 0 0))) _ eq_refl) as [Hn Hv].
      rewrite E2 in Hn, Hv. cbn [fst] in Hn, Hv. unfold name_of, ver_of in Hn, Hv.
      rewrite Hf in Hn, Hv. cbn in Hn, Hv. inversion Hn as [Hn']; inversion Hv as [Hv'].
      rewrite Hn'. apply N.ltb_ge in En. auto.
    + inversion E1; subst. discriminate.
    + inversion E1; subst. discriminate.
    + inversion E1; subst. discriminate.
    + inversion E1; subst. cbn [first_open]. now apply (IH st' rs2 f).
Qed.

(* ---- histories with rejected operations -------------------------------------------------- *)
(* If no block ever exceeds the 4 GiB header fields (cfits always true - the only way a flush
   can fail), a failing operation changes nothing at all and the log grows by exactly the
   accepted entries: for every history, with any mixture of accepted and rejected operations. *)
Section AnyResults.
Hypothesis cfits_true : forall b, cfits b = true.

Definition InvC (st : state) : Prop :=
  match s_w st with Some w => nlen (w_buf w) < MaxEntriesPerBlock | None => True end.

Definition acc1 (op : wop K D NM) (r : res) : list lent :=
  match r with ROk => ents op | RErr => [] end.
Fixpoint accepted (ops : list (wop K D NM)) (rs : list res) : list lent :=
  match ops, rs with
  | op :: t, r :: rt => acc1 op r ++ accepted t rt
  | _, _ => []
  end.

Lemma flush_ok f w : nlen (w_buf w) <= MaxEntriesPerBlock -> exists f' w', flush f w = (f', w', ROk) /\ w_buf w' = [].
Proof.
  intro H. unfold Writer.flush. destruct (w_buf w) as [|e b] eqn:Eb.
  - exists f, w. now rewrite Eb.
  - unfold Writer.block_ok. rewrite cfits_true. apply N.leb_le in H. rewrite H. cbn. eauto.
Qed.

Lemma step_gen st op st' r :
  InvC st -> step st op = (st', r) ->
  InvC st' /\ log st' = log st ++ acc1 op r /\ (r = RErr -> st' = st).
Proof.
  unfold InvC, log. destruct st as [[f|] [w|]]; cbn [s_file s_w]; intro HI;
  destruct op as [nm|e fl| | |]; cbn [Writer.step s_file s_w andb ents file_log];
  try (intro H; inversion H; subst; cbn; rewrite ?app_nil_r; now auto).
  - destruct (encodable e); cbn [negb]; [|intro H; inversion H; subst; cbn; rewrite ?app_nil_r; now auto].
    set (w1 := mkW (w_buf w ++ [e]) (w_bc w) (w_ec w)).
    assert (Hn1 : nlen (w_buf w1) = nlen (w_buf w) + 1).
    { cbn. unfold nlen. rewrite app_length. cbn. lia. }
    destruct (MaxEntriesPerBlock <=? nlen (w_buf w1)) eqn:Ecap.
    + rewrite orb_true_r.
      destruct (flush_ok f w1) as (f' & w' & Efl & Hb'); [lia|].
      rewrite Efl. intro H; inversion H; subst. cbn [s_file s_w file_log acc1 ents].
      apply flush_spec in Efl. destruct Efl as (_ & _ & Hl & _ & _).
      rewrite Hb' in *. split; [cbn; unfold MaxEntriesPerBlock; lia|]. split; [|discriminate].
      rewrite Hl. cbn. now rewrite app_assoc.
    + rewrite orb_false_r. apply N.leb_gt in Ecap. destruct fl.
      * destruct (flush_ok f w1) as (f' & w' & Efl & Hb'); [lia|].
        rewrite Efl. intro H; inversion H; subst. cbn [s_file s_w file_log acc1 ents].
        apply flush_spec in Efl. destruct Efl as (_ & _ & Hl & _ & _).
        rewrite Hb' in *. split; [cbn; unfold MaxEntriesPerBlock; lia|]. split; [|discriminate].
        rewrite Hl. cbn. now rewrite app_assoc.
      * intro H; inversion H; subst. cbn [s_file s_w file_log acc1 ents].
        split; [exact Ecap|]. split; [|discriminate]. cbn. now rewrite app_assoc.
  - destruct (flush_ok f w) as (f' & w' & Efl & Hb'); [lia|].
    rewrite Efl. intro H; inversion H; subst. cbn [s_file s_w file_log acc1 ents].
    apply flush_spec in Efl. destruct Efl as (_ & _ & Hl & _ & _).
    rewrite Hb' in *. split; [cbn; unfold MaxEntriesPerBlock; lia|]. split; [|discriminate].
    rewrite Hl. now rewrite app_nil_r.
  - destruct (flush_ok f w) as (f' & w' & Efl & Hb'); [lia|].
    rewrite Efl. intro H; inversion H; subst. cbn [s_file s_w file_log acc1 ents].
    apply flush_spec in Efl. destruct Efl as (_ & _ & Hl & _ & _).
    rewrite Hb' in *. split; [cbn; unfold MaxEntriesPerBlock; lia|]. split; [|discriminate].
    rewrite Hl. now rewrite app_nil_r.
  - destruct (flush_ok f w) as (f' & w' & Efl & Hb'); [lia|].
    rewrite Efl. intro H; inversion H; subst. cbn [s_file s_w file_log acc1 ents].
    apply flush_spec in Efl. destruct Efl as (_ & _ & Hl & _ & _).
    rewrite Hb' in *. split; [exact I|]. split; [|discriminate].
    rewrite !app_nil_r in *. exact Hl.
  - destruct (MaxNameSize <? nmlen nm); cbn [andb]; intro H; inversion H; subst; cbn; auto.
    split; [unfold MaxEntriesPerBlock; lia | auto]. split; [reflexivity | discriminate].
Qed.

Lemma run_gen ops : forall st st' rs,
  InvC st -> run st ops = (st', rs) ->
  InvC st' /\ log st' = log st ++ accepted ops rs /\ length rs = length ops.
Proof.
  induction ops as [|op ops IH]; intros st st' rs HI.
  - cbn. intro H; inversion H; subst. rewrite app_nil_r. auto.
  - cbn [Writer.run]. destruct (step st op) as [st1 r] eqn:E1.
    destruct (run st1 ops) as [st2 rs2] eqn:E2. intro H; inversion H; subst.
    destruct (step_gen _ _ _ _ HI E1) as (HI1 & HL1 & _).
    destruct (IH _ _ _ HI1 E2) as (HI2 & HL2 & Hlen).
    split; [exact HI2|]. split; [|cbn; now rewrite Hlen].
    rewrite HL2, HL1. cbn [accepted]. now rewrite app_assoc.
Qed.

End AnyResults.

End WriterProofs.

(* the rejection clause of the repaired writer, as one statement *)
Theorem unencodable_rejected
  (K D NM : Type) (klen : K -> N) (dlen : D -> N) (nmlen : NM -> N) (cfits : list (lentry K D) -> bool) :
  (forall st e fl, encodable K D klen dlen e = false ->
     step K D NM klen dlen nmlen cfits true st (OWrite e fl) = (st, RErr)) /\
  (forall st e fl st', step K D NM klen dlen nmlen cfits true st (OWrite e fl) = (st', ROk) ->
     encodable K D klen dlen e = true) /\
  (forall nm, MaxNameSize < nmlen nm -> step K D NM klen dlen nmlen cfits true init (OOpen nm) = (init, RErr)) /\
  (forall ops st, Inv K D NM klen dlen cfits st ->
     Inv K D NM klen dlen cfits (fst (run K D NM klen dlen nmlen cfits true st ops))).
Proof.
  split; [|split; [|split]].
  - exact (write_unencodable_rejected K D NM klen dlen nmlen cfits).
  - exact (write_ok_encodable K D NM klen dlen nmlen cfits).
  - exact (open_long_name_rejected K D NM klen dlen nmlen cfits).
  - exact (run_inv K D NM klen dlen nmlen cfits).
Qed.
