(* Storage/C02WriterProofs.v — the repaired writer keeps the file well-shaped after every single
   file operation of every API call, whatever the fault oracle does; block lists only grow;
   the entries in the file plus the buffer are exactly what was submitted. *)
From HV Require Import Base.Prelude Storage.C02Fs Storage.C02Writer Storage.C02Crash Storage.C02Proofs.
From Coq Require Import ZifyN ZifyNat ZifyBool Lia.
Local Open Scope N_scope.

Arguments N.eqb : simpl never.
Arguments N.leb : simpl never.
Arguments N.ltb : simpl never.
Arguments N.sub : simpl never.
Arguments N.add : simpl never.

(* a property holds in every state passed while a list of operations is applied *)
Inductive chain (P : fs -> Prop) : fs -> list fsop -> Prop :=
| chain_nil : forall f, P f -> chain P f []
| chain_cons : forall f o t, P f -> chain P (fs_step f o) t -> chain P f (o :: t).

Lemma chain_prefix P f ops : chain P f ops -> forall p q, ops = p ++ q -> P (fs_run f p).
Proof.
  induction 1 as [f Hf|f o t Hf Hc IH]; intros p q E.
  - destruct p; [exact Hf|discriminate].
  - destruct p as [|o' p]; [exact Hf|]. injection E as -> E. simpl. eapply IH; eauto.
Qed.

Lemma chain_here P f ops : chain P f ops -> P f.
Proof. now inversion 1. Qed.

Lemma chain_app P f a b : chain P f a -> chain P (fs_run f a) b -> chain P f (a ++ b).
Proof.
  revert f; induction a as [|o a IH]; intros f Ha Hb; [exact Hb|].
  inversion Ha; subst. simpl. constructor; [assumption|]. apply IH; assumption.
Qed.

Lemma chain_mono (P Q : fs -> Prop) f ops : (forall g, P g -> Q g) -> chain P f ops -> chain Q f ops.
Proof. intros HPQ; induction 1; constructor; auto. Qed.

Lemma fs_run_app f a b : fs_run (fs_run f a) b = fs_run f (a ++ b).
Proof. unfold fs_run. now rewrite fold_left_app. Qed.

Lemma fs_run_one f o : fs_run f [o] = fs_step f o.
Proof. reflexivity. Qed.

Lemma fs_run_cons f o t : fs_run f (o :: t) = fs_run (fs_step f o) t.
Proof. reflexivity. Qed.

Lemma torn_clen0 t : torn t -> clen t = 0 -> t = [].
Proof. intros Ht; inversion Ht; subst; simpl; intros; [reflexivity| |]; flia. Qed.

Ltac split3 := split; [|split].
Ltac split4 := split; [|split; [|split]].
Ltac split5 := split; [|split; [|split; [|split]]].
Ltac split6 := split; [|split; [|split; [|split; [|split]]]].
Ltac split7 := split; [|split; [|split; [|split; [|split; [|split]]]]].

Opaque pre.

Section WithName.
Variable nlen : N.

Notation pre := (pre nlen).
Notation shaped := (shaped nlen).
Notation Inv := (Inv nlen).

(* volatile file = complete header area, complete blocks [bs], torn tail [t] *)
Definition View (f : fs) (ds bs : list block) (t : content) : Prop :=
  shaped ds (dur f) /\ vol f = Some (pre ++ bc bs ++ t) /\ torn t /\ prefix ds bs /\ blocks_ok bs.

Lemma view_inv f ds bs t : View f ds bs t -> Inv f ds bs.
Proof. intros (Hd & Hv & Ht & Hp & Hok). repeat split; auto. rewrite Hv. now apply sh_full. Qed.

(* "the state is well-shaped and holds at least the blocks ds0 / bs0" *)
Definition P0 (ds0 bs0 : list block) (f : fs) : Prop :=
  exists ds bs, Inv f ds bs /\ prefix ds0 ds /\ prefix bs0 bs.

Lemma view_P0 ds0 bs0 f ds bs t :
  View f ds bs t -> prefix ds0 ds -> prefix bs0 bs -> P0 ds0 bs0 f.
Proof. intros. exists ds, bs. eauto using view_inv. Qed.

Lemma P0_mono ds0 bs0 ds1 bs1 f :
  prefix ds0 ds1 -> prefix bs0 bs1 -> P0 ds1 bs1 f -> P0 ds0 bs0 f.
Proof. intros H1 H2 (ds & bs & HI & Ha & Hb). exists ds, bs. eauto using prefix_trans. Qed.

(* ---- single operations on a view *)

Lemma step_app0 f s : fs_step f (OApp s 0) = f.
Proof. reflexivity. Qed.

Lemma step_app f s n c : n <> 0 -> vol f = Some c ->
  fs_step f (OApp s n) = mkfs (dur f) (Some (c ++ [(s, n)])).
Proof. intros Hn Hv. simpl. destruct (N.eqb_spec n 0); [contradiction|]. now rewrite Hv. Qed.

Lemma V_app_bh f ds bs b j : View f ds bs [] -> 1 <= j <= BH ->
  View (fs_step f (OApp (SBh b) j)) ds bs [(SBh b, j)].
Proof.
  intros (Hd & Hv & Ht & Hp & Hok) Hj. erewrite step_app by (eauto; lia).
  repeat split; simpl; auto. - now rewrite app_nil_r, <- !app_assoc. - now constructor.
Qed.

Lemma V_app_pl_part f ds bs b j : View f ds bs [(SBh b, BH)] -> 1 <= j < b_plen b ->
  View (fs_step f (OApp (SPl b) j)) ds bs [(SBh b, BH); (SPl b, j)].
Proof.
  intros (Hd & Hv & Ht & Hp & Hok) Hj. erewrite step_app by (eauto; lia).
  repeat split; simpl; auto. - now rewrite <- !app_assoc. - now constructor.
Qed.

Lemma V_app_pl_full f ds bs b : View f ds bs [(SBh b, BH)] -> 1 <= b_plen b ->
  View (fs_step f (OApp (SPl b) (b_plen b))) ds (bs ++ [b]) [].
Proof.
  intros (Hd & Hv & Ht & Hp & Hok) Hj. erewrite step_app by (eauto; lia).
  repeat split; simpl; auto.
  - rewrite bc_app, app_nil_r, <- !app_assoc. reflexivity.
  - constructor.
  - destruct Hp as [x ->]. exists (x ++ [b]). now rewrite app_assoc.
  - apply blocks_ok_app; [assumption|]. repeat constructor. assumption.
Qed.

Lemma V_trunc f ds bs t : View f ds bs t ->
  View (fs_step f (OTrunc (clen (pre ++ bc bs)))) ds bs [].
Proof.
  intros (Hd & Hv & Ht & Hp & Hok). simpl. rewrite Hv.
  repeat split; simpl; auto; [|constructor].
  rewrite app_nil_r, app_assoc, cut_app_le by lia. rewrite cut_all; [reflexivity| |lia].
  apply Forall_app. split; [apply cpos_pre|now apply cpos_bc].
Qed.

Lemma V_fsync f ds bs : View f ds bs [] -> View (fs_step f OFsync) bs bs [].
Proof.
  intros (Hd & Hv & Ht & Hp & Hok). simpl. repeat split; simpl; auto using prefix_refl.
  rewrite Hv. apply sh_full. constructor.
Qed.

(* ---- writing (a prefix of) one block *)

Lemma bw_short ds0 bs0 f ds bs b j :
  View f ds bs [] -> prefix ds0 ds -> prefix bs0 bs -> 1 <= b_plen b -> j < blen b ->
  exists t, View (fs_run f (block_write_ops b j)) ds bs t /\
            chain (P0 ds0 bs0) f (block_write_ops b j).
Proof.
  intros HV H1 H2 Hb Hj. unfold block_write_ops, blen in *.
  destruct (N.leb_spec j BH) as [Hle|Hgt].
  - destruct (N.eq_dec j 0) as [->|Hnz].
    + exists []. rewrite fs_run_one, step_app0. split; [assumption|].
      constructor; [eapply view_P0; eauto|]. rewrite step_app0. constructor. eapply view_P0; eauto.
    + exists [(SBh b, j)]. assert (HV' := V_app_bh f ds bs b j HV ltac:(lia)).
      split; [exact HV'|]. constructor; [eapply view_P0; eauto|]. constructor. eapply view_P0; eauto.
  - assert (HV1 := V_app_bh f ds bs b BH HV ltac:(flia)).
    assert (HV2 := V_app_pl_part _ ds bs b (j - BH) HV1 ltac:(lia)).
    exists [(SBh b, BH); (SPl b, j - BH)]. split; [exact HV2|].
    constructor; [eapply view_P0; eauto|]. constructor; [eapply view_P0; eauto|].
    constructor. eapply view_P0; eauto.
Qed.

Lemma bw_full ds0 bs0 f ds bs b :
  View f ds bs [] -> prefix ds0 ds -> prefix bs0 bs -> 1 <= b_plen b ->
  View (fs_run f (block_write_ops b (blen b))) ds (bs ++ [b]) [] /\
  chain (P0 ds0 bs0) f (block_write_ops b (blen b)).
Proof.
  intros HV H1 H2 Hb. unfold block_write_ops, blen.
  destruct (N.leb_spec (BH + b_plen b) BH) as [Hle|Hgt]; [lia|].
  replace (BH + b_plen b - BH) with (b_plen b) by lia.
  assert (HV1 := V_app_bh f ds bs b BH HV ltac:(flia)).
  assert (HV2 := V_app_pl_full _ ds bs b HV1 Hb).
  split; [exact HV2|].
  constructor; [eapply view_P0; eauto|]. constructor; [eapply view_P0; eauto|].
  constructor. eapply view_P0; eauto. eapply prefix_trans; eauto using prefix_app.
Qed.

(* ---- flushLocked *)

Lemma elog_app a b : elog_of (a ++ b) = elog_of a ++ elog_of b.
Proof. unfold elog_of. now rewrite flat_map_app. Qed.

Lemma flush_clean_ok ds0 bs0 f w ds bs sz ff w' ops ok :
  View f ds bs [] -> prefix ds0 ds -> prefix bs0 bs ->
  w_end w = clen (pre ++ bc bs) -> w_dirty w = false -> ff_ok sz ff ->
  flush_clean true w sz ff = (w', ops, ok) ->
  exists bs' t',
    View (fs_run f ops) ds bs' t' /\ (w_dirty w' = false -> t' = []) /\ prefix bs bs' /\
    w_end w' = clen (pre ++ bc bs') /\ w_open w' = w_open w /\
    chain (P0 ds0 bs0) f ops /\
    elog_of bs' ++ w_buf w' = elog_of bs ++ w_buf w /\
    (ok = true -> w_buf w' = [] /\ w_dirty w' = false).
Proof.
  intros HV H1 H2 Hend Hdirty [Hsz Hff] Hfl. unfold flush_clean in Hfl.
  destruct (w_buf w) as [|e es] eqn:Hbuf.
  { injection Hfl as <- <- <-. exists bs, []. split; [exact HV|]. split7; auto using prefix_refl.
    - constructor. eapply view_P0; eauto.
    - now rewrite Hbuf. }
  set (b := mkblock (e :: es) sz) in *.
  assert (Hb : 1 <= b_plen b) by exact Hsz.
  set (wd := mkw (w_open w) [] (w_end w + blen b) false) in *.
  assert (Hfull : forall okk, exists bs' t',
    View (fs_run f (block_write_ops b (blen b) ++ [OHdr])) ds bs' t' /\ (w_dirty wd = false -> t' = []) /\
    prefix bs bs' /\ w_end wd = clen (pre ++ bc bs') /\ w_open wd = w_open w /\
    chain (P0 ds0 bs0) f (block_write_ops b (blen b) ++ [OHdr]) /\
    elog_of bs' ++ w_buf wd = elog_of bs ++ e :: es /\
    (okk = true -> w_buf wd = [] /\ w_dirty wd = false)).
  { intros okk. destruct (bw_full ds0 bs0 f ds bs b HV H1 H2 Hb) as [HV2 Hc].
    exists (bs ++ [b]), []. rewrite <- fs_run_app, fs_run_one.
    split; [exact HV2|]. split7; auto using prefix_app.
    + unfold wd. cbn [w_end]. rewrite Hend, bc_app, !clen_app. unfold blen. simpl. lia.
    + apply chain_app; [exact Hc|]. constructor; [eapply view_P0; eauto|].
      * eapply prefix_trans; eauto using prefix_app.
      * constructor. eapply view_P0; eauto. eapply prefix_trans; eauto using prefix_app.
    + unfold wd. cbn [w_buf]. rewrite elog_app, app_nil_r. simpl. now rewrite app_nil_r. }
  destruct ff as [|j| |j|].
  - injection Hfl as <- <- <-. apply Hfull.
  - (* short write: cut back, keep the entries *)
    injection Hfl as <- <- <-.
    destruct (bw_short ds0 bs0 f ds bs b j HV H1 H2 Hb ltac:(unfold blen; exact Hff)) as (t & HVt & Hc).
    assert (HV3 := V_trunc _ ds bs t HVt).
    exists bs, []. rewrite <- fs_run_app, fs_run_one, Hend.
    split; [exact HV3|]. split7; auto using prefix_refl.
    + apply chain_app; [exact Hc|]. constructor; [eapply view_P0; eauto|].
      constructor. eapply view_P0; eauto.
    + now rewrite Hbuf.
    + discriminate.
  - injection Hfl as <- <- <-. apply Hfull.
  - (* short write and the truncation back failed: the tail stays, the writer remembers it *)
    injection Hfl as <- <- <-.
    destruct (bw_short ds0 bs0 f ds bs b j HV H1 H2 Hb ltac:(unfold blen; exact Hff)) as (t & HVt & Hc).
    exists bs, t. split; [exact HVt|]. split7; auto using prefix_refl.
    + cbn [w_dirty]. discriminate.
    + discriminate.
  - injection Hfl as <- <- <-. apply Hfull.
Qed.

Lemma flush_ok ds0 bs0 f w ds bs t sz ff w' ops ok :
  View f ds bs t -> (w_dirty w = false -> t = []) -> prefix ds0 ds -> prefix bs0 bs ->
  w_end w = clen (pre ++ bc bs) -> ff_ok sz ff ->
  flush true w sz ff = (w', ops, ok) ->
  exists bs' t',
    View (fs_run f ops) ds bs' t' /\ (w_dirty w' = false -> t' = []) /\ prefix bs bs' /\
    w_end w' = clen (pre ++ bc bs') /\ w_open w' = w_open w /\
    chain (P0 ds0 bs0) f ops /\
    elog_of bs' ++ w_buf w' = elog_of bs ++ w_buf w /\
    (ok = true -> w_buf w' = [] /\ w_dirty w' = false).
Proof.
  intros HV Hdt H1 H2 Hend Hff Hfl. unfold flush in Hfl.
  destruct (w_dirty w) eqn:Hd.
  2:{ rewrite (Hdt eq_refl) in HV. eapply flush_clean_ok; eauto. }
  assert (Hcase : ff = FFpre \/
     (let '(w1, ops1, ok1) := flush_clean true (mkw (w_open w) (w_buf w) (w_end w) false) sz ff in
      (w1, OTrunc (w_end w) :: ops1, ok1)) = (w', ops, ok)).
  { destruct ff; auto. }
  destruct Hcase as [->|Hc].
  - (* the dirty tail could not be removed: nothing happens *)
    injection Hfl as <- <- <-. exists bs, t. split; [exact HV|]. split7; auto using prefix_refl.
    + intros E. rewrite Hd in E. discriminate.
    + constructor. eapply view_P0; eauto.
    + discriminate.
  - destruct (flush_clean true (mkw (w_open w) (w_buf w) (w_end w) false) sz ff)
      as [[w1 ops1] ok1] eqn:Hfc. injection Hc as <- <- <-.
    assert (HV0 : View (fs_step f (OTrunc (w_end w))) ds bs []).
    { rewrite Hend. eapply V_trunc; eauto. }
    destruct (flush_clean_ok ds0 bs0 _ (mkw (w_open w) (w_buf w) (w_end w) false) ds bs sz ff w1 ops1 ok1 HV0 H1 H2 Hend eq_refl Hff Hfc)
      as (bs' & t' & HV' & Hd' & Hp' & He' & Ho' & Hc' & Hl' & Hb').
    exists bs', t'. rewrite fs_run_cons. split; [exact HV'|]. split7; auto.
    constructor; [eapply view_P0; eauto|exact Hc'].
Qed.

Lemma prefix_of_nil {A} (l : list A) : prefix l [] -> l = [].
Proof. intros [x Hx]. symmetry in Hx. now apply app_eq_nil in Hx. Qed.

Lemma cut_pre_FH : 1 <= nlen -> cut FH pre = [(SHdr nlen, FH)].
Proof.
  intros Hn. destruct (pre_cases nlen) as [[H _]|[_ ->]]; [lia|].
  rewrite cut_cons. destruct (N.eqb_spec FH 0); [flia|]. destruct (N.leb_spec FH FH); [|lia].
  now rewrite N.sub_diag, cut_0.
Qed.

Lemma create_chain f (P : fs -> Prop) :
  (forall g, dur g = dur f ->
             (vol g = vol f \/ (exists m, m < pre_len nlen /\ vol g = Some (cut m pre)) \/
              vol g = Some (pre ++ bc [] ++ [])) -> P g) ->
  chain P f (create_ops nlen) /\
  dur (fs_run f (create_ops nlen)) = dur f /\
  vol (fs_run f (create_ops nlen)) = Some (pre ++ bc [] ++ []).
Proof.
  intros HP. unfold create_ops.
  pose proof (pre_len_ge nlen) as Hge.
  assert (S1 : fs_step f OCreate = mkfs (dur f) (Some [])) by reflexivity.
  assert (S2 : fs_step (mkfs (dur f) (Some [])) (OApp (SHdr nlen) FH)
               = mkfs (dur f) (Some [(SHdr nlen, FH)])).
  { unfold fs_step. destruct (N.eqb_spec FH 0); [flia|]. reflexivity. }
  assert (P1 : P (mkfs (dur f) (Some []))).
  { apply HP; [reflexivity|]. right; left. exists 0. split; [flia|]. cbn [vol]. now rewrite cut_0. }
  destruct (pre_cases nlen) as [[Hn E]|[Hn E]].
  - (* no name *)
    assert (S3 : fs_step (mkfs (dur f) (Some [(SHdr nlen, FH)])) (OApp (SName nlen) nlen)
                 = mkfs (dur f) (Some [(SHdr nlen, FH)])).
    { unfold fs_step. destruct (N.eqb_spec nlen 0); [reflexivity|contradiction]. }
    assert (P2 : P (mkfs (dur f) (Some [(SHdr nlen, FH)]))).
    { apply HP; [reflexivity|]. right; right. cbn [vol]. rewrite E. reflexivity. }
    split.
    + constructor; [apply HP; auto|]. rewrite S1. constructor; [exact P1|]. rewrite S2.
      constructor; [exact P2|]. rewrite S3. constructor. exact P2.
    + rewrite !fs_run_cons, S1, S2, S3. cbn [fs_run fold_left dur vol]. rewrite E. auto.
  - (* header, then name *)
    assert (S3 : fs_step (mkfs (dur f) (Some [(SHdr nlen, FH)])) (OApp (SName nlen) nlen)
                 = mkfs (dur f) (Some [(SHdr nlen, FH); (SName nlen, nlen)])).
    { unfold fs_step. destruct (N.eqb_spec nlen 0); [lia|]. reflexivity. }
    assert (P2 : P (mkfs (dur f) (Some [(SHdr nlen, FH)]))).
    { apply HP; [reflexivity|]. right; left. exists FH. split.
      - unfold pre_len. rewrite E. simpl. flia.
      - cbn [vol]. now rewrite cut_pre_FH. }
    assert (P3 : P (mkfs (dur f) (Some [(SHdr nlen, FH); (SName nlen, nlen)]))).
    { apply HP; [reflexivity|]. right; right. cbn [vol]. rewrite E. reflexivity. }
    split.
    + constructor; [apply HP; auto|]. rewrite S1. constructor; [exact P1|]. rewrite S2.
      constructor; [exact P2|]. rewrite S3. constructor. exact P3.
    + rewrite !fs_run_cons, S1, S2, S3. cbn [fs_run fold_left dur vol]. rewrite E. auto.
Qed.

Lemma open_ok f ds bs w' ops :
  Inv f ds bs -> open_file true nlen f = (w', ops) ->
  exists ds',
    View (fs_run f ops) ds' bs [] /\ prefix ds ds' /\
    w_end w' = clen (pre ++ bc bs) /\ w_open w' = true /\ (w_buf w' = [] /\ w_dirty w' = false) /\
    chain (P0 ds bs) f ops.
Proof.
  intros (Hd & Hv & Hp & Hok) Hop. unfold open_file in Hop.
  assert (Hcreate : bs = [] -> (w', ops) = (mkw true [] (pre_len nlen) false, create_ops nlen) ->
          exists ds', View (fs_run f ops) ds' bs [] /\ prefix ds ds' /\
             w_end w' = clen (pre ++ bc bs) /\ w_open w' = true /\ (w_buf w' = [] /\ w_dirty w' = false) /\
             chain (P0 ds bs) f ops).
  { intros -> E. injection E as -> ->. apply prefix_of_nil in Hp. subst ds.
    destruct (create_chain f (P0 [] [])) as (Hc & Hdur & Hvol).
    { intros g Hg Hcase. exists [], []. split; [|split; apply prefix_refl].
      repeat split; auto using prefix_refl.
      - now rewrite Hg.
      - destruct Hcase as [E|[(m & Hm & E)|E]]; rewrite E.
        + exact Hv. + now apply sh_short. + apply sh_full. constructor. }
    exists []. repeat split; auto using prefix_refl.
    - now rewrite Hdur. - constructor.
    - simpl. unfold pre_len. rewrite app_nil_r. reflexivity. }
  inversion Hv as [E Hvol|m E Hm Hvol|t Ht Hvol]; rewrite <- Hvol in Hop.
  - now apply Hcreate.
  - pose proof (clen_cut_le m pre).
    destruct (N.ltb_spec (clen (cut m pre)) (pre_len nlen)); [|lia]. now apply Hcreate.
  - assert (Hlen : clen (pre ++ bc bs ++ t) = clen (pre ++ bc bs) + clen t).
    { now rewrite app_assoc, clen_app. }
    destruct (N.ltb_spec (clen (pre ++ bc bs ++ t)) (pre_len nlen)) as [Hlt|Hge].
    { unfold pre_len in Hlt. rewrite !clen_app in Hlt. lia. }
    rewrite good_len_full in Hop by assumption.
    assert (HV : View f ds bs t) by (repeat split; auto).
    destruct (N.ltb_spec (clen (pre ++ bc bs)) (clen (pre ++ bc bs ++ t))) as [Hdirty|Hclean];
      injection Hop as <- <-.
    + assert (HV1 := V_trunc f ds bs t HV). assert (HV2 := V_fsync _ ds bs HV1).
      exists bs. repeat split; auto; try apply HV2.
      constructor; [eapply view_P0; eauto using prefix_refl|].
      constructor; [eapply view_P0; eauto using prefix_refl|].
      constructor. eapply view_P0; eauto using prefix_refl.
    + assert (t = []) as -> by (apply torn_clen0; [assumption|lia]).
      exists ds. repeat split; auto using prefix_refl; try apply HV.
      constructor. eapply view_P0; eauto using prefix_refl.
Qed.

(* ---------------------------------------------------------------- one API call *)

(* between API calls: the file is well-shaped; while the writer is open its volatile image is
   clean (no torn tail) and the writer's end offset is the end of the last block *)
(* while the writer is open: complete header area, complete blocks, and a torn tail only when
   the writer knows about it (w_dirty = tailDirty); the writer's end offset is the end of the
   last complete block *)
Definition OpenInv (f : fs) (w : wstate) (ds bs : list block) : Prop :=
  exists t, View f ds bs t /\ (w_dirty w = false -> t = []) /\ w_end w = clen (pre ++ bc bs).

Definition SInv (f : fs) (w : wstate) (ds bs : list block) : Prop :=
  Inv f ds bs /\
  (w_open w = true -> OpenInv f w ds bs) /\
  (w_open w = false -> w_buf w = []).

Lemma openinv_inv f w ds bs : OpenInv f w ds bs -> Inv f ds bs.
Proof. intros (t & HV & _). eapply view_inv; eauto. Qed.

Definition sub1 (open : bool) (a : api) : list entry :=
  match a with AWrite e _ => if open then [e] else [] | _ => [] end.

Definition is_close (a : api) : bool := match a with AClose _ _ _ => true | _ => false end.
Definition is_barrier (a : api) : bool :=
  match a with AClose _ _ _ | ASync _ _ _ => true | _ => false end.

Lemma sinv_closed f ds bs : Inv f ds bs -> SInv f w_closed ds bs.
Proof. intros H. split; [exact H|]. split; [discriminate|reflexivity]. Qed.

Definition StepConcl f w ds bs a (w' : wstate) ops (ok : bool) : Prop :=
  exists ds' bs',
    SInv (fs_run f ops) w' ds' bs' /\ prefix ds ds' /\ prefix bs bs' /\
    chain (P0 ds bs) f ops /\
    (is_close a && negb ok = false ->
       elog_of bs' ++ w_buf w' = elog_of bs ++ w_buf w ++ sub1 (w_open w) a) /\
    (is_barrier a = true -> ok = true -> w_open w = true -> ds' = bs' /\ w_buf w' = []).

Lemma step_concl f w ds bs a (w' : wstate) ops ok ds' bs' :
  Inv (fs_run f ops) ds' bs' ->
  (w_open w' = true -> OpenInv (fs_run f ops) w' ds' bs') ->
  (w_open w' = false -> w_buf w' = []) ->
  prefix ds ds' -> prefix bs bs' -> chain (P0 ds bs) f ops ->
  (is_close a && negb ok = false ->
     elog_of bs' ++ w_buf w' = elog_of bs ++ w_buf w ++ sub1 (w_open w) a) ->
  (is_barrier a = true -> ok = true -> w_open w = true -> ds' = bs' /\ w_buf w' = []) ->
  StepConcl f w ds bs a w' ops ok.
Proof. intros. exists ds', bs'. unfold SInv. tauto. Qed.

Ltac disc := intros; first [discriminate | cbn [is_close is_barrier negb andb w_open w_closed] in *; first [discriminate | congruence]].
Ltac pfx := first [apply prefix_refl | assumption].
Ltac vp0 H := eapply view_P0; [exact H | pfx | pfx].

(* HV : View of the final state; HO : OpenInv of the final state (or I when w' is closed) *)
Ltac sc dsx bsx HV HO tchain ttrack tbar :=
  apply step_concl with (ds' := dsx) (bs' := bsx);
  [ eapply view_inv; exact HV
   | first [disc | intros _; exact HO]
   | first [congruence | disc | intros _; reflexivity]
   | pfx | pfx | tchain | ttrack | tbar ].

Lemma step_ok f w ds bs a w' ops ok :
  SInv f w ds bs -> api_ok a -> w_step nlen f w a = (w', ops, ok) ->
  StepConcl f w ds bs a w' ops ok.
Proof.
  intros (HI & Hopen & Hclosed) Hapi Hstep.
  assert (Hnop : forall okk, is_barrier a = false \/ w_open w = false ->
                 sub1 (w_open w) a = [] -> StepConcl f w ds bs a w [] okk).
  { intros okk Hb Hs. apply step_concl with (ds' := ds) (bs' := bs).
    - exact HI. - exact Hopen. - exact Hclosed. - apply prefix_refl. - apply prefix_refl.
    - constructor. exists ds, bs. auto using prefix_refl.
    - intros _. now rewrite Hs, app_nil_r.
    - destruct Hb; congruence. }
  unfold w_step, w_step_gen in Hstep. destruct a as [e fl|sz ff|sz ff sok|sz ff sok| |tr].
  - (* WriteEntry *)
    destruct (w_open w) eqn:Ho; simpl negb in Hstep; cbv iota in Hstep.
    2:{ injection Hstep as <- <- <-. apply Hnop; auto. }
    destruct (Hopen eq_refl) as (t & HV & Hdt & Hend).
    destruct fl as [[sz ff]|].
    + destruct (flush_ok ds bs f (mkw true (w_buf w ++ [e]) (w_end w) (w_dirty w)) ds bs t sz ff w' ops ok
                  HV Hdt (prefix_refl _) (prefix_refl _) Hend Hapi Hstep)
        as (bs' & t' & HV' & Hdt' & Hp' & Hend' & Ho' & Hc & Hlog & Hbuf).
      cbn [w_open w_buf] in Ho', Hlog.
      assert (HO' : OpenInv (fs_run f ops) w' ds bs') by (exists t'; auto).
      sc ds bs' HV' HO' ltac:(idtac; exact Hc)
           ltac:(idtac; intros _; rewrite Hlog; simpl; rewrite Ho; reflexivity) ltac:(idtac; disc).
    + injection Hstep as <- <- <-.
      assert (HO' : OpenInv (fs_run f []) (mkw true (w_buf w ++ [e]) (w_end w) (w_dirty w)) ds bs)
        by (exists t; auto).
      sc ds bs HV HO' ltac:(idtac; constructor; vp0 HV)
           ltac:(idtac; intros _; simpl; rewrite Ho, app_assoc; reflexivity) ltac:(idtac; disc).
  - (* Flush *)
    destruct (w_open w) eqn:Ho; simpl negb in Hstep; cbv iota in Hstep.
    2:{ injection Hstep as <- <- <-. apply Hnop; auto. }
    destruct (Hopen eq_refl) as (t & HV & Hdt & Hend).
    destruct (flush_ok ds bs f w ds bs t sz ff w' ops ok
                HV Hdt (prefix_refl _) (prefix_refl _) Hend Hapi Hstep)
      as (bs' & t' & HV' & Hdt' & Hp' & Hend' & Ho' & Hc & Hlog & Hbuf).
    assert (HO' : OpenInv (fs_run f ops) w' ds bs') by (exists t'; auto).
    sc ds bs' HV' HO' ltac:(idtac; exact Hc)
         ltac:(idtac; intros _; simpl; rewrite app_nil_r; exact Hlog) ltac:(idtac; disc).
  - (* Sync *)
    destruct (w_open w) eqn:Ho; simpl negb in Hstep; cbv iota in Hstep.
    2:{ injection Hstep as <- <- <-. apply Hnop; auto. }
    destruct (Hopen eq_refl) as (t & HV & Hdt & Hend).
    destruct (flush true w sz ff) as [[w1 ops1] ok1] eqn:Hfl.
    destruct (flush_ok ds bs f w ds bs t sz ff w1 ops1 ok1
                HV Hdt (prefix_refl _) (prefix_refl _) Hend Hapi Hfl)
      as (bs' & t' & HV' & Hdt' & Hp' & Hend' & Ho' & Hc & Hlog & Hbuf).
    assert (Hdp : prefix ds bs') by (eapply prefix_trans; [apply HV|exact Hp']).
    destruct ok1; simpl negb in Hstep; cbv iota in Hstep.
    2:{ injection Hstep as <- <- <-.
        assert (HO' : OpenInv (fs_run f ops1) w1 ds bs') by (exists t'; auto).
        sc ds bs' HV' HO' ltac:(idtac; exact Hc)
             ltac:(idtac; intros _; simpl; rewrite app_nil_r; exact Hlog) ltac:(idtac; disc). }
    destruct (Hbuf eq_refl) as [Hbuf1 Hdirty1]. rewrite (Hdt' Hdirty1) in HV'.
    destruct sok; injection Hstep as <- <- <-.
    + assert (HV2 := V_fsync (fs_run f ops1) ds bs' HV').
      assert (HV3 : View (fs_run f (ops1 ++ [OHdr; OFsync])) bs' bs' []).
      { rewrite <- fs_run_app, fs_run_cons, fs_run_one. exact HV2. }
      assert (HO' : OpenInv (fs_run f (ops1 ++ [OHdr; OFsync])) w1 bs' bs') by (exists []; auto).
      sc bs' bs' HV3 HO'
           ltac:(idtac; apply chain_app; [exact Hc|]; constructor; [vp0 HV'|]; constructor; [vp0 HV'|];
                 constructor; vp0 HV2)
           ltac:(idtac; intros _; simpl; rewrite app_nil_r; exact Hlog)
           ltac:(idtac; intros _ _ _; split; [reflexivity|exact Hbuf1]).
    + assert (HV3 : View (fs_run f (ops1 ++ [OHdr])) ds bs' []).
      { rewrite <- fs_run_app, fs_run_one. exact HV'. }
      assert (HO' : OpenInv (fs_run f (ops1 ++ [OHdr])) w1 ds bs') by (exists []; auto).
      sc ds bs' HV3 HO'
           ltac:(idtac; apply chain_app; [exact Hc|]; constructor; [vp0 HV'|]; constructor; vp0 HV')
           ltac:(idtac; intros _; simpl; rewrite app_nil_r; exact Hlog) ltac:(idtac; disc).
  - (* Close *)
    destruct (w_open w) eqn:Ho; simpl negb in Hstep; cbv iota in Hstep.
    2:{ injection Hstep as <- <- <-. apply Hnop; auto. }
    destruct (Hopen eq_refl) as (t & HV & Hdt & Hend).
    destruct (flush true w sz ff) as [[w1 ops1] ok1] eqn:Hfl.
    destruct (flush_ok ds bs f w ds bs t sz ff w1 ops1 ok1
                HV Hdt (prefix_refl _) (prefix_refl _) Hend Hapi Hfl)
      as (bs' & t' & HV' & Hdt' & Hp' & Hend' & Ho' & Hc & Hlog & Hbuf).
    assert (Hdp : prefix ds bs') by (eapply prefix_trans; [apply HV|exact Hp']).
    destruct ok1; simpl negb in Hstep; cbv iota in Hstep.
    2:{ injection Hstep as <- <- <-.
        assert (HV3 : View (fs_run f (ops1 ++ [OClose])) ds bs' t').
        { rewrite <- fs_run_app, fs_run_one. exact HV'. }
        sc ds bs' HV3 I
             ltac:(idtac; apply chain_app; [exact Hc|]; constructor; [vp0 HV'|]; constructor; vp0 HV')
             ltac:(idtac; disc) ltac:(idtac; disc). }
    destruct (Hbuf eq_refl) as [Hbuf1 Hdirty1]. rewrite (Hdt' Hdirty1) in HV'.
    rewrite Hbuf1, app_nil_r in Hlog.
    destruct sok; injection Hstep as <- <- <-.
    + assert (HV2 := V_fsync (fs_run f ops1) ds bs' HV').
      assert (HV3 : View (fs_run f (ops1 ++ [OHdr; OFsync; OClose])) bs' bs' []).
      { rewrite <- fs_run_app, !fs_run_cons. exact HV2. }
      sc bs' bs' HV3 I
           ltac:(idtac; apply chain_app; [exact Hc|]; constructor; [vp0 HV'|]; constructor; [vp0 HV'|];
                 constructor; [vp0 HV2|]; constructor; vp0 HV2)
           ltac:(idtac; intros _; simpl; rewrite !app_nil_r; exact Hlog)
           ltac:(idtac; intros _ _ _; split; reflexivity).
    + assert (HV3 : View (fs_run f (ops1 ++ [OHdr; OClose])) ds bs' []).
      { rewrite <- fs_run_app, !fs_run_cons. exact HV'. }
      sc ds bs' HV3 I
           ltac:(idtac; apply chain_app; [exact Hc|]; constructor; [vp0 HV'|]; constructor; [vp0 HV'|];
                 constructor; vp0 HV')
           ltac:(idtac; disc) ltac:(idtac; disc).
  - (* Open *)
    destruct (w_open w) eqn:Ho.
    { injection Hstep as <- <- <-. apply Hnop; auto. }
    destruct (open_file true nlen f) as [w1 ops1] eqn:Hop. injection Hstep as <- <- <-.
    destruct (open_ok f ds bs w1 ops1 HI Hop) as (ds' & HV & Hp & Hend & Ho1 & [Hb1 Hd1] & Hc).
    assert (HO' : OpenInv (fs_run f ops1) w1 ds' bs) by (exists []; auto).
    sc ds' bs HV HO' ltac:(idtac; exact Hc)
         ltac:(idtac; intros _; simpl; rewrite Hb1, (Hclosed eq_refl), !app_nil_r; reflexivity)
         ltac:(idtac; disc).
  - (* Open that fails while cutting the torn tail off *)
    destruct (w_open w) eqn:Ho.
    { injection Hstep as <- <- <-. apply Hnop; auto. }
    destruct (vol f) as [c|] eqn:Hvol.
    2:{ injection Hstep as <- <- <-. apply Hnop; auto. }
    destruct (true && (pre_len nlen <=? clen c) && (good_len nlen c <? clen c)) eqn:Hcond.
    2:{ injection Hstep as <- <- <-. apply Hnop; auto. }
    injection Hstep as <- <- <-.
    apply andb_true_iff in Hcond as [Hcond _]. apply andb_true_iff in Hcond as [_ Hlen].
    apply N.leb_le in Hlen.
    destruct HI as (Hd & Hv & Hp & Hok). rewrite Hvol in Hv.
    inversion Hv as [|m E Hm Hc|t Ht Hc].
    { exfalso. subst c. pose proof (clen_cut_le m pre). lia. }
    subst c. rewrite good_len_full by assumption.
    assert (HV : View f ds bs t) by (split5; auto).
    assert (HV1 := V_trunc f ds bs t HV).
    destruct tr.
    + apply step_concl with (ds' := ds) (bs' := bs).
      * simpl app. rewrite fs_run_cons, fs_run_one. eapply view_inv; exact HV1.
      * intros E. rewrite Ho in E. discriminate.
      * intros _. apply Hclosed. reflexivity.
      * apply prefix_refl.
      * apply prefix_refl.
      * constructor; [vp0 HV|]. constructor; [vp0 HV1|]. constructor. vp0 HV1.
      * intros _. simpl. now rewrite app_nil_r.
      * intros _ H. discriminate H.
    + apply step_concl with (ds' := ds) (bs' := bs).
      * simpl app. rewrite fs_run_one. eapply view_inv; exact HV.
      * intros E. rewrite Ho in E. discriminate.
      * intros _. apply Hclosed. reflexivity.
      * apply prefix_refl.
      * apply prefix_refl.
      * constructor; [vp0 HV|]. constructor. vp0 HV.
      * intros _. simpl. now rewrite app_nil_r.
      * intros _ H. discriminate H.
Qed.

End WithName.

(* ---------------------------------------------------------------- whole histories *)

Fixpoint no_failed_close (h : list api) (oks : list bool) : bool :=
  match h, oks with
  | a :: t, ok :: oks' => negb (is_close a && negb ok) && no_failed_close t oks'
  | _, _ => true
  end.

Lemma flush_clean_open fixed w sz ff : w_open (fst (fst (flush_clean fixed w sz ff))) = w_open w.
Proof. unfold flush_clean. destruct (w_buf w); [reflexivity|]. destruct ff, fixed; reflexivity. Qed.

Lemma flush_open fixed w sz ff : w_open (fst (fst (flush fixed w sz ff))) = w_open w.
Proof.
  unfold flush. destruct (w_dirty w); [|apply flush_clean_open].
  pose proof (flush_clean_open fixed (mkw (w_open w) (w_buf w) (w_end w) false) sz ff) as E.
  destruct (flush_clean fixed (mkw (w_open w) (w_buf w) (w_end w) false) sz ff) as [[w1 o1] k1].
  destruct ff; exact E || reflexivity.
Qed.

Section Runs.
Variable nlen : N.

Lemma step_open f w a w1 ops ok :
  w_step nlen f w a = (w1, ops, ok) ->
  w_open w1 = match a with AOpen => true | AClose _ _ _ => false | _ => w_open w end.
Proof.
  unfold w_step, w_step_gen. intros H. destruct a as [e fl|sz ff|sz ff sok|sz ff sok| |tr].
  - destruct (w_open w) eqn:Ho; simpl in H.
    + destruct fl as [[sz ff]|].
      * pose proof (flush_open true (mkw true (w_buf w ++ [e]) (w_end w) (w_dirty w)) sz ff) as E.
        rewrite H in E. exact E.
      * now injection H as <- _ _.
    + injection H as <- _ _. exact Ho.
  - destruct (w_open w) eqn:Ho; simpl in H.
    + pose proof (flush_open true w sz ff) as E. rewrite H in E. simpl in E. congruence.
    + injection H as <- _ _. exact Ho.
  - destruct (w_open w) eqn:Ho; simpl in H.
    + pose proof (flush_open true w sz ff) as E.
      destruct (flush true w sz ff) as [[w2 o2] k2]. simpl in E.
      destruct k2; simpl in H; [destruct sok|]; injection H as <- _ _; congruence.
    + injection H as <- _ _. exact Ho.
  - destruct (w_open w) eqn:Ho; simpl in H.
    + destruct (flush true w sz ff) as [[w2 o2] k2].
      destruct k2; simpl in H; [destruct sok|]; now injection H as <- _ _.
    + injection H as <- _ _. exact Ho.
  - destruct (w_open w) eqn:Ho.
    + injection H as <- _ _. exact Ho.
    + unfold open_file in H. destruct (vol f) as [c|].
      * destruct (clen c <? pre_len nlen); [now injection H as <- _ _|].
        now injection H as <- _ _.
      * now injection H as <- _ _.
  - destruct (w_open w) eqn:Ho.
    + injection H as <- _ _. exact Ho.
    + destruct (vol f) as [c|].
      * destruct (true && (pre_len nlen <=? clen c) && (good_len nlen c <? clen c));
          injection H as <- _ _; exact Ho.
      * injection H as <- _ _. exact Ho.
Qed.

Lemma submitted_cons open a t open1 :
  open1 = match a with AOpen => true | AClose _ _ _ => false | _ => open end ->
  submitted open (a :: t) = sub1 open a ++ submitted open1 t.
Proof. intros ->. destruct a as [e fl| | | | |]; simpl; try reflexivity. now destruct open. Qed.

Lemma run_ok h : forall f w ds bs f' w' ops oks,
  SInv nlen f w ds bs -> Forall api_ok h -> w_run nlen f w h = (f', w', ops, oks) ->
  exists ds' bs',
    SInv nlen f' w' ds' bs' /\ prefix ds ds' /\ prefix bs bs' /\
    chain (P0 nlen ds bs) f ops /\ f' = fs_run f ops /\
    (no_failed_close h oks = true ->
       elog_of bs' ++ w_buf w' = elog_of bs ++ w_buf w ++ submitted (w_open w) h).
Proof.
  induction h as [|a t IH]; intros f w ds bs f' w' ops oks HS Hok Hrun.
  - injection Hrun as <- <- <- <-. exists ds, bs. split6; auto using prefix_refl.
    + constructor. exists ds, bs. split3; auto using prefix_refl. apply HS.
    + intros _. simpl. now rewrite app_nil_r.
  - inversion Hok as [|? ? Ha Ht]; subst.
    unfold w_run in Hrun. simpl in Hrun. fold (w_step nlen f w a) in Hrun.
    destruct (w_step nlen f w a) as [[w1 ops1] ok1] eqn:Hstep.
    fold (w_run nlen (fs_run f ops1) w1 t) in Hrun.
    destruct (w_run nlen (fs_run f ops1) w1 t) as [[[f2 w2] ops2] oks2] eqn:Hrest.
    injection Hrun as <- <- <- <-.
    destruct (step_ok nlen f w ds bs a w1 ops1 ok1 HS Ha Hstep)
      as (ds1 & bs1 & HS1 & Hd1 & Hb1 & Hc1 & Htr1 & _).
    destruct (IH _ _ _ _ _ _ _ _ HS1 Ht Hrest)
      as (ds2 & bs2 & HS2 & Hd2 & Hb2 & Hc2 & Hf2 & Htr2).
    exists ds2, bs2. split6; eauto using prefix_trans.
    + apply chain_app; [exact Hc1|]. eapply chain_mono; [|exact Hc2].
      intros g. now apply P0_mono.
    + now rewrite Hf2, fs_run_app.
    + intros Hnf. simpl in Hnf. apply andb_true_iff in Hnf as [Hn1 Hn2].
      apply negb_true_iff in Hn1. rewrite (Htr2 Hn2), app_assoc, (Htr1 Hn1).
      rewrite (submitted_cons (w_open w) a t (w_open w1)) by (eapply step_open; eauto).
      now rewrite <- !app_assoc.
Qed.

Lemma w_run_app h1 : forall h2 f w,
  w_run nlen f w (h1 ++ h2) =
  let '(f1, w1, ops1, oks1) := w_run nlen f w h1 in
  let '(f2, w2, ops2, oks2) := w_run nlen f1 w1 h2 in
  (f2, w2, ops1 ++ ops2, oks1 ++ oks2).
Proof.
  induction h1 as [|a t IH]; intros h2 f w.
  - simpl. destruct (w_run nlen f w h2) as [[[? ?] ?] ?]. reflexivity.
  - unfold w_run in *. simpl. destruct (w_step_gen true nlen f w a) as [[w1 ops1] ok1].
    rewrite IH. destruct (w_run_gen true nlen (fs_run f ops1) w1 t) as [[[f1 w1'] o1] k1].
    assert (E : forall X, fs_run X [] = X) by reflexivity.
    destruct (w_run_gen true nlen f1 w1' h2) as [[[f2 w2] o2] k2]. now rewrite <- app_assoc.
Qed.

Lemma run_fs f w h f' w' ops oks :
  SInv nlen f w (loaded_blocks true (dur f)) (loaded_blocks true (vol f)) ->
  Forall api_ok h -> w_run nlen f w h = (f', w', ops, oks) -> f' = fs_run f ops.
Proof. intros HS Hh Hr. destruct (run_ok h _ _ _ _ _ _ _ _ HS Hh Hr) as (? & ? & ?). tauto. Qed.

(* ================================================================ C02 / C25 statements *)

(* states from which histories may start: any well-shaped file with a closed writer
   (the empty file system; the file system right after any crash) *)
Definition start_ok (f : fs) : Prop :=
  exists ds bs, Inv nlen f ds bs.

Lemma start_empty : start_ok fs_empty.
Proof.
  exists [], []. split4; simpl; try (apply sh_none; reflexivity); [apply prefix_refl|constructor].
Qed.

(* C02, clauses 1-3: crash after ANY prefix of the operations issued by ANY history (with any
   flush placement and any interleaved write faults), ANY crash image: the next load does not
   fail because of a torn tail (the reader errs only when no block was ever complete and the
   header area itself is torn: then the swamp is legitimately empty), and it yields exactly
   the blocks up to some flush boundary that is not before the durable one. The image is
   again a legal start state (so the statement covers repeated crashes). *)
Theorem crash_recovers_boundary f0 h p q img :
  start_ok f0 -> Forall api_ok h ->
  oplog nlen f0 w_closed h = p ++ q ->
  crash_image nlen (fs_run f0 p) img ->
  let D := loaded_blocks true (dur (fs_run f0 p)) in
  let B := loaded_blocks true (vol (fs_run f0 p)) in
  exists cs,
    (recover true img = Some cs \/ (recover true img = None /\ cs = [] /\ D = [])) /\
    prefix D cs /\ prefix cs B /\
    prefix (loaded_blocks true (dur f0)) D /\
    start_ok (fs_crashed img).
Proof.
  intros (ds & bs & HI) Hh Hlog Hci D B.
  unfold oplog, oplog_gen in Hlog. fold (w_run nlen f0 w_closed h) in Hlog.
  destruct (w_run nlen f0 w_closed h) as [[[f' w'] ops] oks] eqn:Hrun. subst ops.
  destruct (run_ok h _ _ _ _ _ _ _ _ (sinv_closed nlen _ _ _ HI) Hh Hrun)
    as (ds' & bs' & _ & _ & _ & Hc & _ & _).
  destruct (chain_prefix _ _ _ Hc p q eq_refl) as (dp & bp & HIp & Hdp & Hbp).
  destruct (crash_image_shaped nlen _ _ _ _ HIp Hci) as (cs & Hsh & H1 & H2).
  destruct (inv_blocks nlen _ _ _ HIp) as [ED EB].
  destruct (inv_blocks nlen _ _ _ HI) as [ED0 _].
  assert (Hokcs : blocks_ok cs).
  { eapply blocks_ok_prefix; [exact H2|]. apply HIp. }
  exists cs. unfold D, B. rewrite ED, EB, ED0. split5; auto.
  - destruct (recover_shaped nlen _ _ Hsh) as [E|[E E2]]; [now left|right].
    split3; auto. subst cs. now apply prefix_of_nil in H1.
  - exists cs, cs. now apply inv_crashed.
Qed.

(* C02 "contains every record that was durably synced" + C25 "later writes are stored":
   after any history (any flush placement, any write faults) in which no Close failed, the
   blocks in the file plus the buffer hold exactly the submitted entries, in order; a
   successful Sync/Close then makes all of them durable. Together with
   [crash_recovers_boundary] (durable blocks are a prefix of every later recovery) nothing
   synced is ever lost. *)
Theorem synced_entries_durable f0 h f1 w1 ops1 oks1 a w2 ops2 :
  start_ok f0 -> Forall api_ok h -> api_ok a -> is_barrier a = true ->
  w_run nlen f0 w_closed h = (f1, w1, ops1, oks1) -> no_failed_close h oks1 = true ->
  w_open w1 = true -> w_step nlen f1 w1 a = (w2, ops2, true) ->
  let f2 := fs_run f1 ops2 in
  elog_of (loaded_blocks true (dur f2)) =
    elog_of (loaded_blocks true (vol f0)) ++ submitted false h /\
  loaded_blocks true (vol f2) = loaded_blocks true (dur f2) /\
  w_buf w2 = [].
Proof.
  intros (ds & bs & HI) Hh Ha Hbar Hrun Hnf Hopen Hstep f2.
  destruct (inv_blocks nlen _ _ _ HI) as [_ EB0].
  destruct (run_ok h _ _ _ _ _ _ _ _ (sinv_closed nlen _ _ _ HI) Hh Hrun)
    as (ds1 & bs1 & HS1 & _ & _ & _ & _ & Htr1).
  specialize (Htr1 Hnf). simpl in Htr1.
  destruct (step_ok nlen f1 w1 ds1 bs1 a w2 ops2 true HS1 Ha Hstep)
    as (ds2 & bs2 & HS2 & _ & _ & _ & Htr2 & Hbar2).
  assert (Hcl : is_close a && negb true = false) by (destruct a; reflexivity).
  specialize (Htr2 Hcl). destruct (Hbar2 Hbar eq_refl Hopen) as [-> Hbuf].
  destruct HS2 as [HI2 _]. destruct (inv_blocks nlen _ _ _ HI2) as [ED2 EB2].
  fold f2 in ED2, EB2. rewrite ED2, EB2, EB0.
  assert (Hsub : sub1 (w_open w1) a = []) by (destruct a; try reflexivity; discriminate).
  rewrite Hbuf, Hsub, !app_nil_r in Htr2. split3; auto.
  now rewrite Htr2, Htr1.
Qed.

(* C25, clause 1 ("data already stored stays readable", "a failed write never hides earlier
   records"): at every moment of every history with arbitrary write faults – after each single
   file operation – the file as the process sees it is loadable and contains every block that
   was complete before, in order (the reader errs only if there never was a complete block
   and the header area is still being written). *)
Theorem stored_stays_readable f0 h p q :
  start_ok f0 -> Forall api_ok h ->
  oplog nlen f0 w_closed h = p ++ q ->
  let B0 := loaded_blocks true (vol f0) in
  let B := loaded_blocks true (vol (fs_run f0 p)) in
  prefix B0 B /\
  (recover true (vol (fs_run f0 p)) = Some B \/
   (recover true (vol (fs_run f0 p)) = None /\ B0 = [] /\ B = [])).
Proof.
  intros (ds & bs & HI) Hh Hlog B0 B.
  unfold oplog, oplog_gen in Hlog. fold (w_run nlen f0 w_closed h) in Hlog.
  destruct (w_run nlen f0 w_closed h) as [[[f' w'] ops] oks] eqn:Hrun. subst ops.
  destruct (run_ok h _ _ _ _ _ _ _ _ (sinv_closed nlen _ _ _ HI) Hh Hrun)
    as (ds' & bs' & _ & _ & _ & Hc & _ & _).
  destruct (chain_prefix _ _ _ Hc p q eq_refl) as (dp & bp & HIp & Hdp & Hbp).
  destruct (inv_blocks nlen _ _ _ HIp) as [_ EB].
  destruct (inv_blocks nlen _ _ _ HI) as [_ EB0].
  unfold B0, B. rewrite EB, EB0. split; [exact Hbp|].
  destruct HIp as (_ & Hv & _ & _).
  destruct (recover_shaped nlen _ _ Hv) as [E|[E E2]]; [now left|right].
  split3; auto. rewrite E2 in Hbp. now apply prefix_of_nil in Hbp.
Qed.

(* what a history leaves in the file when no Close failed: exactly the submitted entries *)
Theorem file_plus_buffer_is_submitted f0 h f1 w1 ops1 oks1 :
  start_ok f0 -> Forall api_ok h ->
  w_run nlen f0 w_closed h = (f1, w1, ops1, oks1) -> no_failed_close h oks1 = true ->
  elog_of (loaded_blocks true (vol f1)) ++ w_buf w1 =
    elog_of (loaded_blocks true (vol f0)) ++ submitted false h.
Proof.
  intros (ds & bs & HI) Hh Hrun Hnf.
  destruct (inv_blocks nlen _ _ _ HI) as [_ EB0].
  destruct (run_ok h _ _ _ _ _ _ _ _ (sinv_closed nlen _ _ _ HI) Hh Hrun)
    as (ds1 & bs1 & HS1 & _ & _ & _ & _ & Htr1).
  specialize (Htr1 Hnf). simpl in Htr1. destruct HS1 as [HI1 _].
  destruct (inv_blocks nlen _ _ _ HI1) as [_ EB1]. now rewrite EB1, EB0.
Qed.

End Runs.
