(* Storage/C02WriterProofs.v — the repaired writer keeps the file well-shaped after every single
   file operation of every API call, whatever the fault oracle does; block lists only grow;
   the entries in the file plus the buffer are exactly what was submitted. *)
From HV Require Import Base.Prelude Storage.C02Fs Storage.C02Writer Storage.C02Crash Storage.C02Proofs.
From Coq Require Import ZifyN ZifyNat ZifyBool Lia.
Local Open Scope N_scope.

Arguments N.eqb : simpl never.
Arguments N.leb : simpl never.
Arguments N.ltb : simpl never.
Arguments N.sub : simpl never.
Arguments N.add : simpl never.

(* a property holds in every state passed while a list of operations is applied *)
Inductive chain (P : fs -> Prop) : fs -> list fsop -> Prop :=
| chain_nil : forall f, P f -> chain P f []
| chain_cons : forall f o t, P f -> chain P (fs_step f o) t -> chain P f (o :: t).

Lemma chain_prefix P f ops : chain P f ops -> forall p q, ops = p ++ q -> P (fs_run f p).
Proof.
  induction 1 as [f Hf|f o t Hf Hc IH]; intros p q E.
  - destruct p; [exact Hf|discriminate].
  - destruct p as [|o' p]; [exact Hf|]. injection E as -> E. simpl. eapply IH; eauto.
Qed.

Lemma chain_here P f ops : chain P f ops -> P f.
Proof. now inversion 1. Qed.

Lemma chain_app P f a b : chain P f a -> chain P (fs_run f a) b -> chain P f (a ++ b).
Proof.
  revert f; induction a as [|o a IH]; intros f Ha Hb; [exact Hb|].
  inversion Ha; subst. simpl. constructor; [assumption|]. apply IH; assumption.
Qed.

Lemma chain_mono (P Q : fs -> Prop) f ops : (forall g, P g -> Q g) -> chain P f ops -> chain Q f ops.
Proof. intros HPQ; induction 1; constructor; auto. Qed.

Lemma fs_run_app f a b : fs_run (fs_run f a) b = fs_run f (a ++ b).
Proof. unfold fs_run. now rewrite fold_left_app. Qed.

Lemma fs_run_one f o : fs_run f [o] = fs_step f o.
Proof. reflexivity. Qed.

Lemma fs_run_cons f o t : fs_run f (o :: t) = fs_run (fs_step f o) t.
Proof. reflexivity. Qed.

Lemma torn_clen0 t : torn t -> clen t = 0 -> t = [].
Proof. intros Ht; inversion Ht; subst; simpl; intros; [reflexivity| |]; flia. Qed.

Opaque pre.

Section WithName.
Variable nlen : N.

Notation pre := (pre nlen).
Notation shaped := (shaped nlen).
Notation Inv := (Inv nlen).

(* volatile file = complete header area, complete blocks [bs], torn tail [t] *)
Definition View (f : fs) (ds bs : list block) (t : content) : Prop :=
  shaped ds (dur f) /\ vol f = Some (pre ++ bc bs ++ t) /\ torn t /\ prefix ds bs /\ blocks_ok bs.

Lemma view_inv f ds bs t : View f ds bs t -> Inv f ds bs.
Proof. intros (Hd & Hv & Ht & Hp & Hok). repeat split; auto. rewrite Hv. now apply sh_full. Qed.

(* "the state is well-shaped and holds at least the blocks ds0 / bs0" *)
Definition P0 (ds0 bs0 : list block) (f : fs) : Prop :=
  exists ds bs, Inv f ds bs /\ prefix ds0 ds /\ prefix bs0 bs.

Lemma view_P0 ds0 bs0 f ds bs t :
  View f ds bs t -> prefix ds0 ds -> prefix bs0 bs -> P0 ds0 bs0 f.
Proof. intros. exists ds, bs. eauto using view_inv. Qed.

Lemma P0_mono ds0 bs0 ds1 bs1 f :
  prefix ds0 ds1 -> prefix bs0 bs1 -> P0 ds1 bs1 f -> P0 ds0 bs0 f.
Proof. intros H1 H2 (ds & bs & HI & Ha & Hb). exists ds, bs. eauto using prefix_trans. Qed.

(* ---- single operations on a view *)

Lemma step_app0 f s : fs_step f (OApp s 0) = f.
Proof. reflexivity. Qed.

Lemma step_app f s n c : n <> 0 -> vol f = Some c ->
  fs_step f (OApp s n) = mkfs (dur f) (Some (c ++ [(s, n)])).
Proof. intros Hn Hv. simpl. destruct (N.eqb_spec n 0); [contradiction|]. now rewrite Hv. Qed.

Lemma V_app_bh f ds bs b j : View f ds bs [] -> 1 <= j <= BH ->
  View (fs_step f (OApp (SBh b) j)) ds bs [(SBh b, j)].
Proof.
  intros (Hd & Hv & Ht & Hp & Hok) Hj. erewrite step_app by (eauto; lia).
  repeat split; simpl; auto. - now rewrite app_nil_r, <- !app_assoc. - now constructor.
Qed.

Lemma V_app_pl_part f ds bs b j : View f ds bs [(SBh b, BH)] -> 1 <= j < b_plen b ->
  View (fs_step f (OApp (SPl b) j)) ds bs [(SBh b, BH); (SPl b, j)].
Proof.
  intros (Hd & Hv & Ht & Hp & Hok) Hj. erewrite step_app by (eauto; lia).
  repeat split; simpl; auto. - now rewrite <- !app_assoc. - now constructor.
Qed.

Lemma V_app_pl_full f ds bs b : View f ds bs [(SBh b, BH)] -> 1 <= b_plen b ->
  View (fs_step f (OApp (SPl b) (b_plen b))) ds (bs ++ [b]) [].
Proof.
  intros (Hd & Hv & Ht & Hp & Hok) Hj. erewrite step_app by (eauto; lia).
  repeat split; simpl; auto.
  - rewrite bc_app, app_nil_r, <- !app_assoc. reflexivity.
  - constructor.
  - destruct Hp as [x ->]. exists (x ++ [b]). now rewrite app_assoc.
  - apply blocks_ok_app; [assumption|]. repeat constructor. assumption.
Qed.

Lemma V_trunc f ds bs t : View f ds bs t ->
  View (fs_step f (OTrunc (clen (pre ++ bc bs)))) ds bs [].
Proof.
  intros (Hd & Hv & Ht & Hp & Hok). simpl. rewrite Hv.
  repeat split; simpl; auto; [|constructor].
  rewrite app_nil_r, app_assoc, cut_app_le by lia. rewrite cut_all; [reflexivity| |lia].
  apply Forall_app. split; [apply cpos_pre|now apply cpos_bc].
Qed.

Lemma V_fsync f ds bs : View f ds bs [] -> View (fs_step f OFsync) bs bs [].
Proof.
  intros (Hd & Hv & Ht & Hp & Hok). simpl. repeat split; simpl; auto using prefix_refl.
  rewrite Hv. apply sh_full. constructor.
Qed.

(* ---- writing (a prefix of) one block *)

Lemma bw_short ds0 bs0 f ds bs b j :
  View f ds bs [] -> prefix ds0 ds -> prefix bs0 bs -> 1 <= b_plen b -> j < blen b ->
  exists t, View (fs_run f (block_write_ops b j)) ds bs t /\
            chain (P0 ds0 bs0) f (block_write_ops b j).
Proof.
  intros HV H1 H2 Hb Hj. unfold block_write_ops, blen in *.
  destruct (N.leb_spec j BH) as [Hle|Hgt].
  - destruct (N.eq_dec j 0) as [->|Hnz].
    + exists []. rewrite fs_run_one, step_app0. split; [assumption|].
      constructor; [eapply view_P0; eauto|]. rewrite step_app0. constructor. eapply view_P0; eauto.
    + exists [(SBh b, j)]. assert (HV' := V_app_bh f ds bs b j HV ltac:(lia)).
      split; [exact HV'|]. constructor; [eapply view_P0; eauto|]. constructor. eapply view_P0; eauto.
  - assert (HV1 := V_app_bh f ds bs b BH HV ltac:(flia)).
    assert (HV2 := V_app_pl_part _ ds bs b (j - BH) HV1 ltac:(lia)).
    exists [(SBh b, BH); (SPl b, j - BH)]. split; [exact HV2|].
    constructor; [eapply view_P0; eauto|]. constructor; [eapply view_P0; eauto|].
    constructor. eapply view_P0; eauto.
Qed.

Lemma bw_full ds0 bs0 f ds bs b :
  View f ds bs [] -> prefix ds0 ds -> prefix bs0 bs -> 1 <= b_plen b ->
  View (fs_run f (block_write_ops b (blen b))) ds (bs ++ [b]) [] /\
  chain (P0 ds0 bs0) f (block_write_ops b (blen b)).
Proof.
  intros HV H1 H2 Hb. unfold block_write_ops, blen.
  destruct (N.leb_spec (BH + b_plen b) BH) as [Hle|Hgt]; [lia|].
  replace (BH + b_plen b - BH) with (b_plen b) by lia.
  assert (HV1 := V_app_bh f ds bs b BH HV ltac:(flia)).
  assert (HV2 := V_app_pl_full _ ds bs b HV1 Hb).
  split; [exact HV2|].
  constructor; [eapply view_P0; eauto|]. constructor; [eapply view_P0; eauto|].
  constructor. eapply view_P0; eauto. eapply prefix_trans; eauto using prefix_app.
Qed.

(* ---- flushLocked *)

Lemma elog_app a b : elog_of (a ++ b) = elog_of a ++ elog_of b.
Proof. unfold elog_of. now rewrite flat_map_app. Qed.

Ltac split3 := split; [|split].
Ltac split4 := split; [|split; [|split]].
Ltac split5 := split; [|split; [|split; [|split]]].
Ltac split6 := split; [|split; [|split; [|split; [|split]]]].
Ltac split7 := split; [|split; [|split; [|split; [|split; [|split]]]]].

Lemma flush_ok ds0 bs0 f w ds bs sz ff w' ops ok :
  View f ds bs [] -> prefix ds0 ds -> prefix bs0 bs ->
  w_end w = clen (pre ++ bc bs) -> ff_ok sz ff ->
  flush true w sz ff = (w', ops, ok) ->
  exists bs',
    View (fs_run f ops) ds bs' [] /\ prefix bs bs' /\
    w_end w' = clen (pre ++ bc bs') /\ w_open w' = w_open w /\
    chain (P0 ds0 bs0) f ops /\
    elog_of bs' ++ w_buf w' = elog_of bs ++ w_buf w /\
    (ok = true -> w_buf w' = []).
Proof.
  intros HV H1 H2 Hend [Hsz Hff] Hfl. unfold flush in Hfl.
  destruct (w_buf w) as [|e es] eqn:Hbuf.
  { injection Hfl as <- <- <-. exists bs. split7; auto using prefix_refl.
    - constructor. eapply view_P0; eauto.
    - now rewrite Hbuf. }
  set (b := mkblock (e :: es) sz) in *.
  assert (Hb : 1 <= b_plen b) by exact Hsz.
  assert (Hfull : forall okk, exists bs',
    View (fs_run f (block_write_ops b (blen b) ++ [OHdr])) ds bs' [] /\ prefix bs bs' /\
    w_end (mkw (w_open w) [] (w_end w + blen b)) = clen (pre ++ bc bs') /\
    w_open (mkw (w_open w) [] (w_end w + blen b)) = w_open w /\
    chain (P0 ds0 bs0) f (block_write_ops b (blen b) ++ [OHdr]) /\
    elog_of bs' ++ w_buf (mkw (w_open w) [] (w_end w + blen b)) = elog_of bs ++ e :: es /\
    (okk = true -> w_buf (mkw (w_open w) [] (w_end w + blen b)) = [])).
  { intros okk. destruct (bw_full ds0 bs0 f ds bs b HV H1 H2 Hb) as [HV2 Hc].
    exists (bs ++ [b]). rewrite <- fs_run_app, fs_run_one.
    split7; auto using prefix_app.
    + cbn [w_end]. rewrite Hend, bc_app, !clen_app. unfold blen. simpl. lia.
    + apply chain_app; [exact Hc|]. constructor; [eapply view_P0; eauto|].
      * eapply prefix_trans; eauto using prefix_app.
      * constructor. eapply view_P0; eauto. eapply prefix_trans; eauto using prefix_app.
    + cbn [w_buf]. rewrite elog_app, app_nil_r. simpl. now rewrite app_nil_r. }
  destruct ff as [|j|].
  - injection Hfl as <- <- <-. apply Hfull.
  - (* short write: cut back, keep the entries *)
    injection Hfl as <- <- <-.
    destruct (bw_short ds0 bs0 f ds bs b j HV H1 H2 Hb ltac:(unfold blen; exact Hff)) as (t & HVt & Hc).
    assert (HV3 := V_trunc _ ds bs t HVt).
    exists bs. rewrite <- fs_run_app, fs_run_one, Hend.
    split7; auto using prefix_refl.
    + apply chain_app; [exact Hc|]. constructor; [eapply view_P0; eauto|].
      constructor. eapply view_P0; eauto.
    + now rewrite Hbuf.
    + discriminate.
  - injection Hfl as <- <- <-. apply Hfull.
Qed.

(* ---- NewFileWriter: create / open existing *)

Lemma prefix_of_nil {A} (l : list A) : prefix l [] -> l = [].
Proof. intros [x Hx]. symmetry in Hx. now apply app_eq_nil in Hx. Qed.

Lemma cut_pre_FH : 1 <= nlen -> cut FH pre = [(SHdr nlen, FH)].
Proof.
  intros Hn. destruct (pre_cases nlen) as [[H _]|[_ ->]]; [lia|].
  rewrite cut_cons. destruct (N.eqb_spec FH 0); [flia|]. destruct (N.leb_spec FH FH); [|lia].
  now rewrite N.sub_diag, cut_0.
Qed.

Lemma create_chain f (P : fs -> Prop) :
  (forall g, dur g = dur f ->
             (vol g = vol f \/ (exists m, m < pre_len nlen /\ vol g = Some (cut m pre)) \/
              vol g = Some (pre ++ bc [] ++ [])) -> P g) ->
  chain P f (create_ops nlen) /\
  dur (fs_run f (create_ops nlen)) = dur f /\
  vol (fs_run f (create_ops nlen)) = Some (pre ++ bc [] ++ []).
Proof.
  intros HP. unfold create_ops.
  pose proof (pre_len_ge nlen) as Hge.
  assert (S1 : fs_step f OCreate = mkfs (dur f) (Some [])) by reflexivity.
  assert (S2 : fs_step (mkfs (dur f) (Some [])) (OApp (SHdr nlen) FH)
               = mkfs (dur f) (Some [(SHdr nlen, FH)])).
  { unfold fs_step. destruct (N.eqb_spec FH 0); [flia|]. reflexivity. }
  assert (P1 : P (mkfs (dur f) (Some []))).
  { apply HP; [reflexivity|]. right; left. exists 0. split; [flia|]. cbn [vol]. now rewrite cut_0. }
  destruct (pre_cases nlen) as [[Hn E]|[Hn E]].
  - (* no name *)
    assert (S3 : fs_step (mkfs (dur f) (Some [(SHdr nlen, FH)])) (OApp (SName nlen) nlen)
                 = mkfs (dur f) (Some [(SHdr nlen, FH)])).
    { unfold fs_step. destruct (N.eqb_spec nlen 0); [reflexivity|contradiction]. }
    assert (P2 : P (mkfs (dur f) (Some [(SHdr nlen, FH)]))).
    { apply HP; [reflexivity|]. right; right. cbn [vol]. rewrite E. reflexivity. }
    split.
    + constructor; [apply HP; auto|]. rewrite S1. constructor; [exact P1|]. rewrite S2.
      constructor; [exact P2|]. rewrite S3. constructor. exact P2.
    + rewrite !fs_run_cons, S1, S2, S3. cbn [fs_run fold_left dur vol]. rewrite E. auto.
  - (* header, then name *)
    assert (S3 : fs_step (mkfs (dur f) (Some [(SHdr nlen, FH)])) (OApp (SName nlen) nlen)
                 = mkfs (dur f) (Some [(SHdr nlen, FH); (SName nlen, nlen)])).
    { unfold fs_step. destruct (N.eqb_spec nlen 0); [lia|]. reflexivity. }
    assert (P2 : P (mkfs (dur f) (Some [(SHdr nlen, FH)]))).
    { apply HP; [reflexivity|]. right; left. exists FH. split.
      - unfold pre_len. rewrite E. simpl. flia.
      - cbn [vol]. now rewrite cut_pre_FH. }
    assert (P3 : P (mkfs (dur f) (Some [(SHdr nlen, FH); (SName nlen, nlen)]))).
    { apply HP; [reflexivity|]. right; right. cbn [vol]. rewrite E. reflexivity. }
    split.
    + constructor; [apply HP; auto|]. rewrite S1. constructor; [exact P1|]. rewrite S2.
      constructor; [exact P2|]. rewrite S3. constructor. exact P3.
    + rewrite !fs_run_cons, S1, S2, S3. cbn [fs_run fold_left dur vol]. rewrite E. auto.
Qed.

Lemma open_ok f ds bs w' ops :
  Inv f ds bs -> open_file true nlen f = (w', ops) ->
  exists ds',
    View (fs_run f ops) ds' bs [] /\ prefix ds ds' /\
    w_end w' = clen (pre ++ bc bs) /\ w_open w' = true /\ w_buf w' = [] /\
    chain (P0 ds bs) f ops.
Proof.
  intros (Hd & Hv & Hp & Hok) Hop. unfold open_file in Hop.
  assert (Hcreate : bs = [] -> (w', ops) = (mkw true [] (pre_len nlen), create_ops nlen) ->
          exists ds', View (fs_run f ops) ds' bs [] /\ prefix ds ds' /\
             w_end w' = clen (pre ++ bc bs) /\ w_open w' = true /\ w_buf w' = [] /\
             chain (P0 ds bs) f ops).
  { intros -> E. injection E as -> ->. apply prefix_of_nil in Hp. subst ds.
    destruct (create_chain f (P0 [] [])) as (Hc & Hdur & Hvol).
    { intros g Hg Hcase. exists [], []. split; [|split; apply prefix_refl].
      repeat split; auto using prefix_refl.
      - now rewrite Hg.
      - destruct Hcase as [E|[(m & Hm & E)|E]]; rewrite E.
        + exact Hv. + now apply sh_short. + apply sh_full. constructor. }
    exists []. repeat split; auto using prefix_refl.
    - now rewrite Hdur. - constructor.
    - simpl. unfold pre_len. rewrite app_nil_r. reflexivity. }
  inversion Hv as [E Hvol|m E Hm Hvol|t Ht Hvol]; rewrite <- Hvol in Hop.
  - now apply Hcreate.
  - pose proof (clen_cut_le m pre).
    destruct (N.ltb_spec (clen (cut m pre)) (pre_len nlen)); [|lia]. now apply Hcreate.
  - assert (Hlen : clen (pre ++ bc bs ++ t) = clen (pre ++ bc bs) + clen t).
    { now rewrite app_assoc, clen_app. }
    destruct (N.ltb_spec (clen (pre ++ bc bs ++ t)) (pre_len nlen)) as [Hlt|Hge].
    { unfold pre_len in Hlt. rewrite !clen_app in Hlt. lia. }
    rewrite good_len_full in Hop by assumption.
    assert (HV : View f ds bs t) by (repeat split; auto).
    destruct (N.ltb_spec (clen (pre ++ bc bs)) (clen (pre ++ bc bs ++ t))) as [Hdirty|Hclean];
      injection Hop as <- <-.
    + assert (HV1 := V_trunc f ds bs t HV). assert (HV2 := V_fsync _ ds bs HV1).
      exists bs. repeat split; auto; try apply HV2.
      constructor; [eapply view_P0; eauto using prefix_refl|].
      constructor; [eapply view_P0; eauto using prefix_refl|].
      constructor. eapply view_P0; eauto using prefix_refl.
    + assert (t = []) as -> by (apply torn_clen0; [assumption|lia]).
      exists ds. repeat split; auto using prefix_refl; try apply HV.
      constructor. eapply view_P0; eauto using prefix_refl.
Qed.

(* ---------------------------------------------------------------- one API call *)

(* between API calls: the file is well-shaped; while the writer is open its volatile image is
   clean (no torn tail) and the writer's end offset is the end of the last block *)
Definition SInv (f : fs) (w : wstate) (ds bs : list block) : Prop :=
  Inv f ds bs /\
  (w_open w = true -> View f ds bs [] /\ w_end w = clen (pre ++ bc bs)) /\
  (w_open w = false -> w_buf w = []).

Definition sub1 (open : bool) (a : api) : list entry :=
  match a with AWrite e _ => if open then [e] else [] | _ => [] end.

Definition is_close (a : api) : bool := match a with AClose _ _ _ => true | _ => false end.
Definition is_barrier (a : api) : bool :=
  match a with AClose _ _ _ | ASync _ _ _ => true | _ => false end.

Lemma sinv_closed f ds bs : Inv f ds bs -> SInv f w_closed ds bs.
Proof. intros H. split; [exact H|]. split; [discriminate|reflexivity]. Qed.

Definition StepConcl f w ds bs a (w' : wstate) ops (ok : bool) : Prop :=
  exists ds' bs',
    SInv (fs_run f ops) w' ds' bs' /\ prefix ds ds' /\ prefix bs bs' /\
    chain (P0 ds bs) f ops /\
    (is_close a && negb ok = false ->
       elog_of bs' ++ w_buf w' = elog_of bs ++ w_buf w ++ sub1 (w_open w) a) /\
    (is_barrier a = true -> ok = true -> w_open w = true -> ds' = bs' /\ w_buf w' = []).

Lemma step_concl f w ds bs a (w' : wstate) ops ok ds' bs' :
  Inv (fs_run f ops) ds' bs' ->
  (w_open w' = true -> View (fs_run f ops) ds' bs' [] /\ w_end w' = clen (pre ++ bc bs')) ->
  (w_open w' = false -> w_buf w' = []) ->
  prefix ds ds' -> prefix bs bs' -> chain (P0 ds bs) f ops ->
  (is_close a && negb ok = false ->
     elog_of bs' ++ w_buf w' = elog_of bs ++ w_buf w ++ sub1 (w_open w) a) ->
  (is_barrier a = true -> ok = true -> w_open w = true -> ds' = bs' /\ w_buf w' = []) ->
  StepConcl f w ds bs a w' ops ok.
Proof. intros. exists ds', bs'. unfold SInv. tauto. Qed.

Ltac disc := intros; first [discriminate | cbn [is_close is_barrier negb andb w_open w_closed] in *; first [discriminate | congruence]].
Ltac pfx := first [apply prefix_refl | assumption].
Ltac vp0 H := eapply view_P0; [exact H | pfx | pfx].

Ltac sc dsx bsx HV Hend tchain ttrack tbar :=
  apply step_concl with (ds' := dsx) (bs' := bsx);
  [ eapply view_inv; exact HV
   | first [disc | intros _; split; [exact HV | exact Hend]]
   | first [congruence | disc | intros _; reflexivity]
   | pfx | pfx | tchain | ttrack | tbar ].

Lemma step_ok f w ds bs a w' ops ok :
  SInv f w ds bs -> api_ok a -> w_step nlen f w a = (w', ops, ok) ->
  StepConcl f w ds bs a w' ops ok.
Proof.
  intros (HI & Hopen & Hclosed) Hapi Hstep.
  assert (Hnop : forall okk, is_barrier a = false \/ w_open w = false ->
                 sub1 (w_open w) a = [] -> StepConcl f w ds bs a w [] okk).
  { intros okk Hb Hs. apply step_concl with (ds' := ds) (bs' := bs).
    - exact HI. - exact Hopen. - exact Hclosed. - apply prefix_refl. - apply prefix_refl.
    - constructor. exists ds, bs. auto using prefix_refl.
    - intros _. now rewrite Hs, app_nil_r.
    - destruct Hb; congruence. }
  unfold w_step, w_step_gen in Hstep. destruct a as [e fl|sz ff|sz ff sok|sz ff sok|].
  - (* WriteEntry *)
    destruct (w_open w) eqn:Ho; simpl negb in Hstep; cbv iota in Hstep.
    2:{ injection Hstep as <- <- <-. apply Hnop; auto. }
    destruct (Hopen eq_refl) as [HV Hend].
    destruct fl as [[sz ff]|].
    + destruct (flush_ok ds bs f (mkw true (w_buf w ++ [e]) (w_end w)) ds bs sz ff w' ops ok
                  HV (prefix_refl _) (prefix_refl _) Hend Hapi Hstep)
        as (bs' & HV' & Hp' & Hend' & Ho' & Hc & Hlog & Hbuf).
      cbn [w_open w_buf] in Ho', Hlog.
      sc ds bs' HV' Hend'  ltac:(idtac; exact Hc)
           ltac:(idtac; intros _; rewrite Hlog; simpl; rewrite Ho; reflexivity) ltac:(idtac; disc).
    + injection Hstep as <- <- <-.
      sc ds bs HV Hend  ltac:(idtac; constructor; vp0 HV)
           ltac:(idtac; intros _; simpl; rewrite Ho, app_assoc; reflexivity) ltac:(idtac; disc).
  - (* Flush *)
    destruct (w_open w) eqn:Ho; simpl negb in Hstep; cbv iota in Hstep.
    2:{ injection Hstep as <- <- <-. apply Hnop; auto. }
    destruct (Hopen eq_refl) as [HV Hend].
    destruct (flush_ok ds bs f w ds bs sz ff w' ops ok
                HV (prefix_refl _) (prefix_refl _) Hend Hapi Hstep)
      as (bs' & HV' & Hp' & Hend' & Ho' & Hc & Hlog & Hbuf).
    sc ds bs' HV' Hend'  ltac:(idtac; exact Hc)
         ltac:(idtac; intros _; simpl; rewrite app_nil_r; exact Hlog) ltac:(idtac; disc).
  - (* Sync *)
    destruct (w_open w) eqn:Ho; simpl negb in Hstep; cbv iota in Hstep.
    2:{ injection Hstep as <- <- <-. apply Hnop; auto. }
    destruct (Hopen eq_refl) as [HV Hend].
    destruct (flush true w sz ff) as [[w1 ops1] ok1] eqn:Hfl.
    destruct (flush_ok ds bs f w ds bs sz ff w1 ops1 ok1
                HV (prefix_refl _) (prefix_refl _) Hend Hapi Hfl)
      as (bs' & HV' & Hp' & Hend' & Ho' & Hc & Hlog & Hbuf).
    assert (Hdp : prefix ds bs') by (eapply prefix_trans; [apply HV|exact Hp']).
    destruct ok1; simpl negb in Hstep; cbv iota in Hstep.
    2:{ injection Hstep as <- <- <-.
        sc ds bs' HV' Hend'  ltac:(idtac; exact Hc)
             ltac:(idtac; intros _; simpl; rewrite app_nil_r; exact Hlog) ltac:(idtac; disc). }
    destruct sok; injection Hstep as <- <- <-.
    + assert (HV2 := V_fsync (fs_run f ops1) ds bs' HV').
      assert (HV3 : View (fs_run f (ops1 ++ [OHdr; OFsync])) bs' bs' []).
      { rewrite <- fs_run_app, fs_run_cons, fs_run_one. exact HV2. }
      sc bs' bs' HV3 Hend' 
           ltac:(idtac; apply chain_app; [exact Hc|]; constructor; [vp0 HV'|]; constructor; [vp0 HV'|];
                 constructor; vp0 HV2)
           ltac:(idtac; intros _; simpl; rewrite app_nil_r; exact Hlog)
           ltac:(idtac; intros _ _ _; split; [reflexivity|apply Hbuf; reflexivity]).
    + assert (HV3 : View (fs_run f (ops1 ++ [OHdr])) ds bs' []).
      { rewrite <- fs_run_app, fs_run_one. exact HV'. }
      sc ds bs' HV3 Hend' 
           ltac:(idtac; apply chain_app; [exact Hc|]; constructor; [vp0 HV'|]; constructor; vp0 HV')
           ltac:(idtac; intros _; simpl; rewrite app_nil_r; exact Hlog) ltac:(idtac; disc).
  - (* Close *)
    destruct (w_open w) eqn:Ho; simpl negb in Hstep; cbv iota in Hstep.
    2:{ injection Hstep as <- <- <-. apply Hnop; auto. }
    destruct (Hopen eq_refl) as [HV Hend].
    destruct (flush true w sz ff) as [[w1 ops1] ok1] eqn:Hfl.
    destruct (flush_ok ds bs f w ds bs sz ff w1 ops1 ok1
                HV (prefix_refl _) (prefix_refl _) Hend Hapi Hfl)
      as (bs' & HV' & Hp' & Hend' & Ho' & Hc & Hlog & Hbuf).
    assert (Hdp : prefix ds bs') by (eapply prefix_trans; [apply HV|exact Hp']).
    destruct ok1; simpl negb in Hstep; cbv iota in Hstep.
    2:{ injection Hstep as <- <- <-.
        assert (HV3 : View (fs_run f (ops1 ++ [OClose])) ds bs' []).
        { rewrite <- fs_run_app, fs_run_one. exact HV'. }
        sc ds bs' HV3 Hend' 
             ltac:(idtac; apply chain_app; [exact Hc|]; constructor; [vp0 HV'|]; constructor; vp0 HV')
             ltac:(idtac; disc) ltac:(idtac; disc). }
    specialize (Hbuf eq_refl). rewrite Hbuf, app_nil_r in Hlog.
    destruct sok; injection Hstep as <- <- <-.
    + assert (HV2 := V_fsync (fs_run f ops1) ds bs' HV').
      assert (HV3 : View (fs_run f (ops1 ++ [OHdr; OFsync; OClose])) bs' bs' []).
      { rewrite <- fs_run_app, !fs_run_cons. exact HV2. }
      sc bs' bs' HV3 Hend' 
           ltac:(idtac; apply chain_app; [exact Hc|]; constructor; [vp0 HV'|]; constructor; [vp0 HV'|];
                 constructor; [vp0 HV2|]; constructor; vp0 HV2)
           ltac:(idtac; intros _; simpl; rewrite !app_nil_r; exact Hlog)
           ltac:(idtac; intros _ _ _; split; reflexivity).
    + assert (HV3 : View (fs_run f (ops1 ++ [OHdr; OClose])) ds bs' []).
      { rewrite <- fs_run_app, !fs_run_cons. exact HV'. }
      sc ds bs' HV3 Hend' 
           ltac:(idtac; apply chain_app; [exact Hc|]; constructor; [vp0 HV'|]; constructor; [vp0 HV'|];
                 constructor; vp0 HV')
           ltac:(idtac; disc) ltac:(idtac; disc).
  - (* Open *)
    destruct (w_open w) eqn:Ho.
    { injection Hstep as <- <- <-. apply Hnop; auto. }
    destruct (open_file true nlen f) as [w1 ops1] eqn:Hop. injection Hstep as <- <- <-.
    destruct (open_ok f ds bs w1 ops1 HI Hop) as (ds' & HV & Hp & Hend & Ho1 & Hb1 & Hc).
    sc ds' bs HV Hend  ltac:(idtac; exact Hc)
         ltac:(idtac; intros _; simpl; rewrite Hb1, (Hclosed eq_refl), !app_nil_r; reflexivity)
         ltac:(idtac; disc).
Qed.

End WithName.
