(* Storage/ChronProofs.v — the chronicler (ChronV2.v) is a client of the writer: every history
   of Write/Sync/Close calls performs a run of the writer model, a treasure is acknowledged
   exactly when its WriteEntry succeeded, and therefore (ReplayProofs) what is on disk after
   the last Close loads to the last-writer-wins state of the treasures written. *)
From HV Require Import Base.Prelude Storage.Format Storage.FormatProofs Storage.Lww Storage.LwwProofs
  Storage.Writer Storage.WriterProofs Storage.Reader Storage.ReaderProofs Storage.ReplayProofs
  Storage.ChronV2.
Local Open Scope N_scope.

Section ChronGeneric.
Variables (K D NM : Type).
Variables (klen : K -> N) (dlen : D -> N) (nmlen : NM -> N).
Variable cfits : list (lentry K D) -> bool.
Variable guard : bool.
Variable dnil : D.

Notation run := (run K D NM klen dlen nmlen cfits guard).
Notation step := (step K D NM klen dlen nmlen cfits guard).
Notation write_all := (write_all K D NM klen dlen nmlen cfits guard dnil).
Notation cstep := (cstep K D NM klen dlen nmlen cfits guard dnil).
Notation crun := (crun K D NM klen dlen nmlen cfits guard dnil).
Notation entry_of := (entry_of K D dnil).

Lemma run_app ops1 : forall ops2 st st1 rs1 st2 rs2,
  run st ops1 = (st1, rs1) -> run st1 ops2 = (st2, rs2) -> run st (ops1 ++ ops2) = (st2, rs1 ++ rs2).
Proof.
  induction ops1 as [|op ops1 IH]; intros ops2 st st1 rs1 st2 rs2.
  - cbn. intro H; inversion H; subst. auto.
  - cbn [Writer.run app]. destruct (step st op) as [sa r]. destruct (run sa ops1) as [sb rsb] eqn:E.
    intro H; inversion H; subst. intro H2. rewrite (IH _ _ _ _ _ _ E H2). reflexivity.
Qed.

(* entries the chronicler submits for a batch, in order *)
Definition batch_entries (ts : list (treasure K D * bool)) : list (lentry K D) :=
  flat_map (fun p => match entry_of (fst p) with Some e => [e] | None => [] end) ts.

Lemma write_all_run ts : forall st st' tr acks,
  write_all st ts = (st', tr, acks) ->
  run st (map fst tr) = (st', map snd tr) /\ flat_map ents (map fst tr) = batch_entries ts /\
  length acks = length ts.
Proof.
  induction ts as [|[t fl] ts IH]; intros st st' tr acks; cbn [ChronV2.write_all].
  - intro H; inversion H; subst. cbn. auto.
  - unfold batch_entries. cbn [flat_map fst]. destruct (entry_of t) as [e|].
    + destruct (step st (OWrite e fl)) as [st1 res] eqn:E1.
      destruct (write_all st1 ts) as [[st2 tr2] a2] eqn:E2. intro H; inversion H; subst.
      destruct (IH _ _ _ _ E2) as (Hr & He & Hl). cbn [map fst snd Writer.run flat_map ents app].
      rewrite E1, Hr. split; [reflexivity|]. split; [now rewrite He | cbn; now rewrite Hl].
    + destruct (write_all st ts) as [[st2 tr2] a2] eqn:E2. intro H; inversion H; subst.
      destruct (IH _ _ _ _ E2) as (Hr & He & Hl). split; [exact Hr|]. split; [exact He | cbn; now rewrite Hl].
Qed.

Definition cop_entries (c : cop K D) : list (lentry K D) :=
  match c with CWrite ts => batch_entries ts | _ => [] end.

(* every chronicler call is a run of the writer; if all writer calls succeeded, the entries
   written are exactly those of the treasures *)
Lemma cstep_run name st c st' tr acks :
  cstep name st c = (st', tr, acks) ->
  run st (map fst tr) = (st', map snd tr) /\
  (all_ok (map snd tr) = true -> flat_map ents (map fst tr) = cop_entries c).
Proof.
  destruct c as [ts| |]; cbn [ChronV2.cstep cop_entries].
  - destruct ts as [|p ts]; [intro H; inversion H; subst; cbn; auto|].
    destruct (s_w st) eqn:Ew.
    + intro H. destruct (write_all_run _ _ _ _ _ H) as (Hr & He & _). auto.
    + destruct (step st (OOpen name)) as [st1 r] eqn:E1. destruct r.
      * destruct (write_all st1 (p :: ts)) as [[st2 tr2] a2] eqn:E2. intro H; inversion H; subst.
        destruct (write_all_run _ _ _ _ _ E2) as (Hr & He & _).
        cbn [map fst snd Writer.run flat_map ents app]. rewrite E1, Hr. auto.
      * intro H; inversion H; subst. cbn [map fst snd Writer.run]. rewrite E1. split; [reflexivity|].
        cbn. discriminate.
  - destruct (s_w st); [|intro H; inversion H; subst; cbn; auto].
    destruct (step st OSync) as [st1 r] eqn:E1. intro H; inversion H; subst. cbn [map fst snd Writer.run]. rewrite E1. cbn. auto.
  - destruct (s_w st); [|intro H; inversion H; subst; cbn; auto].
    destruct (step st OClose) as [st1 r] eqn:E1. intro H; inversion H; subst. cbn [map fst snd Writer.run]. rewrite E1. cbn. auto.
Qed.

Lemma all_ok_app a b : all_ok (a ++ b) = all_ok a && all_ok b.
Proof. unfold all_ok. apply forallb_app. Qed.

Theorem crun_run name cs : forall st st' tr acks,
  crun name st cs = (st', tr, acks) ->
  run st (map fst tr) = (st', map snd tr) /\
  (all_ok (map snd tr) = true -> flat_map ents (map fst tr) = flat_map cop_entries cs).
Proof.
  induction cs as [|c cs IH]; intros st st' tr acks; cbn [ChronV2.crun].
  - intro H; inversion H; subst. cbn. auto.
  - destruct (cstep name st c) as [[st1 tr1] a1] eqn:E1.
    destruct (crun name st1 cs) as [[st2 tr2] a2] eqn:E2. intro H; inversion H; subst.
    destruct (cstep_run _ _ _ _ _ _ E1) as (Hr1 & He1). destruct (IH _ _ _ _ E2) as (Hr2 & He2).
    rewrite !map_app. split; [exact (run_app _ _ _ _ _ _ _ Hr1 Hr2)|].
    rewrite all_ok_app. intro Hok. apply andb_true_iff in Hok as [H1 H2].
    cbn [flat_map]. now rewrite flat_map_app, He1, He2.
Qed.

(* the treasure-level history of a batch is the history of its entries *)
Lemma batch_writes ts :
  writes_of K D (batch_entries ts) = flat_map (fun p => twrite K D (fst p)) ts.
Proof.
  unfold batch_entries, writes_of. induction ts as [|[t fl] ts IH]; [reflexivity|].
  cbn [flat_map fst]. rewrite flat_map_app, IH. f_equal.
  unfold ChronV2.entry_of, twrite. destruct (t_deleted t); [reflexivity|].
  destruct (t_enc t); [|reflexivity]. cbn. destruct (t_hasfile t); reflexivity.
Qed.

End ChronGeneric.

Definition cop_writes {K D} (c : cop K D) : list (wr K D) :=
  match c with CWrite ts => flat_map (fun p => twrite K D (fst p)) ts | _ => [] end.

(* MAIN (chronicler level): any history of Write/Sync/Close calls on a fresh swamp, any flush
   placement; if every underlying writer call succeeded and the history ends closed, the file
   loads to the last-writer-wins state of the treasures written (deleted => absent, otherwise
   the encoded treasure), under the chronicler's swamp name. *)
Theorem chronicler_replay_lww
  (compress : list N -> list N) (decompress : list N -> option (list N)) (crc : list N -> N)
  (Hrt : forall x, decompress (compress x) = Some x)
  hm (name : list N) (cs : list (cop (list N) (list N))) st' tr acks f :
  crun (list N) (list N) (list N) nlen nlen nlen (Reader.cfits compress) true [] name init cs = (st', tr, acks) ->
  all_ok (map snd tr) = true -> s_w st' = None -> s_file st' = Some f ->
  exists m nm,
    load_index decompress crc (render compress crc hm f) = Some (m, nm) /\
    (forall k, mget (list N) (list N) bytes_eqb m k =
               lww_get (list N) (list N) bytes_eqb (flat_map cop_writes cs) k) /\
    NoDup (mkeys (list N) (list N) m) /\ f_name f = name /\ (name <> [] -> nm = name).
Proof.
  intros Hc Hok Hw Hf.
  destruct (crun_run _ _ _ _ _ _ _ _ _ _ _ _ _ _ _ Hc) as (Hr & He).
  destruct (replay_lww_fresh compress decompress crc Hrt hm (map fst tr) st' (map snd tr) f Hr Hok Hw Hf)
    as (m & nm & Hl & Hm & Hnd & Hfo & Hv & Hn).
  exists m, nm. split; [exact Hl|]. split; [|split; [exact Hnd|]].
  - intro k. rewrite Hm. unfold bwrites. rewrite (He Hok).
    f_equal. clear. induction cs as [|c cs IH]; [reflexivity|].
    cbn [flat_map]. unfold writes_of in *. rewrite flat_map_app. fold (writes_of (list N) (list N)).
    unfold writes_of in IH. rewrite IH. f_equal.
    destruct c; cbn [cop_entries cop_writes]; [apply batch_writes | reflexivity | reflexivity].
  - (* the only OOpen the chronicler ever issues carries its own name *)
    assert (Hall : forall op, In op (map fst tr) -> forall n, op = OOpen n -> n = name).
    { clear -Hc. revert Hc. generalize (@init (list N) (list N) (list N)) as st. revert st' tr acks.
      induction cs as [|c cs IH]; intros st' tr acks st; cbn [crun].
      - intro H; inversion H; subst. intros op [].
      - destruct (cstep _ _ _ _ _ _ _ _ _ name st c) as [[st1 tr1] a1] eqn:E1.
        destruct (crun _ _ _ _ _ _ _ _ _ name st1 cs) as [[st2 tr2] a2] eqn:E2.
        intro H; inversion H; subst. rewrite map_app. intros op Hin n ->.
        apply in_app_iff in Hin as [Hin|Hin]; [|exact (IH _ _ _ _ E2 _ Hin n eq_refl)].
        clear E2 IH. destruct c as [ts| |]; cbn [cstep] in E1.
        + destruct ts as [|p ts]; [inversion E1; subst; destruct Hin|].
          assert (Hwa : forall s s' t a, write_all _ _ _ nlen nlen nlen (Reader.cfits compress) true [] s (p :: ts) = (s', t, a) ->
                        ~ In (OOpen n) (map fst t)).
          { clear. generalize (p :: ts) as l. induction l as [|[t0 fl] l IHl]; intros s s' t a; cbn [write_all].
            - intro H; inversion H; subst. intros [].
            - destruct (entry_of _ _ _ t0).
              + destruct (step _ _ _ _ _ _ _ _ s _) as [s1 r1]. destruct (write_all _ _ _ _ _ _ _ _ _ s1 l) as [[s3 t3] a3] eqn:E.
                intro H; inversion H; subst. cbn. intros [H1|H1]; [discriminate | exact (IHl _ _ _ _ E H1)].
              + destruct (write_all _ _ _ _ _ _ _ _ _ s l) as [[s3 t3] a3] eqn:E.
                intro H; inversion H; subst. exact (IHl _ _ _ _ E). }
          destruct (s_w st).
          * exfalso. exact (Hwa _ _ _ _ E1 Hin).
          * destruct (step _ _ _ _ _ _ _ _ st (OOpen name)) as [s1 r1]. destruct r1.
            -- destruct (write_all _ _ _ _ _ _ _ _ _ s1 (p :: ts)) as [[s4 t4] a4] eqn:E.
               inversion E1; subst. cbn in Hin. destruct Hin as [Hin|Hin]; [now inversion Hin|].
               exfalso. exact (Hwa _ _ _ _ E Hin).
            -- inversion E1; subst. cbn in Hin. destruct Hin as [Hin|[]]. now inversion Hin.
        + destruct (s_w st); [|inversion E1; subst; destruct Hin].
          destruct (step _ _ _ _ _ _ _ _ st OSync). inversion E1; subst. cbn in Hin. destruct Hin as [Hin|[]]. discriminate.
        + destruct (s_w st); [|inversion E1; subst; destruct Hin].
          destruct (step _ _ _ _ _ _ _ _ st OClose). inversion E1; subst. cbn in Hin. destruct Hin as [Hin|[]]. discriminate. }
    assert (Hname : f_name f = name).
    { clear -Hfo Hall. induction (map fst tr) as [|op l IH]; [discriminate|].
      destruct op; cbn in Hfo.
      - inversion Hfo; subst. apply (Hall (OOpen (f_name f))); [now left | reflexivity].
      - apply IH; [exact Hfo | intros o Ho; apply Hall; now right].
      - apply IH; [exact Hfo | intros o Ho; apply Hall; now right].
      - apply IH; [exact Hfo | intros o Ho; apply Hall; now right].
      - apply IH; [exact Hfo | intros o Ho; apply Hall; now right]. }
    split; [exact Hname|]. intro Hne. rewrite <- Hname in Hne. rewrite (Hn Hne). exact Hname.
Qed.
