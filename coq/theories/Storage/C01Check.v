(* Storage/C01Check.v — evaluation of C01 correspondence cases (harness/cmd/c01).
   Keys, payloads and names are tokens (id, length) (M4): the writer model only needs lengths,
   the replay only key equality.  Two kinds of case: a history run directly on
   v2.FileWriter / FileReader (CaseW) and one run through the chronicler (CaseC).
   [oracle] judges the implementation's observations alone (loaded map = replay of the
   acknowledged writes, file loadable, name unchanged, nothing unencodable acknowledged);
   [replay_*] runs the faithful model with the observed flush decisions and compares results,
   block structure, header counters and the loaded map. *)
From HV Require Export Base.Prelude Storage.Format Storage.Lww Storage.Writer Storage.ChronV2.
Local Open Scope N_scope.

Definition tok := (N * N)%type.
Definition tlen (t : tok) : N := snd t.
Definition teqb (a b : tok) : bool := N.eqb (fst a) (fst b).
Definition deqb (a b : tok) : bool := N.eqb (fst a) (fst b) && N.eqb (snd a) (snd b).
Definition tcfits (_ : list (lentry tok tok)) : bool := true.

Notation tent := (lentry tok tok).
Notation top := (wop tok tok tok).

Record obs := mkObs {
  o_exists : bool;                               (* the .hyd file exists at the end *)
  o_loaded : option (list (tok * tok) * N);      (* LoadIndex of it: pairs, id of the name read; None = error *)
  o_blocks : list N;                             (* entries per block (lifter) *)
  o_hdr : N * N }.                               (* header EntryCount, BlockCount *)

Inductive c01case :=
| CaseW (ops : list top) (rs : list res) (o : obs)
| CaseC (name : tok) (cs : list (cop tok tok)) (acks : list (list bool)) (o : obs).

Definition trun := run tok tok tok tlen tlen tlen tcfits true.
Definition tcrun := crun tok tok tok tlen tlen tlen tcfits true (0, 0).

Fixpoint acked_w (ops : list top) (rs : list res) : list tent :=
  match ops, rs with
  | op :: t, r :: rt => (match r with ROk => ents op | RErr => [] end) ++ acked_w t rt
  | _, _ => []
  end.

Fixpoint created_w (ops : list top) (rs : list res) : option tok :=
  match ops, rs with
  | OOpen nm :: _, ROk :: _ => Some nm
  | _ :: t, _ :: rt => created_w t rt
  | _, _ => None
  end.

Definition NoName : N := 0.

Definition oracle (acc : list tent) (cn : option tok) (o : obs) : N :=
  if existsb (fun e => two16 <=? tlen (l_key e)) acc then 4
  else if existsb (fun e => tlen (l_key e) =? 0) acc then 5
  else match cn with
       | None => 0
       | Some nm =>
         if two16 <=? tlen nm then 6 else
         match o_loaded o with
         | None => 3
         | Some (m, nid) =>
           if negb (amap_eqb tok tok teqb deqb m (replay tok tok teqb acc)) then 2
           else if negb (nid =? fst nm) then 7 else 0
         end
       end.

Definition nlist_eqb := list_eqb N.eqb.

Definition file_matches (f : option (lfile tok tok tok)) (o : obs) (with_blocks : bool) : bool :=
  match f with
  | None => negb (o_exists o)
  | Some f =>
    o_exists o
    && (negb with_blocks || (nlist_eqb (map nlen (f_blocks f)) (o_blocks o) && (f_bc f =? snd (o_hdr o))))
    && (f_ec f =? fst (o_hdr o))
    && match o_loaded o with
       | Some (m, nid) => amap_eqb tok tok teqb deqb m (replay tok tok teqb (concat (f_blocks f)))
                          && (nid =? fst (f_name f))
       | None => false
       end
  end.

Definition replay_w (ops : list top) (rs : list res) (o : obs) : N :=
  let '(st, mrs) := trun init ops in
  if list_eqb res_eqb mrs rs && file_matches (s_file st) o true
     && match s_w st with None => true | Some _ => false end
  then 0 else 1.

(* chronicler: entries of the acknowledged treasures *)
Fixpoint acked_ts (ts : list (treasure tok tok * bool)) (acks : list bool) : list tent :=
  match ts, acks with
  | (t, _) :: r, a :: ar =>
    (if a then match entry_of tok tok (0, 0) t with Some e => [e] | None => [] end else [])
    ++ acked_ts r ar
  | _, _ => []
  end.
Fixpoint acked_c (cs : list (cop tok tok)) (acks : list (list bool)) : list tent :=
  match cs, acks with
  | CWrite ts :: t, a :: at_ => acked_ts ts a ++ acked_c t at_
  | _ :: t, _ :: at_ => acked_c t at_
  | _, _ => []
  end.

Definition replay_c (name : tok) (cs : list (cop tok tok)) (acks : list (list bool)) (o : obs) : N :=
  let '(st, _, macks) := tcrun name init cs in
  if list_eqb (list_eqb Bool.eqb) macks acks && file_matches (s_file st) o false
     && match s_w st with None => true | Some _ => false end
  then 0 else 1.

Definition check_case (c : c01case) : N :=
  match c with
  | CaseW ops rs o =>
    match oracle (acked_w ops rs) (created_w ops rs) o with
    | 0 => replay_w ops rs o
    | v => v
    end
  | CaseC name cs acks o =>
    match oracle (acked_c cs acks) (if o_exists o then Some name else None) o with
    | 0 => replay_c name cs acks o
    | v => v
    end
  end.

Definition check_all (cases : list c01case) : list verdict := check_cases check_case cases.

(* smoke examples *)
Example check_ok :
  check_case (CaseW [OOpen (1, 5); OWrite (mkL 1 (1, 3) (7, 10)) false; OWrite (mkL 3 (1, 3) (0, 0)) true;
                     OWrite (mkL 1 (2, 70000) (8, 1)) false; OWrite (mkL 2 (3, 1) (9, 1)) false; OClose]
                    [ROk; ROk; ROk; RErr; ROk; ROk]
                    (mkObs true (Some ([((3, 1), (9, 1))], 1)) [2; 1] (3, 2))) = 0.
Proof. vm_compute. reflexivity. Qed.

Example check_lost_delete :
  check_case (CaseW [OOpen (1, 5); OWrite (mkL 1 (1, 3) (7, 10)) false; OWrite (mkL 3 (1, 3) (0, 0)) true; OClose]
                    [ROk; ROk; ROk; ROk]
                    (mkObs true (Some ([((1, 3), (7, 10))], 1)) [2] (2, 1))) = 2.
Proof. vm_compute. reflexivity. Qed.
