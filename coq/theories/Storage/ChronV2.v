(* Storage/ChronV2.v — chronicler_v2.go Write / Sync / Close on top of the writer of Writer.v.
   A treasure is what Write looks at: its key, whether DeletedAt > 0, the result of
   ConvertToByte (None = encode error) and whether it already has a file name.
   Write opens the persistent writer lazily (ensureWriter), turns every treasure into a
   DELETE / INSERT / UPDATE entry, skips treasures whose encoding or WriteEntry fails (they are
   logged, not acknowledged through the file-pointer callback) and never closes the writer.
   Inline compaction (maybeCompactInline) is not part of this model (C03); the correspondence
   check runs the chronicler with a threshold that never triggers it.
   Executable model, no proofs. *)
From HV Require Import Base.Prelude Storage.Format Storage.Lww Storage.Writer.
Local Open Scope N_scope.

Section Chron.
Variables (K D NM : Type).
Variables (klen : K -> N) (dlen : D -> N) (nmlen : NM -> N).
Variable cfits : list (lentry K D) -> bool.
Variable guard : bool.
Variable dnil : D.                     (* Data: nil of a DELETE entry *)

Notation lent := (lentry K D).
Notation state := (state K D NM).
Notation step := (step K D NM klen dlen nmlen cfits guard).

Record treasure := mkT { t_key : K; t_deleted : bool; t_enc : option D; t_hasfile : bool }.

Inductive cop :=
| CWrite (ts : list (treasure * bool))   (* each treasure with the flush decision of its WriteEntry (M2) *)
| CSync | CClose.

Definition entry_of (t : treasure) : option lent :=
  if t_deleted t then Some (mkL OpDelete (t_key t) dnil)
  else match t_enc t with
       | None => None
       | Some d => Some (mkL (if t_hasfile t then OpUpdate else OpInsert) (t_key t) d)
       end.

(* every chronicler call is a list of writer operations with their results *)
Definition trace := list (wop K D NM * res).

Fixpoint write_all (st : state) (ts : list (treasure * bool)) : state * trace * list bool :=
  match ts with
  | [] => (st, [], [])
  | (t, fl) :: r =>
    match entry_of t with
    | None => let '(st', tr, acks) := write_all st r in (st', tr, false :: acks)
    | Some e =>
      let '(st1, res) := step st (OWrite e fl) in
      let '(st2, tr, acks) := write_all st1 r in
      (st2, (OWrite e fl, res) :: tr, res_eqb res ROk :: acks)
    end
  end.

(* returns the new state, the writer operations performed, and per treasure whether it was
   acknowledged (file-pointer event sent) *)
Definition cstep (name : NM) (st : state) (c : cop) : state * trace * list bool :=
  match c with
  | CWrite [] => (st, [], [])
  | CWrite ts =>
    match s_w st with
    | Some _ => write_all st ts
    | None =>
      let '(st1, r) := step st (OOpen name) in
      match r with
      | RErr => (st1, [(OOpen name, r)], map (fun _ => false) ts)
      | ROk => let '(st2, tr, acks) := write_all st1 ts in (st2, (OOpen name, r) :: tr, acks)
      end
    end
  | CSync =>
    match s_w st with
    | Some _ => let '(st1, r) := step st OSync in (st1, [(OSync, r)], [])
    | None => (st, [], [])
    end
  | CClose =>
    match s_w st with
    | Some _ => let '(st1, r) := step st OClose in (st1, [(OClose, r)], [])
    | None => (st, [], [])
    end
  end.

Fixpoint crun (name : NM) (st : state) (cs : list cop) : state * trace * list (list bool) :=
  match cs with
  | [] => (st, [], [])
  | c :: t =>
    let '(st1, tr1, a1) := cstep name st c in
    let '(st2, tr2, a2) := crun name st1 t in
    (st2, tr1 ++ tr2, a1 :: a2)
  end.

(* the treasure-level history: what the acknowledged treasures stand for *)
Definition twrite (t : treasure) : list (wr K D) :=
  if t_deleted t then [(t_key t, None)]
  else match t_enc t with Some d => [(t_key t, Some d)] | None => [] end.

End Chron.

Arguments mkT {K D}.
Arguments t_key {K D}.
Arguments t_deleted {K D}.
Arguments t_enc {K D}.
Arguments t_hasfile {K D}.
Arguments CWrite {K D}.
Arguments CSync {K D}.
Arguments CClose {K D}.
