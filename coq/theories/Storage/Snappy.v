(* Storage/Snappy.v — decoder of the Snappy *block* format as implemented by
   github.com/golang/snappy v1.0.0 (decode.go: decodedLen + Decode, decode_other.go: decode).
   Model only (no proofs). The external library is not hydraide code: the model is validated
   against snappy.Decode on every C04 case (valid streams, all tag kinds, garbage).

   Representation: [src] is the not yet consumed suffix of the input, [rout] the output so
   far in reverse, [d] the number of bytes written (Go's d), [dlen] the declared length
   (len(dst)). Integers are Go's 64-bit int / uint32, none of which can wrap for inputs
   below 2^32 bytes; they are modelled in N. *)
From HV Require Import Base.Prelude.
Local Open Scope N_scope.

Inductive sn_result :=
| SnOk (out : list N)
| SnCorrupt           (* ErrCorrupt (errUnsupportedLiteralLength is unreachable with 64-bit int) *)
| SnPanic             (* an index out of range the Go code would panic on *)
| SnOutOfFuel.

(* encoding/binary.Uvarint: value and remaining input; None covers n <= 0 (empty/overflow) *)
Fixpoint uvarint_aux (l : list N) (i : nat) (x s : N) : option (N * list N) :=
  match l with
  | [] => None
  | b :: t =>
      if Nat.eqb i 10 then None
      else if b <? 128 then
        (if Nat.eqb i 9 && (1 <? b) then None else Some (N.lor x (N.shiftl b s), t))
      else uvarint_aux t (S i) (N.lor x (N.shiftl (N.land b 127) s)) (s + 7)
  end.

Definition uvarint (l : list N) : option (N * list N) := uvarint_aux l 0 0 0.

(* snappy.decodedLen: n <= 0 || v > 0xffffffff => ErrCorrupt *)
Definition sn_decoded_len (src : list N) : option (N * list N) :=
  match uvarint src with
  | Some (v, rest) => if 4294967295 <? v then None else Some (v, rest)
  | None => None
  end.

Definition lenN {A} (l : list A) : N := N.of_nat (length l).

(* literal: x = tag >> 2; returns (length, input after the length bytes) *)
Definition sn_lit_len (x : N) (t : list N) : option (N * list N) :=
  if x <? 60 then Some (x + 1, t)
  else if x =? 60 then
    match t with b1 :: t' => Some (b1 + 1, t') | _ => None end
  else if x =? 61 then
    match t with b1 :: b2 :: t' => Some (b1 + 256 * b2 + 1, t') | _ => None end
  else if x =? 62 then
    match t with b1 :: b2 :: b3 :: t' => Some (b1 + 256 * b2 + 65536 * b3 + 1, t') | _ => None end
  else
    match t with b1 :: b2 :: b3 :: b4 :: t' => Some (b1 + 256 * b2 + 65536 * b3 + 16777216 * b4 + 1, t') | _ => None end.

(* copy tags: k = tag & 3 in {1,2,3}; returns (length, offset, rest) *)
Definition sn_copy_args (k tag : N) (t : list N) : option (N * N * list N) :=
  if k =? 1 then
    match t with
    | b1 :: t' => Some (4 + N.land (N.shiftr tag 2) 7, N.lor (N.shiftl (N.land tag 224) 3) b1, t')
    | _ => None end
  else if k =? 2 then
    match t with
    | b1 :: b2 :: t' => Some (1 + N.shiftr tag 2, b1 + 256 * b2, t')
    | _ => None end
  else
    match t with
    | b1 :: b2 :: b3 :: b4 :: t' => Some (1 + N.shiftr tag 2, b1 + 256 * b2 + 65536 * b3 + 16777216 * b4, t')
    | _ => None end.

(* forward byte-by-byte copy of n bytes from distance off1+1 behind the write position *)
Fixpoint sn_copy_back (n : nat) (off1 : nat) (rout : list N) : option (list N) :=
  match n with
  | O => Some rout
  | S k => match nth_error rout off1 with
           | Some b => sn_copy_back k off1 (b :: rout)
           | None => None
           end
  end.

Fixpoint sn_loop (fuel : nat) (dlen d : N) (rout src : list N) : sn_result :=
  match fuel with
  | O => SnOutOfFuel
  | S f =>
    match src with
    | [] => if d =? dlen then SnOk (rev rout) else SnCorrupt
    | tag :: t =>
      let k := N.land tag 3 in
      if k =? 0 then
        match sn_lit_len (N.shiftr tag 2) t with
        | None => SnCorrupt
        | Some (len, t') =>
            if (dlen - d <? len) || (lenN t' <? len) then SnCorrupt
            else sn_loop f dlen (d + len)
                   (rev_append (firstn (N.to_nat len) t') rout) (skipn (N.to_nat len) t')
        end
      else
        match sn_copy_args k tag t with
        | None => SnCorrupt
        | Some (len, off, t') =>
            if (off =? 0) || (d <? off) || (dlen - d <? len) then SnCorrupt
            else match sn_copy_back (N.to_nat len) (N.to_nat (off - 1)) rout with
                 | None => SnPanic
                 | Some r => sn_loop f dlen (d + len) r t'
                 end
        end
    end
  end.

(* snappy.Decode(nil, src) *)
Definition snappy_decode (src : list N) : sn_result :=
  match sn_decoded_len src with
  | None => SnCorrupt
  | Some (dlen, body) => sn_loop (S (length body)) dlen 0 [] body
  end.
