(* Storage/Format.v — byte codecs of the V2/V3 .hyd file format (v2/types.go, v2/block.go).
   Executable model, no proofs.  Faithful to the Go code: every integer field is written with
   Go's truncating conversion (uint16(len), uint32(len)) – that is what [le k] does – and read
   back exactly as [Deserialize]/[ParseBlock] do, including "trailing bytes are ignored".

   byte := N (values < 256 in every file the writer produces; the codecs never rely on it
   for keys/payloads, which are copied verbatim). *)
From HV Require Import Base.Prelude.
Local Open Scope N_scope.

Notation byte := N (only parsing).
Notation bytes := (list N) (only parsing).

Definition nlen {A} (l : list A) : N := N.of_nat (length l).

(* little-endian, k bytes, truncating: PutUint16(uint16(n)) = le 2 n, etc. *)
Fixpoint le (k : nat) (n : N) : bytes :=
  match k with
  | O => []
  | S k' => (n mod 256) :: le k' (n / 256)
  end.

Fixpoint unle (l : bytes) : N :=
  match l with
  | [] => 0
  | b :: t => b + 256 * unle t
  end.

(* split off exactly n bytes; None if fewer are present *)
Definition take (n : N) (l : bytes) : option (bytes * bytes) :=
  if nlen l <? n then None else Some (firstn (N.to_nat n) l, skipn (N.to_nat n) l).

Fixpoint bytes_eqb (a b : bytes) : bool :=
  match a, b with
  | [], [] => true
  | x :: s, y :: t => N.eqb x y && bytes_eqb s t
  | _, _ => false
  end.

(* ---- constants (types.go) --------------------------------------------------------------- *)
Definition OpInsert : N := 1.
Definition OpUpdate : N := 2.
Definition OpDelete : N := 3.
Definition OpMetadata : N := 4.
Definition FileHeaderSize : N := 64.
Definition BlockHeaderSize : N := 16.
Definition Version2 : N := 2.
Definition Version3 : N := 3.
Definition Magic : bytes := [72; 89; 68; 82].           (* "HYDR" *)
(* "__swamp_meta__" (reader.go MetadataEntryKey) *)
Definition MetadataEntryKey : bytes := [95;95;115;119;97;109;112;95;109;101;116;97;95;95].
Definition two16 : N := 65536.
Definition two32 : N := 4294967296.
Definition two64 : N := 18446744073709551616.

(* ---- entries (types.go Entry.Serialize / Entry.Deserialize) ----------------------------- *)
Record entry := mkEntry { e_op : N; e_key : bytes; e_data : bytes }.

Definition entry_size (e : entry) : N := 7 + nlen (e_key e) + nlen (e_data e).

Definition ser_entry (e : entry) : bytes :=
  [e_op e] ++ le 2 (nlen (e_key e)) ++ e_key e ++ le 4 (nlen (e_data e)) ++ e_data e.

(* Deserialize: the three length checks of the Go code, in its order; an empty key is an
   error (ErrEmptyKey).  Returns the entry and the unconsumed rest. *)
Definition deser_entry (buf : bytes) : option (entry * bytes) :=
  if nlen buf <? 7 then None else
  match take 1 buf with
  | Some ([op], r1) =>
    match take 2 r1 with
    | Some (kl, r2) =>
      let keyLen := unle kl in
      if nlen buf <? 3 + keyLen + 4 then None else
      match take keyLen r2 with
      | Some (key, r3) =>
        match key with
        | [] => None
        | _ =>
          match take 4 r3 with
          | Some (dl, r4) =>
            let dataLen := unle dl in
            if nlen buf <? 3 + keyLen + 4 + dataLen then None else
            match take dataLen r4 with
            | Some (data, r5) => Some (mkEntry op key data, r5)
            | None => None
            end
          | None => None
          end
        end
      | None => None
      end
    | None => None
    end
  | _ => None
  end.

Definition ser_entries (es : list entry) : bytes := concat (map ser_entry es).

(* ParseBlock's loop: exactly [count] entries, whatever follows is ignored *)
Fixpoint parse_entries (count : nat) (buf : bytes) : option (list entry) :=
  match count with
  | O => Some []
  | S c =>
    match deser_entry buf with
    | Some (e, r) =>
      match parse_entries c r with
      | Some es => Some (e :: es)
      | None => None
      end
    | None => None
    end
  end.

(* ---- block header (types.go BlockHeader) ------------------------------------------------ *)
Record bheader := mkBH { bh_csize : N; bh_usize : N; bh_count : N; bh_crc : N; bh_flags : N }.

Definition ser_bh (h : bheader) : bytes :=
  le 4 (bh_csize h) ++ le 4 (bh_usize h) ++ le 2 (bh_count h) ++ le 4 (bh_crc h) ++ le 2 (bh_flags h).

Definition deser_bh (buf : bytes) : option bheader :=
  match take 4 buf with
  | Some (a, r1) =>
    match take 4 r1 with
    | Some (b, r2) =>
      match take 2 r2 with
      | Some (c, r3) =>
        match take 4 r3 with
        | Some (d, r4) =>
          match take 2 r4 with
          | Some (f, _) => Some (mkBH (unle a) (unle b) (unle c) (unle d) (unle f))
          | None => None
          end
        | None => None
        end
      | None => None
      end
    | None => None
    end
  | None => None
  end.

(* ---- file header (types.go FileHeader) -------------------------------------------------- *)
Record fheader := mkFH {
  fh_version : N; fh_flags : N; fh_created : N; fh_modified : N; fh_blocksize : N;
  fh_entrycount : N; fh_blockcount : N; fh_namelen : N; fh_reserved : bytes (* 14 bytes *) }.

Definition pad (k : nat) (l : bytes) : bytes := firstn k (l ++ repeat 0 k).

Definition ser_fh (h : fheader) : bytes :=
  Magic ++ le 2 (fh_version h) ++ le 2 (fh_flags h) ++ le 8 (fh_created h) ++ le 8 (fh_modified h)
        ++ le 4 (fh_blocksize h) ++ le 8 (fh_entrycount h) ++ le 8 (fh_blockcount h)
        ++ le 2 (fh_namelen h) ++ pad 14 (fh_reserved h) ++ [0; 0; 0; 0].

Definition deser_fh (buf : bytes) : option fheader :=
  match take 4 buf with
  | Some (m, r1) =>
    if negb (bytes_eqb m Magic) then None else
    match take 2 r1 with
    | Some (v, r2) =>
      let ver := unle v in
      if negb (N.eqb ver Version2 || N.eqb ver Version3) then None else
      match take 2 r2 with
      | Some (fl, r3) =>
      match take 8 r3 with
      | Some (cr, r4) =>
      match take 8 r4 with
      | Some (md, r5) =>
      match take 4 r5 with
      | Some (bs, r6) =>
      match take 8 r6 with
      | Some (ec, r7) =>
      match take 8 r7 with
      | Some (bc, r8) =>
      match take 2 r8 with
      | Some (nl, r9) =>
      match take 14 r9 with
      | Some (rs, r10) =>
      match take 4 r10 with
      | Some (_, _) =>
        Some (mkFH ver (unle fl) (unle cr) (unle md) (unle bs) (unle ec) (unle bc)
                   (if N.eqb ver Version3 then unle nl else 0) rs)
      | None => None end
      | None => None end
      | None => None end
      | None => None end
      | None => None end
      | None => None end
      | None => None end
      | None => None end
      | None => None end
    | None => None
    end
  | None => None
  end.

(* DataStartOffset *)
Definition data_start (h : fheader) : N :=
  if N.eqb (fh_version h) Version3 then FileHeaderSize + fh_namelen h else FileHeaderSize.
