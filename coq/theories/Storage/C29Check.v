(* Storage/C29Check.v — evaluation of C29 correspondence cases (harness/cmd/c29).
   CaseFile: one real .hyd file: its first bytes (header + V3 name area), the name it was
   written under and what v2.ReadSwampName / NewFileReader.GetSwampName / LoadIndex returned;
   for legacy V2 files also the entries of the first block as the lifter saw them.
   CaseDir: one explorer scan: ids of the names the files were written under (and whether
   they have three parts) and ids of the listed names. *)
From HV Require Export Base.Prelude Storage.Format Storage.Lww Storage.Writer Storage.Reader Storage.SwampName.
Local Open Scope N_scope.

Inductive c29case :=
| CaseFile (prefix : list N) (ver : N) (written : list N)
           (fast rdr li : option (list N)) (entries : list (N * list N * list N))
| CaseBig (hdr : list N) (ver : N) (namelen : N) (fast_eq rdr_eq li_eq : bool)   (* names too long to print: compared by the harness *)
| CaseDir (written : list (N * bool)) (listing : list N).

Definition obytes_eqb := option_eqb bytes_eqb.
Definition mem (x : N) (l : list N) : bool := existsb (N.eqb x) l.
Fixpoint nodupb (l : list N) : bool :=
  match l with [] => true | x :: t => negb (mem x t) && nodupb t end.

Definition check_case (c : c29case) : N :=
  match c with
  | CaseFile prefix ver written fast rdr li ents =>
    if negb (obytes_eqb fast (Some written)) then 2
    else if negb (obytes_eqb li (Some written)) then 3
    else if N.eqb ver Version3 && negb (obytes_eqb rdr (Some written)) then 4
    else
      match open_reader prefix with
      | None => 1
      | Some (h, nm) =>
        if negb (N.eqb (fh_version h) ver) then 1
        else if N.eqb ver Version3 then (if obytes_eqb fast (Some nm) then 0 else 1)
        else
          let es := map (fun t => mkEntry (fst (fst t)) (snd (fst t)) (snd t)) ents in
          if bytes_eqb nm [] && obytes_eqb fast (Some (meta_name es))
             && obytes_eqb fast (Some (scan_meta es)) then 0 else 1
      end
  | CaseBig hdr ver namelen fast_eq rdr_eq li_eq =>
    if negb fast_eq then 2 else if negb li_eq then 3
    else if N.eqb ver Version3 && negb rdr_eq then 4
    else match deser_fh hdr with
         | Some h =>
           if N.eqb (fh_version h) ver
              && (if N.eqb ver Version3 then N.eqb (fh_namelen h) namelen else N.eqb (fh_namelen h) 0)
           then 0 else 1
         | None => 1
         end
  | CaseDir written listing =>
    let want := map fst (filter snd written) in
    if nodupb listing && forallb (fun x => mem x want) listing && forallb (fun x => mem x listing) want
    then 0 else 5
  end.

Definition check_all (cases : list c29case) : list verdict := check_cases check_case cases.
