(* Storage/SwampName.v — fast swamp-name discovery (v2/reader.go:ReadSwampName) and the explorer
   scan (app/server/explorer/scanner.go scanFile/scanDirectory, index.go add/list) on top of
   Format.v / Reader.v.  Executable model, no proofs. *)
From HV Require Import Base.Prelude Storage.Format Storage.Lww Storage.Writer Storage.Reader.
Local Open Scope N_scope.

Section SwampName.
Variable decompress : list N -> option (list N).
Variable crc : list N -> N.

(* ReadSwampName: V3 -> the name stored after the header (possibly empty);
   V2 -> LoadIndex and its metadata-entry fallback; any error -> None *)
Definition read_swamp_name (file : list N) : option (list N) :=
  match open_reader file with
  | None => None
  | Some (h, nm) =>
    if N.eqb (fh_version h) Version3 then Some nm
    else match load_index decompress crc file with
         | Some (_, n) => Some n
         | None => None
         end
  end.

(* ReadAllEntries hands every entry of every block it could read to its callback, also the
   blocks before a failing one: the blocks read until EOF or the first failure *)
Fixpoint read_prefix (fuel : nat) (buf : list N) : list (list entry) :=
  match fuel with
  | O => []
  | S fu =>
    match take BlockHeaderSize buf with
    | None => []
    | Some (hb, rest) =>
      match deser_bh hb with
      | None => []
      | Some h =>
        match take (bh_csize h) rest with
        | None => []
        | Some (c, rest') =>
          match parse_block decompress crc h c with
          | None => []
          | Some es => es :: read_prefix fu rest'
          end
        end
      end
    end
  end.

(* scanFile's fallback: the first OpMetadata entry with the metadata key (its data, even if empty) *)
Fixpoint scan_meta (es : list entry) : list N :=
  match es with
  | [] => []
  | e :: t =>
    if N.eqb (e_op e) OpMetadata && bytes_eqb (e_key e) MetadataEntryKey then e_data e else scan_meta t
  end.

Definition scan_name (file : list N) : option (list N) :=
  match open_reader file with
  | None => None
  | Some (h, nm) =>
    match nm with
    | [] => Some (scan_meta (concat (read_prefix (S (length file))
                                       (skipn (N.to_nat (data_start h)) file))))
    | _ => Some nm
    end
  end.

(* strings.SplitN(name, "/", 3) with the len(parts) == 3 requirement *)
Definition slash : N := 47.
Fixpoint split1 (l : list N) : option (list N * list N) :=
  match l with
  | [] => None
  | b :: t => if N.eqb b slash then Some ([], t)
              else match split1 t with Some (a, r) => Some (b :: a, r) | None => None end
  end.
Definition split3 (name : list N) : option (list N * list N * list N) :=
  match split1 name with
  | Some (a, r) => match split1 r with Some (b, c) => Some (a, b, c) | None => None end
  | None => None
  end.

(* scanFile: None = error or skipped *)
Definition scan_file (file : list N) : option (list N * list N * list N) :=
  match scan_name file with
  | Some (b :: nm) => split3 (b :: nm)
  | _ => None
  end.

(* the index is keyed by sanctuary/realm/swamp: adding the same triple again replaces it *)
Definition triple_eqb (x y : list N * list N * list N) : bool :=
  bytes_eqb (fst (fst x)) (fst (fst y)) && bytes_eqb (snd (fst x)) (snd (fst y)) && bytes_eqb (snd x) (snd y).
Definition idx_add (idx : list (list N * list N * list N)) (t : list N * list N * list N) :=
  if existsb (triple_eqb t) idx then idx else idx ++ [t].
Definition scan_directory (files : list (list N)) : list (list N * list N * list N) :=
  fold_left (fun idx f => match scan_file f with Some t => idx_add idx t | None => idx end) files [].

(* Explorer.Scan on an explorer that already holds an index: the old index is cleared, then the
   directory is scanned.  An explorer's life is a sequence of scans of whatever is on disk
   at the time. *)
Definition rescan (old : list (list N * list N * list N)) (files : list (list N)) :=
  scan_directory files.
Definition explorer_run (history : list (list (list N))) : list (list N * list N * list N) :=
  fold_left rescan history [].

(* chronicler_v2.go:Load - a chronicler created without a name adopts the name stored in the
   file BEFORE anything else uses it; the self-heal compaction (CompactFromIndex) then creates
   the new file under the chronicler's name and writes the live entries as inserts *)
Definition adopt_name (cname fname : list N) : list N :=
  match cname with [] => fname | _ => cname end.
Definition selfheal_ops (cname fname : list N) (live : list (list N * list N * bool))
  : list (wop (list N) (list N) (list N)) :=
  OOpen (adopt_name cname fname)
  :: map (fun e => OWrite (mkL OpInsert (fst (fst e)) (snd (fst e))) (snd e)) live ++ [OClose].

End SwampName.

(* index.go:listSwamps pagination: the matching swamps, in the one order of the listing, cut to
   [Offset, Offset+Limit) *)
Definition page {A} (off lim : nat) (l : list A) : list A := firstn lim (skipn off l).
(* walking a listing page by page from offset [off] with page size [lim], [n] pages *)
Fixpoint pages {A} (n off lim : nat) (l : list A) : list A :=
  match n with O => [] | S k => page off lim l ++ pages k (off + lim) lim l end.
