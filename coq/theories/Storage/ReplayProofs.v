(* Storage/ReplayProofs.v — composition: whatever the (repaired) writer was asked to do, in any
   number of sessions and with any placement of flush boundaries, the bytes it leaves on disk
   load to the last-writer-wins state of the accepted entries, under the name the file was
   created with.  Plus the refutation of the same statement for the writer of the pinned
   commit (guard = false), and non-vacuity examples. *)
From HV Require Import Base.Prelude Storage.Format Storage.FormatProofs Storage.Lww Storage.LwwProofs
  Storage.Writer Storage.WriterProofs Storage.Reader Storage.ReaderProofs.
From Coq Require Import ZifyN ZifyNat ZifyBool.
Local Open Scope N_scope.

Notation B := (list N) (only parsing).
Notation bop := (wop (list N) (list N) (list N)).
Notation bstate := (state (list N) (list N) (list N)).

Definition brun (compress : B -> B) (guard : bool) :=
  run B B B nlen nlen nlen (Reader.cfits compress) guard.

Definition bwrites (ops : list bop) : list (wr B B) := writes_of B B (flat_map ents ops).

Section Replay.
Variable compress : B -> B.
Variable decompress : B -> option B.
Variable crc : B -> N.
Hypothesis decompress_compress : forall x, decompress (compress x) = Some x.

Notation load_index := (load_index decompress crc).
Notation render := (render compress crc).
Notation wf_file := (wf_file B B B nlen nlen (Reader.cfits compress)).

Lemma inv_init : Inv B B B nlen nlen (Reader.cfits compress) (@init B B B).
Proof. exact I. Qed.

(* files created by the run itself *)
Theorem replay_lww_fresh hm (ops : list bop) st' rs f :
  brun compress true init ops = (st', rs) -> all_ok rs = true ->
  s_w st' = None -> s_file st' = Some f ->
  exists m nm,
    load_index (render hm f) = Some (m, nm) /\
    (forall k, mget B B bytes_eqb m k = lww_get B B bytes_eqb (bwrites ops) k) /\
    NoDup (mkeys B B m) /\
    first_open B B B ops = Some (f_name f) /\ f_ver f = Version3 /\
    (f_name f <> [] -> nm = f_name f).
Proof.
  intros Hrun Hok Hw Hf. unfold brun in Hrun.
  pose proof (run_inv B B B nlen nlen nlen (Reader.cfits compress) ops init inv_init) as HI.
  rewrite Hrun in HI. cbn [fst] in HI. unfold Inv in HI. rewrite Hf, Hw in HI.
  pose proof (run_log B B B nlen nlen nlen (Reader.cfits compress) ops _ _ _ Hrun Hok) as HL.
  unfold log in HL. rewrite Hf, Hw in HL. cbn [file_log s_file s_w init app] in HL.
  rewrite app_nil_r in HL.
  pose proof (run_first_open B B B nlen nlen nlen (Reader.cfits compress) ops _ _ _ Hrun Hok Hf)
    as (Hfo & Hv & Hn).
  assert (Hvo : ver_ok f).
  { right. split; [exact Hv|]. unfold MaxNameSize in Hn. unfold two16. lia. }
  eexists. eexists. split; [apply (load_index_render compress decompress crc decompress_compress hm f Hvo HI)|].
  rewrite HL. split; [|split; [|split; [exact Hfo | split; [exact Hv|]]]].
  - intro k. apply replay_lww. exact bytes_eqb_eq.
  - apply replay_nodup. exact bytes_eqb_eq.
  - intro Hne. unfold stored_name. rewrite Hv. cbn. destruct (f_name f); [contradiction | reflexivity].
Qed.

(* appending, in any number of further sessions, to any well-formed existing file (V2 or V3) *)
Theorem replay_lww_existing hm f0 (ops : list bop) st' rs f :
  ver_ok f0 -> wf_file f0 ->
  brun compress true (mkS (Some f0) None) ops = (st', rs) -> all_ok rs = true ->
  s_w st' = None -> s_file st' = Some f ->
  exists m nm,
    load_index (render hm f) = Some (m, nm) /\
    (forall k, mget B B bytes_eqb m k =
               lww_get B B bytes_eqb (writes_of B B (concat (f_blocks f0) ++ flat_map ents ops)) k) /\
    NoDup (mkeys B B m) /\
    f_name f = f_name f0 /\ f_ver f = f_ver f0.
Proof.
  intros Hv0 Hwf0 Hrun Hok Hw Hf. unfold brun in Hrun.
  assert (HI0 : Inv B B B nlen nlen (Reader.cfits compress) (mkS (Some f0) None)) by exact Hwf0.
  pose proof (run_inv B B B nlen nlen nlen (Reader.cfits compress) ops _ HI0) as HI.
  rewrite Hrun in HI. cbn [fst] in HI. unfold Inv in HI. rewrite Hf, Hw in HI.
  pose proof (run_log B B B nlen nlen nlen (Reader.cfits compress) ops _ _ _ Hrun Hok) as HL.
  unfold log in HL. rewrite Hf, Hw in HL. cbn [file_log s_file s_w app] in HL.
  rewrite !app_nil_r in HL.
  pose proof (run_name B B B nlen nlen nlen (Reader.cfits compress) ops (mkS (Some f0) None) f0 eq_refl)
    as [Hn Hv].
  rewrite Hrun in Hn, Hv. cbn [fst] in Hn, Hv. unfold name_of, ver_of in Hn, Hv. rewrite Hf in Hn, Hv.
  cbn in Hn, Hv. inversion Hn as [Hn']. inversion Hv as [Hv'].
  assert (Hvo : ver_ok f).
  { unfold ver_ok in *. rewrite Hn', Hv'. exact Hv0. }
  eexists. eexists. split; [apply (load_index_render compress decompress crc decompress_compress hm f Hvo HI)|].
  rewrite HL. split; [|split; [|split; [reflexivity | reflexivity]]].
  - intro k. apply replay_lww. exact bytes_eqb_eq.
  - apply replay_nodup. exact bytes_eqb_eq.
Qed.

End Replay.

(* ---- concrete instances used by examples and refutations: identity "compression" -------- *)
Definition idc (x : B) : B := x.
Definition idd (x : B) : option B := Some x.
Definition crc0 (x : B) : N := nlen x.     (* any function will do *)
Definition hm0 : hmeta := mkHM 0 1 1 16384 [].

Definition bytes_n (n : N) (b : N) : B := N.iter n (cons b) [].

Definition final_bytes (guard : bool) (ops : list bop) : option B :=
  match brun idc guard init ops with
  | (st, rs) => match s_file st with
                | Some f => if all_ok rs then Some (render idc crc0 hm0 f) else None
                | None => None
                end
  end.

Definition is_some {A} (o : option A) : bool := match o with Some _ => true | None => false end.

Definition loads (file : option B) : option (amap B B * B) :=
  match file with Some b => load_index idd crc0 b | None => None end.

(* non-vacuity: three sessions with an update, a delete and a re-insert; every hypothesis of
   replay_lww_fresh holds and the loaded state is the expected one *)
Definition ex_ops : list bop :=
  [ OOpen [115;47;114;47;119];
    OWrite (mkL 1 [1] [10]) false; OWrite (mkL 1 [2] [20]) true; OWrite (mkL 2 [1] [11]) false; OClose;
    OOpen []; OWrite (mkL 3 [2] []) false; OFlush; OWrite (mkL 1 [3] [30;31]) false; OSync; OClose;
    OOpen [9]; OWrite (mkL 1 [2] [22]) false; OWrite (mkL 3 [3] []) true; OClose ].

Example ex_hyps :
  (let '(st, rs) := brun idc true init ex_ops in
   (all_ok rs, match s_w st with None => true | _ => false end,
    match s_file st with Some f => true | None => false end)) = (true, true, true).
Proof. vm_compute. reflexivity. Qed.

Example ex_loaded :
  loads (final_bytes true ex_ops) = Some ([([2], [22]); ([1], [11])], [115;47;114;47;119]).
Proof. vm_compute. reflexivity. Qed.

(* ---- the writer of the pinned commit stores unencodable input ---------------------------- *)
(* a 65536-byte key: every call succeeds, the file no longer loads at all *)
Definition long_key_ops : list bop :=
  [ OOpen [110]; OWrite (mkL 1 [7] [1]) false; OWrite (mkL 1 (bytes_n 65536 65) [2]) false; OClose ].

Theorem old_writer_long_key_refuted :
  is_some (final_bytes false long_key_ops) = true /\ loads (final_bytes false long_key_ops) = None.
Proof. split; vm_compute; reflexivity. Qed.

(* the repaired writer refuses that entry and keeps the rest *)
Example new_writer_long_key :
  snd (brun idc true init long_key_ops) = [ROk; ROk; RErr; ROk].
Proof. vm_compute. reflexivity. Qed.

(* an empty key: same effect *)
Definition empty_key_ops : list bop :=
  [ OOpen [110]; OWrite (mkL 1 [7] [1]) false; OWrite (mkL 1 [] [2]) false; OClose ].

Theorem old_writer_empty_key_refuted :
  is_some (final_bytes false empty_key_ops) = true /\ loads (final_bytes false empty_key_ops) = None.
Proof. split; vm_compute; reflexivity. Qed.

(* 65536 entries in one block: the pinned Flush stores the count as uint16(65536) = 0, so the
   reader accepts the block and finds no entry in it - for every such block, any compressor *)
Theorem old_block_count_wraps (compress : B -> B) (decompress : B -> option B) (crc : B -> N)
  (Hrt : forall x, decompress (compress x) = Some x) (b : list (lentry B B)) :
  nlen b = two16 ->
  parse_block decompress crc (trunc_bh (block_header compress crc b)) (block_payload compress b) = Some [].
Proof.
  intro Hn. unfold parse_block, block_header, block_payload, trunc_bh. cbn [bh_crc bh_usize bh_count].
  rewrite N.eqb_refl. cbn [negb]. rewrite Hrt. rewrite N.eqb_refl. cbn [negb].
  rewrite Hn. reflexivity.
Qed.

(* a 65536-byte swamp name: NameLength is stored as 0, the name bytes are then read as a block *)
Definition long_name_ops : list bop :=
  [ OOpen (bytes_n 65536 65); OWrite (mkL 1 [7] [1]) false; OClose ].

Theorem old_writer_long_name_refuted :
  is_some (final_bytes false long_name_ops) = true /\ loads (final_bytes false long_name_ops) = None.
Proof. split; vm_compute; reflexivity. Qed.

Example new_writer_long_name :
  brun idc true init long_name_ops = (init, [RErr; RErr; ROk]).
Proof. vm_compute. reflexivity. Qed.
