(* Record/ExpiryProofs.v — theorems about Record/Expiry.v (C30). *)
From HV Require Import Base.Prelude Record.Expiry.
From Coq Require Import ZifyBool.
Local Open Scope Z_scope.

Ltac zb := repeat match goal with
  | |- context [?a =? ?b] => destruct (Z.eqb_spec a b)
  | |- context [?a <? ?b] => destruct (Z.ltb_spec a b)
  | |- context [?a <=? ?b] => destruct (Z.leb_spec a b)
  end; simpl; try reflexivity; try lia.

Lemma expiredb_spec now e : expiredb now e = true <-> expired now e.
Proof. unfold expiredb, expired. zb; intuition (try discriminate; try lia). Qed.
