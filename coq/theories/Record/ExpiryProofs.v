(* Record/ExpiryProofs.v — theorems about Record/Expiry.v (C30). *)
From HV Require Import Base.Prelude Record.Expiry.
From Coq Require Import ZifyBool.
Local Open Scope Z_scope.

Ltac zb := repeat match goal with
  | |- context [?a =? ?b] => destruct (Z.eqb_spec a b)
  | |- context [?a <? ?b] => destruct (Z.ltb_spec a b)
  | |- context [?a <=? ?b] => destruct (Z.leb_spec a b)
  end; simpl; try reflexivity; try lia.

(* ------------------------------------------------------------------------------------------ *)
(* 1. every site is the spec                                                                  *)
(* ------------------------------------------------------------------------------------------ *)

Lemma expiredb_spec now e : expiredb now e = true <-> expired now e.
Proof. unfold expiredb, expired. zb; intuition (try discriminate; try lia). Qed.

Lemma has_expiry_spec e : has_expiry e = true <-> e <> 0.
Proof. unfold has_expiry. zb; intuition (try discriminate; try lia). Qed.

(* the four claim tests, the "<  now" filter and the "[.., now)" window of an expiry-index read
   are all [expired]; every membership / presence test is "e <> 0" *)
Lemma predicates_agree : forall now e,
  (site_is_expired now e = expiredb now e /\
   site_shift_expired now e = expiredb now e /\
   site_select_for_patch now e = expiredb now e /\
   site_select_for_patch_cap now e = expiredb now e /\
   site_filter_cmp OpLt now e = expiredb now e /\
   site_index_window None (Some now) e = expiredb now e) /\
  (site_index_add e = has_expiry e /\
   site_index_build e = has_expiry e /\
   site_index_save e = has_expiry e /\
   site_index_reindex e = has_expiry e /\
   site_filter_is_not_empty e = has_expiry e /\
   site_filter_is_empty e = negb (has_expiry e) /\
   site_wire_treasure e = has_expiry e /\
   site_wire_increment e = has_expiry e /\
   site_wire_patch_expired e = has_expiry e) /\
  (forall op ref, site_filter_cmp op ref e = has_expiry e && compare_ordered op e ref).
Proof.
  intros now e.
  unfold site_is_expired, site_shift_expired, site_select_for_patch, site_select_for_patch_cap,
    site_filter_cmp, site_index_window, site_index_add, site_index_build, site_index_save,
    site_index_reindex, site_filter_is_not_empty, site_filter_is_empty, site_wire_treasure,
    site_wire_increment, site_wire_patch_expired, in_window, expiredb, has_expiry, compare_ordered.
  repeat split; try (intros op ref); destruct (Z.eqb_spec e 0); simpl; try reflexivity;
    try (destruct (Z.ltb_spec e now); reflexivity).
Qed.

Example predicates_agree_nontrivial :
  expiredb 100 (-1) = true /\ expiredb 100 0 = false /\ expiredb 100 100 = false /\ expiredb 100 99 = true.
Proof. vm_compute. repeat split. Qed.

(* the wire projection of the pinned commit hid a pre-epoch expiry that every claim path acts on *)
Lemma wire_old_refuted :
  exists now e, expired now e /\ site_shift_expired now e = true /\ site_index_build e = true /\
                site_wire_treasure_old e = false.
Proof. exists 1790000000000000000, (-1). unfold expired. vm_compute. repeat split; try discriminate; lia. Qed.

Lemma wire_old_partial : forall e, 0 <= e -> site_wire_treasure_old e = has_expiry e.
Proof. intros e H. unfold site_wire_treasure_old, has_expiry. zb. Qed.

(* e = 0 never expires, is in no index, matches no comparison filter, and is "empty" *)
Lemma never_expires : forall now,
  site_is_expired now 0 = false /\ site_shift_expired now 0 = false /\
  site_select_for_patch now 0 = false /\ site_select_for_patch_cap now 0 = false /\
  site_index_add 0 = false /\ site_index_build 0 = false /\ site_index_save 0 = false /\
  site_index_reindex 0 = false /\ site_filter_is_empty 0 = true /\ site_wire_treasure 0 = false /\
  (forall op ref, site_filter_cmp op ref 0 = false) /\
  (forall from to, site_index_window from to 0 = false).
Proof. intros. repeat split; reflexivity. Qed.

(* ------------------------------------------------------------------------------------------ *)
(* 2. input paths                                                                             *)
(* ------------------------------------------------------------------------------------------ *)

Lemma wrap64_id z : min_i64 <= z <= max_i64 -> wrap64 z = z.
Proof.
  intros H. unfold wrap64, min_i64, max_i64, two63, two64 in *.
  rewrite Z.mod_small by lia. lia.
Qed.
Lemma sat64_id z : min_i64 <= z <= max_i64 -> sat64 z = z.
Proof. unfold sat64. lia. Qed.

(* an instant that fits int64 nanoseconds is stored exactly, by both versions of the code *)
Lemma set_expiration_exact sat s n :
  is_zero_time s n = false -> min_i64 <= instant s n <= max_i64 ->
  set_expiration_time sat s n = instant s n.
Proof.
  intros Hz Hr. unfold set_expiration_time. rewrite Hz.
  destruct sat; [apply sat64_id | apply wrap64_id]; assumption.
Qed.

(* current code: every instant, also outside the int64 range, stays on its side of every now *)
Lemma set_expiration_side s n now :
  is_zero_time s n = false -> min_i64 < now <= max_i64 ->
  (set_expiration_time true s n < now <-> instant s n < now).
Proof.
  intros Hz Hn. unfold set_expiration_time. rewrite Hz. unfold sat64, min_i64, max_i64 in *. lia.
Qed.

(* and stays a real expiry unless the instant is the epoch itself *)
Lemma set_expiration_nonzero s n :
  is_zero_time s n = false -> instant s n <> 0 -> set_expiration_time true s n <> 0.
Proof.
  intros Hz Hn. unfold set_expiration_time. rewrite Hz. unfold sat64, min_i64, max_i64. lia.
Qed.

(* pinned commit: a valid timestamp in the year 2300 was stored as a past (expired) instant *)
Lemma set_expiration_wrap_refuted :
  exists s n now, ts_is_valid s n = true /\ 0 < now <= max_i64 /\ now < instant s n /\
                  expired now (set_expiration_time false s n).
Proof.
  exists 10413792000, 0, 1790000000000000000. unfold expired. vm_compute.
  repeat split; try discriminate; reflexivity.
Qed.

(* applyPatchMeta: clear wins; a non-zero-time SetExpiredAt is stored; nothing else touches it *)
Lemma patch_clear sat t e : patch_path sat true t e = (0, true).
Proof. reflexivity. Qed.
Lemma patch_slide sat s n e :
  is_zero_time s n = false ->
  patch_path sat false (Some (s, n)) e = (set_expiration_time sat s n, true).
Proof. intros H. unfold patch_path. rewrite H. reflexivity. Qed.
Lemma patch_untouched sat e : patch_path sat false None e = (e, false).
Proof. reflexivity. Qed.

Lemma clear_slide : forall sat t e,
  patch_path sat true t e = (0, true) /\
  patch_path sat false None e = (e, false) /\
  (forall s n, t = Some (s, n) -> is_zero_time s n = false ->
     min_i64 <= instant s n <= max_i64 ->
     patch_path sat false t e = (instant s n, true)) /\
  (forall s n, t = Some (s, n) -> is_zero_time s n = false -> instant s n <> 0 ->
     forall now, min_i64 < now <= max_i64 ->
     let e' := fst (patch_path true false t e) in
     e' <> 0 /\ (expired now e' <-> instant s n < now)).
Proof.
  intros sat t e. split; [reflexivity|]. split; [reflexivity|]. split.
  - intros s n -> Hz Hr. rewrite patch_slide by assumption. f_equal.
    apply set_expiration_exact; assumption.
  - intros s n -> Hz Hn now Hnow. rewrite patch_slide by assumption. cbn [fst].
    pose proof (set_expiration_nonzero s n Hz Hn) as Hnz.
    pose proof (set_expiration_side s n now Hz Hnow) as Hs.
    unfold expired. intuition.
Qed.

Example clear_slide_nontrivial :
  patch_path true false (Some (-3600, 0)) 5 = (-3600000000000, true) /\
  patch_path true true (Some (-3600, 0)) 5 = (0, true) /\
  patch_path true false (Some (10413792000, 0)) 5 = (max_i64, true) /\
  patch_path true false (Some (go_zero_sec, 0)) 5 = (5, false).
Proof. vm_compute. repeat split. Qed.

(* an unchanged flag means an unchanged expiry, on every input path *)
Lemma set_path_unchanged sat t e : snd (set_path sat t e) = false -> fst (set_path sat t e) = e.
Proof. unfold set_path. destruct t as [[s n]|]; [destruct ((0 <? s) || (0 <? n))|]; cbn; congruence. Qed.
Lemma inc_path_unchanged sat t e : snd (inc_path sat t e) = false -> fst (inc_path sat t e) = e.
Proof. unfold inc_path. destruct t as [[s n]|]; [destruct (ts_is_valid s n && negb (is_zero_time s n))|]; cbn; congruence. Qed.
Lemma patch_path_unchanged sat c t e : snd (patch_path sat c t e) = false -> fst (patch_path sat c t e) = e.
Proof. unfold patch_path. destruct c; [cbn; congruence|]. destruct t as [[s n]|]; [destruct (negb (is_zero_time s n))|]; cbn; congruence. Qed.

(* where the three input paths differ: which timestamps each accepts (valid ones only) *)
Lemma input_acceptance : forall sat s n e, ts_is_valid s n = true ->
  (snd (set_path sat (Some (s, n)) e) = (0 <? s) || (0 <? n)) /\
  (snd (inc_path sat (Some (s, n)) e) = negb (is_zero_time s n)) /\
  (snd (patch_path sat false (Some (s, n)) e) = negb (is_zero_time s n)).
Proof.
  intros sat s n e Hv. unfold set_path, inc_path, patch_path. rewrite Hv. cbn [andb].
  destruct ((0 <? s) || (0 <? n)); destruct (negb (is_zero_time s n)); repeat split; reflexivity.
Qed.
(* e.g. epoch-1h is ignored by Set but stored by a patch and by Increment metadata *)
Lemma input_paths_differ :
  exists s n, ts_is_valid s n = true /\
    set_path true (Some (s, n)) 0 = (0, false) /\
    patch_path true false (Some (s, n)) 0 = (instant s n, true) /\
    inc_path true (Some (s, n)) 0 = (instant s n, true) /\ instant s n <> 0.
Proof. exists (-3600), 0. vm_compute. repeat split; discriminate. Qed.

(* what Get reports is the stored value: timestamppb.New(time.Unix(0,e)) read back *)
Lemma wire_roundtrip e :
  instant (wire_seconds e) (wire_nanos e) = e /\ 0 <= wire_nanos e < giga.
Proof.
  unfold instant, wire_seconds, wire_nanos, giga. split.
  - pose proof (Z.div_mod e 1000000000). lia.
  - apply Z.mod_pos_bound. lia.
Qed.

(* ------------------------------------------------------------------------------------------ *)
(* 3. histories: the expiry index holds exactly the keys with e <> 0                          *)
(* ------------------------------------------------------------------------------------------ *)

Definition has_rec (s : state) (k : key) (P : Z -> Prop) : Prop :=
  exists r, lookup k (recs s) = Some r /\ P (r_exp r).

(* the index agrees with the records on the keys satisfying [Q] *)
Definition idx_ok_on (Q : key -> Prop) (s : state) : Prop :=
  forall l, idx s = Some l -> forall k, Q k -> (In k l <-> has_rec s k (fun e => e <> 0)).
Definition keys_nodup (s : state) : Prop := NoDup (map fst (recs s)).
Definition inv (s : state) : Prop := keys_nodup s /\ idx_ok_on (fun _ => True) s.

Lemma memN_In k l : memN k l = true <-> In k l.
Proof.
  unfold memN. rewrite existsb_exists. split.
  - intros [x [Hx He]]. apply N.eqb_eq in He. subst. exact Hx.
  - intros H. exists k. split; [exact H | apply N.eqb_refl].
Qed.
Lemma In_delN x k l : In x (delN k l) <-> In x l /\ x <> k.
Proof.
  unfold delN. rewrite filter_In. split; intros [H1 H2]; split; try exact H1.
  - intros ->. rewrite N.eqb_refl in H2. discriminate.
  - destruct (N.eqb_spec k x); [subst; contradiction | reflexivity].
Qed.
Lemma In_addN x k l : In x (addN k l) <-> x = k \/ In x l.
Proof.
  unfold addN. destruct (memN k l) eqn:E.
  - apply memN_In in E. split; [auto | intros [->|H]; assumption].
  - simpl. split; intros [H|H]; auto.
Qed.

Lemma lookup_remove_key x k l :
  lookup x (remove_key k l) = if N.eqb x k then None else lookup x l.
Proof.
  induction l as [|[k' r] t IH]; simpl.
  - destruct (N.eqb x k); reflexivity.
  - destruct (N.eqb_spec k k') as [->|Hk]; simpl.
    + rewrite IH. destruct (N.eqb_spec x k'); reflexivity.
    + rewrite IH. destruct (N.eqb_spec x k') as [->|Hx].
      * destruct (N.eqb_spec k' k); [congruence | reflexivity].
      * reflexivity.
Qed.
Lemma lookup_upsert x k r l :
  lookup x (upsert k r l) = if N.eqb x k then Some r else lookup x l.
Proof.
  unfold upsert. simpl. destruct (N.eqb_spec x k); [reflexivity|].
  rewrite lookup_remove_key. destruct (N.eqb_spec x k); [contradiction | reflexivity].
Qed.
Lemma In_remove_key x k l : In x (map fst (remove_key k l)) -> In x (map fst l) /\ x <> k.
Proof.
  induction l as [|[k' r] t IH]; simpl; [tauto|].
  destruct (N.eqb_spec k k') as [->|Hk]; simpl.
  - intros H. apply IH in H. tauto.
  - intros [<-|H]; [split; auto | apply IH in H; tauto].
Qed.
Lemma nodup_remove_key k l : NoDup (map fst l) -> NoDup (map fst (remove_key k l)).
Proof.
  induction l as [|[k' r] t IH]; simpl; intros H; [constructor|].
  inversion H as [|? ? Hn Ht]; subst.
  destruct (N.eqb k k'); [apply IH; assumption|].
  simpl. constructor; [|apply IH; assumption].
  intros Hin. apply In_remove_key in Hin. tauto.
Qed.
Lemma nodup_upsert k r l : NoDup (map fst l) -> NoDup (map fst (upsert k r l)).
Proof.
  intros H. unfold upsert. simpl. constructor; [|apply nodup_remove_key; assumption].
  intros Hin. apply In_remove_key in Hin. tauto.
Qed.
Lemma lookup_In k r l : NoDup (map fst l) -> (In (k, r) l <-> lookup k l = Some r).
Proof.
  induction l as [|[k' r'] t IH]; simpl; intros H.
  - split; [tauto | discriminate].
  - inversion H as [|? ? Hn Ht]; subst. destruct (N.eqb_spec k k') as [->|Hk].
    + split.
      * intros [E|Hin]; [congruence|]. exfalso. apply Hn. apply in_map_iff. exists (k', r). auto.
      * intros E. left. congruence.
    + rewrite <- IH by assumption. split; [intros [E|Hin]; [congruence | assumption] | auto].
Qed.

(* the cold build is correct *)
Lemma build_list_ok l : NoDup (map fst l) -> forall k,
  In k (map fst (filter (fun p => site_index_build (r_exp (snd p))) l)) <->
  exists r, lookup k l = Some r /\ r_exp r <> 0.
Proof.
  intros Hnd k. rewrite in_map_iff. split.
  - intros [[k' r] [Hk Hin]]. simpl in Hk. subst k'. apply filter_In in Hin as [Hin Hb].
    exists r. split; [apply lookup_In; assumption|]. simpl in Hb.
    unfold site_index_build in Hb. destruct (Z.eqb_spec (r_exp r) 0); [discriminate | assumption].
  - intros [r [Hl He]]. exists (k, r). split; [reflexivity|]. apply filter_In. split.
    + apply lookup_In; assumption.
    + simpl. unfold site_index_build. destruct (Z.eqb_spec (r_exp r) 0); [contradiction | reflexivity].
Qed.

Lemma build_index_inv s : inv s -> inv (build_index s) /\ exists l, idx (build_index s) = Some l.
Proof.
  intros [Hnd Hok]. unfold build_index. destruct (idx s) as [l|] eqn:E.
  - split; [split; assumption | exists l; assumption].
  - split; [|eexists; reflexivity]. split; [exact Hnd|].
    intros l Hl k _. simpl in Hl. injection Hl as <-. simpl. unfold has_rec. simpl.
    apply build_list_ok. exact Hnd.
Qed.
Lemma build_index_recs s : recs (build_index s) = recs s.
Proof. unfold build_index. destruct (idx s); reflexivity. Qed.

Lemma index_add_true e : site_index_add e = true <-> e <> 0.
Proof. unfold site_index_add. destruct (Z.eqb_spec e 0); intuition (try discriminate). Qed.
Lemma index_add_false e : site_index_add e = false <-> e = 0.
Proof. unfold site_index_add. destruct (Z.eqb_spec e 0); intuition (try discriminate). Qed.

(* a save of key k: only k's record and k's membership change, and afterwards k is right *)
Lemma do_save_ok Q s k r ec0 f :
  keys_nodup s -> idx_ok_on Q s ->
  (forall l, idx s = Some l -> In k l -> has_rec s k (fun e => e <> 0)) ->
  (ec0 = false -> forall r0, lookup k (recs s) = Some r0 ->
     (r_exp r = r_exp r0 /\ forall l, idx s = Some l -> (In k l <-> r_exp r0 <> 0))) ->
  let s' := do_save s k (lookup k (recs s)) r ec0 f in
  keys_nodup s' /\ idx_ok_on (fun x => Q x \/ x = k) s'.
Proof.
  intros Hnd Hok Hsound Hsame s'. split; [apply nodup_upsert; exact Hnd|].
  intros l' Hl' x Hx. unfold s', do_save in Hl'. cbn [idx] in Hl'.
  unfold has_rec. unfold s', do_save. cbn [recs]. rewrite lookup_upsert.
  destruct (idx s) as [l|] eqn:El; [|destruct (lookup k (recs s)); cbn in Hl';
     repeat match type of Hl' with context [if ?c then _ else _] => destruct c end;
     try destruct (r_kind r); cbn in Hl';
     repeat match type of Hl' with context [if ?c then _ else _] => destruct c end; discriminate].
  assert (Hother : forall y, y <> k -> Q y -> (In y l <-> exists r0, lookup y (recs s) = Some r0 /\ r_exp r0 <> 0)).
  { intros y _ Hq. apply (Hok l El y Hq). }
  assert (Hk2 : site_index_save (r_exp r) = site_index_add (r_exp r)) by reflexivity.
  (* characterise the new index list *)
  assert (Hnew : forall y, In y l' <-> (y <> k /\ In y l) \/ (y = k /\ r_exp r <> 0)).
  { intros y. unfold save_index in Hl'. cbn in Hl'.
    destruct (lookup k (recs s)) as [r0|] eqn:Elk; cbn [is_some negb] in Hl'.
    - (* existed *)
      assert (Hdeladd : forall l0, (if site_index_add (r_exp r) then Some (addN k (delN k l)) else Some (delN k l)) = Some l0 ->
                (In y l0 <-> (y <> k /\ In y l) \/ (y = k /\ r_exp r <> 0))).
      { intros l0 H0. destruct (site_index_add (r_exp r)) eqn:Ea; injection H0 as <-.
        - rewrite In_addN, In_delN. apply index_add_true in Ea. destruct (N.eq_dec y k); intuition.
        - rewrite In_delN. apply index_add_false in Ea.
          destruct (N.eq_dec y k); intuition. }
      destruct (tc_extra f && negb (kind_eqb (r_kind r) KVoid)) eqn:Etc.
      + apply andb_true_iff in Etc as [_ Hv]. destruct (r_kind r); try discriminate; apply Hdeladd; exact Hl'.
      + destruct (ec0 || ec_extra f) eqn:Eec.
        * rewrite Hk2 in Hl'. apply Hdeladd; exact Hl'.
        * apply orb_false_iff in Eec as [-> _]. injection Hl' as <-.
          destruct (Hsame eq_refl r0 eq_refl) as [He Hin]. specialize (Hin l eq_refl).
          rewrite He. destruct (N.eq_dec y k) as [->|Hy]; intuition.
    - (* new key *)
      assert (~ In k l) as Hnot.
      { intros Hin. destruct (Hsound l eq_refl Hin) as [r0 [Hr0 _]]. congruence. }
      destruct (site_index_add (r_exp r)) eqn:Ea; injection Hl' as <-.
      + rewrite In_addN. apply index_add_true in Ea. destruct (N.eq_dec y k) as [->|Hy]; intuition.
      + apply index_add_false in Ea.
        destruct (N.eq_dec y k) as [->|Hy]; intuition. }
  rewrite Hnew. destruct (N.eqb_spec x k) as [->|Hxk].
  - split.
    + intros [[H _]|[_ H]]; [contradiction | exists r; auto].
    + intros [r1 [E1 H1]]. injection E1 as <-. right. auto.
  - destruct Hx as [Hq|Hx]; [|contradiction].
    rewrite <- (Hother x Hxk Hq). intuition.
Qed.

Lemma idx_ok_on_weaken (Q Q' : key -> Prop) s :
  (forall k, Q' k -> Q k) -> idx_ok_on Q s -> idx_ok_on Q' s.
Proof. intros H Hok l Hl k Hk. apply (Hok l Hl k (H k Hk)). Qed.

(* under the full invariant a save re-establishes it *)
Lemma do_save_inv s k r ec0 f :
  inv s ->
  (ec0 = false -> forall r0, lookup k (recs s) = Some r0 -> r_exp r = r_exp r0) ->
  inv (do_save s k (lookup k (recs s)) r ec0 f).
Proof.
  intros [Hnd Hok] Hsame.
  assert (A1 : forall l, idx s = Some l -> In k l -> has_rec s k (fun e => e <> 0)).
  { intros l Hl Hin. apply (Hok l Hl k I). exact Hin. }
  assert (A2 : ec0 = false -> forall r0, lookup k (recs s) = Some r0 ->
     (r_exp r = r_exp r0 /\ forall l, idx s = Some l -> (In k l <-> r_exp r0 <> 0))).
  { intros He r0 Hr0. split; [apply Hsame; assumption|].
    intros l Hl. rewrite (Hok l Hl k I). unfold has_rec. split.
    - intros [r1 [E1 H1]]. congruence.
    - intros H. exists r0. auto. }
  destruct (do_save_ok (fun _ => True) s k r ec0 f Hnd Hok A1 A2) as [H1 H2].
  split; [exact H1|]. eapply idx_ok_on_weaken; [|exact H2]. intros k0 _. left. exact I.
Qed.

Lemma delete_inv s k : inv s -> inv {| recs := remove_key k (recs s); idx := idx_del k (idx s) |}.
Proof.
  intros [Hnd Hok]. split; [apply nodup_remove_key; exact Hnd|].
  intros l' Hl' x _. cbn in Hl'. destruct (idx s) as [l|] eqn:El; [|discriminate].
  injection Hl' as <-. unfold has_rec. cbn [recs]. rewrite lookup_remove_key, In_delN.
  rewrite (Hok l El x I). unfold has_rec.
  destruct (N.eqb_spec x k) as [->|Hx].
  - split; [tauto | intros [r [E _]]; discriminate].
  - tauto.
Qed.

Lemma fold_delete_inv cl s :
  inv s -> inv (fold_left (fun st k => {| recs := remove_key k (recs st); idx := idx_del k (idx st) |}) cl s).
Proof. revert s. induction cl as [|k t IH]; simpl; intros s H; [exact H|]. apply IH. apply delete_inv. exact H. Qed.

(* ---- PatchExpired: selection removes the selected keys from the index, the per-record saves
        and the final ReindexExpiration put them back according to their new expiry ---- *)

Lemma fold_idx_del_in sel l x :
  forall l', fold_left (fun i k => idx_del k i) sel (Some l) = Some l' ->
  (In x l' <-> In x l /\ ~ In x sel).
Proof.
  revert l. induction sel as [|k t IH]; simpl; intros l l' H.
  - injection H as <-. tauto.
  - apply IH in H. rewrite H, In_delN. intuition.
Qed.
Lemma fold_idx_del_none sel : fold_left (fun i k => idx_del k i) sel None = None.
Proof. induction sel; simpl; auto. Qed.

Lemma patch_expired_one_ok sat sel clear t f s k :
  In k sel -> keys_nodup s -> idx_ok_on (fun x => ~ In x sel) s ->
  (forall l, idx s = Some l -> forall x, In x l -> has_rec s x (fun e => e <> 0)) ->
  let s' := patch_expired_one sat clear t f s k in
  keys_nodup s' /\ idx_ok_on (fun x => ~ In x sel) s' /\
  (forall l, idx s' = Some l -> forall x, In x l -> has_rec s' x (fun e => e <> 0)) /\
  (forall x, is_some (lookup x (recs s')) = is_some (lookup x (recs s))) /\
  (idx s = None -> idx s' = None).
Proof.
  intros Hk Hnd Hok Hsound s'. unfold s', patch_expired_one.
  assert (Htriv : keys_nodup s /\ idx_ok_on (fun x => ~ In x sel) s /\
    (forall l, idx s = Some l -> forall x, In x l -> has_rec s x (fun e => e <> 0)) /\
    (forall x, is_some (lookup x (recs s)) = is_some (lookup x (recs s))) /\ (idx s = None -> idx s = None)).
  { split; [exact Hnd|]. split; [exact Hok|]. split; [exact Hsound|]. split; [reflexivity | auto]. }
  destruct (lookup k (recs s)) as [r|] eqn:El; [|exact Htriv].
  destruct (r_kind r) eqn:Ekd; try exact Htriv. clear Htriv.
  destruct (patch_path sat clear t (r_exp r)) as [e' ec0] eqn:Ep.
  rewrite <- El.
  (* membership of k itself may be arbitrary here: prove the pieces by hand *)
  set (r' := {| r_kind := KBytes; r_exp := e' |}).
  assert (Hrecs : forall x, lookup x (recs (do_save s k (lookup k (recs s)) r' ec0 f)) =
                            if N.eqb x k then Some r' else lookup x (recs s)).
  { intros x. unfold do_save. cbn [recs]. apply lookup_upsert. }
  assert (Hidx : forall l', idx (do_save s k (lookup k (recs s)) r' ec0 f) = Some l' ->
            exists l, idx s = Some l /\
              forall x, x <> k -> (In x l' <-> In x l)).
  { intros l' Hl'. unfold do_save in Hl'. cbn [idx] in Hl'. rewrite El in Hl'. cbn in Hl'.
    destruct (idx s) as [l|]; [|repeat match type of Hl' with context [if ?c then _ else _] => destruct c end; discriminate].
    exists l. split; [reflexivity|]. intros x Hx.
    unfold save_index in Hl'. cbn in Hl'.
    repeat match type of Hl' with context [if ?c then _ else _] => destruct c end;
      injection Hl' as <-; rewrite ?In_addN, ?In_delN; intuition. }
  assert (Hkin : forall l', idx (do_save s k (lookup k (recs s)) r' ec0 f) = Some l' -> In k l' -> e' <> 0).
  { intros l' Hl' Hin. unfold do_save in Hl'. cbn [idx] in Hl'. rewrite El in Hl'. cbn in Hl'.
    destruct (idx s) as [l|] eqn:Eis; [|repeat match type of Hl' with context [if ?c then _ else _] => destruct c end; discriminate].
    unfold save_index in Hl'. cbn in Hl'.
    assert (Ha : site_index_add e' = true -> e' <> 0).
    { unfold site_index_add. destruct (Z.eqb_spec e' 0); [discriminate | auto]. }
    destruct (tc_extra f && true) eqn:Etc.
    - destruct (site_index_add e') eqn:Ea; [auto|]. injection Hl' as <-. apply In_delN in Hin. tauto.
    - destruct (ec0 || ec_extra f) eqn:Eec.
      + change (site_index_save e') with (site_index_add e') in Hl'.
        destruct (site_index_add e') eqn:Ea; [auto|]. injection Hl' as <-. apply In_delN in Hin. tauto.
      + injection Hl' as <-. apply orb_false_iff in Eec as [-> _].
        pose proof (patch_path_unchanged sat clear t (r_exp r)) as Hu. rewrite Ep in Hu. cbn in Hu.
        rewrite (Hu eq_refl). destruct (Hsound l eq_refl k Hin) as [r1 [E1 H1]]. congruence. }
  split; [unfold do_save; cbn [recs]; apply nodup_upsert; exact Hnd|]. split; [|split; [|split]].
  - intros l' Hl' x Hx. destruct (Hidx l' Hl') as [l [Hl Hsame]].
    assert (x <> k) by (intros ->; contradiction).
    rewrite (Hsame x H). rewrite (Hok l Hl x Hx). unfold has_rec. rewrite Hrecs.
    destruct (N.eqb_spec x k); [contradiction | tauto].
  - intros l' Hl' x Hin. unfold has_rec. rewrite Hrecs. destruct (N.eqb_spec x k) as [->|Hx].
    + exists r'. split; [reflexivity|]. cbn. apply (Hkin l' Hl' Hin).
    + destruct (Hidx l' Hl') as [l [Hl Hsame]]. apply Hsame in Hin; [|exact Hx].
      apply (Hsound l Hl x Hin).
  - intros x. rewrite Hrecs. destruct (N.eqb_spec x k) as [->|Hx]; [rewrite El|]; reflexivity.
  - intros Hn. unfold do_save. cbn [idx]. rewrite Hn. unfold save_index. cbn.
    repeat match goal with |- context [if ?c then _ else _] => destruct c end; reflexivity.
Qed.

Lemma fold_patch_expired_ok sat sel clear t f : forall ks s,
  (forall k, In k ks -> In k sel) -> keys_nodup s -> idx_ok_on (fun x => ~ In x sel) s ->
  (forall l, idx s = Some l -> forall x, In x l -> has_rec s x (fun e => e <> 0)) ->
  let s' := fold_left (patch_expired_one sat clear t f) ks s in
  keys_nodup s' /\ idx_ok_on (fun x => ~ In x sel) s' /\
  (forall l, idx s' = Some l -> forall x, In x l -> has_rec s' x (fun e => e <> 0)) /\
  (idx s = None -> idx s' = None).
Proof.
  induction ks as [|k t' IH]; simpl; intros s Hsub Hnd Hok Hsound.
  - split; [exact Hnd|]. split; [exact Hok|]. split; [exact Hsound | auto].
  - destruct (patch_expired_one_ok sat sel clear t f s k (Hsub k (or_introl eq_refl)) Hnd Hok Hsound)
      as [H1 [H2 [H3 [_ H5]]]].
    destruct (IH (patch_expired_one sat clear t f s k) (fun x Hx => Hsub x (or_intror Hx)) H1 H2 H3)
      as [G1 [G2 [G3 G4]]].
    split; [exact G1|]. split; [exact G2|]. split; [exact G3 | auto].
Qed.

Lemma fold_reindex_add_in recs0 sel x : forall l l',
  fold_left (fun i k => match lookup k recs0 with
                        | Some r => if site_index_reindex (r_exp r) then idx_add k i else i
                        | None => i end) sel (Some l) = Some l' ->
  (In x l' <-> In x l \/ (In x sel /\ exists r, lookup x recs0 = Some r /\ r_exp r <> 0)).
Proof.
  induction sel as [|k t IH]; simpl; intros l l' H.
  - injection H as <-. intuition.
  - destruct (lookup k recs0) as [r|] eqn:El.
    + destruct (site_index_reindex (r_exp r)) eqn:Er.
      * cbn in H. apply IH in H. rewrite H, In_addN.
        assert (r_exp r <> 0).
        { unfold site_index_reindex in Er. destruct (Z.eqb_spec (r_exp r) 0); [discriminate | auto]. }
        split.
        -- intros [[->|Hl]|[Hs Hr]]; [right; split; [auto | exists r; auto] | auto | right; tauto].
        -- intros [Hl|[[<-|Hs] Hr]]; auto.
      * apply IH in H. rewrite H.
        assert (r_exp r = 0).
        { unfold site_index_reindex in Er. destruct (Z.eqb_spec (r_exp r) 0); [auto | discriminate]. }
        split.
        -- intros [Hl|[Hs Hr]]; [auto | right; tauto].
        -- intros [Hl|[[<-|Hs] [r1 [E1 H1]]]]; auto.
           ++ exfalso. rewrite El in E1. injection E1 as <-. contradiction.
           ++ right. split; [auto | exists r1; auto].
    + apply IH in H. rewrite H. split.
      * intros [Hl|[Hs Hr]]; [auto | right; tauto].
      * intros [Hl|[[<-|Hs] [r1 [E1 H1]]]]; auto.
        -- congruence.
        -- right. split; [auto | exists r1; auto].
Qed.
Lemma fold_reindex_add_none recs0 sel :
  fold_left (fun i k => match lookup k recs0 with
                        | Some r => if site_index_reindex (r_exp r) then idx_add k i else i
                        | None => i end) sel None = None.
Proof. induction sel as [|k t IH]; simpl; [reflexivity|]. destruct (lookup k recs0) as [r|]; [destruct (site_index_reindex (r_exp r))|]; exact IH. Qed.

Lemma reindex_inv sel s :
  keys_nodup s -> idx_ok_on (fun x => ~ In x sel) s -> inv (reindex sel s).
Proof.
  intros Hnd Hok. split; [exact Hnd|].
  intros l' Hl' x _. unfold reindex in Hl'. cbn [idx] in Hl'.
  unfold has_rec, reindex. cbn [recs].
  destruct (idx s) as [l|] eqn:El.
  - destruct (fold_left (fun i k => idx_del k i) sel (Some l)) as [lb|] eqn:Eb.
    + pose proof (fold_idx_del_in sel l x lb Eb) as Hb.
      rewrite (fold_reindex_add_in (recs s) sel x lb l' Hl'), Hb.
      destruct (in_dec N.eq_dec x sel) as [Hin|Hnin].
      * intuition.
      * rewrite (Hok l El x Hnin). unfold has_rec. intuition.
    + rewrite fold_reindex_add_none in Hl'. discriminate.
  - rewrite fold_idx_del_none, fold_reindex_add_none in Hl'. discriminate.
Qed.

Lemma step_inv sat s o : inv s -> inv (step sat s o).
Proof.
  intros H. destruct o as [k kd t f|k tn te f|k create clear t f|k| | |now|now|now clear t f]; cbn [step].
  - (* OSet *)
    destruct (set_path sat t (old_exp (lookup k (recs s)))) as [e' ec0] eqn:Ep.
    apply do_save_inv; [exact H|]. intros -> r0 Hr0. cbn.
    pose proof (set_path_unchanged sat t (old_exp (lookup k (recs s)))) as Hu.
    rewrite Ep in Hu. cbn in Hu. rewrite (Hu eq_refl), Hr0. reflexivity.
  - (* OInc *)
    destruct (lookup k (recs s)) as [r|] eqn:El.
    + destruct (r_kind r).
      * exact H.
      * destruct (inc_path sat te (r_exp r)) as [e' ec0] eqn:Ep. rewrite <- El.
        apply do_save_inv; [exact H|]. intros -> r0 Hr0. cbn.
        pose proof (inc_path_unchanged sat te (r_exp r)) as Hu. rewrite Ep in Hu. cbn in Hu.
        rewrite (Hu eq_refl). congruence.
      * destruct (inc_path sat tn (r_exp r)) as [e' ec0] eqn:Ep. rewrite <- El.
        apply do_save_inv; [exact H|]. intros -> r0 Hr0. cbn.
        pose proof (inc_path_unchanged sat tn (r_exp r)) as Hu. rewrite Ep in Hu. cbn in Hu.
        rewrite (Hu eq_refl). congruence.
    + destruct (inc_path sat tn 0) as [e' ec0] eqn:Ep. rewrite <- El.
      apply do_save_inv; [exact H|]. intros _ r0 Hr0. congruence.
  - (* OPatch *)
    destruct (lookup k (recs s)) as [r|] eqn:El.
    + destruct (r_kind r).
      * destruct (patch_path sat clear t (r_exp r)) as [e' ec0] eqn:Ep. rewrite <- El.
        apply do_save_inv; [exact H|]. intros -> r0 Hr0. cbn.
        pose proof (patch_path_unchanged sat clear t (r_exp r)) as Hu. rewrite Ep in Hu. cbn in Hu.
        rewrite (Hu eq_refl). congruence.
      * exact H.
      * destruct create; [|exact H].
        destruct (patch_path sat clear t (r_exp r)) as [e' ec0] eqn:Ep. rewrite <- El.
        apply do_save_inv; [exact H|]. intros -> r0 Hr0. cbn.
        pose proof (patch_path_unchanged sat clear t (r_exp r)) as Hu. rewrite Ep in Hu. cbn in Hu.
        rewrite (Hu eq_refl). congruence.
    + destruct create; [|exact H].
      destruct (patch_path sat clear t 0) as [e' ec0] eqn:Ep. rewrite <- El.
      apply do_save_inv; [exact H|]. intros _ r0 Hr0. congruence.
  - apply delete_inv. exact H.
  - apply build_index_inv. exact H.
  - destruct H as [Hnd _]. split; [exact Hnd|]. intros l Hl. discriminate.
  - apply fold_delete_inv. apply build_index_inv. exact H.
  - apply fold_delete_inv. apply build_index_inv. exact H.
  - (* OPatchExpired *)
    destruct (build_index_inv s H) as [[Hnd Hok] [l El]].
    set (s1 := build_index s) in *.
    set (sel := claimed_keys (site_select_for_patch_cap now) s1).
    set (s2 := {| recs := recs s1; idx := fold_left (fun i k => idx_del k i) sel (idx s1) |}).
    assert (Hnd2 : keys_nodup s2) by exact Hnd.
    assert (Hok2 : idx_ok_on (fun x => ~ In x sel) s2).
    { intros l2 Hl2 x Hx. unfold s2 in Hl2. cbn [idx] in Hl2. rewrite El in Hl2.
      rewrite (fold_idx_del_in sel l x l2 Hl2). unfold has_rec, s2. cbn [recs].
      rewrite (Hok l El x I). unfold has_rec. tauto. }
    assert (Hs2 : forall l2, idx s2 = Some l2 -> forall x, In x l2 -> has_rec s2 x (fun e => e <> 0)).
    { intros l2 Hl2 x Hin. unfold s2 in Hl2. cbn [idx] in Hl2. rewrite El in Hl2.
      apply (fold_idx_del_in sel l x l2 Hl2) in Hin. destruct Hin as [Hin _].
      apply (Hok l El x I) in Hin. exact Hin. }
    destruct (fold_patch_expired_ok sat sel clear t f sel s2 (fun k Hk => Hk) Hnd2 Hok2 Hs2) as [G1 [G2 _]].
    apply reindex_inv; assumption.
Qed.

Lemma init_inv : inv init.
Proof. split; [constructor|]. intros l Hl. discriminate. Qed.

Theorem run_inv sat h : forall s, inv s -> inv (run sat s h).
Proof. induction h as [|o t IH]; simpl; intros s H; [exact H|]. apply IH. apply step_inv. exact H. Qed.

(* C30_index_membership: after every history, a built expiry index holds exactly the keys
   whose record has a non-zero expiry *)
Theorem index_membership : forall sat h l k,
  idx (run sat init h) = Some l ->
  (In k l <-> exists r, lookup k (recs (run sat init h)) = Some r /\ r_exp r <> 0).
Proof.
  intros sat h l k Hl. destruct (run_inv sat h init init_inv) as [_ Hok]. apply (Hok l Hl k I).
Qed.

(* the three claim paths return exactly the expired records, in every reachable state
   (any number of reloads, earlier claims, clears and slides included) *)
Lemma claimed_keys_spec test s l k :
  idx s = Some l -> inv s ->
  (In k (claimed_keys test s) <-> exists r, lookup k (recs s) = Some r /\ r_exp r <> 0 /\ test (r_exp r) = true).
Proof.
  intros Hl [_ Hok]. unfold claimed_keys, idx_keys. rewrite Hl, filter_In, (Hok l Hl k I). unfold has_rec.
  split.
  - intros [[r [E H]] Ht]. rewrite E in Ht. exists r. auto.
  - intros [r [E [H Ht]]]. split; [exists r; auto | rewrite E; exact Ht].
Qed.

Theorem claims_exact : forall sat h now k o,
  o = OShiftExpired now \/ o = OShiftWindow now \/ (exists c t f, o = OPatchExpired now c t f) ->
  (In k (claim_result (run sat init h) o) <->
   exists r, lookup k (recs (run sat init h)) = Some r /\ expired now (r_exp r)).
Proof.
  intros sat h now k o Ho.
  set (s := run sat init h).
  destruct (build_index_inv s (run_inv sat h init init_inv)) as [Hinv [l Hl]].
  assert (Hgen : forall test, (forall e, e <> 0 -> (test e = true <-> e < now)) ->
            (In k (claimed_keys test (build_index s)) <-> exists r, lookup k (recs s) = Some r /\ expired now (r_exp r))).
  { intros test Ht. rewrite (claimed_keys_spec test (build_index s) l k Hl Hinv), build_index_recs.
    unfold expired. split; intros [r [E H]]; exists r; (split; [exact E|]).
    - destruct H as [H1 H2]. split; [exact H1 | apply Ht; assumption].
    - destruct H as [H1 H2]. split; [exact H1 | apply Ht; assumption]. }
  destruct Ho as [->|[->|[c [t [f ->]]]]]; cbn [claim_result]; apply Hgen; intros e He.
  - unfold site_shift_expired. destruct (Z.eqb_spec e 0); [contradiction|]. cbn. apply Z.ltb_lt.
  - unfold in_window. cbn. apply Z.ltb_lt.
  - unfold site_select_for_patch_cap. destruct (Z.eqb_spec e 0); [contradiction|]. cbn. apply Z.ltb_lt.
Qed.

(* a reload changes no record and therefore no claim: "before and after a reload" *)
Theorem reload_transparent : forall sat h,
  recs (run sat init (h ++ [OReload])) = recs (run sat init h) /\
  forall now k o,
    o = OShiftExpired now \/ o = OShiftWindow now \/ (exists c t f, o = OPatchExpired now c t f) ->
    (In k (claim_result (run sat init (h ++ [OReload])) o) <-> In k (claim_result (run sat init h) o)).
Proof.
  intros sat h. assert (E : recs (run sat init (h ++ [OReload])) = recs (run sat init h)).
  { unfold run. rewrite fold_left_app. reflexivity. }
  split; [exact E|]. intros now k o Ho.
  rewrite (claims_exact sat (h ++ [OReload]) now k o Ho), (claims_exact sat h now k o Ho), E. tauto.
Qed.

(* reads through the expiry index (any window) see exactly the records with an expiry in the window *)
Theorem index_read_exact : forall sat h from to k,
  In k (claimed_keys (in_window from to) (build_index (run sat init h))) <->
  exists r, lookup k (recs (run sat init h)) = Some r /\ r_exp r <> 0 /\ in_window from to (r_exp r) = true.
Proof.
  intros sat h from to k. set (s := run sat init h).
  destruct (build_index_inv s (run_inv sat h init init_inv)) as [Hinv [l Hl]].
  rewrite (claimed_keys_spec _ (build_index s) l k Hl Hinv), build_index_recs. tauto.
Qed.

(* non-vacuity: a history with a set, a slide into the past through a patch, a reload and a clear *)
Example history_nontrivial :
  let h := [OSet 1%N KBytes (Some (1790000000, 0)) no_flags;
            OSet 2%N KBytes None no_flags; OTouch;
            OPatch 2%N false false (Some (-3600, 0)) no_flags; OReload;
            OPatch 1%N false true None no_flags; OTouch] in
  let s := run true init h in
  idx s = Some [2%N] /\ claim_result s (OShiftExpired 5) = [2%N] /\
  map (fun p => (fst p, r_exp (snd p))) (recs s) = [(1%N, 0); (2%N, -3600000000000)].
Proof. vm_compute. repeat split. Qed.
