(* Record/Gob.v — persistence of a record: treasure.go ConvertToByte (gob) and LoadFromByte,
   the swamp as a key -> record map under histories, reload, and the C05 case checker.
   Model only, no proofs.

   gob is an external library (M5).  The only fact about it the model uses is its
   zero-omission law, [gob_spec]: a struct field whose value (after following pointers) is the
   zero value of its type is not transmitted and therefore decodes as nil / zero; everything
   else round-trips.  The theorems take gob as a Section variable with this law as hypothesis;
   the harness validates the law on the real encoding/gob for every content type in every run. *)
From HV Require Import Base.Prelude.
From HV Require Export Record.Treasure.
Local Open Scope Z_scope.

Definition drop {A} (is_zero : A -> bool) (o : option A) : option A :=
  match o with Some x => if is_zero x then None else Some x | None => None end.

Definition zero_int (n : Z) : bool := n =? 0.
Definition f32_neg_zero : Z := 2147483648.
Definition f64_neg_zero : Z := 9223372036854775808.
(* gob tests floats with f != 0, which is false for both zeros *)
Definition zero_f32 (b : Z) : bool := (b =? 0) || (b =? f32_neg_zero).
Definition zero_f64 (b : Z) : bool := (b =? 0) || (b =? f64_neg_zero).
Definition zero_list {A} (l : list A) : bool := match l with [] => true | _ => false end.

Definition gob_spec (c : content) : content :=
  {| c_void := c_void c;
     c_u8 := drop zero_int (c_u8 c); c_u16 := drop zero_int (c_u16 c);
     c_u32 := drop zero_int (c_u32 c); c_u64 := drop zero_int (c_u64 c);
     c_i8 := drop zero_int (c_i8 c); c_i16 := drop zero_int (c_i16 c);
     c_i32 := drop zero_int (c_i32 c); c_i64 := drop zero_int (c_i64 c);
     c_f32 := drop zero_f32 (c_f32 c); c_f64 := drop zero_f64 (c_f64 c);
     c_str := drop zero_list (c_str c); c_bool := drop negb (c_bool c);
     c_bytes := drop zero_list (c_bytes c); c_u32s := drop zero_list (c_u32s c);
     c_zero_of := c_zero_of c; c_zero_neg := c_zero_neg c |}.

(* treasure.go:Content.zeroHint – the type of the value if gob would drop it, else 0 *)
Definition hint_of (is_zero : bool) (ty : N) (neg : bool) : N * bool := if is_zero then (ty, neg) else (0%N, false).
Definition zero_hint (c : content) : N * bool :=
  if c_void c then (0%N, false) else
  match c_u8 c with Some n => hint_of (zero_int n) 1 false | None =>
  match c_u16 c with Some n => hint_of (zero_int n) 2 false | None =>
  match c_u32 c with Some n => hint_of (zero_int n) 3 false | None =>
  match c_u64 c with Some n => hint_of (zero_int n) 4 false | None =>
  match c_i8 c with Some n => hint_of (zero_int n) 5 false | None =>
  match c_i16 c with Some n => hint_of (zero_int n) 6 false | None =>
  match c_i32 c with Some n => hint_of (zero_int n) 7 false | None =>
  match c_i64 c with Some n => hint_of (zero_int n) 8 false | None =>
  match c_f32 c with Some b => hint_of (zero_f32 b) 9 (b =? f32_neg_zero) | None =>
  match c_f64 c with Some b => hint_of (zero_f64 b) 10 (b =? f64_neg_zero) | None =>
  match c_str c with Some s => hint_of (zero_list s) 11 false | None =>
  match c_bool c with Some b => hint_of (negb b) 12 false | None =>
  match c_bytes c with Some b => hint_of (zero_list b) 13 false | None =>
  match c_u32s c with Some l => hint_of (zero_list l) 14 false | None => (0%N, false)
  end end end end end end end end end end end end end end.

(* treasure.go:ConvertToByte – what is handed to gob.  [fixed] = false is the pinned commit. *)
Definition to_wire (fixed : bool) (c : content) : content :=
  if fixed then (let '(z, n) := zero_hint c in if N.eqb z 0 then c else set_hint c z n) else c.

Definition or_else {A} (o : option A) (d : A) : option A := match o with Some _ => o | None => Some d end.

(* treasure.go:Content.restoreZero (called by LoadFromByte) *)
Definition restore_zero (c : content) : content :=
  let c0 := set_hint c 0%N false in
  match c_zero_of c with
  | 1%N => set_u8 c0 (or_else (c_u8 c) 0) | 2%N => set_u16 c0 (or_else (c_u16 c) 0)
  | 3%N => set_u32 c0 (or_else (c_u32 c) 0) | 4%N => set_u64 c0 (or_else (c_u64 c) 0)
  | 5%N => set_i8 c0 (or_else (c_i8 c) 0) | 6%N => set_i16 c0 (or_else (c_i16 c) 0)
  | 7%N => set_i32 c0 (or_else (c_i32 c) 0) | 8%N => set_i64 c0 (or_else (c_i64 c) 0)
  | 9%N => set_f32 c0 (or_else (c_f32 c) (if c_zero_neg c then f32_neg_zero else 0))
  | 10%N => set_f64 c0 (or_else (c_f64 c) (if c_zero_neg c then f64_neg_zero else 0))
  | 11%N => set_str c0 (or_else (c_str c) []) | 12%N => set_bool c0 (or_else (c_bool c) false)
  | 13%N => set_bytes c0 (or_else (c_bytes c) []) | 14%N => set_u32s c0 (or_else (c_u32s c) [])
  | _ => c0
  end.
Definition from_wire (fixed : bool) (c : content) : content := if fixed then restore_zero c else c.

Section Persist.
Variable gob : content -> content.     (* encode, store, load, decode *)
Variable fixed : bool.

Definition persist_value (v : value) : value :=
  of_content (from_wire fixed (gob (to_wire fixed (to_content v)))).

(* the metadata fields of Model are plain int64 / string: gob drops a zero and decodes a zero *)
Definition persist (r : rec) : rec :=
  {| r_val := persist_value (r_val r);
     r_created := r_created r; r_created_by := r_created_by r;
     r_modified := r_modified r; r_modified_by := r_modified_by r; r_expiry := r_expiry r |}.

(* ---- the swamp under histories ---- *)
Definition key := N.
Definition state := list (key * rec).
Fixpoint lookup (k : key) (s : state) : option rec :=
  match s with [] => None | (k', r) :: t => if N.eqb k k' then Some r else lookup k t end.
Fixpoint remove_key (k : key) (s : state) : state :=
  match s with [] => [] | (k', r) :: t => if N.eqb k k' then remove_key k t else (k', r) :: remove_key k t end.

(* close (idle eviction or shutdown) + re-summon: every record goes through ConvertToByte, the
   V2 chronicler (C01: last write per key wins, deleted keys stay deleted) and LoadFromByte *)
Definition reload (s : state) : state := map (fun p => (fst p, persist (snd p))) s.

(* API operations.  C05 is indifferent to *what* an operation computes (that is C06): each
   writing operation carries the record it left behind, as observed through Get right after
   it (M2).  Set / Increment* / PatchTreasures / Uint32SlicePush / Uint32SliceDelete are all
   [OWrite]; Delete, ShiftByKeys (and any claim) is [ODelete].  [OReload] is a close +
   re-summon in the middle of the history (shutdown or idle eviction).  Write ticks of the
   background writer (which decide whether a record is "on disk", "buffered" or both when the
   next operation arrives) are deliberately NOT operations: the property is indifferent to
   them, so the harness places them freely between operations. *)
Inductive op := OWrite (k : key) (r : rec) | ODelete (k : key) | OReload | OTick | OWin (site : N).
(* [OTick]: the background writer flushed its buffer here (observed by the harness: it waited
   longer than the write interval).  A no-op for the state; it only lets the case checker say
   which operations fell into one write interval when it classifies a violation. *)
(* [OWin site]: from here to the next tick/reload the operations ran while a flush of the swamp
   was held (by the harness, through the hook points) at site 1 = before it collects its batch,
   2 = batch taken off the buffer but not yet encoded, 3 = batch written.  A no-op for the state. *)
Definition step (s : state) (o : op) : state :=
  match o with
  | OWrite k r => (k, r) :: remove_key k s
  | ODelete k => remove_key k s
  | OReload => reload s
  | OTick => s
  | OWin _ => s
  end.
Definition run (h : list op) : state := fold_left step h [].

Definition seen (s : state) (k : key) : option view := option_map view_of (lookup k s).
End Persist.

(* values whose type survives only with the hint *)
Definition is_gob_zero (v : value) : bool :=
  match v with
  | VVoid => false
  | VU8 n | VU16 n | VU32 n | VU64 n | VI8 n | VI16 n | VI32 n | VI64 n => zero_int n
  | VF32 b => zero_f32 b | VF64 b => zero_f64 b
  | VStr s => zero_list s | VBool b => negb b | VBytes b => zero_list b | VU32S l => zero_list l
  end.

(* ------------------------------------------------------------------------------------------ *)
(* case checker                                                                                *)
(* ------------------------------------------------------------------------------------------ *)
Definition oZ_eqb := option_eqb Z.eqb.
Definition content_eqb (a b : content) : bool :=
  Bool.eqb (c_void a) (c_void b) &&
  oZ_eqb (c_u8 a) (c_u8 b) && oZ_eqb (c_u16 a) (c_u16 b) && oZ_eqb (c_u32 a) (c_u32 b) && oZ_eqb (c_u64 a) (c_u64 b) &&
  oZ_eqb (c_i8 a) (c_i8 b) && oZ_eqb (c_i16 a) (c_i16 b) && oZ_eqb (c_i32 a) (c_i32 b) && oZ_eqb (c_i64 a) (c_i64 b) &&
  oZ_eqb (c_f32 a) (c_f32 b) && oZ_eqb (c_f64 a) (c_f64 b) &&
  option_eqb bytes_eqb (c_str a) (c_str b) && option_eqb Bool.eqb (c_bool a) (c_bool b) &&
  option_eqb bytes_eqb (c_bytes a) (c_bytes b) && option_eqb (list_eqb Z.eqb) (c_u32s a) (c_u32s b) &&
  N.eqb (c_zero_of a) (c_zero_of b) && Bool.eqb (c_zero_neg a) (c_zero_neg b).

Inductive hcase :=
| GobCase (cin cout : content)          (* real gob: Content in, Content out *)
| ValueCase (fixed : bool) (v vout : value)   (* real ConvertToByte + LoadFromByte on one treasure *)
| OldFileCase (fixed : bool) (v vout : value) (* bytes written by the pinned commit's Model, read by LoadFromByte *)
| ReloadCase (fixed : bool) (ops : list op)
             (before after : list (key * option view))    (* Get of every key, before / after re-summon *)
             (idx_before idx_after : list (key * view)).  (* GetByIndex (key order), before / after *)

Definition oview_eqb := option_eqb view_eqb.
Definition kv_eqb (a b : key * view) : bool := N.eqb (fst a) (fst b) && view_eqb (snd a) (snd b).

(* which clause of "same existence, same type and value, same metadata" fails for one key *)
Definition key_verdict (b a : option view) : N :=
  match b, a with
  | None, None => 0
  | Some _, None | None, Some _ => 5
  | Some wb, Some wa =>
      if negb (value_eqb (w_val wb) (w_val wa)) then
        (if is_gob_zero (w_val wb) && value_eqb (w_val wa) VVoid then 2 else 3)
      else if view_eqb wb wa then 0 else 4
  end%N.

(* Classifier for one known resurrection class.  Per key, since the last flush point (tick or
   reload): stage 0 = nothing relevant yet; 1 = a live, flushed record was deleted (tombstone
   buffered); 2 = it was re-created in the same write interval (SaveFunction drops the buffered
   tombstone, the new object has no file pointer); 3 = deleted again (deleteHandler sees "never
   written" and writes no tombstone).  [live]/[disk]: does the key exist now / at the flush point. *)
Definition lost_tombstone_stage (k : key) (ops : list op) : N :=
  let '(_, _, stage) :=
    fold_left (fun (st : bool * bool * N) (o : op) =>
      let '(live, disk, stage) := st in
      match o with
      | OTick | OReload => (live, live, 0%N)
      | OWin _ => st
      | OWrite k' _ => if N.eqb k k' then (true, disk, if N.eqb stage 1 || N.eqb stage 3 then 2%N else stage) else st
      | ODelete k' =>
          if N.eqb k k' then
            (false, disk, if live && disk && N.eqb stage 0 then 1%N else if live && N.eqb stage 2 then 3%N else stage)
          else st
      end) ops (false, false, 0%N) in
  stage.

(* Classifier for a second known resurrection class: a key that is not on disk is created (its
   first write sits in the buffer), the flush takes the batch off the buffer and is held before
   encoding it (window 2), the key is deleted (deleteHandler: no file pointer => "never written",
   nothing to do), the flush then encodes the still-live object.  stage 1 = created and buffered,
   2 = deleted inside the window. *)
Definition inflight_delete_stage (k : key) (ops : list op) : N :=
  let '(_, _, _, stage) :=
    fold_left (fun (st : bool * bool * bool * N) (o : op) =>
      let '(live, disk, win, stage) := st in
      match o with
      | OTick | OReload => (live, live, false, 0%N)
      | OWin site => (live, disk, N.eqb site 2, stage)
      | OWrite k' _ => if N.eqb k k' then (true, disk, win, if negb disk && negb win then 1%N else stage) else st
      | ODelete k' =>
          if N.eqb k k' then (false, disk, win, if win && live && N.eqb stage 1 then 2%N else if win then stage else 0%N)
          else st
      end) ops (false, false, false, 0%N) in
  stage.

Fixpoint first_nz (l : list N) : N :=
  match l with [] => 0%N | x :: t => if N.eqb x 0 then first_nz t else x end.

Fixpoint zip_verdicts (b a : list (key * option view)) : list N :=
  match b, a with
  | (k, vb) :: tb, (k', va) :: ta => (if N.eqb k k' then key_verdict vb va else 1%N) :: zip_verdicts tb ta
  | [], [] => []
  | _, _ => [1%N]
  end.

Definition chk (c : hcase) : N :=
  match c with
  | GobCase cin cout => if content_eqb (gob_spec cin) cout then 0%N else 1%N
  | ValueCase fixed v vout =>
      if value_eqb v vout then
        (if value_eqb (persist_value gob_spec fixed v) vout then 0 else 1)
      else if is_gob_zero v && value_eqb vout VVoid then
        (if value_eqb (persist_value gob_spec fixed v) vout then 2 else 1)
      else 3
  | OldFileCase fixed v vout =>
      (* a file written before the fix loads as it always did: non-zero values exactly *)
      if negb (is_gob_zero v) && negb (value_eqb v vout) then 7
      else if value_eqb (of_content (from_wire fixed (gob_spec (to_content v)))) vout then 0 else 1
  | ReloadCase fixed ops before after ib ia =>
      let o := first_nz (zip_verdicts before after) in
      if negb (N.eqb o 0) then
        (* codes 8 / 9: every existence change of the case is a resurrection of one of the two
           classified kinds (8: all of the delete/re-create/delete kind) *)
        (let explained (cls : key -> bool) :=
           forallb (fun ba => match snd (fst ba), snd (snd ba) with
                              | None, Some _ => cls (fst (fst ba))
                              | None, None => true
                              | Some wb, Some wa => view_eqb wb wa
                              | Some _, None => false
                              end) (combine before after) in
         if N.eqb o 5 && explained (fun k => N.eqb (lost_tombstone_stage k ops) 3) then 8
         else if N.eqb o 5 && explained (fun k => N.eqb (lost_tombstone_stage k ops) 3 || N.eqb (inflight_delete_stage k ops) 2) then 9
         else o)
      else if negb (list_eqb kv_eqb ib ia) then 6
      else
        (* replay: the history leaves [before]; the model's reload of it is [after] *)
        let s := run gob_spec fixed ops in
        let s' := reload gob_spec fixed s in
        if forallb (fun p => oview_eqb (snd p) (seen s (fst p))) before &&
           forallb (fun p => oview_eqb (snd p) (seen s' (fst p))) after &&
           forallb (fun p => oview_eqb (Some (snd p)) (seen s (fst p))) ib
        then 0 else 1
  end%N.

Definition check_all (cases : list hcase) : list verdict := check_cases chk cases.
