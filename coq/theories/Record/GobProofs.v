(* Record/GobProofs.v — theorems about Record/Treasure.v + Record/Gob.v (C05). *)
From HV Require Import Base.Prelude Record.Treasure Record.Gob.
Local Open Scope Z_scope.

Lemma list_eqb_refl {A} (eqb : A -> A -> bool) (H : forall x, eqb x x = true) l : list_eqb eqb l l = true.
Proof. induction l as [|x t IH]; simpl; [reflexivity|]. rewrite H, IH. reflexivity. Qed.

(* ------------------------------------------------------------------------------------------ *)
(* one value through ConvertToByte -> gob -> LoadFromByte                                      *)
(* ------------------------------------------------------------------------------------------ *)
Section Law.
Variable gob : content -> content.
Hypothesis gob_law : forall c, gob c = gob_spec c.

(* current code: every value of every content type comes back as it was stored *)
Lemma persist_value_fixed : forall v, persist_value gob true v = v.
Proof.
  intros v. unfold persist_value. rewrite gob_law.
  destruct v as [|n|n|n|n|n|n|n|n|b|b|s|b|b|l]; try reflexivity;
    try (cbn; unfold zero_int; destruct (Z.eqb_spec n 0) as [->|Hn]; cbn;
         [reflexivity | unfold zero_int; destruct (Z.eqb_spec n 0); [contradiction | reflexivity]]).
  - (* float32 *)
    cbn. unfold zero_f32.
    destruct (Z.eqb_spec b 0) as [->|H0]; [reflexivity|].
    destruct (Z.eqb_spec b f32_neg_zero) as [->|H1]; [reflexivity|].
    cbn. unfold zero_f32.
    destruct (Z.eqb_spec b 0); [contradiction|]. destruct (Z.eqb_spec b f32_neg_zero); [contradiction|]. reflexivity.
  - (* float64 *)
    cbn. unfold zero_f64.
    destruct (Z.eqb_spec b 0) as [->|H0]; [reflexivity|].
    destruct (Z.eqb_spec b f64_neg_zero) as [->|H1]; [reflexivity|].
    cbn. unfold zero_f64.
    destruct (Z.eqb_spec b 0); [contradiction|]. destruct (Z.eqb_spec b f64_neg_zero); [contradiction|]. reflexivity.
  - destruct s; reflexivity.
  - destruct b; reflexivity.
  - destruct b; reflexivity.
  - destruct l; reflexivity.
Qed.

(* pinned commit: exactly the zero-like values lose their type *)
Lemma persist_value_old : forall v,
  persist_value gob false v = if is_gob_zero v then VVoid else v.
Proof.
  intros v. unfold persist_value. rewrite gob_law.
  destruct v as [|n|n|n|n|n|n|n|n|b|b|s|b|b|l]; try reflexivity;
    try (cbn; unfold zero_int; destruct (Z.eqb_spec n 0); reflexivity).
  - cbn. destruct (zero_f32 b); reflexivity.
  - cbn. destruct (zero_f64 b); reflexivity.
  - destruct s; reflexivity.
  - destruct b; reflexivity.
  - destruct b; reflexivity.
  - destruct l; reflexivity.
Qed.

Lemma persist_fixed r : persist gob true r = r.
Proof. destruct r. unfold persist. cbn. rewrite persist_value_fixed. reflexivity. Qed.

(* ---- histories ---- *)
Lemma lookup_reload fixed s k :
  lookup k (reload gob fixed s) = option_map (persist gob fixed) (lookup k s).
Proof.
  induction s as [|[k' r] t IH]; simpl; [reflexivity|].
  destruct (N.eqb k k'); [reflexivity | exact IH].
Qed.

(* current code: a reload is the identity on every state *)
Lemma reload_id : forall s, reload gob true s = s.
Proof.
  intros s. unfold reload. induction s as [|[k r] t IH]; simpl; [reflexivity|].
  rewrite persist_fixed, IH. reflexivity.
Qed.

(* C05_reload_identity: after any history (with any number of closes in the middle), a reload
   changes nothing a client can see *)
Theorem reload_identity : forall h k,
  seen (reload gob true (run gob true h)) k = seen (run gob true h) k.
Proof. intros h k. rewrite reload_id. reflexivity. Qed.

(* the stronger statement: the stored state itself is unchanged *)
Theorem reload_state_identity : forall h, reload gob true (run gob true h) = run gob true h.
Proof. intros h. apply reload_id. Qed.

(* closes in the middle of a history are invisible: the state equals that of the same history
   without them, wherever they are placed *)
Definition is_reload (o : op) : bool := match o with OReload | OTick | OWin _ => true | _ => false end.
Lemma run_from_drop_reloads : forall h s,
  fold_left (step gob true) h s = fold_left (step gob true) (filter (fun o => negb (is_reload o)) h) s.
Proof.
  induction h as [|o t IH]; intros s; [reflexivity|].
  destruct o; cbn [filter is_reload negb fold_left]; try apply IH.
  cbn [step]. rewrite reload_id. apply IH.
Qed.
Theorem mid_history_reloads_invisible : forall h,
  run gob true h = run gob true (filter (fun o => negb (is_reload o)) h).
Proof. intros h. apply run_from_drop_reloads. Qed.

(* pinned commit: refuted by Set k (Uint8 0) ... *)
Theorem reload_identity_refuted_old :
  exists h k, seen (reload gob false (run gob false h)) k <> seen (run gob false h) k.
Proof.
  exists [OWrite 1%N {| r_val := VU8 0; r_created := 0; r_created_by := []; r_modified := 0; r_modified_by := []; r_expiry := 0 |}], 1%N.
  unfold seen. rewrite lookup_reload. cbn. unfold persist. cbn [r_val].
  rewrite persist_value_old. cbn. discriminate.
Qed.

(* ... and true for every history that stores no zero-like value *)
Definition no_zero_values (s : state) : Prop := forall k r, lookup k s = Some r -> is_gob_zero (r_val r) = false.
Theorem reload_identity_partial_old : forall h,
  no_zero_values (run gob false h) -> forall k, seen (reload gob false (run gob false h)) k = seen (run gob false h) k.
Proof.
  intros h Hnz k. unfold seen. rewrite lookup_reload.
  destruct (lookup k (run gob false h)) as [r|] eqn:E; [|reflexivity]. cbn.
  unfold persist. rewrite persist_value_old, (Hnz k r E). destruct r; reflexivity.
Qed.

(* existing files: what the pinned commit wrote (no hint) is read by the current LoadFromByte
   exactly as the pinned commit read it *)
Theorem old_files_load_unchanged : forall v,
  of_content (from_wire true (gob (to_wire false (to_content v)))) =
  of_content (from_wire false (gob (to_wire false (to_content v)))).
Proof.
  intros v. rewrite gob_law.
  destruct v as [|n|n|n|n|n|n|n|n|b|b|s|b|b|l]; try reflexivity;
    try (cbn; unfold zero_int; destruct (Z.eqb_spec n 0); reflexivity).
  all: try (cbn; destruct (zero_f32 b); reflexivity).
  all: try (cbn; destruct (zero_f64 b); reflexivity).
  all: try (destruct s; reflexivity).
  all: try (destruct b; reflexivity).
  all: try (destruct l; reflexivity).
Qed.
End Law.

(* the law is satisfiable (by gob_spec itself), so none of the above is vacuous *)
Example law_satisfiable : forall h k, seen (reload gob_spec true (run gob_spec true h)) k = seen (run gob_spec true h) k.
Proof. exact (reload_identity gob_spec (fun c => eq_refl)). Qed.

(* all 15 content types x {zero-like, other}: which come back void (pinned commit) / intact (now) *)
Definition zero_values : list value :=
  [VU8 0; VU16 0; VU32 0; VU64 0; VI8 0; VI16 0; VI32 0; VI64 0; VF32 0; VF32 f32_neg_zero;
   VF64 0; VF64 f64_neg_zero; VStr []; VBool false; VBytes []; VU32S []].
Definition other_values : list value :=
  [VVoid; VU8 7; VU16 300; VU32 70000; VU64 18446744073709551615; VI8 (-128); VI16 (-1); VI32 5; VI64 (-9223372036854775808);
   VF32 1069547520; VF64 4609434218613702656; VStr [97%N]; VBool true; VBytes [0%N]; VU32S [0]].
Lemma exhaustive_types :
  forallb (fun v => value_eqb (persist_value gob_spec false v) VVoid) zero_values = true /\
  forallb (fun v => value_eqb (persist_value gob_spec true v) v) zero_values = true /\
  forallb (fun v => value_eqb (persist_value gob_spec false v) v) other_values = true /\
  forallb (fun v => value_eqb (persist_value gob_spec true v) v) other_values = true /\
  map ctype zero_values = [1;2;3;4;5;6;7;8;9;9;10;10;11;12;13;14]%N /\
  map ctype other_values = [0;1;2;3;4;5;6;7;8;9;10;11;12;13;14]%N.
Proof. vm_compute. repeat split. Qed.

Example reload_nontrivial :
  let r v := {| r_val := v; r_created := 5; r_created_by := [97%N]; r_modified := 0; r_modified_by := []; r_expiry := -1 |} in
  let h := [OWrite 1%N (r (VU8 0)); OWrite 2%N (r (VStr [])); OWrite 3%N (r (VI64 5)); OReload; OWrite 3%N (r (VI64 6)); ODelete 3%N; OWrite 2%N (r (VBool false))] in
  map (fun k => option_map w_val (seen (reload gob_spec true (run gob_spec true h)) k)) [1%N; 2%N; 3%N] = [Some (VU8 0); Some (VBool false); None] /\
  map (fun k => option_map w_val (seen (reload gob_spec false (run gob_spec false h)) k)) [1%N; 2%N; 3%N] = [Some VVoid; Some VVoid; None].
Proof. vm_compute. split; reflexivity. Qed.
