(* Record/Treasure.v — the record ("treasure") as the engine stores it and as a client sees it
   (C05). Model only, no proofs.

   [value]   the typed value a client sets / reads (15 content types of treasure.go).
   [content] the Go struct treasure.Content: one pointer field per type; the content type is
             *derived* from which pointer is non-nil (treasure.go:GetContentType) – this is why a
             dropped zero value turns the record into a Void one.
   [rec]     value + the metadata of treasure.Model that a client can read back.
   [view]    what Get / GetByIndex report (gateway.go:treasureToKeyValuePair). *)
From HV Require Import Base.Prelude.
Local Open Scope Z_scope.

Definition bytes := list N.

Inductive value :=
| VVoid
| VU8 (n : Z) | VU16 (n : Z) | VU32 (n : Z) | VU64 (n : Z)
| VI8 (n : Z) | VI16 (n : Z) | VI32 (n : Z) | VI64 (n : Z)
| VF32 (bits : Z) | VF64 (bits : Z)          (* IEEE bit patterns *)
| VStr (s : bytes)
| VBool (b : bool)
| VBytes (b : bytes)
| VU32S (l : list Z).                         (* the uint32 set, in stored order *)

(* treasure.go: ContentType enum, same numbering *)
Definition ctype (v : value) : N :=
  match v with
  | VVoid => 0 | VU8 _ => 1 | VU16 _ => 2 | VU32 _ => 3 | VU64 _ => 4
  | VI8 _ => 5 | VI16 _ => 6 | VI32 _ => 7 | VI64 _ => 8
  | VF32 _ => 9 | VF64 _ => 10 | VStr _ => 11 | VBool _ => 12 | VBytes _ => 13 | VU32S _ => 14
  end%N.

Definition bytes_eqb (a b : bytes) : bool := list_eqb N.eqb a b.
Definition value_eqb (a b : value) : bool :=
  match a, b with
  | VVoid, VVoid => true
  | VU8 x, VU8 y | VU16 x, VU16 y | VU32 x, VU32 y | VU64 x, VU64 y
  | VI8 x, VI8 y | VI16 x, VI16 y | VI32 x, VI32 y | VI64 x, VI64 y
  | VF32 x, VF32 y | VF64 x, VF64 y => Z.eqb x y
  | VStr x, VStr y | VBytes x, VBytes y => bytes_eqb x y
  | VBool x, VBool y => Bool.eqb x y
  | VU32S x, VU32S y => list_eqb Z.eqb x y
  | _, _ => false
  end.

(* treasure.Content.  Pointer fields are options; ByteArray is a slice (nil = None). *)
Record content := {
  c_void : bool;
  c_u8 : option Z; c_u16 : option Z; c_u32 : option Z; c_u64 : option Z;
  c_i8 : option Z; c_i16 : option Z; c_i32 : option Z; c_i64 : option Z;
  c_f32 : option Z; c_f64 : option Z;
  c_str : option bytes; c_bool : option bool; c_bytes : option bytes; c_u32s : option (list Z);
  c_zero_of : N;          (* Content.ZeroOf  – serialized form only (0 = no hint) *)
  c_zero_neg : bool       (* Content.ZeroNeg – the dropped float zero was -0.0 *)
}.

Definition empty_content : content :=
  {| c_void := false; c_u8 := None; c_u16 := None; c_u32 := None; c_u64 := None;
     c_i8 := None; c_i16 := None; c_i32 := None; c_i64 := None; c_f32 := None; c_f64 := None;
     c_str := None; c_bool := None; c_bytes := None; c_u32s := None; c_zero_of := 0%N; c_zero_neg := false |}.

(* the SetContentXxx setters: a fresh Content with exactly one field *)
Definition set_u8 c x := {| c_void := c_void c; c_u8 := x; c_u16 := c_u16 c; c_u32 := c_u32 c; c_u64 := c_u64 c; c_i8 := c_i8 c; c_i16 := c_i16 c; c_i32 := c_i32 c; c_i64 := c_i64 c; c_f32 := c_f32 c; c_f64 := c_f64 c; c_str := c_str c; c_bool := c_bool c; c_bytes := c_bytes c; c_u32s := c_u32s c; c_zero_of := c_zero_of c; c_zero_neg := c_zero_neg c |}.
Definition set_u16 c x := {| c_void := c_void c; c_u8 := c_u8 c; c_u16 := x; c_u32 := c_u32 c; c_u64 := c_u64 c; c_i8 := c_i8 c; c_i16 := c_i16 c; c_i32 := c_i32 c; c_i64 := c_i64 c; c_f32 := c_f32 c; c_f64 := c_f64 c; c_str := c_str c; c_bool := c_bool c; c_bytes := c_bytes c; c_u32s := c_u32s c; c_zero_of := c_zero_of c; c_zero_neg := c_zero_neg c |}.
Definition set_u32 c x := {| c_void := c_void c; c_u8 := c_u8 c; c_u16 := c_u16 c; c_u32 := x; c_u64 := c_u64 c; c_i8 := c_i8 c; c_i16 := c_i16 c; c_i32 := c_i32 c; c_i64 := c_i64 c; c_f32 := c_f32 c; c_f64 := c_f64 c; c_str := c_str c; c_bool := c_bool c; c_bytes := c_bytes c; c_u32s := c_u32s c; c_zero_of := c_zero_of c; c_zero_neg := c_zero_neg c |}.
Definition set_u64 c x := {| c_void := c_void c; c_u8 := c_u8 c; c_u16 := c_u16 c; c_u32 := c_u32 c; c_u64 := x; c_i8 := c_i8 c; c_i16 := c_i16 c; c_i32 := c_i32 c; c_i64 := c_i64 c; c_f32 := c_f32 c; c_f64 := c_f64 c; c_str := c_str c; c_bool := c_bool c; c_bytes := c_bytes c; c_u32s := c_u32s c; c_zero_of := c_zero_of c; c_zero_neg := c_zero_neg c |}.
Definition set_i8 c x := {| c_void := c_void c; c_u8 := c_u8 c; c_u16 := c_u16 c; c_u32 := c_u32 c; c_u64 := c_u64 c; c_i8 := x; c_i16 := c_i16 c; c_i32 := c_i32 c; c_i64 := c_i64 c; c_f32 := c_f32 c; c_f64 := c_f64 c; c_str := c_str c; c_bool := c_bool c; c_bytes := c_bytes c; c_u32s := c_u32s c; c_zero_of := c_zero_of c; c_zero_neg := c_zero_neg c |}.
Definition set_i16 c x := {| c_void := c_void c; c_u8 := c_u8 c; c_u16 := c_u16 c; c_u32 := c_u32 c; c_u64 := c_u64 c; c_i8 := c_i8 c; c_i16 := x; c_i32 := c_i32 c; c_i64 := c_i64 c; c_f32 := c_f32 c; c_f64 := c_f64 c; c_str := c_str c; c_bool := c_bool c; c_bytes := c_bytes c; c_u32s := c_u32s c; c_zero_of := c_zero_of c; c_zero_neg := c_zero_neg c |}.
Definition set_i32 c x := {| c_void := c_void c; c_u8 := c_u8 c; c_u16 := c_u16 c; c_u32 := c_u32 c; c_u64 := c_u64 c; c_i8 := c_i8 c; c_i16 := c_i16 c; c_i32 := x; c_i64 := c_i64 c; c_f32 := c_f32 c; c_f64 := c_f64 c; c_str := c_str c; c_bool := c_bool c; c_bytes := c_bytes c; c_u32s := c_u32s c; c_zero_of := c_zero_of c; c_zero_neg := c_zero_neg c |}.
Definition set_i64 c x := {| c_void := c_void c; c_u8 := c_u8 c; c_u16 := c_u16 c; c_u32 := c_u32 c; c_u64 := c_u64 c; c_i8 := c_i8 c; c_i16 := c_i16 c; c_i32 := c_i32 c; c_i64 := x; c_f32 := c_f32 c; c_f64 := c_f64 c; c_str := c_str c; c_bool := c_bool c; c_bytes := c_bytes c; c_u32s := c_u32s c; c_zero_of := c_zero_of c; c_zero_neg := c_zero_neg c |}.
Definition set_f32 c x := {| c_void := c_void c; c_u8 := c_u8 c; c_u16 := c_u16 c; c_u32 := c_u32 c; c_u64 := c_u64 c; c_i8 := c_i8 c; c_i16 := c_i16 c; c_i32 := c_i32 c; c_i64 := c_i64 c; c_f32 := x; c_f64 := c_f64 c; c_str := c_str c; c_bool := c_bool c; c_bytes := c_bytes c; c_u32s := c_u32s c; c_zero_of := c_zero_of c; c_zero_neg := c_zero_neg c |}.
Definition set_f64 c x := {| c_void := c_void c; c_u8 := c_u8 c; c_u16 := c_u16 c; c_u32 := c_u32 c; c_u64 := c_u64 c; c_i8 := c_i8 c; c_i16 := c_i16 c; c_i32 := c_i32 c; c_i64 := c_i64 c; c_f32 := c_f32 c; c_f64 := x; c_str := c_str c; c_bool := c_bool c; c_bytes := c_bytes c; c_u32s := c_u32s c; c_zero_of := c_zero_of c; c_zero_neg := c_zero_neg c |}.
Definition set_str c x := {| c_void := c_void c; c_u8 := c_u8 c; c_u16 := c_u16 c; c_u32 := c_u32 c; c_u64 := c_u64 c; c_i8 := c_i8 c; c_i16 := c_i16 c; c_i32 := c_i32 c; c_i64 := c_i64 c; c_f32 := c_f32 c; c_f64 := c_f64 c; c_str := x; c_bool := c_bool c; c_bytes := c_bytes c; c_u32s := c_u32s c; c_zero_of := c_zero_of c; c_zero_neg := c_zero_neg c |}.
Definition set_bool c x := {| c_void := c_void c; c_u8 := c_u8 c; c_u16 := c_u16 c; c_u32 := c_u32 c; c_u64 := c_u64 c; c_i8 := c_i8 c; c_i16 := c_i16 c; c_i32 := c_i32 c; c_i64 := c_i64 c; c_f32 := c_f32 c; c_f64 := c_f64 c; c_str := c_str c; c_bool := x; c_bytes := c_bytes c; c_u32s := c_u32s c; c_zero_of := c_zero_of c; c_zero_neg := c_zero_neg c |}.
Definition set_bytes c x := {| c_void := c_void c; c_u8 := c_u8 c; c_u16 := c_u16 c; c_u32 := c_u32 c; c_u64 := c_u64 c; c_i8 := c_i8 c; c_i16 := c_i16 c; c_i32 := c_i32 c; c_i64 := c_i64 c; c_f32 := c_f32 c; c_f64 := c_f64 c; c_str := c_str c; c_bool := c_bool c; c_bytes := x; c_u32s := c_u32s c; c_zero_of := c_zero_of c; c_zero_neg := c_zero_neg c |}.
Definition set_u32s c x := {| c_void := c_void c; c_u8 := c_u8 c; c_u16 := c_u16 c; c_u32 := c_u32 c; c_u64 := c_u64 c; c_i8 := c_i8 c; c_i16 := c_i16 c; c_i32 := c_i32 c; c_i64 := c_i64 c; c_f32 := c_f32 c; c_f64 := c_f64 c; c_str := c_str c; c_bool := c_bool c; c_bytes := c_bytes c; c_u32s := x; c_zero_of := c_zero_of c; c_zero_neg := c_zero_neg c |}.
Definition set_void c x := {| c_void := x; c_u8 := c_u8 c; c_u16 := c_u16 c; c_u32 := c_u32 c; c_u64 := c_u64 c; c_i8 := c_i8 c; c_i16 := c_i16 c; c_i32 := c_i32 c; c_i64 := c_i64 c; c_f32 := c_f32 c; c_f64 := c_f64 c; c_str := c_str c; c_bool := c_bool c; c_bytes := c_bytes c; c_u32s := c_u32s c; c_zero_of := c_zero_of c; c_zero_neg := c_zero_neg c |}.
Definition set_hint c z n := {| c_void := c_void c; c_u8 := c_u8 c; c_u16 := c_u16 c; c_u32 := c_u32 c; c_u64 := c_u64 c; c_i8 := c_i8 c; c_i16 := c_i16 c; c_i32 := c_i32 c; c_i64 := c_i64 c; c_f32 := c_f32 c; c_f64 := c_f64 c; c_str := c_str c; c_bool := c_bool c; c_bytes := c_bytes c; c_u32s := c_u32s c; c_zero_of := z; c_zero_neg := n |}.

Definition to_content (v : value) : content :=
  match v with
  | VVoid => set_void empty_content true
  | VU8 n => set_u8 empty_content (Some n) | VU16 n => set_u16 empty_content (Some n)
  | VU32 n => set_u32 empty_content (Some n) | VU64 n => set_u64 empty_content (Some n)
  | VI8 n => set_i8 empty_content (Some n) | VI16 n => set_i16 empty_content (Some n)
  | VI32 n => set_i32 empty_content (Some n) | VI64 n => set_i64 empty_content (Some n)
  | VF32 b => set_f32 empty_content (Some b) | VF64 b => set_f64 empty_content (Some b)
  | VStr s => set_str empty_content (Some s) | VBool b => set_bool empty_content (Some b)
  | VBytes b => set_bytes empty_content (Some b) | VU32S l => set_u32s empty_content (Some l)
  end.

(* treasure.go:GetContentType + gateway.go:treasureToKeyValuePair: the first non-nil field in the
   order of GetContentType decides; a Content with no field (or Void) is Void *)
Definition of_content (c : content) : value :=
  if c_void c then VVoid else
  match c_u8 c with Some n => VU8 n | None =>
  match c_u16 c with Some n => VU16 n | None =>
  match c_u32 c with Some n => VU32 n | None =>
  match c_u64 c with Some n => VU64 n | None =>
  match c_i8 c with Some n => VI8 n | None =>
  match c_i16 c with Some n => VI16 n | None =>
  match c_i32 c with Some n => VI32 n | None =>
  match c_i64 c with Some n => VI64 n | None =>
  match c_f32 c with Some n => VF32 n | None =>
  match c_f64 c with Some n => VF64 n | None =>
  match c_str c with Some s => VStr s | None =>
  match c_bool c with Some b => VBool b | None =>
  match c_bytes c with Some b => VBytes b | None =>
  match c_u32s c with Some l => VU32S l | None => VVoid
  end end end end end end end end end end end end end end.

(* metadata of treasure.Model a client can read back; strings as byte lists *)
Record rec := {
  r_val : value;
  r_created : Z; r_created_by : bytes;
  r_modified : Z; r_modified_by : bytes;
  r_expiry : Z
}.

(* gateway.go:treasureToKeyValuePair: times are reported when > 0 (expiry: <> 0), names when non-empty *)
Record view := {
  w_val : value;
  w_created : option Z; w_created_by : bytes;
  w_modified : option Z; w_modified_by : bytes;
  w_expiry : option Z
}.
Definition view_of (r : rec) : view :=
  {| w_val := r_val r;
     w_created := if 0 <? r_created r then Some (r_created r) else None;
     w_created_by := r_created_by r;
     w_modified := if 0 <? r_modified r then Some (r_modified r) else None;
     w_modified_by := r_modified_by r;
     w_expiry := if r_expiry r =? 0 then None else Some (r_expiry r) |}.
Definition view_eqb (a b : view) : bool :=
  value_eqb (w_val a) (w_val b) &&
  option_eqb Z.eqb (w_created a) (w_created b) && bytes_eqb (w_created_by a) (w_created_by b) &&
  option_eqb Z.eqb (w_modified a) (w_modified b) && bytes_eqb (w_modified_by a) (w_modified_by b) &&
  option_eqb Z.eqb (w_expiry a) (w_expiry b).
(* the record a view stands for (absent time = 0) *)
Definition rec_of_view (w : view) : rec :=
  {| r_val := w_val w;
     r_created := match w_created w with Some t => t | None => 0 end; r_created_by := w_created_by w;
     r_modified := match w_modified w with Some t => t | None => 0 end; r_modified_by := w_modified_by w;
     r_expiry := match w_expiry w with Some t => t | None => 0 end |}.
