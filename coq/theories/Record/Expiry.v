(* Record/Expiry.v — executable model of every place of HydrAIDE that looks at a record's
   expiry time (C30). Model only, no proofs.

   The spec is one line:  expired now e  :=  e <> 0 /\ e < now   (e, now : UnixNano as Z).
   Every expiry-aware site of the Go code is transcribed as its own small function, named
   after the Go function it comes from, so that the theorems of ExpiryProofs.v can say "all
   of them are the spec" (or exactly where one is not).

   Part 2 models the input paths (Set / Increment metadata / Patch meta -> SetExpirationTime),
   part 3 the swamp as a map key -> (kind, expiry) together with the lazily built expiry
   index, under histories of API calls, reloads and claims.  Part 4 is the case checker
   used by the correspondence harness (harness/cmd/c30). *)
From HV Require Import Base.Prelude.
Local Open Scope Z_scope.

(* ------------------------------------------------------------------------------------------ *)
(* 1. The spec and the per-site tests                                                         *)
(* ------------------------------------------------------------------------------------------ *)

Definition expired (now e : Z) : Prop := e <> 0 /\ e < now.
Definition expiredb (now e : Z) : bool := negb (e =? 0) && (e <? now).
Definition has_expiry (e : Z) : bool := negb (e =? 0).

(* treasure.go:IsExpired — if ExpirationTime == 0 { return false }; return ExpirationTime < now *)
Definition site_is_expired (now e : Z) : bool := if e =? 0 then false else e <? now.
(* beacon.go:ShiftExpired — exp != 0 && exp < now (the howMany counter is not modelled: the
   gateway passes "all" for HowMany = 0, which is what the harness uses) *)
Definition site_shift_expired (now e : Z) : bool := negb (e =? 0) && (e <? now).
(* beacon.go:SelectExpiredForPatch — same test *)
Definition site_select_for_patch (now e : Z) : bool := negb (e =? 0) && (e <? now).
(* beacon.go:SelectExpiredForPatchWithCap — isExpired := exp != 0 && exp < now *)
Definition site_select_for_patch_cap (now e : Z) : bool := negb (e =? 0) && (e <? now).

(* membership of the expiry index, four maintenance sites *)
(* swamp.go:addTreasureToBeacons — if d.GetExpirationTime() != 0 { addToExpirationTimeBeacon } *)
Definition site_index_add (e : Z) : bool := negb (e =? 0).
(* swamp.go:treasuresForBeacon (cold build) — if t.GetExpirationTime() != 0 { keep } *)
Definition site_index_build (e : Z) : bool := negb (e =? 0).
(* swamp.go:SaveFunction, IsExpirationTimeChanged branch — delete; if exp != 0 { add } *)
Definition site_index_save (e : Z) : bool := negb (e =? 0).
(* beacon.go:ReindexExpiration — if t.GetExpirationTime() == 0 { continue } *)
Definition site_index_reindex (e : Z) : bool := if e =? 0 then false else true.

(* relational operators of filter_native.go:compareOrdered that make sense on timestamps *)
Inductive relop := OpEq | OpNe | OpGt | OpGe | OpLt | OpLe.
Definition compare_ordered (op : relop) (a b : Z) : bool :=
  match op with
  | OpEq => a =? b | OpNe => negb (a =? b)
  | OpGt => b <? a | OpGe => b <=? a
  | OpLt => a <? b | OpLe => a <=? b
  end.
(* filter_native.go:compareNativeTimestamp — if nanos == 0 { return false }; compareOrdered *)
Definition site_filter_cmp (op : relop) (ref e : Z) : bool :=
  if e =? 0 then false else compare_ordered op e ref.
(* filter_native.go:nativeFieldIsEmpty, ExpiredAtVal — GetExpirationTime() == 0 *)
Definition site_filter_is_empty (e : Z) : bool := e =? 0.
Definition site_filter_is_not_empty (e : Z) : bool := negb (e =? 0).

(* wire projections: is an ExpiredAt field present in the answer? *)
(* gateway.go:treasureToKeyValuePair (Get, GetByIndex, GetByIndexStream and the Shift calls) *)
Definition site_wire_treasure (e : Z) : bool := negb (e =? 0).          (* current code: != 0 *)
Definition site_wire_treasure_old (e : Z) : bool := 0 <? e.              (* pinned commit: > 0 *)
(* swamp.go:createMetaForIncrementResponse — GetExpirationTime() != 0 *)
Definition site_wire_increment (e : Z) : bool := negb (e =? 0).
(* swamp_patch_expired.go:expirationTimeAsTime + gateway_patch_expired.go (!IsZero) *)
Definition site_wire_patch_expired (e : Z) : bool := if e =? 0 then false else true.

(* time windows [from, to) of index reads (beacon.go:findTimeRangeBounds on the sorted index)
   and of ShiftMatching (gateway_shift_matching.go:inTimeRange); None = unbounded *)
Definition in_window (from to : option Z) (e : Z) : bool :=
  match from with Some f => f <=? e | None => true end &&
  match to with Some t => e <? t | None => true end.
Definition site_index_window (from to : option Z) (e : Z) : bool :=
  site_index_build e && in_window from to e.

(* ------------------------------------------------------------------------------------------ *)
(* 2. Input paths                                                                             *)
(* ------------------------------------------------------------------------------------------ *)

Definition two63 : Z := 9223372036854775808.
Definition two64 : Z := 18446744073709551616.
Definition max_i64 : Z := 9223372036854775807.
Definition min_i64 : Z := -9223372036854775808.
Definition wrap64 (z : Z) : Z := (z + two63) mod two64 - two63.          (* Go int64 arithmetic *)
Definition sat64 (z : Z) : Z := Z.max min_i64 (Z.min max_i64 z).

(* a protobuf timestamp as sent: (seconds, nanos); None = field absent *)
Definition ts := option (Z * Z).
Definition giga : Z := 1000000000.
Definition instant (s n : Z) : Z := s * giga + n.          (* the instant meant, in ns since epoch *)
Definition go_zero_sec : Z := -62135596800.                (* time.Time{} as Unix seconds *)
Definition max_ts_sec : Z := 253402300799.                 (* 9999-12-31T23:59:59Z *)
(* timestamppb.Timestamp.IsValid *)
Definition ts_is_valid (s n : Z) : bool :=
  (go_zero_sec <=? s) && (s <=? max_ts_sec) && (0 <=? n) && (n <? giga).
(* time.Time.IsZero of ts.AsTime() *)
Definition is_zero_time (s n : Z) : bool := (s =? go_zero_sec) && (n =? 0).

(* treasure.go:SetExpirationTime.  [sat] = true is the current code (instants outside the
   int64 nanosecond range saturate); [sat] = false is the pinned commit (UnixNano wraps). *)
Definition set_expiration_time (sat : bool) (s n : Z) : Z :=
  if is_zero_time s n then 0
  else if sat then sat64 (instant s n) else wrap64 (instant s n).

(* each path returns the new expiry and whether SetExpirationTime was called *)
(* gateway.go:keyValuesToTreasure — isValidTimestamp: seconds > 0 || nanos > 0 *)
Definition set_path (sat : bool) (t : ts) (e : Z) : Z * bool :=
  match t with
  | Some (s, n) => if (0 <? s) || (0 <? n) then (set_expiration_time sat s n, true) else (e, false)
  | None => (e, false)
  end.
(* gateway.go:convertIncrementMetaToSwampMeta (IsValid) + swamp.go:setMetaForIncrement (!IsZero) *)
Definition inc_path (sat : bool) (t : ts) (e : Z) : Z * bool :=
  match t with
  | Some (s, n) =>
      if ts_is_valid s n && negb (is_zero_time s n) then (set_expiration_time sat s n, true) else (e, false)
  | None => (e, false)
  end.
(* gateway_patch.go:protoMetaToSwampMeta + swamp_patch.go:applyPatchMeta — clear wins *)
Definition patch_path (sat : bool) (clear : bool) (t : ts) (e : Z) : Z * bool :=
  if clear then (0, true)
  else match t with
       | Some (s, n) => if negb (is_zero_time s n) then (set_expiration_time sat s n, true) else (e, false)
       | None => (e, false)
       end.

(* what a client reads back: timestamppb.New(time.Unix(0, e)) and then seconds*1e9+nanos *)
Definition wire_seconds (e : Z) : Z := e / giga.
Definition wire_nanos (e : Z) : Z := e mod giga.

(* ------------------------------------------------------------------------------------------ *)
(* 3. The swamp under histories                                                               *)
(* ------------------------------------------------------------------------------------------ *)

Inductive kind := KBytes | KInt | KVoid.
Definition kind_eqb (a b : kind) : bool :=
  match a, b with KBytes, KBytes | KInt, KInt | KVoid, KVoid => true | _, _ => false end.

Definition key := N.
Record rec := { r_kind : kind; r_exp : Z }.

Record state := {
  recs : list (key * rec);          (* the key beacon: at most one entry per key *)
  idx  : option (list key)          (* expiry index (ASC and DESC hold the same key set);
                                       None = not built since the last load *)
}.
Definition init : state := {| recs := []; idx := None |}.

Fixpoint lookup (k : key) (l : list (key * rec)) : option rec :=
  match l with
  | [] => None
  | (k', r) :: t => if N.eqb k k' then Some r else lookup k t
  end.
Fixpoint remove_key (k : key) (l : list (key * rec)) : list (key * rec) :=
  match l with
  | [] => []
  | (k', r) :: t => if N.eqb k k' then remove_key k t else (k', r) :: remove_key k t
  end.
Definition upsert (k : key) (r : rec) (l : list (key * rec)) : list (key * rec) :=
  (k, r) :: remove_key k l.

Definition memN (k : key) (l : list key) : bool := existsb (N.eqb k) l.
Definition delN (k : key) (l : list key) : list key := filter (fun x => negb (N.eqb k x)) l.
(* beacon.go:Add is a no-op when the key is present *)
Definition addN (k : key) (l : list key) : list key := if memN k l then l else k :: l.

Definition idx_del (k : key) (i : option (list key)) := option_map (delN k) i.
Definition idx_add (k : key) (i : option (list key)) := option_map (addN k) i.

(* swamp.go:SaveFunction restricted to the expiry index.
   [existed]  the key was in the key beacon before;
   [tc], [ec] the treasure's contentTypeChanged / expirationTimeChanged flags as SaveFunction
              sees them.  The flags are sticky in the Go code (never reset after a save), so the
              model takes them as inputs: they are at least "this call changed it" ([tc0],[ec0])
              and may be spuriously true ([tc_extra], [ec_extra] – universally quantified in the
              theorems, so a later repair of the sticky flags changes nothing here). *)
Definition save_index (existed : bool) (tc ec : bool) (k : key) (r : rec) (i : option (list key)) :=
  if negb existed then
    (if site_index_add (r_exp r) then idx_add k i else i)                 (* addTreasureToBeacons *)
  else if tc then
    (let i' := idx_del k i in                                              (* deleteTreasureFromBeacons *)
     match r_kind r with
     | KVoid => i'
     | _ => if site_index_add (r_exp r) then idx_add k i' else i'
     end)
  else if ec then
    (let i' := idx_del k i in
     if site_index_save (r_exp r) then idx_add k i' else i')
  else i.

Record flags := { tc_extra : bool; ec_extra : bool }.
Definition no_flags := {| tc_extra := false; ec_extra := false |}.

Definition build_index (s : state) : state :=
  match idx s with
  | Some _ => s
  | None => {| recs := recs s;
               idx := Some (map fst (filter (fun p => site_index_build (r_exp (snd p))) (recs s))) |}
  end.
Definition idx_keys (s : state) : list key := match idx s with Some l => l | None => [] end.

Inductive op :=
| OSet (k : key) (kd : kind) (t : ts) (f : flags)        (* Set, CreateIfNotExist+Overwrite *)
| OInc (k : key) (tn te : ts) (f : flags)                (* IncrementInt64 with SetIfNotExist / SetIfExist *)
| OPatch (k : key) (create clear : bool) (t : ts) (f : flags)   (* PatchTreasures (meta, no ops) *)
| ODelete (k : key)
| OTouch                                                 (* any read through the expiry index *)
| OReload                                                (* close + load: index is rebuilt lazily *)
| OShiftExpired (now : Z)                                (* ShiftExpiredTreasures, HowMany = 0 *)
| OShiftWindow (now : Z)                                 (* ShiftMatching on the expiry index, ToTime = now *)
| OPatchExpired (now : Z) (clear : bool) (t : ts) (f : flags).  (* PatchExpiredTreasures (meta) *)

(* Set on an existing record keeps its kind when the new value is void (treasure.go:
   SetContentVoid only acts on an empty record) – the harness never changes kinds. *)
Definition set_kind (old : option rec) (kd : kind) : kind :=
  match old, kd with
  | Some r, KVoid => r_kind r
  | _, _ => kd
  end.

Definition old_exp (o : option rec) : Z := match o with Some r => r_exp r | None => 0 end.
Definition is_some {A} (o : option A) : bool := match o with Some _ => true | None => false end.

Section Step.
Variable sat : bool.

(* [ec0]: this call invoked SetExpirationTime.  No API path sets contentTypeChanged today (only
   the Reset* methods of treasure.go do, and nothing calls them), so the flag reaches
   SaveFunction only through [tc_extra]; a record that is void never carries it
   (SetContentVoid does not convert an existing record). *)
Definition do_save (s : state) (k : key) (old : option rec) (r : rec) (ec0 : bool) (f : flags) : state :=
  {| recs := upsert k r (recs s);
     idx := save_index (is_some old) (tc_extra f && negb (kind_eqb (r_kind r) KVoid))
                       (ec0 || ec_extra f) k r (idx s) |}.

Definition claimed_keys (test : Z -> bool) (s : state) : list key :=
  filter (fun k => match lookup k (recs s) with Some r => test (r_exp r) | None => false end) (idx_keys s).

(* one selected record of PatchExpired: applyPatchExpiredOne (only msgpack ByteArray records are
   patched; the others keep their expiry) followed by the Save path *)
Definition patch_expired_one (clear : bool) (t : ts) (f : flags) (s : state) (k : key) : state :=
  match lookup k (recs s) with
  | Some r =>
      match r_kind r with
      | KBytes =>
          let '(e', ec0) := patch_path sat clear t (r_exp r) in
          do_save s k (Some r) {| r_kind := KBytes; r_exp := e' |} ec0 f
      | _ => s
      end
  | None => s
  end.

(* beacon.go:ReindexExpiration over the selected set *)
Definition reindex (sel : list key) (s : state) : state :=
  let base := fold_left (fun i k => idx_del k i) sel (idx s) in
  {| recs := recs s;
     idx := fold_left (fun i k => match lookup k (recs s) with
                                  | Some r => if site_index_reindex (r_exp r) then idx_add k i else i
                                  | None => i
                                  end) sel base |}.

Definition step (s : state) (o : op) : state :=
  match o with
  | OSet k kd t f =>
      let old := lookup k (recs s) in
      let '(e', ec0) := set_path sat t (old_exp old) in
      do_save s k old {| r_kind := set_kind old kd; r_exp := e' |} ec0 f
  | OInc k tn te f =>
      match lookup k (recs s) with
      | None =>
          let '(e', ec0) := inc_path sat tn 0 in
          do_save s k None {| r_kind := KInt; r_exp := e' |} ec0 f
      | Some r =>
          match r_kind r with
          | KInt => let '(e', ec0) := inc_path sat te (r_exp r) in
                    do_save s k (Some r) {| r_kind := KInt; r_exp := e' |} ec0 f
          | KVoid => let '(e', ec0) := inc_path sat tn (r_exp r) in
                     do_save s k (Some r) {| r_kind := KInt; r_exp := e' |} ec0 f
          | KBytes => s                                    (* "value is not an integer" *)
          end
      end
  | OPatch k create clear t f =>
      match lookup k (recs s) with
      | None =>
          if create then
            let '(e', ec0) := patch_path sat clear t 0 in
            do_save s k None {| r_kind := KBytes; r_exp := e' |} ec0 f
          else s
      | Some r =>
          match r_kind r with
          | KBytes => let '(e', ec0) := patch_path sat clear t (r_exp r) in
                      do_save s k (Some r) {| r_kind := KBytes; r_exp := e' |} ec0 f
          | KVoid => if create then
                       let '(e', ec0) := patch_path sat clear t (r_exp r) in
                       do_save s k (Some r) {| r_kind := KBytes; r_exp := e' |} ec0 f
                     else s
          | KInt => s                                      (* TYPE_MISMATCH *)
          end
      end
  | ODelete k => {| recs := remove_key k (recs s); idx := idx_del k (idx s) |}
  | OTouch => build_index s
  | OReload => {| recs := recs s; idx := None |}
  | OShiftExpired now =>
      let s1 := build_index s in
      let cl := claimed_keys (site_shift_expired now) s1 in
      fold_left (fun st k => {| recs := remove_key k (recs st); idx := idx_del k (idx st) |}) cl s1
  | OShiftWindow now =>
      let s1 := build_index s in
      let cl := claimed_keys (in_window None (Some now)) s1 in
      fold_left (fun st k => {| recs := remove_key k (recs st); idx := idx_del k (idx st) |}) cl s1
  | OPatchExpired now clear t f =>
      let s1 := build_index s in
      let sel := claimed_keys (site_select_for_patch_cap now) s1 in
      let s2 := {| recs := recs s1; idx := fold_left (fun i k => idx_del k i) sel (idx s1) |} in
      let s3 := fold_left (patch_expired_one clear t f) sel s2 in
      reindex sel s3
  end.

Definition run (s : state) (h : list op) : state := fold_left step h s.

(* what a claim returns (before it is applied) *)
Definition claim_result (s : state) (o : op) : list key :=
  match o with
  | OShiftExpired now => claimed_keys (site_shift_expired now) (build_index s)
  | OShiftWindow now => claimed_keys (in_window None (Some now)) (build_index s)
  | OPatchExpired now _ _ _ => claimed_keys (site_select_for_patch_cap now) (build_index s)
  | _ => []
  end.

End Step.

(* the spec-level answer: keys whose record is expired *)
Definition expired_keys (now : Z) (s : state) : list key :=
  map fst (filter (fun p => expiredb now (r_exp (snd p))) (recs s)).

(* ------------------------------------------------------------------------------------------ *)
(* 4. Case checker for the correspondence harness                                             *)
(* ------------------------------------------------------------------------------------------ *)

(* insertion sort on keys: canonical form of key sets *)
Fixpoint insertN (k : key) (l : list key) : list key :=
  match l with
  | [] => [k]
  | x :: t => if N.leb k x then k :: l else x :: insertN k t
  end.
Definition sortN (l : list key) : list key := fold_right insertN [] l.
Definition same_keys (a b : list key) : bool := list_eqb N.eqb (sortN a) (sortN b).

(* one read of a record as a client sees it: None = key does not exist;
   Some None = exists, no ExpiredAt field; Some (Some e) = ExpiredAt = e (ns) *)
Definition seen := option (option Z).
Definition seen_exp (o : seen) : Z := match o with Some (Some e) => e | _ => 0 end.
Definition seen_eqb (a b : seen) : bool := option_eqb (option_eqb Z.eqb) a b.

Definition model_seen (s : state) (k : key) : seen :=
  match lookup k (recs s) with
  | None => None
  | Some r => Some (if site_wire_treasure (r_exp r) then Some (r_exp r) else None)
  end.

(* a snapshot through the non-destructive paths *)
Record reads := {
  g_get    : list (key * seen);                 (* Get of every key of the universe *)
  g_asc    : list (key * seen);                 (* GetByIndex EXPIRATION_TIME ASC, in answer order *)
  g_desc   : list (key * seen);                 (* ... DESC *)
  g_win    : option Z * option Z * list key;    (* GetByIndex ASC with [from,to) *)
  g_wind   : option Z * option Z * list key;    (* GetByIndex DESC with [from,to) *)
  g_lt     : list key;                          (* filter ExpiredAt <  now  (on the key index) *)
  g_gt     : list key;                          (* filter ExpiredAt >  now *)
  g_empty  : list key;                          (* filter ExpiredAt IS_EMPTY *)
  g_nempty : list key                           (* filter ExpiredAt IS_NOT_EMPTY *)
}.

(* observed outcome of the claim: key and (for PatchExpired) the ExpiredAt of the answer entry *)
Record case := {
  c_sat    : bool;                 (* which SetExpirationTime the build has (generated constant) *)
  c_now    : Z;                    (* the case clock: every "now" of the case is within 1h after it *)
  c_ops    : list op;
  c_r1     : reads;                (* after the history *)
  c_claim  : option op;            (* the claim issued next *)
  c_claimed: list (key * seen);    (* what it returned *)
  c_r2     : reads;                (* after the claim *)
  c_r3     : reads;                (* after a further close + reload *)
  c_last   : option (key * bool * ts * bool) (* last op was a successful patch of key: (key, clear, ts, applied) *)
}.

Definition exp_of_get (g : list (key * seen)) (k : key) : Z :=
  match find (fun p => N.eqb k (fst p)) g with Some p => seen_exp (snd p) | None => 0 end.
Definition exists_in_get (g : list (key * seen)) : list key :=
  map fst (filter (fun p => is_some (snd p)) g).
Definition keys_where (g : list (key * seen)) (test : Z -> bool) : list key :=
  map fst (filter (fun p => is_some (snd p) && test (seen_exp (snd p))) g).

Fixpoint sorted_by (le : Z -> Z -> bool) (l : list Z) : bool :=
  match l with
  | a :: ((b :: _) as t) => le a b && sorted_by le t
  | _ => true
  end.

(* --- oracle: the observations agree with each other, with Get as the reference ------------- *)
(* codes: 0 ok; 2 index read <> {E<>0} or unsorted; 3 window read; 4 filter; 5 claim set <>
   expired by reported expiry; 6 claim aftermath; 7 clear/slide not applied as documented;
   8 a read shows ExpiredAt for a key differently from Get *)
Definition oracle_reads (now : Z) (r : reads) : N :=
  let g := g_get r in
  let has := keys_where g has_expiry in
  if negb (same_keys (map fst (g_asc r)) has && same_keys (map fst (g_desc r)) has) then 2%N
  else if negb (sorted_by Z.leb (map (fun p => seen_exp (snd p)) (g_asc r)) &&
                sorted_by Z.geb (map (fun p => seen_exp (snd p)) (g_desc r))) then 2%N
  else if negb (forallb (fun p => seen_eqb (snd p) (Some (Some (exp_of_get g (fst p))))) (g_asc r ++ g_desc r)) then 8%N
  else if negb (let '(f, t, ks) := g_win r in same_keys ks (keys_where g (fun e => has_expiry e && in_window f t e))) then 3%N
  else if negb (let '(f, t, ks) := g_wind r in same_keys ks (keys_where g (fun e => has_expiry e && in_window f t e))) then 3%N
  else if negb (same_keys (g_lt r) (keys_where g (expiredb now))) then 4%N
  else if negb (same_keys (g_gt r) (keys_where g (fun e => has_expiry e && (now <? e)))) then 4%N
  else if negb (same_keys (g_empty r) (keys_where g (fun e => negb (has_expiry e)))) then 4%N
  else if negb (same_keys (g_nempty r) (keys_where g has_expiry)) then 4%N
  else 0%N.

Definition oracle_claim (c : case) : N :=
  match c_claim c with
  | None => 0%N
  | Some o =>
      let g1 := g_get (c_r1 c) in
      let g2 := g_get (c_r2 c) in
      let exp_now := keys_where g1 (expiredb (c_now c)) in
      if negb (same_keys (map fst (c_claimed c)) exp_now) then 5%N
      else match o with
           | OPatchExpired _ _ _ _ =>
               (* nothing is deleted; records that were not selected keep their expiry *)
               if negb (same_keys (exists_in_get g2) (exists_in_get g1)) then 6%N
               else if negb (forallb (fun p => memN (fst p) exp_now || negb (is_some (snd p)) ||
                                               Z.eqb (seen_exp (snd p)) (exp_of_get g1 (fst p))) g2) then 6%N
               else 0%N
           | _ =>
               (* claimed records are gone, the others are untouched *)
               if negb (same_keys (exists_in_get g2)
                                  (filter (fun k => negb (memN k exp_now)) (exists_in_get g1))) then 6%N
               else if negb (forallb (fun p => negb (is_some (snd p)) || Z.eqb (seen_exp (snd p)) (exp_of_get g1 (fst p))) g2) then 6%N
               else 0%N
           end
  end.

(* clear => no expiry; set of an instant that fits int64 and is not 0 => exactly that instant *)
Definition oracle_clear_slide (c : case) : N :=
  match c_last c with
  | Some (k, clear, t, true) =>
      let e := exp_of_get (g_get (c_r1 c)) k in
      if clear then (if e =? 0 then 0%N else 7%N)
      else match t with
           | Some (s, n) =>
               if ts_is_valid s n && (min_i64 <=? instant s n) && (instant s n <=? max_i64) && negb (instant s n =? 0)
               then (if e =? instant s n then 0%N else 7%N)
               else if ts_is_valid s n && negb (is_zero_time s n) && negb (instant s n =? 0)
               then (* outside the int64 range: still a real expiry on the same side of now *)
                    (if negb (e =? 0) && Bool.eqb (e <? c_now c) (instant s n <? c_now c) then 0%N else 9%N)
               else 0%N
           | None => 0%N
           end
  | _ => 0%N
  end.

Definition first_nonzero (l : list N) : N :=
  match filter (fun x => negb (N.eqb x 0)) l with x :: _ => x | [] => 0%N end.

(* "before and after a reload": what Get shows (existence and expiry of every key) is the same
   after the final close + reload as before it *)
Definition oracle_reload (c : case) : N :=
  if list_eqb (fun a b => N.eqb (fst a) (fst b) && seen_eqb (snd a) (snd b)) (g_get (c_r2 c)) (g_get (c_r3 c))
  then 0%N else 10%N.

Definition oracle (c : case) : N :=
  first_nonzero [oracle_reads (c_now c) (c_r1 c); oracle_claim c; oracle_reads (c_now c) (c_r2 c);
                 oracle_clear_slide c; oracle_reload c; oracle_reads (c_now c) (c_r3 c)].

(* --- replay: the faithful model predicts every observation ---------------------------------- *)
Definition model_reads_ok (now : Z) (s : state) (r : reads) : bool :=
  let s' := build_index s in
  let selk test := map fst (filter (fun p => test (r_exp (snd p))) (recs s)) in
  forallb (fun p => seen_eqb (snd p) (model_seen s (fst p))) (g_get r) &&
  same_keys (map fst (g_asc r)) (idx_keys s') &&
  same_keys (map fst (g_desc r)) (idx_keys s') &&
  forallb (fun p => seen_eqb (snd p) (model_seen s (fst p))) (g_asc r ++ g_desc r) &&
  (let '(f, t, ks) := g_win r in same_keys ks (claimed_keys (in_window f t) s')) &&
  (let '(f, t, ks) := g_wind r in same_keys ks (claimed_keys (in_window f t) s')) &&
  same_keys (g_lt r) (selk (site_filter_cmp OpLt now)) &&
  same_keys (g_gt r) (selk (site_filter_cmp OpGt now)) &&
  same_keys (g_empty r) (selk site_filter_is_empty) &&
  same_keys (g_nempty r) (selk site_filter_is_not_empty).

Definition claim_seen_ok (o : op) (s2 : state) (p : key * seen) : bool :=
  match o with
  | OPatchExpired _ _ _ _ =>
      (* the answer entry carries the record's expiry after the patch *)
      match lookup (fst p) (recs s2) with
      | Some r => seen_eqb (snd p) (Some (if site_wire_patch_expired (r_exp r) then Some (r_exp r) else None))
      | None => false
      end
  | _ => true
  end.

Definition replay (c : case) : bool :=
  let s1 := run (c_sat c) init (c_ops c) in
  model_reads_ok (c_now c) s1 (c_r1 c) &&
  match c_claim c with
  | None => model_reads_ok (c_now c) (step (c_sat c) s1 OReload) (c_r3 c)
  | Some o =>
      let s2 := step (c_sat c) (build_index s1) o in
      same_keys (map fst (c_claimed c)) (claim_result s1 o) &&
      (match o with
       | OPatchExpired _ _ _ _ => true
       | _ => forallb (fun p => seen_eqb (snd p) (model_seen s1 (fst p))) (c_claimed c)
       end) &&
      forallb (claim_seen_ok o s2) (c_claimed c) &&
      model_reads_ok (c_now c) s2 (c_r2 c) &&
      model_reads_ok (c_now c) (step (c_sat c) s2 OReload) (c_r3 c)
  end.

Definition chk (c : case) : N :=
  match oracle c with
  | 0%N => if replay c then 0%N else 1%N
  | v => v
  end.

Definition check_all (cases : list case) : list verdict := check_cases chk cases.

(* placeholder emitted by the harness for a case whose RPCs failed (reported on the Go side) *)
Definition no_reads : reads :=
  {| g_get := []; g_asc := []; g_desc := []; g_win := (None, None, []); g_wind := (None, None, []);
     g_lt := []; g_gt := []; g_empty := []; g_nempty := [] |}.
Definition bad_case : case :=
  {| c_sat := true; c_now := 0; c_ops := []; c_r1 := no_reads; c_claim := None; c_claimed := [];
     c_r2 := no_reads; c_r3 := no_reads; c_last := None |}.
