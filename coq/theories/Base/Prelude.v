(* Base/Prelude.v — common imports and small executable helpers shared by all models.
   No axioms, no proofs of property relevance; only list/number utilities. *)
From Coq Require Export List ZArith NArith Arith Bool Lia.
Export ListNotations.

(* verdict codes returned by the per-property case checkers:
   (case index, code); code 0 is never emitted. *)
Definition verdict := (N * N)%type.

Fixpoint index_from {A} (i : N) (l : list A) : list (N * A) :=
  match l with
  | [] => []
  | x :: t => (i, x) :: index_from (N.succ i) t
  end.

Definition check_cases {A} (chk : A -> N) (cases : list A) : list verdict :=
  filter (fun p => negb (N.eqb (snd p) 0))
         (map (fun p => (fst p, chk (snd p))) (index_from 0%N cases)).

Fixpoint list_eqb {A} (eqb : A -> A -> bool) (l1 l2 : list A) : bool :=
  match l1, l2 with
  | [], [] => true
  | x :: t1, y :: t2 => eqb x y && list_eqb eqb t1 t2
  | _, _ => false
  end.

Lemma list_eqb_eq {A} (eqb : A -> A -> bool) :
  (forall x y, eqb x y = true <-> x = y) ->
  forall l1 l2, list_eqb eqb l1 l2 = true <-> l1 = l2.
Proof.
  intros H l1; induction l1 as [|x t IH]; intros [|y t2]; simpl; split; intro E;
    try reflexivity; try discriminate.
  - apply andb_true_iff in E as [E1 E2]. apply H in E1. apply IH in E2. congruence.
  - inversion E; subst. apply andb_true_iff; split; [apply H; reflexivity | apply IH; reflexivity].
Qed.

Definition option_eqb {A} (eqb : A -> A -> bool) (a b : option A) : bool :=
  match a, b with
  | None, None => true
  | Some x, Some y => eqb x y
  | _, _ => false
  end.
