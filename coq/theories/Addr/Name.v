(* Addr/Name.v — model of swamp addressing: app/name/name.go (GetFolderNumber,
   GetFullHashPath / generateHashedDirectoryPath / generateSwampFolderName, Load),
   sdk/go/hydraidego/name/name.go (GetIslandID) and the SDK routing table
   (client.GetServiceClient).  No proofs here. *)
From HV Require Import Base.Prelude Addr.XXHash64.
Local Open Scope N_scope.

Definition str := list N.                      (* bytes of a Go string *)
Definition SEP : N := 47.                       (* '/' *)

Record triple := { sanct : str; realm : str; swamp : str }.

(* Name.Path as built by Sanctuary().Realm().Swamp() *)
Definition path_of (t : triple) : str := sanct t ++ SEP :: realm t ++ SEP :: swamp t.

(* what both island functions hash: the three parts without separators *)
Definition island_key (t : triple) : str := sanct t ++ realm t ++ swamp t.

(* SDK: hash % allIslands + 1 (uint64; allIslands = 0 is a division by zero: excluded) *)
Definition island_sdk (t : triple) (n : N) : N := xxh64 (island_key t) mod n + 1.

(* server: uint16(hash % uint64(allFolders)) + 1 in uint16 arithmetic *)
Definition island_srv (t : triple) (n : N) : N :=
  ((xxh64 (island_key t) mod n) mod 65536 + 1) mod 65536.

(* the per-object cache (FolderNumber / IslandNumber field; 0 = not computed yet):
   returns (result, new cache) *)
Definition cached_island (f : triple -> N -> N) (cache : N) (t : triple) (n : N) : N * N :=
  if cache =? 0 then (f t n, f t n) else (cache, cache).

(* ---- fmt.Sprintf("%x", uint64) : lowercase, no padding ---------------------------------- *)
Definition hex_digit (d : N) : N := if d <? 10 then 48 + d else 87 + d.

Fixpoint hex_go (fuel : nat) (x : N) (acc : str) : str :=
  match fuel with
  | O => acc
  | S f => let acc' := hex_digit (x mod 16) :: acc in
           if x / 16 =? 0 then acc' else hex_go f (x / 16) acc'
  end.

Definition hex (x : N) : str := hex_go 16 x [].          (* x < 2^64 *)

Fixpoint dec_go (fuel : nat) (x : N) (acc : str) : str :=
  match fuel with
  | O => acc
  | S f => let acc' := (48 + x mod 10) :: acc in
           if x / 10 =? 0 then acc' else dec_go f (x / 10) acc'
  end.

Definition dec (x : N) : str := dec_go 20 x [].           (* x < 2^64 *)

(* ---- generateHashedDirectoryPath --------------------------------------------------------
   charsPerLevel = max 2 (len (hex (maxFolders-1)))  (maxFolders >= 1);
   part i = hashHex[i*cpl : min((i+1)*cpl, len)] - a Go slice expression, which panics when
   start > len.  [clamp = true] is the current code (start is clamped to len, giving empty
   parts that filepath.Join drops); [clamp = false] is the pinned commit.  None = panic. *)
Definition chars_per_level (maxf : N) : N := N.max 2 (N.of_nat (length (hex (maxf - 1)))).

Fixpoint dir_parts (clamp : bool) (hx : str) (cpl : N) (i : N) (depth : nat) : option (list str) :=
  match depth with
  | O => Some []
  | S d =>
    let len := N.of_nat (length hx) in
    let start := i * cpl in
    if (len <? start) && negb clamp then None
    else
      let start' := N.min start len in
      let stop := N.min (start + cpl) len in
      match dir_parts clamp hx cpl (i + 1) d with
      | None => None
      | Some rest => Some (firstn (N.to_nat (stop - start')) (skipn (N.to_nat start') hx) :: rest)
      end
  end.

Definition hashed_dir (clamp : bool) (p : str) (depth : nat) (maxf : N) : option (list str) :=
  dir_parts clamp (hex (xxh64 p)) (chars_per_level maxf) 0 depth.

(* generateSwampFolderName: the full hash of the path names the swamp's own folder *)
Definition swamp_folder (t : triple) : N := xxh64 (path_of t).

(* structured location: island directory, hashed directory levels, swamp folder *)
Record location := { l_island : N; l_dirs : list str; l_folder : N }.

Definition locate (clamp : bool) (t : triple) (island : N) (depth : nat) (maxf : N) : option location :=
  match hashed_dir clamp (path_of t) depth maxf with
  | None => None
  | Some ds => Some {| l_island := island; l_dirs := ds; l_folder := swamp_folder t |}
  end.

(* filepath.Join(root, dec island, strings.Join(dirs, "/"), hex folder) for a clean absolute
   root: empty elements disappear *)
Definition render (root : str) (l : location) : str :=
  root ++ flat_map (fun c => SEP :: c)
            (filter (fun c => negb (Nat.eqb (length c) 0)) (dec (l_island l) :: l_dirs l ++ [hex (l_folder l)])).

(* ---- Load: strings.Split(path, "/"), parts 0,1,2; fewer than three parts: index panic ---- *)
Fixpoint split_sep (l : str) (cur : str) : list str :=
  match l with
  | [] => [rev cur]
  | c :: t => if c =? SEP then rev cur :: split_sep t [] else split_sep t (c :: cur)
  end.

Definition load (p : str) : option triple :=
  match split_sep p [] with
  | a :: b :: c :: _ => Some {| sanct := a; realm := b; swamp := c |}
  | _ => None
  end.

(* ---- SDK routing table: servers with island ranges [from, to]; later servers overwrite ---- *)
Definition route (table : list (N * N)) (island : N) : option N :=
  (* index of the last server whose range contains the island *)
  fold_left (fun acc ir => let '(i, (lo, hi)) := ir in
                           if (lo <=? island) && (island <=? hi) then Some i else acc)
            (index_from 0 table) None.

(* ---- a client used over time: the routing table is (re)filled range by range - Connect
        overwrites the islands of each server's range and removes nothing -, lookups in
        between.  The table is the list of all (host, from, to) assignments so far, oldest
        first; an island belongs to the last assignment covering it. *)
Definition rtable := list (N * (N * N)).

Definition route_h (tb : rtable) (island : N) : option N :=
  fold_left (fun acc e => let '(h, (lo, hi)) := e in
                          if (lo <=? island) && (island <=? hi) then Some h else acc) tb None.

Inductive rstep :=
| RFill (ranges : rtable)                                   (* Connect-style (re)fill *)
| RLookup (i : nat) (with_host : bool) (host : option N).
    (* GetServiceClientAndHost (true) / GetServiceClient (false) for the i-th name of the
       case's population (a name with those parts, however the object was obtained);
       the host the answer stands for, None = nil *)

(* ---- name objects: builders and per-object caches ---------------------------------------
   A Name is built step by step (New().Sanctuary(s).Realm(r).Swamp(w)); every builder returns
   a NEW object that copies the parts and the path and starts with empty caches.  Prefix
   objects are routinely shared (one sanctuary/realm object extended into many swamps) and may
   themselves be queried.  The SDK and the server object of one name are kept side by side. *)
Record nobj := {
  o_s : str; o_r : str; o_w : str;          (* SanctuaryID, RealmName, SwampName *)
  o_path : str;                             (* Path *)
  o_isl_sdk : N;                            (* SDK IslandNumber, 0 = not computed *)
  o_isl_srv : N;                            (* server FolderNumber, 0 = not computed *)
  o_hp : option str                         (* server HashPath, None = "" *)
}.

Definition obj_triple (o : nobj) : triple := {| sanct := o_s o; realm := o_r o; swamp := o_w o |}.

Definition obj_sanct (s : str) : nobj :=
  {| o_s := s; o_r := []; o_w := []; o_path := s; o_isl_sdk := 0; o_isl_srv := 0; o_hp := None |}.
Definition obj_realm (o : nobj) (r : str) : nobj :=
  {| o_s := o_s o; o_r := r; o_w := []; o_path := o_path o ++ SEP :: r;
     o_isl_sdk := 0; o_isl_srv := 0; o_hp := None |}.
Definition obj_swamp (o : nobj) (w : str) : nobj :=
  {| o_s := o_s o; o_r := o_r o; o_w := w; o_path := o_path o ++ SEP :: w;
     o_isl_sdk := 0; o_isl_srv := 0; o_hp := None |}.
Definition obj_load (p : str) : option nobj :=
  match load p with
  | Some t => Some {| o_s := sanct t; o_r := realm t; o_w := swamp t; o_path := path_of t;
                      o_isl_sdk := 0; o_isl_srv := 0; o_hp := None |}
  | None => None
  end.

(* queries: (result, object afterwards) *)
Definition obj_island_sdk (o : nobj) (n : N) : N * nobj :=
  let '(v, c) := cached_island island_sdk (o_isl_sdk o) (obj_triple o) n in
  (v, {| o_s := o_s o; o_r := o_r o; o_w := o_w o; o_path := o_path o;
         o_isl_sdk := c; o_isl_srv := o_isl_srv o; o_hp := o_hp o |}).
Definition obj_island_srv (o : nobj) (n : N) : N * nobj :=
  let '(v, c) := cached_island island_srv (o_isl_srv o) (obj_triple o) n in
  (v, {| o_s := o_s o; o_r := o_r o; o_w := o_w o; o_path := o_path o;
         o_isl_sdk := o_isl_sdk o; o_isl_srv := c; o_hp := o_hp o |}).

(* the location of an object is computed from its Path *)
Definition locate_path (clamp : bool) (p : str) (island : N) (depth : nat) (maxf : N) : option location :=
  match hashed_dir clamp p depth maxf with
  | None => None
  | Some ds => Some {| l_island := island; l_dirs := ds; l_folder := xxh64 p |}
  end.

Definition pure_path (root p : str) (island : N) (depth : nat) (maxf : N) : option str :=
  option_map (render root) (locate_path true p island depth maxf).

Definition obj_path (root : str) (o : nobj) (island : N) (depth : nat) (maxf : N) : option str * nobj :=
  match o_hp o with
  | Some h => (Some h, o)
  | None =>
    let r := pure_path root (o_path o) island depth maxf in
    (r, {| o_s := o_s o; o_r := o_r o; o_w := o_w o; o_path := o_path o;
           o_isl_sdk := o_isl_sdk o; o_isl_srv := o_isl_srv o; o_hp := r |})
  end.

(* a program over a growing store of objects; queries carry what the implementation answered *)
Inductive nop :=
| NSanct (s : str)
| NRealm (i : nat) (r : str)
| NSwamp (i : nat) (w : str)
| NLoad (p : str)
| NIsland (i : nat) (n : N) (sdk : N) (srv : option N)
| NPath (i : nat) (island : N) (depth : nat) (maxf : N) (obs : option str)
| NGet (i : nat) (sdk_get srv_get : str).                  (* Get() of both objects *)

(* ---- case checker ----------------------------------------------------------------------- *)
Definition str_eqb : str -> str -> bool := list_eqb N.eqb.

Definition triple_eqb (a b : triple) : bool :=
  str_eqb (sanct a) (sanct b) && str_eqb (realm a) (realm b) && str_eqb (swamp a) (swamp b).

Inductive case :=
| CAddr (t : triple) (n : N) (depth : nat) (maxf : N) (island : N)
        (go_hash : N)                       (* xxhash.Sum64 of the island key, from the Go library *)
        (sdk1 sdk2 : N)                     (* GetIslandID(n) on two fresh SDK name objects *)
        (srv : option N)                    (* GetFolderNumber(uint16 n) on a fresh server name object, when n < 2^16 *)
        (path1 path2 : option str)          (* GetFullHashPath("/r", island, depth, maxf) on two fresh objects; None = panic *)
| CCache (t : triple) (n1 n2 : N) (sdk_second : N) (srv_second : option N)
        (* one object: GetIslandID(n1) then GetIslandID(n2); likewise GetFolderNumber *)
| CLoad (p : str) (srv_loaded sdk_loaded : option (triple * str))  (* Load(p): parts and Get(); None = panic *)
| CAlias (t1 t2 : triple) (island : N) (depth : nat) (maxf : N) (path1 path2 : option str)
| CRoute (t : triple) (n : N) (table : list (N * N)) (host : option N)
| CProg (ops : list nop)
| CRouteSeq (n : N) (pop : list triple) (steps : list rstep).

(* codes: 1 model <> implementation    2 island outside 1..N    3 SDK and server islands differ
          4 location computation panics    5 reused name object ignores a changed N
          6 Load panics (fewer than three parts)    7 two different triples, one location
          8 two fresh objects disagree (not a function of the name)
          9 Gallina XXH64 <> Go library
          10 the answer of a name object is not the pure function of its own parts / path
             (it depends on how the object was built or on what was asked of other objects)
          11 a routing answer of the client is not the function of the name's island and the
             routing table at that moment *)
Definition code_if (b : bool) (c : N) : list N := if b then [] else [c].

Definition opt_str_eqb := option_eqb str_eqb.
Definition ROOT : str := [47; 114].    (* "/r" *)

Definition model_path (t : triple) (island : N) (depth : nat) (maxf : N) : option str :=
  option_map (render ROOT) (locate true t island depth maxf).

Definition set_nth_obj (i : nat) (o : nobj) (st : list nobj) : list nobj :=
  firstn i st ++ o :: skipn (S i) st.

(* one query against the model object [o]: [pure] is the function of the object's own parts,
   [model] what the faithful object (with its cache) answers.  A stale cache hit after a
   changed N is the known class 5; any other deviation from [pure] is class 10. *)
Definition verdict_query {A} (eqb : A -> A -> bool) (obs pure model : A) : list N :=
  code_if (eqb obs model) 1 ++
  (if eqb obs pure then [] else if eqb model pure then [10] else if eqb obs model then [5] else [10]).

Fixpoint chk_prog (ops : list nop) (st : list nobj) : list N :=
  match ops with
  | [] => []
  | op :: rest =>
    match op with
    | NSanct s => chk_prog rest (st ++ [obj_sanct s])
    | NRealm i r => match nth_error st i with
                    | Some o => chk_prog rest (st ++ [obj_realm o r])
                    | None => [1]
                    end
    | NSwamp i w => match nth_error st i with
                    | Some o => chk_prog rest (st ++ [obj_swamp o w])
                    | None => [1]
                    end
    | NLoad p => match obj_load p with
                 | Some o => chk_prog rest (st ++ [o])
                 | None => [1]
                 end
    | NIsland i n sdk srv =>
      match nth_error st i with
      | None => [1]
      | Some o =>
        let '(m1, o1) := obj_island_sdk o n in
        let '(m2, o2) := obj_island_srv o1 n in
        verdict_query N.eqb sdk (island_sdk (obj_triple o) n) m1 ++
        (if o_isl_sdk o =? 0 then code_if ((1 <=? sdk) && (sdk <=? n)) 2 else []) ++
        match srv with
        | Some v => verdict_query N.eqb v (island_srv (obj_triple o) n) m2 ++
                    chk_prog rest (set_nth_obj i o2 st)
        | None => chk_prog rest (set_nth_obj i o1 st)
        end
      end
    | NPath i island depth maxf obs =>
      match nth_error st i with
      | None => [1]
      | Some o =>
        let '(m, o') := obj_path ROOT o island depth maxf in
        (match obs with None => [4] | Some _ => [] end) ++
        verdict_query opt_str_eqb obs (pure_path ROOT (o_path o) island depth maxf) m ++
        chk_prog rest (set_nth_obj i o' st)
      end
    | NGet i g1 g2 =>
      match nth_error st i with
      | None => [1]
      | Some o => code_if (str_eqb g1 (o_path o) && str_eqb g2 (o_path o)) 1 ++ chk_prog rest st
      end
    end
  end.

(* [isl]: the island of every name of the population (computed once per case) *)
Fixpoint chk_route_seq (isl : list N) (steps : list rstep) (tb : rtable) : list N :=
  match steps with
  | [] => []
  | RFill rs :: rest => chk_route_seq isl rest (tb ++ rs)
  | RLookup i _ host :: rest =>
    match nth_error isl i with
    | Some island => code_if (option_eqb N.eqb host (route_h tb island)) 11
    | None => [1]
    end ++ chk_route_seq isl rest tb
  end.

Definition chk (c : case) : list N :=
  match c with
  | CAddr t n depth maxf island gh sdk1 sdk2 srv path1 path2 =>
    code_if (xxh64 (island_key t) =? gh) 9 ++
    code_if ((sdk1 =? sdk2) && opt_str_eqb path1 path2) 8 ++
    code_if ((1 <=? sdk1) && (sdk1 <=? n)) 2 ++
    (match srv with
     | Some v => code_if ((1 <=? v) && (v <=? n)) 2 ++ code_if (v =? sdk1) 3 ++
                 code_if (v =? island_srv t n) 1
     | None => []
     end) ++
    (match path1 with None => [4] | Some _ => [] end) ++
    code_if (sdk1 =? island_sdk t n) 1 ++
    code_if (opt_str_eqb path1 (model_path t island depth maxf)) 1
  | CCache t n1 n2 sdk_second srv_second =>
    code_if (sdk_second =? snd (cached_island island_sdk (snd (cached_island island_sdk 0 t n1)) t n2)) 1 ++
    code_if (sdk_second =? island_sdk t n2) 5 ++
    (match srv_second with
     | Some v => code_if (v =? snd (cached_island island_srv (snd (cached_island island_srv 0 t n1)) t n2)) 1 ++
                 code_if (v =? island_srv t n2) 5
     | None => []
     end)
  | CLoad p srv_loaded sdk_loaded =>
    let want := option_map (fun t => (t, path_of t)) (load p) in
    let eqb := option_eqb (fun a b => triple_eqb (fst a) (fst b) && str_eqb (snd a) (snd b)) in
    code_if (eqb srv_loaded want && eqb sdk_loaded want) 1 ++
    (match srv_loaded, sdk_loaded with Some _, Some _ => [] | _, _ => [6] end)
  | CAlias t1 t2 island depth maxf path1 path2 =>
    code_if (opt_str_eqb path1 (model_path t1 island depth maxf) &&
             opt_str_eqb path2 (model_path t2 island depth maxf)) 1 ++
    code_if (triple_eqb t1 t2 || negb (opt_str_eqb path1 path2)) 7
  | CRoute t n table host =>
    code_if (option_eqb N.eqb host (route table (island_sdk t n))) 1
  | CProg ops => chk_prog ops []
  | CRouteSeq n pop steps => chk_route_seq (map (fun t => island_sdk t n) pop) steps []
  end.

Fixpoint dedup (l : list N) : list N :=
  match l with
  | [] => []
  | c :: t => if existsb (N.eqb c) t then dedup t else c :: dedup t
  end.

Fixpoint check_from (i : N) (cs : list case) : list verdict :=
  match cs with
  | [] => []
  | c :: t => map (fun k => (i, k)) (dedup (chk c)) ++ check_from (N.succ i) t
  end.

Definition check_all (cs : list case) : list verdict := check_from 0 cs.
