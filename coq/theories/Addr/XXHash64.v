(* Addr/XXHash64.v — XXH64 (seed 0) over byte lists, in N arithmetic modulo 2^64, as
   implemented by github.com/cespare/xxhash/v2 (Sum64 / Sum64String).  Not abstract (M5): the
   C20 harness compares it with the Go library on every generated name.  No proofs here. *)
From HV Require Import Base.Prelude.
Local Open Scope N_scope.

Definition M64 : N := 18446744073709551616.
Definition w64 (x : N) : N := x mod M64.

Definition P1 : N := 11400714785074694791.
Definition P2 : N := 14029467366897019727.
Definition P3 : N := 1609587929392839161.
Definition P4 : N := 9650029242287828579.
Definition P5 : N := 2870177450012600261.

Definition rotl (x r : N) : N := w64 (N.lor (N.shiftl x r) (N.shiftr x (64 - r))).

Definition xround (acc input : N) : N := w64 (rotl (w64 (acc + input * P2)) 31 * P1).

Definition merge_round (acc val : N) : N :=
  w64 (N.lxor acc (xround 0 val) * P1 + P4).

(* little-endian value of the first k bytes (missing bytes read as 0; callers check length) *)
Fixpoint le (k : nat) (l : list N) : N :=
  match k, l with
  | S k', b :: t => b + 256 * le k' t
  | _, _ => 0
  end.

(* 32-byte stripes; one unit of fuel per stripe *)
Fixpoint stripes (fuel : nat) (l : list N) (v1 v2 v3 v4 : N) : (N * N * N * N) * list N :=
  match fuel with
  | O => ((v1, v2, v3, v4), l)
  | S f =>
    if (length l <? 32)%nat then ((v1, v2, v3, v4), l)
    else stripes f (skipn 32 l)
           (xround v1 (le 8 l)) (xround v2 (le 8 (skipn 8 l)))
           (xround v3 (le 8 (skipn 16 l))) (xround v4 (le 8 (skipn 24 l)))
  end.

Fixpoint tail8 (fuel : nat) (l : list N) (h : N) : N * list N :=
  match fuel with
  | O => (h, l)
  | S f =>
    if (length l <? 8)%nat then (h, l)
    else tail8 f (skipn 8 l) (w64 (rotl (N.lxor h (xround 0 (le 8 l))) 27 * P1 + P4))
  end.

Definition tail4 (l : list N) (h : N) : N * list N :=
  if (length l <? 4)%nat then (h, l)
  else (w64 (rotl (N.lxor h (w64 (le 4 l * P1))) 23 * P2 + P3), skipn 4 l).

Fixpoint tail1 (l : list N) (h : N) : N :=
  match l with
  | [] => h
  | b :: t => tail1 t (w64 (rotl (N.lxor h (w64 (b * P5))) 11 * P1))
  end.

Definition avalanche (h : N) : N :=
  let h := w64 (N.lxor h (N.shiftr h 33) * P2) in
  let h := w64 (N.lxor h (N.shiftr h 29) * P3) in
  N.lxor h (N.shiftr h 32).

Definition xxh64 (l : list N) : N :=
  let n := N.of_nat (length l) in
  let '(h, rest) :=
    if (length l <? 32)%nat then (P5, l)
    else
      let '((v1, v2, v3, v4), rest) :=
        stripes (length l) l (w64 (P1 + P2)) P2 0 (w64 (M64 - P1)) in
      let h := w64 (rotl v1 1 + rotl v2 7 + rotl v3 12 + rotl v4 18) in
      (merge_round (merge_round (merge_round (merge_round h v1) v2) v3) v4, rest) in
  let h := w64 (h + n) in
  let '(h, rest) := tail8 (length rest) rest h in
  let '(h, rest) := tail4 rest h in
  avalanche (tail1 rest h).
