(* Addr/NameProofs.v — swamp addressing: range, SDK/server agreement, totality of the location
   computation, injectivity of locations up to XXH64 collisions, Load round trip. *)
From HV Require Import Base.Prelude Addr.XXHash64 Addr.Name.
From Coq Require Import ZifyN ZifyNat ZifyBool.
Ltac Zify.zify_post_hook ::= Z.div_mod_to_equations.
Local Open Scope N_scope.

(* ---- island numbers ---------------------------------------------------------------------- *)

Theorem island_in_range : forall t n, 0 < n -> 1 <= island_sdk t n /\ island_sdk t n <= n.
Proof.
  intros t n Hn. unfold island_sdk.
  pose proof (N.mod_lt (xxh64 (island_key t)) n) as H. lia.
Qed.

Theorem island_sdk_srv_agree : forall t n, 0 < n -> n < 65536 -> island_srv t n = island_sdk t n.
Proof.
  intros t n Hn Hn16. unfold island_srv, island_sdk.
  pose proof (N.mod_lt (xxh64 (island_key t)) n) as H.
  rewrite (N.mod_small (xxh64 (island_key t) mod n) 65536) by lia.
  apply N.mod_small. lia.
Qed.

Theorem fresh_object_is_function : forall f t n, cached_island f 0 t n = (f t n, f t n).
Proof. reflexivity. Qed.

Definition tABC : triple := {| sanct := [97]; realm := [98]; swamp := [99] |}.

(* a reused name object answers with the island computed for the first N *)
Theorem cache_stale_refuted :
  exists t n1 n2, 0 < n2 /\
    n2 < fst (cached_island island_sdk (snd (cached_island island_sdk 0 t n1)) t n2).
Proof. exists tABC, 1000, 10. split; vm_compute; reflexivity. Qed.

(* ---- hashed directory path ---------------------------------------------------------------- *)

Theorem dir_parts_total : forall depth hx cpl i, dir_parts true hx cpl i depth <> None.
Proof.
  induction depth as [|d IH]; intros hx cpl i; simpl; [discriminate|].
  rewrite andb_false_r. specialize (IH hx cpl (i + 1)).
  destruct (dir_parts true hx cpl (i + 1) d); [discriminate | contradiction].
Qed.

Theorem hashed_dir_total : forall p depth maxf, hashed_dir true p depth maxf <> None.
Proof. intros. apply dir_parts_total. Qed.

Theorem locate_total : forall t island depth maxf, locate true t island depth maxf <> None.
Proof.
  intros. unfold locate. pose proof (hashed_dir_total (path_of t) depth maxf) as H.
  destruct (hashed_dir true (path_of t) depth maxf); [discriminate | contradiction].
Qed.

(* pinned commit (no clamp): depth 7 at 1000 folders per level slices [18:16] *)
Theorem hashed_dir_refuted_without_clamp :
  hashed_dir false (path_of tABC) 7 1000 = None /\ hashed_dir false (path_of tABC) 10 100 = None.
Proof. split; vm_compute; reflexivity. Qed.

(* ... it was total exactly within the hash string *)
Theorem dir_parts_partial_without_clamp : forall depth hx cpl i,
  (depth = O \/ (i + N.of_nat depth - 1) * cpl <= N.of_nat (length hx)) ->
  dir_parts false hx cpl i depth <> None.
Proof.
  induction depth as [|d IH]; intros hx cpl i H; simpl; [discriminate|].
  destruct H as [H|H]; [discriminate|].
  assert (Hs : (N.of_nat (length hx) <? i * cpl) = false) by nia.
  rewrite Hs. simpl.
  assert (Hd : dir_parts false hx cpl (i + 1) d <> None).
  { apply IH. destruct d; [left; reflexivity | right; nia]. }
  destruct (dir_parts false hx cpl (i + 1) d); [discriminate | contradiction].
Qed.

(* the repair does not move anything: wherever the old code produced a path, the new code
   produces the same one *)
Theorem clamp_preserves_locations : forall depth hx cpl i x,
  dir_parts false hx cpl i depth = Some x -> dir_parts true hx cpl i depth = Some x.
Proof.
  induction depth as [|d IH]; intros hx cpl i x H; [exact H|].
  cbn [dir_parts negb] in *.
  destruct (N.of_nat (length hx) <? i * cpl) eqn:Hs; cbn [andb] in *; [discriminate|].
  destruct (dir_parts false hx cpl (i + 1) d) as [r|] eqn:Hr; [|discriminate].
  rewrite (IH _ _ _ _ Hr). exact H.
Qed.

Theorem fix_preserves_locations : forall t island depth maxf l,
  locate false t island depth maxf = Some l -> locate true t island depth maxf = Some l.
Proof.
  intros t island depth maxf l H. unfold locate, hashed_dir in *.
  destruct (dir_parts false (hex (xxh64 (path_of t))) (chars_per_level maxf) 0 depth) as [ds|] eqn:E;
    [|discriminate].
  rewrite (clamp_preserves_locations _ _ _ _ _ E). exact H.
Qed.

Example locate_example :
  option_map (render ROOT) (locate true tABC 3 2 1000) =
  Some [47;114;47;51;47;101;57;52;47;102;55;48;47;101;57;52;102;55;48;48;48;56;54;99;102;56;102;50;48].
Proof. vm_compute; reflexivity. Qed.   (* /r/3/e94/f70/e94f700086cf8f20 *)

(* ---- locations are distinct up to hash collisions ------------------------------------------ *)

Lemma app_sep_inj : forall (a a' b b' : str),
  ~ In SEP a -> ~ In SEP a' -> a ++ SEP :: b = a' ++ SEP :: b' -> a = a' /\ b = b'.
Proof.
  induction a as [|x a IH]; intros [|x' a'] b b' Ha Ha' E; simpl in *.
  - injection E as E. auto.
  - injection E as E1 E2. exfalso. apply Ha'. left. congruence.
  - injection E as E1 E2. exfalso. apply Ha. left. congruence.
  - injection E as E1 E2. subst x'.
    destruct (IH a' b b') as [-> ->]; auto.
Qed.

Definition sepfree (t : triple) : Prop := ~ In SEP (sanct t) /\ ~ In SEP (realm t).

Lemma path_of_inj : forall t t', sepfree t -> sepfree t' -> path_of t = path_of t' -> t = t'.
Proof.
  intros [s r w] [s' r' w'] [Hs Hr] [Hs' Hr'] E. unfold path_of in E. simpl in *.
  apply app_sep_inj in E as [-> E]; try assumption.
  apply app_sep_inj in E as [-> ->]; try assumption. reflexivity.
Qed.

Theorem location_injective_mod_hash : forall c c' t t' i i' d d' m m' l,
  sepfree t -> sepfree t' ->
  locate c t i d m = Some l -> locate c' t' i' d' m' = Some l ->
  t = t' \/ (path_of t <> path_of t' /\ xxh64 (path_of t) = xxh64 (path_of t')).
Proof.
  intros c c' t t' i i' d d' m m' l Hsf Hsf' H H'. unfold locate in *.
  destruct (hashed_dir c (path_of t) d m); [|discriminate].
  destruct (hashed_dir c' (path_of t') d' m'); [|discriminate].
  injection H as <-. injection H' as _ _ Hf. unfold swamp_folder in Hf.
  destruct (list_eq_dec N.eq_dec (path_of t) (path_of t')) as [E|E].
  - left. apply path_of_inj; assumption.
  - right. split; [exact E | symmetry; exact Hf].
Qed.

(* with a separator inside a part two different triples share path and location *)
Theorem separator_collision :
  exists t t', t <> t' /\ path_of t = path_of t' /\
               forall i d m, locate true t i d m = locate true t' i d m.
Proof.
  exists {| sanct := [97;47;98]; realm := [99]; swamp := [100] |},
         {| sanct := [97]; realm := [98;47;99]; swamp := [100] |}.
  split; [discriminate|]. split; [reflexivity|].
  intros i d m. unfold locate, swamp_folder. reflexivity.
Qed.

(* ---- Load ----------------------------------------------------------------------------------- *)

Lemma split_sep_app : forall a rest cur,
  ~ In SEP a -> split_sep (a ++ SEP :: rest) cur = (rev cur ++ a) :: split_sep rest [].
Proof.
  induction a as [|x a IH]; intros rest cur Ha; simpl.
  - rewrite app_nil_r. reflexivity.
  - destruct (x =? SEP) eqn:E; [apply N.eqb_eq in E; exfalso; apply Ha; left; exact E|].
    rewrite IH by (intro H; apply Ha; right; exact H). simpl. rewrite <- app_assoc. reflexivity.
Qed.

Lemma split_sep_nosep : forall a cur, ~ In SEP a -> split_sep a cur = [rev cur ++ a].
Proof.
  induction a as [|x a IH]; intros cur Ha; simpl.
  - rewrite app_nil_r. reflexivity.
  - destruct (x =? SEP) eqn:E; [apply N.eqb_eq in E; exfalso; apply Ha; left; exact E|].
    rewrite IH by (intro H; apply Ha; right; exact H). simpl. rewrite <- app_assoc. reflexivity.
Qed.

Theorem load_roundtrip : forall t,
  ~ In SEP (sanct t) -> ~ In SEP (realm t) -> ~ In SEP (swamp t) -> load (path_of t) = Some t.
Proof.
  intros [s r w] Hs Hr Hw. unfold load, path_of. simpl in *.
  rewrite split_sep_app by exact Hs. rewrite split_sep_app by exact Hr.
  rewrite split_sep_nosep by exact Hw. reflexivity.
Qed.

Theorem load_short_refuted : load [97; 47; 98] = None /\ load [] = None.
Proof. split; reflexivity. Qed.

(* ---- XXH64 test vectors ------------------------------------------------------------------- *)

Theorem xxh64_vectors :
  xxh64 [] = 0xef46db3751d8e999 /\
  xxh64 [97] = 0xd24ec4f1a98c6e5b /\
  xxh64 [97;98;99] = 0x44bc2cf5ad770999 /\
  xxh64 [97;47;98;47;99] = 0xe94f700086cf8f20.
Proof. repeat split; vm_compute; reflexivity. Qed.

(* ---- name objects ----------------------------------------------------------------------------- *)

(* builders return objects with empty caches, whatever was asked of the object they extend *)
Theorem builders_are_fresh : forall o x,
  (o_isl_sdk (obj_realm o x) = 0 /\ o_isl_srv (obj_realm o x) = 0 /\ o_hp (obj_realm o x) = None) /\
  (o_isl_sdk (obj_swamp o x) = 0 /\ o_isl_srv (obj_swamp o x) = 0 /\ o_hp (obj_swamp o x) = None).
Proof. intros. repeat split. Qed.

(* an object that was never queried answers with the pure function of its own parts / path *)
Theorem fresh_object_answers_pure : forall o n island depth maxf,
  (o_isl_sdk o = 0 -> fst (obj_island_sdk o n) = island_sdk (obj_triple o) n) /\
  (o_isl_srv o = 0 -> fst (obj_island_srv o n) = island_srv (obj_triple o) n) /\
  (o_hp o = None -> fst (obj_path ROOT o island depth maxf) = pure_path ROOT (o_path o) island depth maxf).
Proof.
  intros o n island depth maxf. unfold obj_island_sdk, obj_island_srv, obj_path, cached_island.
  repeat split; intro H; rewrite H; reflexivity.
Qed.

(* queries never change parts or path, and a repeated query with the same arguments repeats
   the answer *)
Theorem query_keeps_name : forall o n,
  obj_triple (snd (obj_island_sdk o n)) = obj_triple o /\ o_path (snd (obj_island_sdk o n)) = o_path o /\
  obj_triple (snd (obj_island_srv o n)) = obj_triple o /\ o_path (snd (obj_island_srv o n)) = o_path o.
Proof.
  intros o n. unfold obj_island_sdk, obj_island_srv, cached_island.
  destruct (o_isl_sdk o =? 0), (o_isl_srv o =? 0); repeat split.
Qed.

Theorem repeated_query_repeats : forall o n,
  0 < n -> fst (obj_island_sdk (snd (obj_island_sdk o n)) n) = fst (obj_island_sdk o n).
Proof.
  intros o n Hn. unfold obj_island_sdk, cached_island.
  destruct (o_isl_sdk o =? 0) eqn:E; simpl.
  - assert (H : (island_sdk (obj_triple o) n =? 0) = false).
    { pose proof (island_in_range (obj_triple o) n Hn). apply N.eqb_neq. lia. }
    unfold obj_triple in *. simpl. rewrite H. reflexivity.
  - rewrite E. reflexivity.
Qed.

(* the usual sharing pattern: island numbers asked of the sanctuary and of the
   sanctuary/realm prefix do not leak into a swamp name built from them *)
Theorem prefix_queries_do_not_leak : forall s r w n1 n2 n island depth maxf,
  let o1 := snd (obj_island_srv (snd (obj_island_sdk (obj_sanct s) n1)) n1) in
  let o2 := snd (obj_island_srv (snd (obj_island_sdk (obj_realm o1 r) n2)) n2) in
  let o3 := obj_swamp o2 w in
  let t := {| sanct := s; realm := r; swamp := w |} in
  fst (obj_island_sdk o3 n) = island_sdk t n /\
  fst (obj_island_srv o3 n) = island_srv t n /\
  o_path o3 = path_of t /\
  fst (obj_path ROOT o3 island depth maxf) = model_path t island depth maxf.
Proof.
  intros s r w n1 n2 n island depth maxf. cbv zeta.
  split; [reflexivity|]. split; [reflexivity|].
  match goal with |- ?P = _ /\ _ => assert (Hpath : P = path_of {| sanct := s; realm := r; swamp := w |}) end.
  { unfold path_of. cbn [sanct realm swamp]. cbn [o_path obj_swamp].
    replace (o_path (snd (obj_island_srv (snd (obj_island_sdk (obj_realm
              (snd (obj_island_srv (snd (obj_island_sdk (obj_sanct s) n1)) n1)) r) n2)) n2)))
      with (s ++ SEP :: r) by reflexivity.
    rewrite <- app_assoc. reflexivity. }
  split; [exact Hpath|].
  unfold obj_path. cbn [o_hp obj_swamp fst]. rewrite Hpath. reflexivity.
Qed.

(* ---- client routing over time ------------------------------------------------------------------ *)

Lemma route_h_app : forall tb e island,
  route_h (tb ++ [e]) island =
  let '(h, (lo, hi)) := e in if (lo <=? island) && (island <=? hi) then Some h else route_h tb island.
Proof. intros tb [h [lo hi]] island. unfold route_h. rewrite fold_left_app. reflexivity. Qed.

(* the answer is an assignment of the table that covers the island, and the most recent one *)
Theorem route_h_sound : forall tb island h,
  route_h tb island = Some h ->
  exists pre lo hi post, tb = pre ++ (h, (lo, hi)) :: post /\ lo <= island /\ island <= hi /\
    route_h post island = None.
Proof.
  induction tb as [|e tb IH] using rev_ind; intros island h H; [discriminate|].
  rewrite route_h_app in H. destruct e as [h' [lo hi]].
  destruct ((lo <=? island) && (island <=? hi)) eqn:E.
  - injection H as <-. exists tb, lo, hi, []. apply andb_true_iff in E as [E1 E2].
    apply N.leb_le in E1, E2. repeat split; auto.
  - destruct (IH island h H) as [pre [lo' [hi' [post [-> [H1 [H2 H3]]]]]]].
    exists pre, lo', hi', (post ++ [(h', (lo, hi))]).
    split; [rewrite <- app_assoc; reflexivity|]. repeat split; auto.
    rewrite route_h_app, E. exact H3.
Qed.

(* an island covered by some assignment is routed *)
Theorem route_h_complete : forall tb island h lo hi,
  In (h, (lo, hi)) tb -> lo <= island -> island <= hi -> route_h tb island <> None.
Proof.
  induction tb as [|e tb IH] using rev_ind; intros island h lo hi Hin H1 H2; [contradiction|].
  rewrite route_h_app. destruct e as [h' [lo' hi']].
  destruct ((lo' <=? island) && (island <=? hi')) eqn:E; [discriminate|].
  apply in_app_or in Hin as [Hin|[Heq|[]]].
  - eapply IH; eauto.
  - injection Heq as -> -> ->. apply N.leb_le in H1, H2. rewrite H1, H2 in E. discriminate.
Qed.

(* two names with the same island are routed alike, whatever their Path strings are; names
   with different islands follow their own island (no other input exists) *)
Theorem route_depends_on_island_only : forall tb t t' n,
  island_sdk t n = island_sdk t' n -> route_h tb (island_sdk t n) = route_h tb (island_sdk t' n).
Proof. intros tb t t' n H. rewrite H. reflexivity. Qed.
