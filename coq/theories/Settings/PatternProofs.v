(* Settings/PatternProofs.v — the pattern registry resolves deterministically: the lookup of
   the current code equals the most-specific-match specification for every history of
   registrations and every map iteration order, and survives save + reload. *)
From HV Require Import Base.Prelude Settings.Pattern.
From Coq Require Import Permutation ZifyN ZifyBool.
Local Open Scope N_scope.

(* ---- keys ------------------------------------------------------------------------------ *)

Lemma pat_eqb_eq : forall p q, pat_eqb p q = true <-> p = q.
Proof.
  intros [a b c] [a' b' c']; unfold pat_eqb; simpl. split.
  - intro H. apply andb_true_iff in H as [H H3]. apply andb_true_iff in H as [H1 H2].
    apply N.eqb_eq in H1, H2, H3. subst. reflexivity.
  - intro H. injection H as -> -> ->. rewrite !N.eqb_refl. reflexivity.
Qed.

Lemma pat_eqb_refl : forall p, pat_eqb p p = true.
Proof. intro p. apply pat_eqb_eq. reflexivity. Qed.

Lemma pat_eqb_neq : forall p q, pat_eqb p q = false <-> p <> q.
Proof.
  intros p q. split.
  - intros H E. apply pat_eqb_eq in E. congruence.
  - intro H. destruct (pat_eqb p q) eqn:E; [apply pat_eqb_eq in E; contradiction | reflexivity].
Qed.

Lemma pat_eqb_sym : forall p q, pat_eqb p q = pat_eqb q p.
Proof.
  intros p q. destruct (pat_eqb p q) eqn:E.
  - apply pat_eqb_eq in E. subst. symmetry. apply pat_eqb_refl.
  - symmetry. apply pat_eqb_neq. apply pat_eqb_neq in E. congruence.
Qed.

Definition keys (r : registry) : list pat := map fst r.

(* ---- assoc / remove / set -------------------------------------------------------------- *)

Lemma assoc_remove : forall r p q,
  assoc (remove_key p r) q = if pat_eqb q p then None else assoc r q.
Proof.
  induction r as [|[k s] t IH]; intros p q; simpl.
  - destruct (pat_eqb q p); reflexivity.
  - destruct (pat_eqb p k) eqn:Epk; simpl.
    + apply pat_eqb_eq in Epk. subst k. rewrite IH.
      destruct (pat_eqb q p); reflexivity.
    + rewrite IH. destruct (pat_eqb q k) eqn:Eqk; [|reflexivity].
      apply pat_eqb_eq in Eqk. subst k. rewrite pat_eqb_sym, Epk. reflexivity.
Qed.

Lemma assoc_set : forall r p s q,
  assoc (set_key r p s) q = if pat_eqb q p then Some s else assoc r q.
Proof.
  intros r p s q. unfold set_key. simpl. rewrite assoc_remove.
  destruct (pat_eqb q p); reflexivity.
Qed.

Lemma sett_eta : forall e s,
  in_mem e = in_mem s -> idle e = idle s -> wint e = wint s -> maxfs e = maxfs s -> e = s.
Proof. intros [a b c d] [a' b' c' d']; simpl; intros; subst; reflexivity. Qed.

Lemma assoc_register : forall r p s q,
  assoc (register false r p s) q = if pat_eqb q p then Some s else assoc r q.
Proof.
  intros r p s q. unfold register. destruct (assoc r p) as [e|] eqn:Ea; [|apply assoc_set].
  match goal with |- context [if ?c then r else _] => destruct c eqn:Ec end; [|apply assoc_set].
  repeat (apply andb_true_iff in Ec as [Ec ?]).
  simpl in *. destruct (in_mem s) eqn:Es; [discriminate|]. destruct (in_mem e) eqn:Ee; [discriminate|].
  assert (e = s) by (apply sett_eta; try lia; congruence). subst e.
  destruct (pat_eqb q p) eqn:Eq; [|reflexivity]. apply pat_eqb_eq in Eq. subst q. exact Ea.
Qed.

Definition wf_sett (s : sett) : Prop := in_mem s = true -> wint s = 0%Z /\ maxfs s = 0%Z.

Lemma mk_sett_wf : forall m i w f, wf_sett (mk_sett m i w f).
Proof. intros [|] i w f; unfold wf_sett, mk_sett; simpl; intro H; [auto | discriminate]. Qed.

Definition wf_reg (r : registry) : Prop := forall e, In e r -> wf_sett (snd e).

Lemma load_save_entry : forall e, wf_sett (snd e) -> load_entry (save_entry e) = e.
Proof.
  intros [p [m i w f]] H. unfold load_entry, save_entry, wf_sett in *. simpl in *.
  destruct m; [destruct (H eq_refl) as [-> ->]|]; reflexivity.
Qed.

Lemma load_save : forall r, wf_reg r -> load (save r) = r.
Proof.
  induction r as [|e t IH]; intro H; [reflexivity|]. unfold load, save in *. simpl.
  rewrite load_save_entry by (apply H; simpl; auto). f_equal. apply IH.
  intros e' He'. apply H. simpl. auto.
Qed.

Lemma wf_remove : forall r p, wf_reg r -> wf_reg (remove_key p r).
Proof. intros r p H e He. apply filter_In in He as [He _]. apply H, He. Qed.

Lemma step_restart : forall q r, wf_reg r -> step q r Restart = r.
Proof. intros q r H. simpl. apply load_save, H. Qed.

Lemma wf_step : forall q r e,
  wf_reg r -> (forall p s, e = Reg p s -> wf_sett s) -> wf_reg (step q r e).
Proof.
  intros q r [p s|p|] H Hs; [|simpl; apply wf_remove, H|rewrite step_restart; assumption].
  simpl.
  assert (Hset : wf_reg (set_key r p s)).
  { intros e [<-|He]; [simpl; eapply Hs; reflexivity | eapply wf_remove; eauto]. }
  unfold register. destruct (assoc r p); [|exact Hset].
  match goal with |- context [if ?c then r else _] => destruct c end; [exact H | exact Hset].
Qed.

Definition wf_events (evs : list event) : Prop := forall p s, In (Reg p s) evs -> wf_sett s.

Lemma wf_fold : forall q evs r, wf_reg r -> wf_events evs -> wf_reg (fold_left (step q) evs r).
Proof.
  induction evs as [|e t IH]; intros r H He; simpl; [exact H|].
  apply IH.
  - apply wf_step; [exact H|]. intros p s ->. apply (He p s). simpl. auto.
  - intros p s Hin. apply (He p s). simpl. auto.
Qed.

Lemma assoc_fold : forall evs r p,
  wf_reg r -> wf_events evs ->
  assoc (fold_left (step false) evs r) p = fold_left (spec_step p) evs (assoc r p).
Proof.
  induction evs as [|e t IH]; intros r p Hr He; simpl; [reflexivity|].
  assert (Ht : wf_events t) by (intros q s Hin; apply (He q s); simpl; auto).
  assert (Hr' : wf_reg (step false r e)).
  { apply wf_step; [exact Hr|]. intros q s ->. apply (He q s). simpl. auto. }
  rewrite IH by assumption. f_equal. destruct e as [q s|q|].
  - apply assoc_register.
  - apply assoc_remove.
  - rewrite step_restart by exact Hr. reflexivity.
Qed.

Lemma assoc_run : forall evs p, wf_events evs -> assoc (run false evs) p = last_reg evs p.
Proof.
  intros evs p H. unfold run, last_reg. rewrite assoc_fold; [reflexivity | intros e [] | exact H].
Qed.

(* ---- the keys of the registry stay distinct (it is a map) ------------------------------- *)

Lemma in_keys_remove : forall r p q, In q (keys (remove_key p r)) -> In q (keys r) /\ q <> p.
Proof.
  induction r as [|[k s] t IH]; intros p q H; simpl in *; [contradiction|].
  destruct (pat_eqb p k) eqn:E; simpl in *.
  - destruct (IH _ _ H). auto.
  - destruct H as [<-|H].
    + split; [auto|]. apply pat_eqb_neq in E. congruence.
    + destruct (IH _ _ H). auto.
Qed.

Lemma nodup_remove : forall r p, NoDup (keys r) -> NoDup (keys (remove_key p r)).
Proof.
  induction r as [|[k s] t IH]; intros p H; simpl; [constructor|].
  inversion H as [|? ? Hn Ht]; subst. destruct (pat_eqb p k); simpl; [auto|].
  constructor; [|auto]. intro Hin. apply in_keys_remove in Hin as [Hin _]. contradiction.
Qed.

Lemma nodup_set : forall r p s, NoDup (keys r) -> NoDup (keys (set_key r p s)).
Proof.
  intros r p s H. unfold set_key. simpl. constructor; [|apply nodup_remove; exact H].
  intro Hin. apply in_keys_remove in Hin as [_ Hne]. congruence.
Qed.

Lemma nodup_step : forall q r e, NoDup (keys r) -> NoDup (keys (step q r e)).
Proof.
  intros q r [p s|p|] H; simpl; [|apply nodup_remove; exact H|].
  2:{ unfold keys, load, save. rewrite !map_map. simpl.
      replace (map (fun x => fst x) r) with (keys r) by reflexivity. exact H. }
  unfold register. destruct (assoc r p); [|apply nodup_set; exact H].
  match goal with |- context [if ?c then r else _] => destruct c end; [exact H | apply nodup_set; exact H].
Qed.

Lemma nodup_fold : forall q evs r, NoDup (keys r) -> NoDup (keys (fold_left (step q) evs r)).
Proof. induction evs as [|e t IH]; intros r H; simpl; [exact H | apply IH, nodup_step, H]. Qed.

Lemma nodup_run : forall q evs, NoDup (keys (run q evs)).
Proof. intros. apply nodup_fold. constructor. Qed.

Lemma assoc_in : forall r p s, assoc r p = Some s -> In (p, s) r.
Proof.
  induction r as [|[k v] t IH]; intros p s H; simpl in *; [discriminate|].
  destruct (pat_eqb p k) eqn:E.
  - apply pat_eqb_eq in E. injection H as <-. subst. auto.
  - right. apply IH, H.
Qed.

Lemma in_assoc : forall r p s, NoDup (keys r) -> In (p, s) r -> assoc r p = Some s.
Proof.
  induction r as [|[k v] t IH]; intros p s Hnd Hin; simpl in *; [contradiction|].
  inversion Hnd as [|? ? Hn Ht]; subst. destruct Hin as [E|Hin].
  - injection E as -> ->. rewrite pat_eqb_refl. reflexivity.
  - destruct (pat_eqb p k) eqn:E; [|apply IH; assumption].
    apply pat_eqb_eq in E. subst k. exfalso. apply Hn.
    change p with (fst (p, s)). apply in_map, Hin.
Qed.

Lemma assoc_perm : forall r r' p, NoDup (keys r) -> Permutation r r' -> assoc r p = assoc r' p.
Proof.
  intros r r' p Hnd Hp.
  assert (Hnd' : NoDup (keys r')).
  { eapply Permutation_NoDup; [apply Permutation_map, Hp | exact Hnd]. }
  destruct (assoc r p) as [s|] eqn:E.
  - symmetry. apply in_assoc; [exact Hnd'|]. eapply Permutation_in; [exact Hp|]. apply assoc_in, E.
  - destruct (assoc r' p) as [s'|] eqn:E'; [|reflexivity].
    apply assoc_in in E'. apply Permutation_sym in Hp.
    eapply Permutation_in in E'; [|exact Hp]. apply in_assoc in E'; [congruence | exact Hnd].
Qed.

(* ---- specificity ------------------------------------------------------------------------ *)

Lemma rank_le3 : forall p, rank p <= 3.
Proof. intro p. unfold rank. destruct (pr p =? 0), (pw p =? 0); lia. Qed.

(* a pattern that matches n is the candidate of its own rank *)
Lemma matches_cand : forall n p, matches n p = true -> p = cand n (rank p).
Proof.
  intros n [a b c] H. unfold matches, cand, rank in *. simpl in *.
  apply andb_true_iff in H as [H H3]. apply andb_true_iff in H as [H1 H2].
  apply N.eqb_eq in H1. subst a.
  destruct (N.eqb_spec b 0) as [->|Hb]; destruct (N.eqb_spec c 0) as [->|Hc]; simpl in *;
    try (apply N.eqb_eq in H2); try (apply N.eqb_eq in H3); subst; reflexivity.
Qed.

Lemma cand_matches : forall n k, matches n (cand n k) = true.
Proof.
  intros n k. unfold matches, cand. simpl. rewrite N.eqb_refl. simpl.
  destruct (N.testbit k 1), (N.testbit k 0); simpl; rewrite ?N.eqb_refl, ?orb_true_r; reflexivity.
Qed.

(* among the patterns matching one name, specificity is a total order without ties *)
Lemma specificity_antisym : forall n p q,
  matches n p = true -> matches n q = true -> rank p = rank q -> p = q.
Proof.
  intros n p q Hp Hq E. rewrite (matches_cand n p Hp), (matches_cand n q Hq), E. reflexivity.
Qed.

(* ---- the scan of the current code ------------------------------------------------------- *)

Definition best_inv (n : pat) (seen : registry) (best : option (pat * sett)) : Prop :=
  match best with
  | None => forall e, In e seen -> matches n (fst e) = false
  | Some b => In b seen /\ matches n (fst b) = true /\
              forall e, In e seen -> matches n (fst e) = true -> rank (fst e) <= rank (fst b)
  end.

Lemma best_inv_step : forall n seen best e,
  best_inv n seen best -> best_inv n (seen ++ [e]) (best_step n best e).
Proof.
  intros n seen best e H. unfold best_step. destruct (matches n (fst e)) eqn:Em.
  - destruct best as [b|]; simpl in *.
    + destruct H as [Hin [Hm Hmax]]. destruct (rank (fst b) <? rank (fst e)) eqn:Er; simpl.
      * split; [apply in_or_app; right; simpl; auto|]. split; [exact Em|].
        intros e' Hin' Hm'. apply in_app_or in Hin' as [Hin'|[<-|[]]]; [|lia].
        specialize (Hmax e' Hin' Hm'). lia.
      * split; [apply in_or_app; auto|]. split; [exact Hm|].
        intros e' Hin' Hm'. apply in_app_or in Hin' as [Hin'|[<-|[]]]; [auto|lia].
    + split; [apply in_or_app; right; simpl; auto|]. split; [exact Em|].
      intros e' Hin' Hm'. apply in_app_or in Hin' as [Hin'|[<-|[]]]; [|lia].
      rewrite (H e' Hin') in Hm'. discriminate.
  - destruct best as [b|]; simpl in *.
    + destruct H as [Hin [Hm Hmax]]. split; [apply in_or_app; auto|]. split; [exact Hm|].
      intros e' Hin' Hm'. apply in_app_or in Hin' as [Hin'|[<-|[]]]; [auto|congruence].
    + intros e' Hin'. apply in_app_or in Hin' as [Hin'|[<-|[]]]; auto.
Qed.

Lemma best_inv_fold : forall n r seen best,
  best_inv n seen best -> best_inv n (seen ++ r) (fold_left (best_step n) r best).
Proof.
  induction r as [|e t IH]; intros seen best H; simpl.
  - rewrite app_nil_r. exact H.
  - replace (seen ++ e :: t) with ((seen ++ [e]) ++ t) by (rewrite <- app_assoc; reflexivity).
    apply IH, best_inv_step, H.
Qed.

Lemma best_inv_all : forall n r, best_inv n r (fold_left (best_step n) r None).
Proof. intros n r. apply (best_inv_fold n r [] None). simpl. intros e []. Qed.

Lemma at_level_some : forall r n k s,
  at_level (assoc r) n k = Some s ->
  In (cand n k, s) r /\ matches n (cand n k) = true /\ rank (cand n k) = k.
Proof.
  intros r n k s H. unfold at_level in H. destruct (rank (cand n k) =? k) eqn:E; [|discriminate].
  apply N.eqb_eq in E. split; [apply assoc_in, H|]. split; [apply cand_matches | exact E].
Qed.

Theorem lookup_best_is_pick : forall r n,
  NoDup (keys r) -> lookup_best r n = pick (assoc r) n.
Proof.
  intros r n Hnd. unfold lookup_best. pose proof (best_inv_all n r) as Hinv.
  destruct (fold_left (best_step n) r None) as [[p s]|]; simpl in Hinv.
  - destruct Hinv as [Hin [Hm Hmax]]. simpl in *.
    pose proof (matches_cand n p Hm) as Hp. pose proof (rank_le3 p) as H3.
    pose proof (in_assoc r p s Hnd Hin) as Ha.
    assert (Hlvl : at_level (assoc r) n (rank p) = Some s).
    { unfold at_level. rewrite <- Hp, N.eqb_refl. exact Ha. }
    assert (Hhigher : forall k, rank p < k -> at_level (assoc r) n k = None).
    { intros k Hk. destruct (at_level (assoc r) n k) as [s'|] eqn:E; [|reflexivity].
      apply at_level_some in E as [Hin' [Hm' Hr']].
      specialize (Hmax _ Hin' Hm'). simpl in Hmax. lia. }
    unfold pick.
    assert (Hcases : rank p = 3 \/ rank p = 2 \/ rank p = 1 \/ rank p = 0) by lia.
    destruct Hcases as [E|[E|[E|E]]]; rewrite E in *.
    + rewrite Hlvl. reflexivity.
    + rewrite (Hhigher 3), Hlvl by lia. reflexivity.
    + rewrite (Hhigher 3), (Hhigher 2), Hlvl by lia. reflexivity.
    + rewrite (Hhigher 3), (Hhigher 2), (Hhigher 1), Hlvl by lia. reflexivity.
  - assert (Hnone : forall k, at_level (assoc r) n k = None).
    { intros k. destruct (at_level (assoc r) n k) as [s'|] eqn:E; [|reflexivity].
      apply at_level_some in E as [Hin' [Hm' _]]. pose proof (Hinv _ Hin') as X. simpl in X. congruence. }
    unfold pick. rewrite !Hnone. reflexivity.
Qed.

(* ---- the property ----------------------------------------------------------------------- *)

Lemma pick_ext : forall f g n, (forall p, f p = g p) -> pick f n = pick g n.
Proof. intros f g n H. unfold pick, at_level. rewrite !H. reflexivity. Qed.

Theorem lookup_is_spec : forall evs order n,
  wf_events evs ->
  Permutation (run false evs) order ->
  lookup_best order n = spec_lookup evs n.
Proof.
  intros evs order n Hwf Hp.
  assert (Hnd : NoDup (keys order)).
  { eapply Permutation_NoDup; [apply Permutation_map, Hp | apply nodup_run]. }
  rewrite lookup_best_is_pick by exact Hnd. unfold spec_lookup. apply pick_ext.
  intro p. rewrite <- assoc_run by exact Hwf. symmetry. apply assoc_perm; [apply nodup_run | exact Hp].
Qed.

Corollary lookup_order_independent : forall evs evs' order order' n,
  wf_events evs -> wf_events evs' ->
  (forall p, last_reg evs p = last_reg evs' p) ->
  Permutation (run false evs) order -> Permutation (run false evs') order' ->
  lookup_best order n = lookup_best order' n.
Proof.
  intros evs evs' order order' n Hwf Hwf' H Hp Hp'.
  rewrite (lookup_is_spec evs order n Hwf Hp), (lookup_is_spec evs' order' n Hwf' Hp').
  unfold spec_lookup. apply pick_ext, H.
Qed.

(* the specification itself is the most specific registered match: soundness of [pick] *)
Theorem spec_lookup_most_specific : forall evs n,
  wf_events evs ->
  (exists p s, last_reg evs p = Some s /\ matches n p = true /\ spec_lookup evs n = s /\
               forall q s', last_reg evs q = Some s' -> matches n q = true -> rank q <= rank p)
  \/ ((forall q, matches n q = true -> last_reg evs q = None) /\ spec_lookup evs n = default_sett).
Proof.
  intros evs n Hwf. unfold spec_lookup.
  rewrite <- (pick_ext (assoc (run false evs)) (last_reg evs) n (fun p => assoc_run evs p Hwf)).
  rewrite <- lookup_best_is_pick by apply nodup_run.
  unfold lookup_best. pose proof (best_inv_all n (run false evs)) as Hinv.
  destruct (fold_left (best_step n) (run false evs) None) as [[p s]|]; simpl in Hinv.
  - left. destruct Hinv as [Hin [Hm Hmax]]. exists p, s. simpl in *.
    split; [rewrite <- assoc_run by exact Hwf; apply in_assoc; [apply nodup_run | exact Hin]|].
    split; [exact Hm|]. split; [reflexivity|].
    intros q s' Hq Hmq. rewrite <- assoc_run in Hq by exact Hwf. apply assoc_in in Hq.
    exact (Hmax _ Hq Hmq).
  - right. split; [|reflexivity]. intros q Hmq.
    destruct (last_reg evs q) as [s'|] eqn:E; [|reflexivity].
    rewrite <- assoc_run in E by exact Hwf. apply assoc_in in E. pose proof (Hinv _ E) as X. simpl in X. congruence.
Qed.

(* ---- save + reload ---------------------------------------------------------------------- *)

Theorem restart_stable : forall evs n,
  wf_events evs ->
  lookup_best (load (save (run false evs))) n = lookup_best (run false evs) n.
Proof.
  intros evs n H. rewrite load_save; [reflexivity|]. apply wf_fold; [intros e []|exact H].
Qed.

(* a restart anywhere in the history changes nothing: the registrations in force, hence every
   later lookup, are those of the history without the restarts *)
Definition is_restart (e : event) : bool := match e with Restart => true | _ => false end.

Lemma last_reg_ignores_restarts : forall evs p,
  last_reg (filter (fun e => negb (is_restart e)) evs) p = last_reg evs p.
Proof.
  intros evs p. unfold last_reg. generalize (@None sett).
  induction evs as [|e t IH]; intro st; simpl; [reflexivity|].
  destruct e; simpl; apply IH.
Qed.

Lemma wf_events_filter : forall f evs, wf_events evs -> wf_events (filter f evs).
Proof. intros f evs H p s Hin. apply filter_In in Hin as [Hin _]. exact (H p s Hin). Qed.

Theorem restarts_invisible : forall evs order order' n,
  wf_events evs ->
  Permutation (run false evs) order ->
  Permutation (run false (filter (fun e => negb (is_restart e)) evs)) order' ->
  lookup_best order n = lookup_best order' n.
Proof.
  intros evs order order' n Hwf Hp Hp'.
  apply (lookup_order_independent evs (filter (fun e => negb (is_restart e)) evs)); try assumption.
  - apply wf_events_filter, Hwf.
  - intro p. symmetry. apply last_reg_ignores_restarts.
Qed.

(* a deregistered pattern stops applying at once: right after Dereg p, no lookup is answered
   from p's registration unless another registered pattern carries it *)
Theorem deregistered_pattern_not_in_force : forall evs p,
  last_reg (evs ++ [Dereg p]) p = None.
Proof.
  intros evs p. unfold last_reg. rewrite fold_left_app. simpl. rewrite pat_eqb_refl. reflexivity.
Qed.

(* ---- the pinned commit ------------------------------------------------------------------- *)

Definition pA : pat := {| ps := 1; pr := 0; pw := 0 |}.     (* a/*/*  in-memory *)
Definition pB : pat := {| ps := 1; pr := 2; pw := 0 |}.     (* a/b/*  persistent *)
Definition nABC : pat := {| ps := 1; pr := 2; pw := 3 |}.   (* a/b/c *)
Definition sMem : sett := mk_sett true 10 0 0.
Definition sDisk : sett := mk_sett false 10 1 65536.

Lemma first_match_refuted :
  exists evs order1 order2 n,
    Permutation (run false evs) order1 /\ Permutation (run false evs) order2 /\
    in_mem (lookup_first order1 n) = true /\ in_mem (lookup_first order2 n) = false.
Proof.
  exists [Reg pA sMem; Reg pB sDisk], [(pA, sMem); (pB, sDisk)], [(pB, sDisk); (pA, sMem)], nABC.
  split; [vm_compute; apply perm_swap|]. split; [vm_compute; apply Permutation_refl|].
  split; vm_compute; reflexivity.
Qed.

(* the same registry under the current scan: one answer, the more specific pattern *)
Example best_match_example :
  lookup_best [(pA, sMem); (pB, sDisk)] nABC = sDisk /\
  lookup_best [(pB, sDisk); (pA, sMem)] nABC = sDisk.
Proof. split; vm_compute; reflexivity. Qed.

(* with at most one matching pattern the first-match lookup was already right *)
Lemma first_match_partial : forall r n,
  (forall e1 e2, In e1 r -> In e2 r -> matches n (fst e1) = true -> matches n (fst e2) = true -> e1 = e2) ->
  lookup_first r n = lookup_best r n.
Proof.
  intros r n Huniq. unfold lookup_first, lookup_best.
  pose proof (best_inv_all n r) as Hinv.
  destruct (find (fun e => matches n (fst e)) r) as [e|] eqn:Ef.
  - apply find_some in Ef as [Hin Hm].
    destruct (fold_left (best_step n) r None) as [b|]; simpl in Hinv.
    + destruct Hinv as [Hinb [Hmb _]]. rewrite (Huniq e b Hin Hinb Hm Hmb). reflexivity.
    + pose proof (Hinv e Hin) as X. congruence.
  - destruct (fold_left (best_step n) r None) as [b|]; simpl in Hinv; [|reflexivity].
    destruct Hinv as [Hinb [Hmb _]]. pose proof (find_none _ _ Ef b Hinb) as Hn.
    simpl in Hn. congruence.
Qed.

(* pinned RegisterPattern: an in-memory pattern re-registered as persistent with zero
   filesystem settings stayed in-memory (the last registration did not win) *)
Lemma reregistration_refuted :
  exists evs p, option_map in_mem (last_reg evs p) = Some false /\
                option_map in_mem (assoc (run true evs) p) = Some true.
Proof.
  exists [Reg pA (mk_sett true 10 0 0); Reg pA (mk_sett false 10 0 0)], pA.
  split; vm_compute; reflexivity.
Qed.
