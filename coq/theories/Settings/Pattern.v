(* Settings/Pattern.v — model of the swamp-pattern registry of app/core/settings/settings.go
   (RegisterPattern / DeregisterPattern / GetBySwampName / save + reload) and of
   app/name/name.go:ComparePattern.  No proofs here.

   A name part is a token (N); token 0 stands for the wildcard "*".  The registry is the Go
   map s.patterns, written as an association list whose *order is the map iteration order* of
   the moment (M2: an input; the theorems hold for every order).                           *)
From HV Require Import Base.Prelude.
Local Open Scope N_scope.

Record pat := { ps : N; pr : N; pw : N }.          (* sanctuary / realm / swamp *)

Definition pat_eqb (p q : pat) : bool :=
  (ps p =? ps q) && (pr p =? pr q) && (pw p =? pw q).

(* name.ComparePattern: sanctuary equal; realm "*" or equal; swamp "*" or equal *)
Definition matches (n p : pat) : bool :=
  (ps n =? ps p) && ((pr p =? 0) || (pr n =? pr p)) && ((pw p =? 0) || (pw n =? pw p)).

(* the fields of setting.Setting the gateway can set; durations in seconds *)
Record sett := { in_mem : bool; idle : Z; wint : Z; maxfs : Z }.

Definition sett_eqb (a b : sett) : bool :=
  Bool.eqb (in_mem a) (in_mem b) && (idle a =? idle b)%Z && (wint a =? wint b)%Z && (maxfs a =? maxfs b)%Z.

(* what GetBySwampName returns when nothing matches *)
Definition default_sett : sett := {| in_mem := false; idle := 5; wint := 1; maxfs := 65536 |}.

Definition registry := list (pat * sett).

Fixpoint assoc (r : registry) (p : pat) : option sett :=
  match r with
  | [] => None
  | (q, s) :: t => if pat_eqb p q then Some s else assoc t p
  end.

Definition remove_key (p : pat) (r : registry) : registry :=
  filter (fun e => negb (pat_eqb p (fst e))) r.

Definition set_key (r : registry) (p : pat) (s : sett) : registry := (p, s) :: remove_key p r.

(* RegisterPattern(pattern, inMemory, closeAfterIdleSec, fs): the setting that is stored *)
Definition mk_sett (inmem : bool) (idle_s wint_s maxfs_b : Z) : sett :=
  if inmem then {| in_mem := true; idle := idle_s; wint := 0; maxfs := 0 |}
  else {| in_mem := false; idle := idle_s; wint := wint_s; maxfs := maxfs_b |}.

(* [skip_quirk = true] is the pinned commit: a persistent registration whose idle / write
   interval / file size equal the stored ones is skipped as "unchanged" even when the stored
   registration is in-memory (possible with zero filesystem settings).  The current code
   skips only when the stored one is persistent too. *)
Definition register (skip_quirk : bool) (r : registry) (p : pat) (s : sett) : registry :=
  match assoc r p with
  | Some e =>
    if negb (in_mem s) && (skip_quirk || negb (in_mem e)) &&
       (idle e =? idle s)%Z && (wint e =? wint s)%Z && (maxfs e =? maxfs s)%Z
    then r else set_key r p s
  | None => set_key r p s
  end.

(* ---- save / reload (settings.json): PatternModel keeps the canonical name, the type, the
        idle time and - for persistent patterns only - write interval and file size ---------- *)
Record pmodel := { m_pat : pat; m_inmem : bool; m_idle : Z; m_wint : Z; m_maxfs : Z }.

Definition save_entry (e : pat * sett) : pmodel :=
  let s := snd e in
  {| m_pat := fst e; m_inmem := in_mem s; m_idle := idle s;
     m_wint := if in_mem s then 0%Z else wint s;
     m_maxfs := if in_mem s then 0%Z else maxfs s |}.

Definition load_entry (m : pmodel) : pat * sett :=
  (m_pat m, {| in_mem := m_inmem m; idle := m_idle m; wint := m_wint m; maxfs := m_maxfs m |}).

Definition save (r : registry) : list pmodel := map save_entry r.
Definition load (ms : list pmodel) : registry := map load_entry ms.

Inductive event :=
| Reg (p : pat) (s : sett)
| Dereg (p : pat)
| Restart.                       (* process restart: settings.New reloads settings.json *)

Definition step (skip_quirk : bool) (r : registry) (e : event) : registry :=
  match e with
  | Reg p s => register skip_quirk r p s
  | Dereg p => remove_key p r
  | Restart => load (save r)
  end.

Definition run (skip_quirk : bool) (evs : list event) : registry :=
  fold_left (step skip_quirk) evs [].

(* ---- lookup ---------------------------------------------------------------------------- *)

(* pinned commit: the first match while ranging over the map *)
Definition lookup_first (order : registry) (n : pat) : sett :=
  match find (fun e => matches n (fst e)) order with
  | Some e => snd e
  | None => default_sett
  end.

(* patternSpecificity *)
Definition rank (p : pat) : N :=
  (if pr p =? 0 then 0 else 2) + (if pw p =? 0 then 0 else 1).

(* current code: scan everything, keep the match of strictly greater specificity *)
Definition best_step (n : pat) (best : option (pat * sett)) (e : pat * sett) : option (pat * sett) :=
  if matches n (fst e) then
    match best with
    | None => Some e
    | Some b => if rank (fst b) <? rank (fst e) then Some e else best
    end
  else best.

Definition lookup_best (order : registry) (n : pat) : sett :=
  match fold_left (best_step n) order None with
  | Some e => snd e
  | None => default_sett
  end.

(* ---- specification --------------------------------------------------------------------- *)

(* the registration in force for pattern p after a history: the last event about p *)
Definition spec_step (p : pat) (st : option sett) (e : event) : option sett :=
  match e with
  | Reg q s => if pat_eqb p q then Some s else st
  | Dereg q => if pat_eqb p q then None else st
  | Restart => st                (* a restart changes nothing *)
  end.

Definition last_reg (evs : list event) (p : pat) : option sett := fold_left (spec_step p) evs None.

(* the pattern of specificity k that matches n (k = 3: exact ... 0: sanctuary/*/* ) *)
Definition cand (n : pat) (k : N) : pat :=
  {| ps := ps n; pr := if N.testbit k 1 then pr n else 0; pw := if N.testbit k 0 then pw n else 0 |}.

Definition at_level (f : pat -> option sett) (n : pat) (k : N) : option sett :=
  if rank (cand n k) =? k then f (cand n k) else None.

(* most specific registered pattern, else the default *)
Definition pick (f : pat -> option sett) (n : pat) : sett :=
  match at_level f n 3 with Some s => s | None =>
  match at_level f n 2 with Some s => s | None =>
  match at_level f n 1 with Some s => s | None =>
  match at_level f n 0 with Some s => s | None => default_sett end end end end.

Definition spec_lookup (evs : list event) (n : pat) : sett := pick (last_reg evs) n.

(* ---- case checker ---------------------------------------------------------------------- *)

(* observed setting: type, idle / write interval in nanoseconds (time.Duration), file size *)
Definition wrap64 (z : Z) : Z := ((z + 9223372036854775808) mod 18446744073709551616 - 9223372036854775808)%Z.

Definition sett_obs (s : sett) : sett :=
  {| in_mem := in_mem s; idle := wrap64 (idle s * 1000000000); wint := wrap64 (wint s * 1000000000);
     maxfs := maxfs s |}.

(* one queried name: the distinct answers of repeated GetBySwampName calls at this point of
   the history, and - at the end of the history only - after a further restart (fresh
   settings.New on the same root) *)
Record query := { q_name : pat; q_before : list sett; q_after : list sett }.

(* a history interleaves registry events with lookups: the lookups see the registrations in
   force at that moment *)
Inductive hstep :=
| HEv (e : event)
| HQ (q : query).

Record case := { c_steps : list hstep }.

(* codes: 1 model <> implementation   2 more than one distinct answer (nondeterministic)
          3 answer is not the most specific registered match (of the registrations in force
            at the time of the call)   4 answer after restart differs *)
Definition chk_query (evs : list event) (q : query) : list N :=
  let want := sett_obs (spec_lookup evs (q_name q)) in
  let model := sett_obs (lookup_best (run false evs) (q_name q)) in
  let model_after := sett_obs (lookup_best (load (save (run false evs))) (q_name q)) in
  (match q_before q with
   | [a] => (if sett_eqb a want then [] else [3]) ++ (if sett_eqb a model then [] else [1])
   | _ => [2]
   end) ++
  (match q_after q with
   | [a] => (if sett_eqb a want then [] else [4]) ++ (if sett_eqb a model_after then [] else [1])
   | [] => []                                   (* no restart observed here *)
   | _ => [2]
   end).

(* short constructors for the generated case files *)
Definition P_ (s r w : N) : pat := {| ps := s; pr := r; pw := w |}.
Definition S_ (m : bool) (i w f : Z) : sett := {| in_mem := m; idle := i; wint := w; maxfs := f |}.
Definition Q_ (n : pat) (b a : list sett) : hstep := HQ {| q_name := n; q_before := b; q_after := a |}.

(* [past]: the events so far, most recent first *)
Fixpoint chk_steps (past : list event) (l : list hstep) : list N :=
  match l with
  | [] => []
  | HEv e :: t => chk_steps (e :: past) t
  | HQ q :: t => chk_query (rev past) q ++ chk_steps past t
  end.

Fixpoint dedup (l : list N) : list N :=
  match l with
  | [] => []
  | c :: t => if existsb (N.eqb c) t then dedup t else c :: dedup t
  end.

Definition chk (c : case) : list N := dedup (chk_steps [] (c_steps c)).

Fixpoint check_from (i : N) (cs : list case) : list verdict :=
  match cs with
  | [] => []
  | c :: t => map (fun k => (i, k)) (chk c) ++ check_from (N.succ i) t
  end.

Definition check_all (cs : list case) : list verdict := check_from 0 cs.
