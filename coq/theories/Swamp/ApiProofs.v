(* Swamp/ApiProofs.v — C06: the faithful API model [Api.api_step cfg_now] never hangs or panics, and
   refines the reference model [Spec.spec_step] on every history that stays inside the specified
   inputs ([Spec.disc] = 0 along the reference run); the excluded input classes and the behaviours of
   the pinned commit are refuted by witnesses. *)
From HV Require Import Base.Prelude Swamp.Api Swamp.Spec Swamp.Abs.
From Coq Require Import ZifyBool.
Local Open Scope Z_scope.

(* ================= part 1: every request returns ================= *)
Definition proper (r : response) : Prop := r <> RHang /\ r <> RPanic /\ r <> RNil.

Lemma sldel_never_hangs : forall pairs x alive,
  snd (sldel_pairs cfg_now x alive pairs) = false.
Proof.
  induction pairs as [|[k vals] t IH]; intros x alive; cbn [sldel_pairs]; [reflexivity|].
  destruct (aget k (recs x)) as [r|]; [|apply IH].
  cbv zeta. destruct (match sl_size (del_sl r vals) with None => true | Some n => n =? 0 end).
  - cbn [c_hold cfg_now]. apply IH.
  - apply IH.
Qed.

Lemma get_validate_proper : forall l s single r,
  get_validate cfg_now s single l = Some r -> proper r.
Proof.
  induction l as [|[sw keys] t IH]; intros s single r H; cbn [get_validate] in H; [discriminate|].
  destruct (check_name s sw single).
  - inversion H; subst; repeat split; discriminate.
  - destruct keys as [[|k0 ks]|].
    + cbn in H. inversion H; subst; repeat split; discriminate.
    + destruct (k0 =? 0).
      * inversion H; subst; repeat split; discriminate.
      * eapply IH; eauto.
    + inversion H; subst; repeat split; discriminate.
Qed.

Lemma count_proper : forall (s : srv) l acc,
  proper (snd ((fix go (l : list Z) (acc : list (Z * Z * bool)) : srv * response :=
         match l with
         | [] => (s, RCount (rev acc))
         | sw :: t =>
             match check_name s sw true with
             | Some e => (s, RErr e)
             | None => go t ((sw, Z.of_nat (length (recs (summon s sw))), true) :: acc)
             end
         end) l acc)).
Proof.
  intros s; induction l as [|sw t IH]; intros acc.
  - repeat split; discriminate.
  - destruct (check_name s sw true); [repeat split; discriminate | apply IH].
Qed.

Theorem step_returns : forall s q, proper (snd (api_step cfg_now s q)).
Proof.
  intros s q; destruct q; cbn [api_step].
  - unfold do_set. destruct (check_name s sw false); [repeat split; discriminate|].
    destruct kvs; [|repeat split; discriminate].
    destruct (c_keycheck cfg_now && existsb _ l); [repeat split; discriminate|].
    destruct (negb create && negb over); [unfold set_err; repeat split; discriminate|].
    destruct (negb create && negb (exists_sw s sw)); [unfold set_err; repeat split; discriminate|].
    destruct (set_items cfg_now create over (summon s sw) l). repeat split; discriminate.
  - unfold do_get. destruct (get_validate cfg_now s _ l) eqn:E.
    + eapply get_validate_proper; eauto.
    + repeat split; discriminate.
  - destruct (check_name s sw true); repeat split; discriminate.
  - destruct (check_name s sw true); repeat split; discriminate.
  - destruct (check_name s sw true); [repeat split; discriminate|].
    destruct (del_keys (summon s sw) true keys) as [[? ?] ?]. repeat split; discriminate.
  - apply count_proper.
  - destruct (check_name s sw true) as [[| |]|]; repeat split; discriminate.
  - destruct (check_name s sw true); repeat split; discriminate.
  - destruct (check_name s sw true); repeat split; discriminate.
  - destruct (check_name s sw true); [repeat split; discriminate|].
    destruct keys; [repeat split; discriminate|].
    destruct (shift_keys (summon s sw) (z :: keys)). repeat split; discriminate.
  - destruct (sw =? 0); [repeat split; discriminate|].
    destruct ((by_ =? 0) || negb (numeric t)); [repeat split; discriminate|].
    destruct (c_keycheck cfg_now && (k =? 0)); [repeat split; discriminate|].
    unfold do_inc_swamp.
    destruct (match ctype_of (r_c (obj_of (summon s sw) k)) with
              | CVoid => _ | CSc t' => _ | CSlice => _ end); [|repeat split; discriminate].
    destruct (match cond with Some (op, v) => _ | None => true end).
    + destruct (save cfg_now (summon s sw) k _). repeat split; discriminate.
    + repeat split; discriminate.
  - destruct (check_name s sw false); [repeat split; discriminate|].
    destruct (c_keycheck cfg_now && existsb _ pairs); repeat split; discriminate.
  - destruct (check_name s sw false); [repeat split; discriminate|].
    pose proof (sldel_never_hangs pairs (summon s sw) true) as Hh.
    destruct (sldel_pairs cfg_now (summon s sw) true pairs) as [[x a] h]. cbn in Hh; subst h.
    repeat split; discriminate.
  - destruct (check_name s sw false); [repeat split; discriminate|].
    cbn. destruct (aget k (recs (summon s sw))); [|repeat split; discriminate].
    destruct (sl_size r); repeat split; discriminate.
  - destruct (check_name s sw false); [repeat split; discriminate|].
    cbn. destruct (aget k (recs (summon s sw))); repeat split; discriminate.
  - destruct (check_name s sw false); repeat split; discriminate.
Qed.

Theorem run_returns : forall qs s, Forall proper (snd (api_run cfg_now s qs)).
Proof.
  induction qs as [|q t IH]; intros s; cbn [api_run]; [constructor|].
  pose proof (step_returns s q) as H. destruct (api_step cfg_now s q) as [s1 r].
  specialize (IH s1). destruct (api_run cfg_now s1 t) as [s2 rs]. cbn in *. constructor; assumption.
Qed.

(* ================= part 2: refinement ================= *)
(* ---- association lists ---- *)
Lemma aget_amap {A B} (f : A -> B) k l : aget k (amap f l) = option_map f (aget k l).
Proof. induction l as [|[k' v] t IH]; cbn; [reflexivity|]. destruct (k =? k'); [reflexivity|exact IH]. Qed.
Lemma ahas_amap {A B} (f : A -> B) k l : ahas k (amap f l) = ahas k l.
Proof. unfold ahas. rewrite aget_amap. destruct (aget k l); reflexivity. Qed.
Lemma aput_amap {A B} (f : A -> B) k v l : amap f (aput k v l) = aput k (f v) (amap f l).
Proof. induction l as [|[k' v'] t IH]; cbn; [reflexivity|]. destruct (k =? k'); cbn; [reflexivity|]. f_equal. exact IH. Qed.
Lemma adel_amap {A B} (f : A -> B) k l : amap f (adel k l) = adel k (amap f l).
Proof. induction l as [|[k' v'] t IH]; cbn; [reflexivity|]. destruct (k =? k'); cbn; [reflexivity|]. f_equal. exact IH. Qed.
Lemma aput_same {A} k (v : A) l : aget k l = Some v -> aput k v l = l.
Proof.
  induction l as [|[k' v'] t IH]; cbn; [discriminate|]. destruct (k =? k') eqn:E.
  - intros H; inversion H; subst. apply Z.eqb_eq in E; subst. reflexivity.
  - intros H. f_equal. apply IH; exact H.
Qed.
Lemma aall_aput {A} (f : A -> bool) k v l : aall f l = true -> f v = true -> aall f (aput k v l) = true.
Proof.
  induction l as [|[k' v'] t IH]; cbn; intros H Hv.
  - rewrite Hv; reflexivity.
  - apply andb_true_iff in H as [H1 H2]. destruct (k =? k'); cbn.
    + rewrite Hv; exact H2.
    + rewrite H1. apply IH; assumption.
Qed.
Lemma aall_adel {A} (f : A -> bool) k l : aall f l = true -> aall f (adel k l) = true.
Proof.
  induction l as [|[k' v'] t IH]; cbn; intros H; [reflexivity|].
  apply andb_true_iff in H as [H1 H2]. destruct (k =? k'); cbn; [exact H2|]. rewrite H1. apply IH; exact H2.
Qed.
Lemma aall_aget {A} (f : A -> bool) k v l : aall f l = true -> aget k l = Some v -> f v = true.
Proof.
  induction l as [|[k' v'] t IH]; cbn; intros H G; [discriminate|].
  apply andb_true_iff in H as [H1 H2]. destruct (k =? k'); [inversion G; subst; exact H1 | apply IH; assumption].
Qed.
Lemma amap_nil_iff {A B} (f : A -> B) l : amap f l = [] <-> l = [].
Proof. destruct l; cbn; split; intros H; try reflexivity; discriminate. Qed.
Lemma length_amap {A B} (f : A -> B) l : length (amap f l) = length l.
Proof. apply map_length. Qed.

(* ---- state-level facts ---- *)
Lemma exists_abs s sw : s_exists (abs s) sw = exists_sw s sw.
Proof. apply ahas_amap. Qed.
Lemma check_abs s sw b : s_check (abs s) sw b = check_name s sw b.
Proof. unfold s_check, check_name. rewrite exists_abs. reflexivity. Qed.
Lemma summon_abs s sw : s_summon (abs s) sw = abs_swamp (summon s sw).
Proof. unfold s_summon, summon, abs. rewrite aget_amap. destruct (aget sw s); reflexivity. Qed.
Lemma commit_abs s sw x a : abs (commit s sw x a) = s_commit (abs s) sw (abs_swamp x) a.
Proof. unfold commit, s_commit, abs. destruct a; [apply aput_amap | apply adel_amap]. Qed.
Lemma wf_summon s sw : wf s = true -> wf_swamp (summon s sw) = true.
Proof.
  intros H. unfold summon. destruct (aget sw s) eqn:E; [|reflexivity].
  eapply aall_aget in E; eauto.
Qed.
Lemma wf_commit s sw x a : wf s = true -> wf_swamp x = true -> wf (commit s sw x a) = true.
Proof. intros H Hx. unfold commit, wf. destruct a; [apply aall_aput; assumption | apply aall_adel; assumption]. Qed.

Lemma view_abs k r : view_of k r = sview k (abs_rec r).
Proof.
  unfold view_of, sview, abs_rec, sval_of, ctype_of, sl_all; cbn.
  destruct (r_c r) as [c|]; [|reflexivity].
  destruct (c_void c); [reflexivity|]. destruct (c_sc c) as [[t z]|]; [reflexivity|].
  destruct (c_sl c); reflexivity.
Qed.
Lemma view_clone_abs k r : wf_rec r = true -> view_of k (clone_rec r) = sview k (abs_rec r).
Proof.
  unfold wf_rec, single. intros H. apply andb_true_iff in H as [_ H].
  unfold view_of, sview, abs_rec, sval_of, ctype_of, sl_all, clone_rec; cbn.
  destruct (r_c r) as [c|]; [|discriminate].
  destruct (c_void c), (c_sc c) as [[t z]|], (c_sl c); try discriminate; reflexivity.
Qed.

(* ---- reads ---- *)
Lemma aget_abs_swamp x k : aget k (abs_swamp x) = option_map abs_rec (aget k (recs x)).
Proof. apply aget_amap. Qed.
Lemma ahas_abs_swamp x k : ahas k (abs_swamp x) = ahas k (recs x).
Proof. apply ahas_amap. Qed.

Lemma get_views_abs x keys : get_views x keys = s_get_views (abs_swamp x) keys.
Proof.
  unfold get_views, s_get_views. apply map_ext. intros k. rewrite aget_abs_swamp.
  destruct (aget k (recs x)); cbn; [apply view_abs | reflexivity].
Qed.
Lemma views_of_keys_abs x keys :
  views_of_keys x keys = flat_map (fun k => match aget k (abs_swamp x) with Some r => [sview k r] | None => [] end) keys.
Proof.
  unfold views_of_keys. induction keys as [|k t IH]; cbn; [reflexivity|]. rewrite IH, aget_abs_swamp.
  destruct (aget k (recs x)); cbn; [rewrite view_abs|]; reflexivity.
Qed.
Lemma all_views_abs x : all_views x = map (fun p => sview (fst p) (snd p)) (abs_swamp x).
Proof.
  unfold all_views, abs_swamp, amap. rewrite map_map. apply map_ext. intros [k r]; cbn. apply view_abs.
Qed.
Lemma get_validate_abs l s single :
  get_validate cfg_now s single l = s_get_validate (abs s) single l.
Proof.
  induction l as [|[sw keys] t IH]; cbn; [reflexivity|]. rewrite check_abs.
  destruct (check_name s sw single); [reflexivity|]. destruct keys as [[|k0 ks]|]; try reflexivity.
  destruct (k0 =? 0); [reflexivity | exact IH].
Qed.

(* ---- deletes ---- *)
Definition with_recs (x : swamp) (l : list (Z * rec)) : swamp := {| recs := l; infl := infl x |}.
Lemma wf_with_adel x k : wf_swamp x = true -> wf_swamp {| recs := adel k (recs x); infl := infl x |} = true.
Proof.
  unfold wf_swamp; cbn. intros H. apply andb_true_iff in H as [H1 H2]. rewrite H1; cbn. apply aall_adel; exact H2.
Qed.
Lemma abs_with_adel x k : abs_swamp {| recs := adel k (recs x); infl := infl x |} = adel k (abs_swamp x).
Proof. unfold abs_swamp; cbn. apply adel_amap. Qed.
Lemma nil_match_abs {T} (l : list (Z * rec)) (a b : T) :
  match amap abs_rec l with [] => a | _ => b end = match l with [] => a | _ => b end.
Proof. destruct l; reflexivity. Qed.

Lemma del_keys_abs : forall keys x a,
  wf_swamp x = true ->
  let '(x', a', os) := del_keys x a keys in
  s_del_keys (abs_swamp x) a keys = (abs_swamp x', a', os) /\ wf_swamp x' = true.
Proof.
  induction keys as [|k t IH]; intros x a Hwf; cbn [del_keys s_del_keys]; [split; [reflexivity|exact Hwf]|].
  rewrite ahas_abs_swamp. destruct (ahas k (recs x)).
  - pose proof (IH {| recs := adel k (recs x); infl := infl x |}
                  (match adel k (recs x) with [] => false | _ => a end) (wf_with_adel x k Hwf)) as H.
    cbn [recs] in *.
    destruct (del_keys {| recs := adel k (recs x); infl := infl x |} _ t) as [[x2 a2] os].
    destruct H as [H1 H2]. rewrite <- abs_with_adel.
    replace (match abs_swamp {| recs := adel k (recs x); infl := infl x |} with [] => false | _ => a end)
      with (match adel k (recs x) with [] => false | _ => a end) by (unfold abs_swamp; cbn; symmetry; apply nil_match_abs).
    rewrite H1. split; [reflexivity|exact H2].
  - pose proof (IH x a Hwf) as H. destruct (del_keys x a t) as [[x2 a2] os]. destruct H as [H1 H2].
    rewrite H1. split; [reflexivity|exact H2].
Qed.

Lemma shift_keys_abs : forall keys x,
  wf_swamp x = true ->
  let '(x', vs) := shift_keys x keys in
  s_shift_keys (abs_swamp x) keys = (abs_swamp x', vs) /\ wf_swamp x' = true.
Proof.
  induction keys as [|k t IH]; intros x Hwf; cbn [shift_keys s_shift_keys]; [split; [reflexivity|exact Hwf]|].
  rewrite aget_abs_swamp. destruct (aget k (recs x)) as [r|] eqn:E; cbn [option_map].
  - pose proof (IH _ (wf_with_adel x k Hwf)) as H.
    destruct (shift_keys {| recs := adel k (recs x); infl := infl x |} t) as [x2 vs].
    destruct H as [H1 H2]. rewrite <- abs_with_adel, H1. split; [|exact H2].
    f_equal. f_equal. symmetry. apply view_clone_abs.
    unfold wf_swamp in Hwf. apply andb_true_iff in Hwf as [_ Hwf]. eapply aall_aget; eauto.
  - apply IH; exact Hwf.
Qed.

(* ---- Set ---- *)
Lemma ty_eqb_eq a b : ty_eqb a b = true <-> a = b.
Proof. unfold ty_eqb. split; [|intros ->; apply Z.eqb_refl]. destruct a, b; cbn; intros H; try reflexivity; discriminate. Qed.

Lemma apply_meta_props r m :
  r_c (apply_meta r m) = r_c r /\ r_meta (apply_meta r m) = merge_meta (r_meta r) m /\
  r_dirty (apply_meta r m) = r_dirty r || meta_given m.
Proof.
  destruct r as [c [a1 a2 a3 a4 a5] d], m as [b1 b2 b3 b4 b5].
  unfold apply_meta, merge_meta, meta_given, meta_eqb, meta0, upd_meta; cbn.
  destruct (b1 =? 0), (b2 =? 0), (b3 =? 0), (b4 =? 0), (b5 =? 0); cbn;
    repeat split; try reflexivity; destruct d; reflexivity.
Qed.
Lemma merge_meta0 o : merge_meta o meta0 = o.
Proof. destruct o; reflexivity. Qed.
Lemma meta_eqb_eq a b : meta_eqb a b = true <-> a = b.
Proof.
  destruct a, b; unfold meta_eqb; cbn. split.
  - intros H. repeat (apply andb_true_iff in H as [H ?]).
    repeat match goal with E : (_ =? _) = true |- _ => apply Z.eqb_eq in E end. subst. reflexivity.
  - intros H; inversion H; subst. rewrite !Z.eqb_refl. reflexivity.
Qed.
Lemma meta_given_false m : meta_given m = false -> m = meta0.
Proof. unfold meta_given. intros H. apply negb_false_iff in H. apply meta_eqb_eq; exact H. Qed.

(* effect of keyValuesToTreasure on a stored, well-formed record for the value kinds the
   specification covers *)
Lemma apply_val_existing old v :
  wf_rec old = true ->
  match v with SVVoid => sval_of (r_c old) = SVoid | SVSl _ => False | SVSc _ _ => True end ->
  let r := apply_val old v in
  sval_of (r_c r) = sval_of_set v /\ r_meta r = r_meta old /\ single (r_c r) = true /\
  r_dirty r = negb (sval_eqb (sval_of_set v) (sval_of (r_c old))) /\
  (r_dirty r = false -> r = old).
Proof.
  unfold wf_rec. intros Hwf Hd. apply andb_true_iff in Hwf as [Hdirty Hs]. apply negb_true_iff in Hdirty.
  destruct old as [[[cv cs cl]|] m d]; cbn in Hdirty, Hs; subst d; [|discriminate].
  destruct cv, cs as [[t' z']|], cl as [l'|]; try discriminate Hs;
    destruct v as [|t z|l]; cbn in Hd; try contradiction; try discriminate Hd.
  - (* Void over Void *) cbn. repeat split; reflexivity.
  - (* scalar over Void *) cbn. repeat split; try reflexivity. discriminate.
  - (* scalar over scalar *)
    unfold apply_val, set_sc, sc_same; cbn [r_c c_sc].
    destruct (ty_eqb t t' && (wrap t z =? z')) eqn:E.
    + apply andb_true_iff in E as [E1 E2]. apply ty_eqb_eq in E1. apply Z.eqb_eq in E2. subst.
      cbn. rewrite (proj2 (ty_eqb_eq t' t') eq_refl), Z.eqb_refl. repeat split; reflexivity.
    + cbn. rewrite E. repeat split; try reflexivity. discriminate.
  - (* scalar over slice *) cbn. repeat split; try reflexivity. discriminate.
Qed.

Lemma apply_val_fresh v :
  let r := apply_val fresh_rec v in
  sval_of (r_c r) = sval_of_set v /\ r_meta r = meta0 /\ single (r_c r) = true.
Proof. destruct v; cbn; repeat split; reflexivity. Qed.

Lemma wf_swamp_inv x : wf_swamp x = true -> infl x = [] /\ aall wf_rec (recs x) = true.
Proof. unfold wf_swamp. intros H. apply andb_true_iff in H as [H1 H2]. destruct (infl x); [split; [reflexivity|exact H2]|discriminate]. Qed.
Lemma wf_swamp_intro r i : i = [] -> aall wf_rec r = true -> wf_swamp {| recs := r; infl := i |} = true.
Proof. intros -> H. unfold wf_swamp; cbn. exact H. Qed.

Lemma set_item_sim create over x it :
  wf_swamp x = true ->
  disc_set_item create over (abs_swamp x) it = 0 ->
  disc_set_meta create over (abs_swamp x) it = 0 ->
  let '(x', o) := set_item cfg_now create over x it in
  s_set_item create over (abs_swamp x) it = (abs_swamp x', o) /\ wf_swamp x' = true.
Proof.
  intros Hwf D1 D2. destruct (wf_swamp_inv x Hwf) as [Hinfl Hall].
  unfold set_item, s_set_item, disc_set_item, disc_set_meta in *.
  rewrite aget_abs_swamp in *. unfold ahas. destruct it as [k v m]; cbn [kv_key kv_val kv_meta] in *.
  destruct (aget k (recs x)) as [old|] eqn:E; cbn [option_map] in *.
  - (* existing key *)
    rewrite andb_false_r. destruct over; cbn [negb andb] in *; [|split; [reflexivity|exact Hwf]].
    assert (Hold : wf_rec old = true) by (eapply aall_aget; eauto).
    assert (Hobj : obj_of x k = old) by (unfold obj_of; rewrite E; reflexivity). rewrite Hobj.
    assert (Hd : match v with SVVoid => sval_of (r_c old) = SVoid | SVSl _ => False | SVSc _ _ => True end).
    { destruct v; [|exact I|discriminate]. cbn in D1. destruct (sval_of (r_c old)); [reflexivity|discriminate|discriminate]. }
    destruct (apply_val_existing old v Hold Hd) as (A1 & A2 & A3 & A4 & A5).
    destruct (apply_meta_props (apply_val old v) m) as (B1 & B2 & B3).
    unfold save, ahas. rewrite E. cbn [abs_rec s_val s_meta] in *.
    rewrite B3, A4.
    destruct (sval_eqb (sval_of_set v) (sval_of (r_c old))) eqn:Ev; cbn [negb orb andb] in *.
    + destruct (meta_given m) eqn:Em; cbn [andb] in *.
      * (* metadata supplied: the discipline says it differs *)
        destruct (meta_eqb (merge_meta (r_meta old) m) (r_meta old)) eqn:Emm; [discriminate|].
        cbn [clear_flags cfg_now c_sticky]. split.
        -- unfold abs_swamp; cbn [recs]. rewrite aput_amap. unfold abs_rec; cbn. rewrite B1, A1, B2, A2. reflexivity.
        -- apply wf_swamp_intro; [exact Hinfl|]. apply aall_aput; [exact Hall|].
           unfold wf_rec; cbn. rewrite B1, A3. reflexivity.
      * (* nothing supplied, same value: untouched *)
        apply meta_given_false in Em. subst m. rewrite merge_meta0.
        assert (Hm : meta_eqb (r_meta old) (r_meta old) = true) by (apply meta_eqb_eq; reflexivity). rewrite Hm.
        assert (Hr : apply_meta (apply_val old v) meta0 = old).
        { rewrite (A5 A4). destruct old as [c [a1 a2 a3 a4 a5] d]; reflexivity. }
        rewrite Hr. rewrite (aput_same k old (recs x) E). split; [destruct x; reflexivity|].
        destruct x; cbn in *; exact Hwf.
    + (* value differs *)
      cbn [clear_flags cfg_now c_sticky]. split.
      * unfold abs_swamp; cbn [recs]. rewrite aput_amap. unfold abs_rec; cbn. rewrite B1, A1, B2, A2. reflexivity.
      * apply wf_swamp_intro; [exact Hinfl|]. apply aall_aput; [exact Hall|].
        unfold wf_rec; cbn. rewrite B1, A3. reflexivity.
  - (* absent key *)
    rewrite andb_true_r, andb_false_r. destruct create; cbn [negb]; [|split; [reflexivity|exact Hwf]].
    assert (Hobj : obj_of x k = fresh_rec) by (unfold obj_of; rewrite E, Hinfl; reflexivity). rewrite Hobj.
    destruct (apply_val_fresh v) as (A1 & A2 & A3).
    destruct (apply_meta_props (apply_val fresh_rec v) m) as (B1 & B2 & B3).
    unfold save, ahas. rewrite E. cbn [clear_flags cfg_now c_sticky]. split.
    + unfold abs_swamp; cbn [recs]. rewrite aput_amap. unfold abs_rec; cbn. rewrite B1, A1, B2, A2. reflexivity.
    + apply wf_swamp_intro; [rewrite Hinfl; reflexivity|]. apply aall_aput; [exact Hall|].
      unfold wf_rec; cbn. rewrite B1, A3. reflexivity.
Qed.

Lemma set_items_sim create over : forall its x,
  wf_swamp x = true ->
  disc_set_items create over (abs_swamp x) its = 0 ->
  let '(x', os) := set_items cfg_now create over x its in
  s_set_items create over (abs_swamp x) its = (abs_swamp x', os) /\ wf_swamp x' = true.
Proof.
  induction its as [|it t IH]; intros x Hwf D; cbn [set_items s_set_items disc_set_items] in *;
    [split; [reflexivity|exact Hwf]|].
  destruct (disc_set_item create over (abs_swamp x) it =? 0) eqn:E1; cbn [negb] in D;
    [apply Z.eqb_eq in E1 | apply Z.eqb_neq in E1; contradiction].
  destruct (disc_set_meta create over (abs_swamp x) it =? 0) eqn:E2; cbn [negb] in D;
    [apply Z.eqb_eq in E2 | apply Z.eqb_neq in E2; contradiction].
  pose proof (set_item_sim create over x it Hwf E1 E2) as H.
  destruct (set_item cfg_now create over x it) as [x1 o]. destruct H as [H1 H2].
  rewrite H1 in *. cbn [fst] in D.
  pose proof (IH x1 H2 D) as H. destruct (set_items cfg_now create over x1 t) as [x2 os].
  destruct H as [H3 H4]. rewrite H3. split; [reflexivity|exact H4].
Qed.

(* ---- uint32 sets ---- *)
Lemma slice_or_absent_cases x k :
  wf_swamp x = true -> is_slice_or_absent (abs_swamp x) k = true ->
  aget k (recs x) = None \/
  exists l m, aget k (recs x) = Some {| r_c := Some {| c_void := false; c_sc := None; c_sl := Some l |}; r_meta := m; r_dirty := false |}.
Proof.
  intros Hwf H. destruct (wf_swamp_inv x Hwf) as [_ Hall].
  unfold is_slice_or_absent in H. rewrite aget_abs_swamp in H.
  destruct (aget k (recs x)) as [r|] eqn:E; [right|left; reflexivity].
  pose proof (aall_aget _ _ _ _ Hall E) as Hr. unfold wf_rec in Hr. apply andb_true_iff in Hr as [Hd Hs].
  destruct r as [[[cv cs cl]|] m d]; cbn in *; [|discriminate].
  apply negb_true_iff in Hd; subst d.
  destruct cv, cs as [[? ?]|], cl; try discriminate. eauto.
Qed.

Lemma push_sim x k vals :
  wf_swamp x = true -> is_slice_or_absent (abs_swamp x) k = true ->
  let x' := fst (save cfg_now x k (push_sl (obj_of x k) vals)) in
  s_push (abs_swamp x) k vals = abs_swamp x' /\ wf_swamp x' = true.
Proof.
  intros Hwf H. destruct (wf_swamp_inv x Hwf) as [Hinfl Hall].
  destruct (slice_or_absent_cases x k Hwf H) as [E|(l & m & E)];
    destruct x as [rs inf]; cbn [infl recs] in *; subst inf;
    unfold s_push, save, obj_of, ahas; rewrite aget_abs_swamp; cbn [recs infl]; rewrite E; cbn [option_map].
  - cbn. split.
    + symmetry; exact (aput_amap abs_rec k _ rs).
    + apply (aall_aput wf_rec); [exact Hall | reflexivity].
  - cbn. destruct (push_new l vals) eqn:Ep; cbn.
    + split.
      * symmetry; etransitivity; [exact (aput_amap abs_rec k _ rs)|].
        unfold abs_rec, push_sl; cbn. rewrite Ep. reflexivity.
      * apply (aall_aput wf_rec); [exact Hall |]. unfold push_sl; cbn. rewrite Ep. reflexivity.
    + split.
      * symmetry; etransitivity; [exact (aput_amap abs_rec k _ rs)|].
        unfold abs_rec, push_sl; cbn. rewrite ?Ep. reflexivity.
      * apply (aall_aput wf_rec); [exact Hall |]. unfold push_sl; cbn. rewrite ?Ep. reflexivity.
Qed.

Lemma push_pairs_sim : forall pairs x,
  wf_swamp x = true -> disc_push (abs_swamp x) pairs = 0 ->
  s_push_pairs (abs_swamp x) pairs = abs_swamp (push_pairs cfg_now x pairs) /\
  wf_swamp (push_pairs cfg_now x pairs) = true.
Proof.
  induction pairs as [|[k vals] t IH]; intros x Hwf D; cbn [push_pairs s_push_pairs disc_push] in *;
    [split; [reflexivity|exact Hwf]|].
  destruct (is_slice_or_absent (abs_swamp x) k) eqn:E; [|discriminate].
  destruct (push_sim x k vals Hwf E) as [H1 H2]. rewrite H1 in *. apply IH; assumption.
Qed.

Lemma adel_aput {A} k (v : A) l : adel k (aput k v l) = adel k l.
Proof.
  induction l as [|[k' v'] t IH]; cbn; [rewrite Z.eqb_refl; reflexivity|].
  destruct (k =? k') eqn:E; cbn; rewrite ?Z.eqb_refl, ?E; [reflexivity|]. f_equal. exact IH.
Qed.

Lemma sldel_pairs_sim : forall pairs x a,
  wf_swamp x = true -> disc_sldel (abs_swamp x) pairs = 0 ->
  let '(x', a', h) := sldel_pairs cfg_now x a pairs in
  s_sldel_pairs (abs_swamp x) a pairs = (abs_swamp x', a') /\ wf_swamp x' = true.
Proof.
  induction pairs as [|[k vals] t IH]; intros x a Hwf D; cbn [sldel_pairs s_sldel_pairs disc_sldel] in *;
    [split; [reflexivity|exact Hwf]|].
  destruct (is_slice_or_absent (abs_swamp x) k) eqn:Es; [|discriminate].
  destruct (wf_swamp_inv x Hwf) as [Hinfl Hall].
  destruct (slice_or_absent_cases x k Hwf Es) as [E|(l & m & E)];
    destruct x as [rs inf]; cbn [infl recs] in *; subst inf;
    rewrite aget_abs_swamp in *; cbn [recs infl] in *; rewrite E in *; cbn [option_map] in *.
  - cbn [fst] in D. apply IH; assumption.
  - cbn [abs_rec s_val s_meta r_c r_meta sval_of c_void c_sc c_sl] in *.
    unfold del_sl, save, ahas; cbn [r_c c_sl c_void c_sc r_meta r_dirty recs infl]. rewrite E.
    destruct (filter (fun v => negb (zmem v vals)) l) as [|v0 keep] eqn:Ek.
    + (* emptied: the record goes, and with the last record the swamp *)
      cbn [r_dirty fst sl_size r_c c_sl length Z.of_nat Z.eqb c_hold cfg_now recs infl] in *.
      rewrite adel_aput.
      assert (Habs : abs_swamp {| recs := adel k rs; infl := [] |} = adel k (abs_swamp {| recs := rs; infl := [] |}))
        by exact (abs_with_adel {| recs := rs; infl := [] |} k).
      rewrite <- Habs in *.
      replace (match abs_swamp {| recs := adel k rs; infl := [] |} with [] => false | _ => a end)
        with (match adel k rs with [] => false | _ => a end)
        by (unfold abs_swamp; cbn [recs]; symmetry; apply nil_match_abs).
      apply IH; [apply wf_swamp_intro; [reflexivity|apply aall_adel; exact Hall] | exact D].
    + (* values remain *)
      cbn [r_dirty fst sl_size r_c c_sl clear_flags cfg_now c_sticky recs infl r_meta] in *.
      assert (Hz : (Z.of_nat (length (v0 :: keep)) =? 0) = false) by (apply Z.eqb_neq; cbn [length]; lia).
      rewrite Hz.
      set (r1 := {| r_c := Some {| c_void := false; c_sc := None; c_sl := Some (v0 :: keep) |}; r_meta := m; r_dirty := false |}) in *.
      assert (Habs : abs_swamp {| recs := aput k r1 rs; infl := [] |}
                     = aput k {| s_val := SSl (v0 :: keep); s_meta := m |} (abs_swamp {| recs := rs; infl := [] |}))
        by exact (aput_amap abs_rec k r1 rs).
      rewrite <- Habs in *.
      apply IH; [apply wf_swamp_intro; [reflexivity|apply aall_aput; [exact Hall|reflexivity]] | exact D].
Qed.

(* ---- Increment* ---- *)
Lemma opt_meta_props r m :
  r_c (opt_meta r m) = r_c r /\
  r_meta (opt_meta r m) = match m with Some m => merge_meta (r_meta r) (imeta_to_meta m) | None => r_meta r end.
Proof.
  destruct m as [m|]; cbn [opt_meta]; [|split; reflexivity].
  destruct (apply_meta_props r (imeta_to_meta m)) as (A & B & _). split; assumption.
Qed.
Lemma ty_eqb_refl t : ty_eqb t t = true.
Proof. apply ty_eqb_eq; reflexivity. Qed.

(* what is stored by save for a record whose content is one typed scalar *)
Definition stored (r : rec) : rec := if r_dirty r then clear_flags cfg_now r else r.
Lemma stored_props r : abs_rec (stored r) = abs_rec r /\ wf_rec (stored r) = single (r_c r).
Proof. unfold stored, wf_rec. destruct r as [c m d]; destruct d; cbn; split; reflexivity. Qed.
Lemma save_existing x k r old :
  aget k (recs x) = Some old ->
  fst (save cfg_now x k r) = {| recs := aput k (stored r) (recs x); infl := infl x |}.
Proof. intros E. unfold save, ahas, stored. rewrite E. destruct (r_dirty r); reflexivity. Qed.
Lemma save_absent x k r :
  aget k (recs x) = None ->
  fst (save cfg_now x k r) = {| recs := aput k (clear_flags cfg_now r) (recs x); infl := adel k (infl x) |}.
Proof. intros E. unfold save, ahas. rewrite E. reflexivity. Qed.

(* the record an increment saves: r1 has content {t : cur}; afterwards {t : nv} *)
Lemma set_sc_scalar m1 d1 t cur nv :
  let r2 := set_sc {| r_c := Some {| c_void := false; c_sc := Some (t, cur); c_sl := None |}; r_meta := m1; r_dirty := d1 |} t nv in
  sval_of (r_c r2) = SSc t nv /\ r_meta r2 = m1 /\ single (r_c r2) = true.
Proof.
  unfold set_sc, sc_same; cbn. rewrite ty_eqb_refl; cbn. destruct (nv =? cur) eqn:E; cbn.
  - apply Z.eqb_eq in E; subst. repeat split; reflexivity.
  - repeat split; reflexivity.
Qed.

Lemma wf_rec_cases r : wf_rec r = true ->
  exists m,
    r = {| r_c := Some {| c_void := true; c_sc := None; c_sl := None |}; r_meta := m; r_dirty := false |} \/
    (exists t z, r = {| r_c := Some {| c_void := false; c_sc := Some (t, z); c_sl := None |}; r_meta := m; r_dirty := false |}) \/
    (exists l, r = {| r_c := Some {| c_void := false; c_sc := None; c_sl := Some l |}; r_meta := m; r_dirty := false |}).
Proof.
  unfold wf_rec. intros H. apply andb_true_iff in H as [Hd Hs]. apply negb_true_iff in Hd.
  destruct r as [[[cv cs cl]|] m d]; cbn in *; [|discriminate]. subst d. exists m.
  destruct cv, cs as [[t z]|], cl; try discriminate; eauto.
Qed.

Lemma inc_sim x t k by_ cond ne e :
  wf_swamp x = true ->
  disc_inc (abs_swamp x) t k cond e = 0 ->
  let '(x', r) := do_inc_swamp cfg_now x t k by_ cond ne e in
  s_inc (abs_swamp x) t k by_ cond ne e = (abs_swamp x', r) /\ wf_swamp x' = true.
Proof.
  intros Hwf D. destruct (wf_swamp_inv x Hwf) as [Hinfl Hall].
  destruct x as [rs inf]; cbn [infl recs] in *; subst inf.
  unfold do_inc_swamp, s_inc, disc_inc in *. rewrite aget_abs_swamp in *. cbn [recs] in *.
  unfold obj_of; cbn [recs infl].
  destruct (aget k rs) as [old|] eqn:E; cbn [option_map] in *.
  - destruct (wf_rec_cases old (aall_aget _ _ _ _ Hall E)) as [m [Hc|[(t' & z & Hc)|(l & Hc)]]]; subst old;
      cbn [abs_rec s_val s_meta r_c r_meta sval_of c_void c_sc c_sl ctype_of] in *.
    + (* a Void record *)
      change (set_sc {| r_c := Some {| c_void := true; c_sc := None; c_sl := None |}; r_meta := m; r_dirty := false |} t 0)
        with {| r_c := Some {| c_void := false; c_sc := Some (t, 0); c_sl := None |}; r_meta := m; r_dirty := true |}.
      destruct (opt_meta_props {| r_c := Some {| c_void := false; c_sc := Some (t, 0); c_sl := None |}; r_meta := m; r_dirty := true |} ne) as [A B].
      destruct (opt_meta _ ne) as [c1 m1 d1]; cbn [r_c r_meta] in A, B; subst c1.
      cbn [sc_val r_c c_sc].
      destruct (match cond with Some (op, v) => cond_holds op 0 (wrap t v) | None => true end) eqn:Ec.
      * destruct (set_sc_scalar m1 d1 t 0 (wrap t (0 + wrap t by_))) as (S1 & S2 & S3).
        pose proof (save_existing {| recs := rs; infl := [] |} k
                     (set_sc {| r_c := Some {| c_void := false; c_sc := Some (t, 0); c_sl := None |}; r_meta := m1; r_dirty := d1 |} t (wrap t (0 + wrap t by_))) _ E) as Hsv.
        destruct (save cfg_now _ k _) as [x' st]. cbn [fst] in Hsv. subst x'.
        destruct (stored_props (set_sc {| r_c := Some {| c_void := false; c_sc := Some (t, 0); c_sl := None |}; r_meta := m1; r_dirty := d1 |} t (wrap t (0 + wrap t by_)))) as [P1 P2].
        rewrite S2. split.
        -- unfold abs_swamp; cbn [recs]. rewrite aput_amap, P1. unfold abs_rec. rewrite S1, S2, B.
           destruct ne; reflexivity.
        -- apply wf_swamp_intro; [reflexivity|]. apply aall_aput; [exact Hall|]. rewrite P2; exact S3.
      * destruct cond as [[op v]|]; [|discriminate]. rewrite Ec in D. discriminate.
    + (* a typed scalar *)
      destruct (ty_eqb t t') eqn:Et.
      * apply ty_eqb_eq in Et; subst t'.
        destruct (opt_meta_props {| r_c := Some {| c_void := false; c_sc := Some (t, z); c_sl := None |}; r_meta := m; r_dirty := false |} e) as [A B].
        destruct (match cond with Some (op, v) => cond_holds op z (wrap t v) | None => true end) eqn:Ec.
        -- destruct (opt_meta _ e) as [c1 m1 d1]; cbn [r_c r_meta] in A, B; subst c1. cbn [sc_val r_c c_sc].
           rewrite Ec.
           destruct (set_sc_scalar m1 d1 t z (wrap t (z + wrap t by_))) as (S1 & S2 & S3).
           pose proof (save_existing {| recs := rs; infl := [] |} k
                     (set_sc {| r_c := Some {| c_void := false; c_sc := Some (t, z); c_sl := None |}; r_meta := m1; r_dirty := d1 |} t (wrap t (z + wrap t by_))) _ E) as Hsv.
           destruct (save cfg_now _ k _) as [x' st]. cbn [fst] in Hsv. subst x'.
           destruct (stored_props (set_sc {| r_c := Some {| c_void := false; c_sc := Some (t, z); c_sl := None |}; r_meta := m1; r_dirty := d1 |} t (wrap t (z + wrap t by_)))) as [P1 P2].
           rewrite S2. split.
           ++ unfold abs_swamp; cbn [recs]. rewrite aput_amap, P1. unfold abs_rec. rewrite S1, S2, B.
              destruct e; reflexivity.
           ++ apply wf_swamp_intro; [reflexivity|]. apply aall_aput; [exact Hall|]. rewrite P2; exact S3.
        -- (* condition not met: only without SetIfExist metadata *)
           destruct cond as [[op v]|]; [|discriminate]. rewrite Ec in D.
           destruct e; [discriminate|]. cbn [opt_meta sc_val r_c c_sc]. rewrite Ec.
           unfold keep_unsaved, ahas; cbn [recs infl]. rewrite E. rewrite (aput_same k _ rs E).
           split; [reflexivity|exact Hwf].
      * unfold keep_unsaved, ahas; cbn [recs infl]. rewrite E. rewrite (aput_same k _ rs E).
        split; [reflexivity|exact Hwf].
    + (* a slice *)
      unfold keep_unsaved, ahas; cbn [recs infl]. rewrite E. rewrite (aput_same k _ rs E).
      split; [reflexivity|exact Hwf].
  - (* absent key *)
    cbn [aget fresh_rec r_c ctype_of].
    change (set_sc {| r_c := None; r_meta := meta0; r_dirty := false |} t 0)
      with {| r_c := Some {| c_void := false; c_sc := Some (t, 0); c_sl := None |}; r_meta := meta0; r_dirty := true |}.
    destruct (opt_meta_props {| r_c := Some {| c_void := false; c_sc := Some (t, 0); c_sl := None |}; r_meta := meta0; r_dirty := true |} ne) as [A B].
    destruct (opt_meta _ ne) as [c1 m1 d1]; cbn [r_c r_meta] in A, B; subst c1.
    cbn [sc_val r_c c_sc].
    destruct (match cond with Some (op, v) => cond_holds op 0 (wrap t v) | None => true end) eqn:Ec.
    + destruct (set_sc_scalar m1 d1 t 0 (wrap t (0 + wrap t by_))) as (S1 & S2 & S3).
      pose proof (save_absent {| recs := rs; infl := [] |} k
                   (set_sc {| r_c := Some {| c_void := false; c_sc := Some (t, 0); c_sl := None |}; r_meta := m1; r_dirty := d1 |} t (wrap t (0 + wrap t by_))) E) as Hsv.
      destruct (save cfg_now _ k _) as [x' st]. cbn [fst] in Hsv. subst x'.
      rewrite S2. split.
      * unfold abs_swamp; cbn [recs]. rewrite aput_amap. unfold abs_rec, clear_flags; cbn [cfg_now c_sticky r_c r_meta].
        rewrite S1, S2, B. destruct ne; reflexivity.
      * apply wf_swamp_intro; [reflexivity|]. apply aall_aput; [exact Hall|].
        unfold wf_rec, clear_flags; cbn [cfg_now c_sticky r_c r_dirty negb andb]. exact S3.
    + destruct cond as [[op v]|]; [|discriminate]. rewrite Ec in D. discriminate.
Qed.

(* ---- the step ---- *)
Lemma count_abs (s : srv) : forall l acc,
  (fix go (l : list Z) (acc : list (Z * Z * bool)) : sstate * response :=
     match l with
     | [] => (abs s, RCount (rev acc))
     | sw :: t =>
         match s_check (abs s) sw true with
         | Some e => (abs s, RErr e)
         | None => go t ((sw, Z.of_nat (length (s_summon (abs s) sw)), true) :: acc)
         end
     end) l acc
  = (abs s, snd ((fix go (l : list Z) (acc : list (Z * Z * bool)) : srv * response :=
     match l with
     | [] => (s, RCount (rev acc))
     | sw :: t =>
         match check_name s sw true with
         | Some e => (s, RErr e)
         | None => go t ((sw, Z.of_nat (length (recs (summon s sw))), true) :: acc)
         end
     end) l acc))
  /\ fst ((fix go (l : list Z) (acc : list (Z * Z * bool)) : srv * response :=
     match l with
     | [] => (s, RCount (rev acc))
     | sw :: t =>
         match check_name s sw true with
         | Some e => (s, RErr e)
         | None => go t ((sw, Z.of_nat (length (recs (summon s sw))), true) :: acc)
         end
     end) l acc) = s.
Proof.
  induction l as [|sw t IH]; intros acc; [split; reflexivity|].
  rewrite check_abs. destruct (check_name s sw true); [split; reflexivity|].
  rewrite summon_abs. unfold abs_swamp at 1. rewrite length_amap. apply IH.
Qed.

Lemma size_abs r : wf_rec r = true ->
  match sl_size r with Some n => RSize n | None => RErr EFailedPre end =
  match s_val (abs_rec r) with SSl l => RSize (Z.of_nat (length l)) | _ => RErr EFailedPre end.
Proof. intros H. destruct (wf_rec_cases r H) as [m [->|[(t & z & ->)|(l & ->)]]]; reflexivity. Qed.
Lemma isval_abs r v : wf_rec r = true ->
  zmem v (sl_all r) = match s_val (abs_rec r) with SSl l => zmem v l | _ => false end.
Proof. intros H. destruct (wf_rec_cases r H) as [m [->|[(t & z & ->)|(l & ->)]]]; reflexivity. Qed.

Theorem step_sim s q :
  wf s = true -> disc (abs s) q = 0 ->
  let '(s', r) := api_step cfg_now s q in
  spec_step (abs s) q = (abs s', r) /\ wf s' = true.
Proof.
  intros Hwf D. destruct q; cbn [api_step spec_step disc] in *.
  - (* Set *)
    unfold do_set. rewrite check_abs, exists_abs in *. unfold check_name in *.
    destruct (sw =? 0) eqn:E0; [split; [reflexivity|exact Hwf]|].
    destruct (false && negb (exists_sw s sw)); [split; [reflexivity|exact Hwf]|].
    destruct kvs as [its|]; [|split; [reflexivity|exact Hwf]].
    cbn [set_err cfg_now c_dupset c_keycheck andb].
    destruct (existsb (fun it => kv_key it =? 0) its); [split; [reflexivity|exact Hwf]|].
    destruct (negb create && negb over); [split; [reflexivity|exact Hwf]|].
    destruct (negb create && negb (exists_sw s sw)); [split; [reflexivity|exact Hwf]|].
    rewrite summon_abs in *.
    pose proof (set_items_sim create over its (summon s sw) (wf_summon s sw Hwf) D) as H.
    destruct (set_items cfg_now create over (summon s sw) its) as [x os]. destruct H as [H1 H2].
    rewrite H1, commit_abs. split; [reflexivity|apply wf_commit; assumption].
  - (* Get *)
    unfold do_get. rewrite <- get_validate_abs.
    destruct (get_validate cfg_now s _ l); [split; [reflexivity|exact Hwf]|].
    split; [|exact Hwf]. f_equal. f_equal. apply map_ext. intros [sw ks]; cbn [fst snd].
    unfold abs. rewrite aget_amap. destruct (aget sw s); cbn; [|reflexivity]. rewrite get_views_abs. reflexivity.
  - (* GetAll *)
    rewrite check_abs. destruct (check_name s sw true); [split; [reflexivity|exact Hwf]|].
    rewrite summon_abs, all_views_abs. split; [reflexivity|exact Hwf].
  - (* GetByKeys *)
    rewrite check_abs. destruct (check_name s sw true); [split; [reflexivity|exact Hwf]|].
    rewrite summon_abs, views_of_keys_abs. split; [reflexivity|exact Hwf].
  - (* Delete *)
    rewrite check_abs. destruct (check_name s sw true); [split; [reflexivity|exact Hwf]|].
    rewrite summon_abs.
    pose proof (del_keys_abs keys (summon s sw) true (wf_summon s sw Hwf)) as H.
    destruct (del_keys (summon s sw) true keys) as [[x a] os]. destruct H as [H1 H2].
    rewrite H1, commit_abs. split; [reflexivity|apply wf_commit; assumption].
  - (* Count *)
    destruct (count_abs s sws []) as [H1 H2]. rewrite H1.
    destruct ((fix go (l : list Z) (acc : list (Z * Z * bool)) : srv * response := _) sws []) as [s' r].
    cbn [fst snd] in *. subst s'. split; [reflexivity|exact Hwf].
  - (* IsSwampExist *)
    rewrite check_abs. destruct (check_name s sw true) as [[| |]|]; split; try reflexivity; exact Hwf.
  - (* IsKeyExist *)
    rewrite check_abs. destruct (check_name s sw true); [split; [reflexivity|exact Hwf]|].
    rewrite summon_abs, ahas_abs_swamp. split; [reflexivity|exact Hwf].
  - (* AreKeysExist *)
    rewrite check_abs. destruct (check_name s sw true); [split; [reflexivity|exact Hwf]|].
    rewrite summon_abs. split; [|exact Hwf]. f_equal. f_equal. apply map_ext. intros k. rewrite ahas_abs_swamp. reflexivity.
  - (* ShiftByKeys *)
    rewrite check_abs. destruct (check_name s sw true); [split; [reflexivity|exact Hwf]|].
    destruct keys as [|k0 keys]; [split; [reflexivity|exact Hwf]|].
    rewrite summon_abs.
    pose proof (shift_keys_abs (k0 :: keys) (summon s sw) (wf_summon s sw Hwf)) as H.
    destruct (shift_keys (summon s sw) (k0 :: keys)) as [x vs]. destruct H as [H1 H2].
    rewrite H1, commit_abs. unfold abs_swamp at 2. rewrite nil_match_abs.
    split; [reflexivity|apply wf_commit; assumption].
  - (* Increment *)
    destruct (sw =? 0) eqn:E0; [split; [reflexivity|exact Hwf]|].
    destruct ((by_ =? 0) || negb (numeric t)) eqn:E1; [split; [reflexivity|exact Hwf]|].
    cbn [orb] in D. rewrite E1 in D. cbn [cfg_now c_keycheck andb].
    destruct (k =? 0); [split; [reflexivity|exact Hwf]|]. rewrite summon_abs in *.
    pose proof (inc_sim (summon s sw) t k by_ cond ne e (wf_summon s sw Hwf) D) as H.
    destruct (do_inc_swamp cfg_now (summon s sw) t k by_ cond ne e) as [x r]. destruct H as [H1 H2].
    rewrite H1, commit_abs. split; [reflexivity|apply wf_commit; assumption].
  - (* Push *)
    rewrite check_abs. unfold check_name in *. destruct (sw =? 0) eqn:E0; [split; [reflexivity|exact Hwf]|].
    cbn [andb cfg_now c_keycheck].
    destruct (existsb (fun p => fst p =? 0) pairs); [split; [reflexivity|exact Hwf]|]. rewrite summon_abs in *.
    destruct (push_pairs_sim pairs (summon s sw) (wf_summon s sw Hwf) D) as [H1 H2].
    rewrite H1, commit_abs. split; [reflexivity|apply wf_commit; assumption].
  - (* SliceDelete *)
    rewrite check_abs. unfold check_name in *. destruct (sw =? 0) eqn:E0; [split; [reflexivity|exact Hwf]|].
    cbn [andb]. rewrite summon_abs in *.
    pose proof (sldel_pairs_sim pairs (summon s sw) true (wf_summon s sw Hwf) D) as H.
    pose proof (sldel_never_hangs pairs (summon s sw) true) as Hh.
    destruct (sldel_pairs cfg_now (summon s sw) true pairs) as [[x a] h]. cbn [snd] in Hh. subst h.
    destruct H as [H1 H2]. rewrite H1, commit_abs. split; [reflexivity|apply wf_commit; assumption].
  - (* Size *)
    rewrite check_abs. destruct (check_name s sw false); [split; [reflexivity|exact Hwf]|].
    cbn zeta. rewrite summon_abs, commit_abs, aget_abs_swamp.
    pose proof (wf_summon s sw Hwf) as Hx. split; [|apply wf_commit; assumption].
    f_equal. destruct (aget k (recs (summon s sw))) as [r|] eqn:E; cbn [option_map]; [|reflexivity].
    symmetry. apply size_abs. destruct (wf_swamp_inv _ Hx) as [_ Hall]. eapply aall_aget; eauto.
  - (* IsValueExist *)
    rewrite check_abs. destruct (check_name s sw false); [split; [reflexivity|exact Hwf]|].
    cbn zeta. rewrite summon_abs, commit_abs, aget_abs_swamp.
    pose proof (wf_summon s sw Hwf) as Hx. split; [|apply wf_commit; assumption].
    f_equal. destruct (aget k (recs (summon s sw))) as [r|] eqn:E; cbn [option_map]; [|reflexivity].
    f_equal. symmetry. apply isval_abs. destruct (wf_swamp_inv _ Hx) as [_ Hall]. eapply aall_aget; eauto.
  - (* Destroy *)
    rewrite check_abs. destruct (check_name s sw false); [split; [reflexivity|exact Hwf]|].
    split; [unfold abs; rewrite adel_amap; reflexivity | apply aall_adel; exact Hwf].
Qed.

(* ================= part 3: histories ================= *)
(* the history stays inside the specified inputs along the reference run *)
Fixpoint disciplined (t : sstate) (qs : list request) : bool :=
  match qs with
  | [] => true
  | q :: rest => (disc t q =? 0) && disciplined (fst (spec_step t q)) rest
  end.

Theorem run_refines_from : forall qs s,
  wf s = true -> disciplined (abs s) qs = true ->
  spec_run (abs s) qs = (abs (fst (api_run cfg_now s qs)), snd (api_run cfg_now s qs)).
Proof.
  induction qs as [|q t IH]; intros s Hwf D; cbn [api_run spec_run disciplined] in *; [reflexivity|].
  apply andb_true_iff in D as [D1 D2]. apply Z.eqb_eq in D1.
  pose proof (step_sim s q Hwf D1) as H. destruct (api_step cfg_now s q) as [s1 r]. destruct H as [H1 H2].
  rewrite H1 in *. cbn [fst] in D2. specialize (IH s1 H2 D2). rewrite IH.
  destruct (api_run cfg_now s1 t) as [s2 rs]. reflexivity.
Qed.

Theorem run_refines : forall qs,
  disciplined sstate0 qs = true ->
  snd (api_run cfg_now srv0 qs) = snd (spec_run sstate0 qs) /\
  abs (fst (api_run cfg_now srv0 qs)) = fst (spec_run sstate0 qs).
Proof.
  intros qs D. pose proof (run_refines_from qs srv0 eq_refl D) as H. cbn [abs amap map srv0] in H.
  change (@nil (Z * sswamp)) with sstate0 in H. rewrite H. split; reflexivity.
Qed.

(* the hypothesis is satisfiable by a history that creates, overwrites, increments (wrap-around and a
   failing condition), pushes, deletes down to an empty swamp and re-creates *)
Definition kv1 (k : Z) (v : setval) : kv := {| kv_key := k; kv_val := v; kv_meta := meta0 |}.
Definition ex_history : list request :=
  [ QSet 1 true true (Some [kv1 1 (SVSc TI64 5); kv1 2 (SVSc TU8 255)]);
    QSet 1 true true (Some [kv1 1 (SVSc TI64 5)]);
    QSet 1 true true (Some [{| kv_key := 1; kv_val := SVSc TI64 6;
                               kv_meta := {| m_cat := 3; m_cby := 7; m_mat := 0; m_mby := 0; m_exp := 0 |} |}]);
    QInc TU8 1 2 1 None None None;
    QInc TU8 1 2 1 (Some (1, 5)) None None;
    QPush 1 [(3, [1; 2; 2])];
    QSlDel 1 [(3, [1])];
    QGet [(1, Some [1; 2; 3; 4])];
    QShiftByKeys 1 [1; 2];
    QSlDel 1 [(3, [2])];
    QIsSwampExist 1;
    QSet 1 true false (Some [kv1 1 SVVoid]);
    QGetAll 1 ].
Example ex_history_disciplined :
  disciplined sstate0 ex_history = true /\
  snd (api_run cfg_now srv0 ex_history) =
  [ RSet [(None, [(1, StNew); (2, StNew)])];
    RSet [(None, [(1, StNothing)])];
    RSet [(None, [(1, StUpdated)])];
    RInc 0 true None;
    RInc 0 false None;
    ROk; ROk;
    RGet [(true, [ {| v_key := 1; v_exist := true; v_sc := Some (TI64, 6); v_sl := [];
                      v_meta := {| m_cat := 3; m_cby := 7; m_mat := 0; m_mby := 0; m_exp := 0 |} |};
                   {| v_key := 2; v_exist := true; v_sc := Some (TU8, 0); v_sl := []; v_meta := meta0 |};
                   {| v_key := 3; v_exist := true; v_sc := None; v_sl := [2]; v_meta := meta0 |};
                   view_missing 4 ])];
    RViews [ {| v_key := 1; v_exist := true; v_sc := Some (TI64, 6); v_sl := [];
                v_meta := {| m_cat := 3; m_cby := 7; m_mat := 0; m_mby := 0; m_exp := 0 |} |};
             {| v_key := 2; v_exist := true; v_sc := Some (TU8, 0); v_sl := []; v_meta := meta0 |} ];
    ROk;
    RBool false;
    RSet [(None, [(1, StNew)])];
    RViews [ {| v_key := 1; v_exist := true; v_sc := None; v_sl := []; v_meta := meta0 |} ] ].
Proof. vm_compute. split; reflexivity. Qed.

(* ---- what fails outside the hypothesis, and what failed at the pinned commit ---- *)
Definition differ_at (a b : list response) (i : nat) (x y : response) : Prop :=
  nth_error a i = Some x /\ nth_error b i = Some y /\ x <> y.

Definition w_class1 := [ QSet 1 true true (Some [kv1 1 (SVSc TI64 1)]); QSet 1 true true (Some [kv1 1 SVVoid]); QGet [(1, Some [1])] ].
Definition w_class2 := [ QPush 1 [(1, [1])]; QSet 1 true true (Some [kv1 1 (SVSl [2])]); QGet [(1, Some [1])] ].
Definition w_class3 := [ QSet 1 true true (Some [kv1 1 (SVSc TI64 1); kv1 2 (SVSc TI64 1)]); QSlDel 1 [(1, [1])]; QIsKeyExist 1 1 ].
Definition w_class4 := [ QSet 1 true true (Some [kv1 2 (SVSc TI64 1)]); QInc TI64 1 1 1 (Some (1, 2)) None None; QInc TI8 1 1 1 None None None ].
Definition w_class5 :=
  let it := {| kv_key := 1; kv_val := SVSc TI64 1; kv_meta := {| m_cat := 0; m_cby := 7; m_mat := 0; m_mby := 0; m_exp := 0 |} |} in
  [ QSet 1 true true (Some [it]); QSet 1 true true (Some [it]) ].

Definition first_class (qs : list request) : Z :=
  (fix go (t : sstate) (qs : list request) : Z :=
     match qs with
     | [] => 0
     | q :: rest => if disc t q =? 0 then go (fst (spec_step t q)) rest else disc t q
     end) sstate0 qs.

Theorem refines_refuted_outside_spec :
  (first_class w_class1 = 1 /\ exists x y, differ_at (snd (api_run cfg_now srv0 w_class1)) (snd (spec_run sstate0 w_class1)) 2 x y) /\
  (first_class w_class2 = 2 /\ exists x y, differ_at (snd (api_run cfg_now srv0 w_class2)) (snd (spec_run sstate0 w_class2)) 2 x y) /\
  (first_class w_class3 = 3 /\ exists x y, differ_at (snd (api_run cfg_now srv0 w_class3)) (snd (spec_run sstate0 w_class3)) 2 x y) /\
  (first_class w_class4 = 4 /\ exists x y, differ_at (snd (api_run cfg_now srv0 w_class4)) (snd (spec_run sstate0 w_class4)) 2 x y) /\
  (first_class w_class5 = 5 /\ exists x y, differ_at (snd (api_run cfg_now srv0 w_class5)) (snd (spec_run sstate0 w_class5)) 1 x y).
Proof.
  repeat split; try (vm_compute; reflexivity);
    (eexists; eexists; unfold differ_at; vm_compute; split; [reflexivity|split; [reflexivity|discriminate]]).
Qed.

(* the pinned commit: sticky change flags, the self-deadlock, the panic in Get *)
Definition w_sticky := [ QSet 1 true true (Some [kv1 1 (SVSc TI64 1)]); QSet 1 true true (Some [kv1 1 (SVSc TI64 1)]) ].
Definition w_hang := [ QPush 1 [(1, [1])]; QSlDel 1 [(1, [1])] ].
Definition w_panic := [ QSet 1 true true (Some [kv1 1 (SVSc TI64 1)]); QGet [(1, Some [])] ].
Theorem refuted_at_pinned_commit :
  disciplined sstate0 w_sticky = true /\
  nth_error (snd (api_run cfg_pinned srv0 w_sticky)) 1 = Some (RSet [(None, [(1, StUpdated)])]) /\
  nth_error (snd (spec_run sstate0 w_sticky)) 1 = Some (RSet [(None, [(1, StNothing)])]) /\
  nth_error (snd (api_run cfg_pinned srv0 w_hang)) 1 = Some RHang /\
  nth_error (snd (api_run cfg_pinned srv0 w_panic)) 1 = Some RPanic.
Proof. vm_compute. repeat split; reflexivity. Qed.

(* ================= part 4: the per-request oracle of ApiCheck.v ================= *)
(* In a well-formed state no key is tainted, so every request is clean: there the oracle's condition
   "inside the specified inputs and clean" is exactly the hypothesis of [step_sim], which then
   guarantees that the faithful model answers what the reference model answers. *)
Lemma wf_not_tainted x k : wf_swamp x = true -> tainted x k = false.
Proof.
  intros H. destruct (wf_swamp_inv x H) as [Hi Hall]. unfold tainted, ahas. rewrite Hi; cbn.
  destruct (aget k (recs x)) as [r|] eqn:E; [|reflexivity].
  rewrite (aall_aget _ _ _ _ Hall E). reflexivity.
Qed.
Theorem wf_clean s q : wf s = true -> clean s q = true.
Proof.
  intros H. unfold clean. destruct (sensitive_keys q) as [[sw ks]|]; [|reflexivity].
  apply forallb_forall. intros k _. rewrite (wf_not_tainted _ k (wf_summon s sw H)). reflexivity.
Qed.
Theorem clean_step_agrees s q :
  wf s = true -> disc (abs s) q = 0 ->
  clean s q = true /\ snd (spec_step (abs s) q) = snd (api_step cfg_now s q).
Proof.
  intros Hwf D. split; [apply wf_clean; exact Hwf|].
  pose proof (step_sim s q Hwf D) as H. destruct (api_step cfg_now s q) as [s' r]. destruct H as [H _].
  rewrite H. reflexivity.
Qed.
