(* Swamp/ApiProofs.v — C06: the faithful API model [Api.api_step cfg_now] never hangs or panics, and
   refines the reference model [Spec.spec_step] on every history that stays inside the specified
   inputs ([Spec.disc] = 0 along the reference run); the excluded input classes and the behaviours of
   the pinned commit are refuted by witnesses. *)
From HV Require Import Base.Prelude Swamp.Api Swamp.Spec.
From Coq Require Import ZifyBool.
Local Open Scope Z_scope.

(* ================= part 1: every request returns ================= *)
Definition proper (r : response) : Prop := r <> RHang /\ r <> RPanic /\ r <> RNil.

Lemma sldel_never_hangs : forall pairs x alive,
  snd (sldel_pairs cfg_now x alive pairs) = false.
Proof.
  induction pairs as [|[k vals] t IH]; intros x alive; cbn [sldel_pairs]; [reflexivity|].
  destruct (aget k (recs x)) as [r|]; [|apply IH].
  cbv zeta. destruct (match sl_size (del_sl r vals) with None => true | Some n => n =? 0 end).
  - cbn [c_hold cfg_now]. apply IH.
  - apply IH.
Qed.

Lemma get_validate_proper : forall l s single r,
  get_validate cfg_now s single l = Some r -> proper r.
Proof.
  induction l as [|[sw keys] t IH]; intros s single r H; cbn [get_validate] in H; [discriminate|].
  destruct (check_name s sw single).
  - inversion H; subst; repeat split; discriminate.
  - destruct keys as [[|k0 ks]|].
    + cbn in H. inversion H; subst; repeat split; discriminate.
    + destruct (k0 =? 0).
      * inversion H; subst; repeat split; discriminate.
      * eapply IH; eauto.
    + inversion H; subst; repeat split; discriminate.
Qed.

Lemma count_proper : forall (s : srv) l acc,
  proper (snd ((fix go (l : list Z) (acc : list (Z * Z * bool)) : srv * response :=
         match l with
         | [] => (s, RCount (rev acc))
         | sw :: t =>
             match check_name s sw true with
             | Some e => (s, RErr e)
             | None => go t ((sw, Z.of_nat (length (recs (summon s sw))), true) :: acc)
             end
         end) l acc)).
Proof.
  intros s; induction l as [|sw t IH]; intros acc.
  - repeat split; discriminate.
  - destruct (check_name s sw true); [repeat split; discriminate | apply IH].
Qed.

Theorem step_returns : forall s q, proper (snd (api_step cfg_now s q)).
Proof.
  intros s q; destruct q; cbn [api_step].
  - unfold do_set. destruct (check_name s sw false); [repeat split; discriminate|].
    destruct kvs; [|repeat split; discriminate].
    destruct (negb create && negb over); [unfold set_err; repeat split; discriminate|].
    destruct (negb create && negb (exists_sw s sw)); [unfold set_err; repeat split; discriminate|].
    destruct (set_items cfg_now create over (summon s sw) l). repeat split; discriminate.
  - unfold do_get. destruct (get_validate cfg_now s _ l) eqn:E.
    + eapply get_validate_proper; eauto.
    + repeat split; discriminate.
  - destruct (check_name s sw true); repeat split; discriminate.
  - destruct (check_name s sw true); repeat split; discriminate.
  - destruct (check_name s sw true); [repeat split; discriminate|].
    destruct (del_keys (summon s sw) true keys) as [[? ?] ?]. repeat split; discriminate.
  - apply count_proper.
  - destruct (check_name s sw true) as [[| |]|]; repeat split; discriminate.
  - destruct (check_name s sw true); repeat split; discriminate.
  - destruct (check_name s sw true); repeat split; discriminate.
  - destruct (check_name s sw true); [repeat split; discriminate|].
    destruct keys; [repeat split; discriminate|].
    destruct (shift_keys (summon s sw) (z :: keys)). repeat split; discriminate.
  - destruct (sw =? 0); [repeat split; discriminate|].
    destruct ((by_ =? 0) || negb (numeric t)); [repeat split; discriminate|].
    unfold do_inc_swamp.
    destruct (match ctype_of (r_c (obj_of (summon s sw) k)) with
              | CVoid => _ | CSc t' => _ | CSlice => _ end); [|repeat split; discriminate].
    destruct (match cond with Some (op, v) => _ | None => true end).
    + destruct (save cfg_now (summon s sw) k _). repeat split; discriminate.
    + repeat split; discriminate.
  - destruct (check_name s sw false); repeat split; discriminate.
  - destruct (check_name s sw false); [repeat split; discriminate|].
    pose proof (sldel_never_hangs pairs (summon s sw) true) as Hh.
    destruct (sldel_pairs cfg_now (summon s sw) true pairs) as [[x a] h]. cbn in Hh; subst h.
    repeat split; discriminate.
  - destruct (check_name s sw false); [repeat split; discriminate|].
    cbn. destruct (aget k (recs (summon s sw))); [|repeat split; discriminate].
    destruct (sl_size r); repeat split; discriminate.
  - destruct (check_name s sw false); [repeat split; discriminate|].
    cbn. destruct (aget k (recs (summon s sw))); repeat split; discriminate.
  - destruct (check_name s sw false); repeat split; discriminate.
Qed.

Theorem run_returns : forall qs s, Forall proper (snd (api_run cfg_now s qs)).
Proof.
  induction qs as [|q t IH]; intros s; cbn [api_run]; [constructor|].
  pose proof (step_returns s q) as H. destruct (api_step cfg_now s q) as [s1 r].
  specialize (IH s1). destruct (api_run cfg_now s1 t) as [s2 rs]. cbn in *. constructor; assumption.
Qed.
