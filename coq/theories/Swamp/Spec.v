(* Swamp/Spec.v — the plain reference key-value model of the documented semantics (C06).

   State: the existing swamps, each a finite map key -> (value, metadata). A value is Void, one
   typed scalar, or a set of uint32 kept in insertion order. No change flags, no hidden fields, no
   detached records, no guards: every request is a pure function of the maps.

   Documented semantics used here:
     - a swamp exists from the moment a handler that summons it runs (Set with CreateIfNotExist,
       Increment*, Uint32Slice*, Destroy) until it is destroyed; Delete / ShiftByKeys /
       Uint32SliceDelete remove a swamp they leave without records;
     - Set stores exactly the supplied value and the supplied metadata fields; the status is NEW for
       an absent key, NOTHING_CHANGED when value and metadata are what is already stored, UPDATED
       otherwise; CreateIfNotExist=false / Overwrite=false give NOT_FOUND / NOTHING_CHANGED;
     - Increment* starts an absent or Void key at 0 (applying SetIfNotExist), applies SetIfExist to
       an existing counter, and changes NOTHING when the condition is not met;
     - uint32 slices are sets: push adds the missing values, delete removes values and removes the
       record when the set becomes empty;
     - reads never change anything; the empty key is rejected by every handler that could create it.
   Inputs on which the documentation is silent (a slice operation applied to a key that holds a
   non-slice value) are outside the specification: [disc] flags them, see ApiProofs.v. *)
From HV Require Import Base.Prelude Swamp.Api.
Local Open Scope Z_scope.

Inductive sval := SVoid | SSc (t : ty) (z : Z) | SSl (l : list Z).
Record srec := { s_val : sval; s_meta : meta }.
Definition sswamp := list (Z * srec).
Definition sstate := list (Z * sswamp).
Definition sstate0 : sstate := [].

Definition sview (k : Z) (r : srec) : view :=
  match s_val r with
  | SVoid => {| v_key := k; v_exist := true; v_sc := None; v_sl := []; v_meta := s_meta r |}
  | SSc t z => {| v_key := k; v_exist := true; v_sc := Some (t, z); v_sl := []; v_meta := s_meta r |}
  | SSl l => {| v_key := k; v_exist := true; v_sc := None; v_sl := l; v_meta := s_meta r |}
  end.

Definition s_exists (s : sstate) (sw : Z) : bool := ahas sw s.
Definition s_summon (s : sstate) (sw : Z) : sswamp := match aget sw s with Some x => x | None => [] end.
Definition s_commit (s : sstate) (sw : Z) (x : sswamp) (alive : bool) : sstate :=
  if alive then aput sw x s else adel sw s.
Definition s_check (s : sstate) (sw : Z) (must_exist : bool) : option err :=
  if Z.eqb sw 0 then Some EInvalid
  else if must_exist && negb (s_exists s sw) then Some EFailedPre
  else None.

(* override the supplied (non-zero) metadata fields *)
Definition merge_meta (o m : meta) : meta :=
  {| m_cat := if Z.eqb (m_cat m) 0 then m_cat o else m_cat m;
     m_cby := if Z.eqb (m_cby m) 0 then m_cby o else m_cby m;
     m_mat := if Z.eqb (m_mat m) 0 then m_mat o else m_mat m;
     m_mby := if Z.eqb (m_mby m) 0 then m_mby o else m_mby m;
     m_exp := if Z.eqb (m_exp m) 0 then m_exp o else m_exp m |}.

Definition meta_eqb (a b : meta) : bool :=
  Z.eqb (m_cat a) (m_cat b) && Z.eqb (m_cby a) (m_cby b) && Z.eqb (m_mat a) (m_mat b)
  && Z.eqb (m_mby a) (m_mby b) && Z.eqb (m_exp a) (m_exp b).
Fixpoint zlist_eqb (a b : list Z) : bool :=
  match a, b with
  | [], [] => true
  | x :: s, y :: t => Z.eqb x y && zlist_eqb s t
  | _, _ => false
  end.
Definition sval_eqb (a b : sval) : bool :=
  match a, b with
  | SVoid, SVoid => true
  | SSc t z, SSc t' z' => ty_eqb t t' && Z.eqb z z'
  | SSl l, SSl l' => zlist_eqb l l'
  | _, _ => false
  end.

Definition sval_of_set (v : setval) : sval :=
  match v with
  | SVVoid => SVoid
  | SVSc t z => SSc t (wrap t z)
  | SVSl l => SSl (push_new [] l)
  end.

(* ---------- Set ---------- *)
Definition s_set_item (create over : bool) (x : sswamp) (it : kv) : sswamp * (Z * status) :=
  let k := kv_key it in
  match aget k x with
  | None =>
      if negb create then (x, (k, StNotFound))
      else (aput k {| s_val := sval_of_set (kv_val it); s_meta := merge_meta meta0 (kv_meta it) |} x, (k, StNew))
  | Some old =>
      if negb over then (x, (k, StNothing))
      else
        let nv := sval_of_set (kv_val it) in
        let nm := merge_meta (s_meta old) (kv_meta it) in
        if sval_eqb nv (s_val old) && meta_eqb nm (s_meta old) then (x, (k, StNothing))
        else (aput k {| s_val := nv; s_meta := nm |} x, (k, StUpdated))
  end.
Fixpoint s_set_items (create over : bool) (x : sswamp) (its : list kv) : sswamp * list (Z * status) :=
  match its with
  | [] => (x, [])
  | it :: t =>
      let '(x1, o) := s_set_item create over x it in
      let '(x2, os) := s_set_items create over x1 t in (x2, o :: os)
  end.

(* ---------- deletes ---------- *)
Fixpoint s_del_keys (x : sswamp) (alive : bool) (keys : list Z) : sswamp * bool * list (Z * status) :=
  match keys with
  | [] => (x, alive, [])
  | k :: t =>
      if ahas k x then
        let x1 := adel k x in
        let alive1 := match x1 with [] => false | _ => alive end in
        let '(x2, a2, os) := s_del_keys x1 alive1 t in (x2, a2, (k, StDeleted) :: os)
      else
        let '(x2, a2, os) := s_del_keys x alive t in (x2, a2, (k, StNotFound) :: os)
  end.
Fixpoint s_shift_keys (x : sswamp) (keys : list Z) : sswamp * list view :=
  match keys with
  | [] => (x, [])
  | k :: t =>
      match aget k x with
      | Some r => let '(x2, vs) := s_shift_keys (adel k x) t in (x2, sview k r :: vs)
      | None => s_shift_keys x t
      end
  end.

(* ---------- uint32 sets ---------- *)
Definition s_push (x : sswamp) (k : Z) (vals : list Z) : sswamp :=
  match aget k x with
  | None => aput k {| s_val := SSl (push_new [] vals); s_meta := meta0 |} x
  | Some r =>
      match s_val r with
      | SSl l => aput k {| s_val := SSl (l ++ push_new l vals); s_meta := s_meta r |} x
      | _ => x                                  (* outside the specification, see [disc] *)
      end
  end.
Fixpoint s_push_pairs (x : sswamp) (pairs : list (Z * list Z)) : sswamp :=
  match pairs with
  | [] => x
  | (k, vals) :: t => s_push_pairs (s_push x k vals) t
  end.
Fixpoint s_sldel_pairs (x : sswamp) (alive : bool) (pairs : list (Z * list Z)) : sswamp * bool :=
  match pairs with
  | [] => (x, alive)
  | (k, vals) :: t =>
      match aget k x with
      | None => s_sldel_pairs x alive t
      | Some r =>
          match s_val r with
          | SSl l =>
              let keep := filter (fun v => negb (zmem v vals)) l in
              match keep with
              | [] =>
                  let x1 := adel k x in
                  s_sldel_pairs x1 (match x1 with [] => false | _ => alive end) t
              | _ => s_sldel_pairs (aput k {| s_val := SSl keep; s_meta := s_meta r |} x) alive t
              end
          | _ => s_sldel_pairs x alive t        (* outside the specification, see [disc] *)
          end
      end
  end.

(* ---------- Increment* ---------- *)
Definition s_inc (x : sswamp) (t : ty) (k by_ : Z) (cond : option (Z * Z)) (ne e : option imeta)
  : sswamp * response :=
  let start (m0 : meta) (m : option imeta) (cur : Z) (is_new : bool) :=
      let ok := match cond with Some (op, v) => cond_holds op cur (wrap t v) | None => true end in
      if ok then
        let nm := match m with Some m => merge_meta m0 (imeta_to_meta m) | None => m0 end in
        let nv := wrap t (cur + wrap t by_) in
        (aput k {| s_val := SSc t nv; s_meta := nm |} x, RInc nv true (meta_resp nm))
      else (x, RInc cur false (if is_new then None else meta_resp m0)) in
  match aget k x with
  | None => start meta0 ne 0 true
  | Some r =>
      match s_val r with
      | SVoid => start (s_meta r) ne 0 false
      | SSc t' z => if ty_eqb t t' then start (s_meta r) e z false else (x, RErr EInvalid)
      | SSl _ => (x, RErr EInvalid)
      end
  end.

(* ---------- the step ---------- *)
Definition s_get_views (x : sswamp) (keys : list Z) : list view :=
  map (fun k => match aget k x with Some r => sview k r | None => view_missing k end) keys.
Fixpoint s_get_validate (s : sstate) (single : bool) (l : list (Z * option (list Z))) : option response :=
  match l with
  | [] => None
  | (sw, keys) :: t =>
      match s_check s sw single with
      | Some e => Some (RErr e)
      | None =>
          match keys with
          | None => Some (RErr EInvalid)
          | Some [] => Some (RErr EInvalid)
          | Some (k0 :: _) => if Z.eqb k0 0 then Some (RErr EInvalid) else s_get_validate s single t
          end
      end
  end.

Definition spec_step (s : sstate) (q : request) : sstate * response :=
  match q with
  | QSet sw create over kvs =>
      match s_check s sw false with
      | Some e => (s, RErr e)
      | None =>
          match kvs with
          | None => (s, RErr EInvalid)
          | Some its =>
              if existsb (fun it => Z.eqb (kv_key it) 0) its then (s, RErr EInvalid)
              else if negb create && negb over then (s, RSet [(Some ec_cannot, [])])
              else if negb create && negb (s_exists s sw) then (s, RSet [(Some ec_noswamp, [])])
              else
                let '(x, os) := s_set_items create over (s_summon s sw) its in
                (s_commit s sw x true, RSet [(None, os)])
          end
      end
  | QGet l =>
      let single := match l with [_] => true | _ => false end in
      match s_get_validate s single l with
      | Some r => (s, r)
      | None =>
          (s, RGet (map (fun p =>
                           match aget (fst p) s with
                           | None => (false, [])
                           | Some x => (true, s_get_views x (match snd p with Some ks => ks | None => [] end))
                           end) l))
      end
  | QGetAll sw =>
      match s_check s sw true with
      | Some e => (s, RErr e)
      | None => (s, RViews (map (fun p => sview (fst p) (snd p)) (s_summon s sw)))
      end
  | QGetByKeys sw keys =>
      match s_check s sw true with
      | Some e => (s, RErr e)
      | None => (s, RViews (flat_map (fun k => match aget k (s_summon s sw) with Some r => [sview k r] | None => [] end) keys))
      end
  | QDelete sw keys =>
      match s_check s sw true with
      | Some _ => (s, RDelete [(Some ec_noswamp, [])])
      | None =>
          let '(x, alive, os) := s_del_keys (s_summon s sw) true keys in
          (s_commit s sw x alive, RDelete [(None, os)])
      end
  | QCount sws =>
      (fix go (l : list Z) (acc : list (Z * Z * bool)) : sstate * response :=
         match l with
         | [] => (s, RCount (rev acc))
         | sw :: t =>
             match s_check s sw true with
             | Some e => (s, RErr e)
             | None => go t ((sw, Z.of_nat (length (s_summon s sw)), true) :: acc)
             end
         end) sws []
  | QIsSwampExist sw =>
      match s_check s sw true with
      | Some EFailedPre => (s, RBool false)
      | Some e => (s, RRespErr e)
      | None => (s, RBool true)
      end
  | QIsKeyExist sw k =>
      match s_check s sw true with
      | Some e => (s, RErr e)
      | None => (s, RBool (ahas k (s_summon s sw)))
      end
  | QAreKeysExist sw keys =>
      match s_check s sw true with
      | Some e => (s, RErr e)
      | None => (s, RKeys (map (fun k => (k, ahas k (s_summon s sw))) keys))
      end
  | QShiftByKeys sw keys =>
      match s_check s sw true with
      | Some e => (s, RErr e)
      | None =>
          match keys with
          | [] => (s, RViews [])
          | _ =>
              let '(x, vs) := s_shift_keys (s_summon s sw) keys in
              (s_commit s sw x (match x with [] => false | _ => true end), RViews vs)
          end
      end
  | QInc t sw k by_ cond ne e =>
      if Z.eqb sw 0 then (s, RErr EInvalid)
      else if Z.eqb by_ 0 || negb (numeric t) then (s, RErr EInvalid)
      else if Z.eqb k 0 then (s, RErr EInvalid)
      else
        let '(x, r) := s_inc (s_summon s sw) t k by_ cond ne e in
        (s_commit s sw x true, r)
  | QPush sw pairs =>
      match s_check s sw false with
      | Some e => (s, RErr e)
      | None =>
          if existsb (fun p => Z.eqb (fst p) 0) pairs then (s, RErr EInvalid)
          else (s_commit s sw (s_push_pairs (s_summon s sw) pairs) true, ROk)
      end
  | QSlDel sw pairs =>
      match s_check s sw false with
      | Some e => (s, RErr e)
      | None =>
          let '(x, alive) := s_sldel_pairs (s_summon s sw) true pairs in
          (s_commit s sw x alive, ROk)
      end
  | QSize sw k =>
      match s_check s sw false with
      | Some e => (s, RErr e)
      | None =>
          let x := s_summon s sw in
          (s_commit s sw x true,
           match aget k x with
           | None => RRespErr EInvalid
           | Some r => match s_val r with SSl l => RSize (Z.of_nat (length l)) | _ => RErr EFailedPre end
           end)
      end
  | QIsVal sw k v =>
      match s_check s sw false with
      | Some e => (s, RErr e)
      | None =>
          let x := s_summon s sw in
          (s_commit s sw x true,
           match aget k x with
           | None => RErr EInvalid
           | Some r => RBool (match s_val r with SSl l => zmem v l | _ => false end)
           end)
      end
  | QDestroy sw =>
      match s_check s sw false with
      | Some e => (s, RErr e)
      | None => (adel sw s, ROk)
      end
  end.

Fixpoint spec_run (s : sstate) (qs : list request) : sstate * list response :=
  match qs with
  | [] => (s, [])
  | q :: t =>
      let '(s1, r) := spec_step s q in
      let '(s2, rs) := spec_run s1 t in (s2, r :: rs)
  end.

(* ---------- the inputs on which the code is known to leave the specification ([0] = none).
   Evaluated on the SPEC state before the request. Classes:
     1  Set Void over a key that holds a value            (SetContentVoid keeps the old value)
     2  Set a uint32 slice over an existing key            (pushed next to / into the old content)
     3  a slice push/delete on a key holding a non-slice value   (outside the documentation)
     4  Increment whose condition is not met on an absent or Void key, or with SetIfExist metadata
        (the "set to 0" / the metadata are applied before the condition is looked at)
     5  Set that re-supplies identical metadata            (every metadata setter raises its flag) *)
Definition meta_given (m : meta) : bool := negb (meta_eqb m meta0).
Definition disc_set_item (create over : bool) (x : sswamp) (it : kv) : Z :=
  match aget (kv_key it) x with
  | None => 0
  | Some old =>
      if negb over then 0
      else
        match kv_val it with
        | SVVoid => match s_val old with SVoid => 0 | _ => 1 end
        | SVSl _ => 2
        | SVSc _ _ => 0
        end
  end.
Definition disc_set_meta (create over : bool) (x : sswamp) (it : kv) : Z :=
  match aget (kv_key it) x with
  | None => 0
  | Some old =>
      if negb over then 0
      else if meta_given (kv_meta it)
              && sval_eqb (sval_of_set (kv_val it)) (s_val old)
              && meta_eqb (merge_meta (s_meta old) (kv_meta it)) (s_meta old) then 5 else 0
  end.
Fixpoint disc_set_items (create over : bool) (x : sswamp) (its : list kv) : Z :=
  match its with
  | [] => 0
  | it :: t =>
      let d := disc_set_item create over x it in
      if negb (Z.eqb d 0) then d
      else let d := disc_set_meta create over x it in
           if negb (Z.eqb d 0) then d
           else disc_set_items create over (fst (s_set_item create over x it)) t
  end.
Definition is_slice_or_absent (x : sswamp) (k : Z) : bool :=
  match aget k x with
  | None => true
  | Some r => match s_val r with SSl _ => true | _ => false end
  end.
Fixpoint disc_push (x : sswamp) (pairs : list (Z * list Z)) : Z :=
  match pairs with
  | [] => 0
  | (k, vals) :: t => if is_slice_or_absent x k then disc_push (s_push x k vals) t else 3
  end.
Fixpoint disc_sldel (x : sswamp) (pairs : list (Z * list Z)) : Z :=
  match pairs with
  | [] => 0
  | (k, vals) :: t =>
      if is_slice_or_absent x k then disc_sldel (fst (s_sldel_pairs x true [(k, vals)])) t else 3
  end.
Definition disc_inc (x : sswamp) (t : ty) (k : Z) (cond : option (Z * Z)) (e : option imeta) : Z :=
  match cond with
  | None => 0
  | Some (op, v) =>
      match aget k x with
      | None => if cond_holds op 0 (wrap t v) then 0 else 4
      | Some r =>
          match s_val r with
          | SVoid => if cond_holds op 0 (wrap t v) then 0 else 4
          | SSc t' z =>
              if ty_eqb t t' then
                if cond_holds op z (wrap t v) then 0 else match e with Some _ => 4 | None => 0 end
              else 0
          | SSl _ => 0
          end
      end
  end.
Definition disc (s : sstate) (q : request) : Z :=
  match q with
  | QSet sw create over (Some its) =>
      if Z.eqb sw 0 then 0
      else if negb create && negb over then 0
      else if negb create && negb (s_exists s sw) then 0
      else disc_set_items create over (s_summon s sw) its
  | QPush sw pairs => if Z.eqb sw 0 then 0 else disc_push (s_summon s sw) pairs
  | QSlDel sw pairs => if Z.eqb sw 0 then 0 else disc_sldel (s_summon s sw) pairs
  | QInc t sw k by_ cond ne e =>
      if Z.eqb sw 0 || Z.eqb by_ 0 || negb (numeric t) then 0 else disc_inc (s_summon s sw) t k cond e
  | _ => 0
  end.
