(* Swamp/Validate.v — C26: the validation prefix of the gateway handlers as a decision function over
   request shapes, the recover wrapper, and the safeops / vigil counter pairing (no proofs here).

   A request shape keeps what the validation code looks at: the form of the swamp name (empty,
   fewer than three "/"-parts, loadable), whether that swamp exists, the form of the key list,
   nil KeyValues, a zero IncrementBy, empty lock key / lock id. Everything else in the request is
   irrelevant to the prefix. The handler body is abstracted to its three outcomes that matter for
   the accounting: it returns, it panics (recovered by handlePanic), or it takes an auto-destroy
   path (swamp.DeleteTreasure / CloneAndDelete* call CeaseVigil themselves before Destroy and the
   handler's deferred CeaseVigil runs afterwards - the double cease owned by C17). *)
From HV Require Import Base.Prelude Swamp.Api.
Local Open Scope Z_scope.

Inductive nshape := NEmpty | NShort | NOk.
Inductive kshape := KNil | KEmptyList | KFirstEmpty | KOk.
Inductive handler :=
| HSet | HGet | HGetAll | HGetByIndex | HGetByKeys | HDelete | HCount | HIsSwampExist | HIsKeyExist
| HAreKeysExist | HShiftByKeys | HInc | HPush | HSlDel | HSize | HIsVal | HDestroy
| HRegister | HDeRegister | HLock | HUnlock.
Definition all_handlers : list handler :=
  [HSet; HGet; HGetAll; HGetByIndex; HGetByKeys; HDelete; HCount; HIsSwampExist; HIsKeyExist;
   HAreKeysExist; HShiftByKeys; HInc; HPush; HSlDel; HSize; HIsVal; HDestroy;
   HRegister; HDeRegister; HLock; HUnlock].

Record shape := {
  sh_name : nshape;      (* swamp name / pattern *)
  sh_exists : bool;      (* that swamp exists *)
  sh_keys : kshape;      (* Get: Keys *)
  sh_kvnil : bool;       (* Set: KeyValues == nil *)
  sh_by0 : bool;         (* Increment*: IncrementBy == 0 *)
  sh_key_empty : bool;   (* Lock/Unlock: Key == "" *)
  sh_id_empty : bool;    (* Unlock: LockID == "" *)
  sh_wkey_empty : bool;  (* Set / Uint32SlicePush / Increment*: a treasure key to be written is "" *)
  sh_wkey_long : bool    (* ... or longer than 65535 bytes (the 16-bit key length of the V2 swamp file);
                            the limit is the same for persistent and in-memory swamps *)
}.

Inductive outcome :=
| Reject (e : err) (with_resp : bool)   (* returns before touching any swamp: (nil | resp, error) *)
| Proceed                                (* validation passed: the body runs *)
| PanicAt.                               (* validation itself panics (name.Load / Keys[0]) *)

(* v_short: name.Load is reached with a name of fewer than three parts (pinned commit);
   v_getkeys: Get reads Keys[0] of an empty non-nil list (pinned commit) *)
Record vcfg := { v_short : bool; v_getkeys : bool }.
Definition vcfg_now : vcfg := {| v_short := false; v_getkeys := false |}.
Definition vcfg_pinned : vcfg := {| v_short := true; v_getkeys := true |}.

(* gateway.checkSwampName *)
Definition check_shape (c : vcfg) (sh : shape) (must_exist with_resp : bool) : outcome :=
  match sh_name sh with
  | NEmpty => Reject EInvalid with_resp
  | NShort => if v_short c then PanicAt else Reject EInvalid with_resp
  | NOk => if must_exist && negb (sh_exists sh) then Reject EFailedPre with_resp else Proceed
  end.

Definition validate (c : vcfg) (h : handler) (sh : shape) : outcome :=
  match h with
  | HSet =>
      match check_shape c sh false false with
      | Proceed => if sh_kvnil sh then Reject EInvalid false
                   else if sh_wkey_empty sh || sh_wkey_long sh then Reject EInvalid false else Proceed
      | o => o
      end
  | HGet =>   (* one swamp in the request: existence is checked up front *)
      match check_shape c sh true false with
      | Proceed =>
          match sh_keys sh with
          | KNil => Reject EInvalid false
          | KEmptyList => if v_getkeys c then PanicAt else Reject EInvalid false
          | KFirstEmpty => Reject EInvalid false
          | KOk => Proceed
          end
      | o => o
      end
  | HGetAll | HGetByIndex | HGetByKeys | HCount | HIsKeyExist | HAreKeysExist | HShiftByKeys =>
      check_shape c sh true false
  | HDelete =>   (* a name error becomes a per-swamp entry of the response *)
      match check_shape c sh true false with PanicAt => PanicAt | _ => Proceed end
  | HIsSwampExist =>
      match check_shape c sh true true with
      | Reject EFailedPre _ => Proceed     (* "does not exist" is an answer, not an error *)
      | o => o
      end
  | HInc =>
      match sh_name sh with
      | NEmpty => Reject EInvalid false
      | _ => if sh_by0 sh then Reject EInvalid false
             else if sh_wkey_empty sh || sh_wkey_long sh then Reject EInvalid false
             else check_shape c sh false false
      end
  | HPush =>
      match check_shape c sh false false with
      | Proceed => if sh_wkey_empty sh || sh_wkey_long sh then Reject EInvalid false else Proceed
      | o => o
      end
  | HSlDel | HSize | HIsVal | HDestroy => check_shape c sh false false
  | HRegister | HDeRegister =>
      match sh_name sh with
      | NEmpty => Reject EInvalid false
      | NShort => if v_short c then PanicAt else Reject EInvalid false
      | NOk => Proceed
      end
  | HLock => if sh_key_empty sh then Reject EInvalid false else Proceed
  | HUnlock => if sh_key_empty sh || sh_id_empty sh then Reject EInvalid false else Proceed
  end.

(* which parts of the wrapper a handler has *)
Definition has_safeops (h : handler) : bool := match h with HLock | HUnlock => false | _ => true end.
Definition summons (h : handler) : bool :=
  match h with HIsSwampExist | HRegister | HDeRegister | HLock | HUnlock => false | _ => true end.
Definition has_vigil (h : handler) : bool :=
  match h with HDestroy => false | _ => summons h end.
(* handlers whose only InvalidArgument / FailedPrecondition answers come from this prefix *)
Definition strict (h : handler) : bool :=
  match h with
  | HSet | HGet | HGetAll | HGetByKeys | HCount | HIsKeyExist | HAreKeysExist | HShiftByKeys
  | HPush | HSlDel | HDestroy | HRegister | HDeRegister => true
  | _ => false
  end.

Inductive body := BOk | BPanic | BAutoDestroy.
Inductive ev :=
| ELock | EUnlock            (* safeops.LockSystem / deferred UnlockSystem *)
| ESummon                    (* hydra.SummonSwamp *)
| EBegin | ECease            (* vigil *)
| ERecover                   (* handlePanic swallowed a panic *)
| EReturn (nil_resp : bool) (e : option err).

(* one handler call, in program order (deferred calls at the end, in reverse order of registration:
   CeaseVigil, handlePanic, UnlockSystem) *)
Definition run (c : vcfg) (h : handler) (sh : shape) (b : body) : list ev :=
  (if has_safeops h then [ELock] else []) ++
  match validate c h sh with
  | Reject e wr => [EReturn (negb wr) (Some e)]
  | PanicAt => [ERecover; EReturn true None]
  | Proceed =>
      (if summons h then [ESummon] else []) ++
      (if has_vigil h then [EBegin] else []) ++
      (match b with BAutoDestroy => if has_vigil h then [ECease] else [] | _ => [] end) ++
      (if has_vigil h then [ECease] else []) ++
      (match b with BPanic => [ERecover; EReturn true None] | _ => [EReturn false None] end)
  end ++
  (if has_safeops h then [EUnlock] else []).

Definition delta (plus minus : ev -> bool) (tr : list ev) : Z :=
  fold_left (fun acc e => if plus e then acc + 1 else if minus e then acc - 1 else acc) tr 0.
Definition is_lock e := match e with ELock => true | _ => false end.
Definition is_unlock e := match e with EUnlock => true | _ => false end.
Definition is_begin e := match e with EBegin => true | _ => false end.
Definition is_cease e := match e with ECease => true | _ => false end.
Definition is_summon e := match e with ESummon => true | _ => false end.
Definition is_nilnil e := match e with EReturn true None => true | _ => false end.
Definition safeops_delta tr := delta is_lock is_unlock tr.
Definition vigil_delta tr := delta is_begin is_cease tr.

(* ---------- requests with several swamp entries (Set, Get) ----------
   These handlers validate EVERY entry in a first loop and only then start to work: the outcome of
   the request is the first entry outcome that is not Proceed, and no entry is executed unless all
   of them pass. [run_many] is the trace of such a handler; [run_many_single_pass] is the trace of a
   handler that validates each entry right before executing it (not the code that exists; kept to
   state what the two-pass order buys). *)
Fixpoint validate_many (c : vcfg) (h : handler) (shs : list shape) : outcome :=
  match shs with
  | [] => Proceed
  | sh :: t => match validate c h sh with Proceed => validate_many c h t | o => o end
  end.
Definition exec_entries (h : handler) (n : nat) : list ev :=
  flat_map (fun _ => [ESummon; EBegin; ECease]) (seq 0 n).
Definition ret_of (o : outcome) : list ev :=
  match o with
  | Reject e wr => [EReturn (negb wr) (Some e)]
  | PanicAt => [ERecover; EReturn true None]
  | Proceed => [EReturn false None]
  end.
Definition run_many (c : vcfg) (h : handler) (shs : list shape) : list ev :=
  [ELock] ++
  match validate_many c h shs with
  | Proceed => exec_entries h (length shs) ++ ret_of Proceed
  | o => ret_of o
  end ++ [EUnlock].
Fixpoint single_pass (c : vcfg) (h : handler) (shs : list shape) : list ev :=
  match shs with
  | [] => ret_of Proceed
  | sh :: t => match validate c h sh with
               | Proceed => [ESummon; EBegin; ECease] ++ single_pass c h t
               | o => ret_of o
               end
  end.
Definition run_many_single_pass (c : vcfg) (h : handler) (shs : list shape) : list ev :=
  [ELock] ++ single_pass c h shs ++ [EUnlock].
Definition is_reject_ret e := match e with EReturn _ (Some _) => true | _ => false end.

(* ---------- evaluation of the C26 correspondence cases ---------- *)
(* observation of one call: response nil?, gRPC code (0 = no error), recovered panics logged during
   the call, watchdog fired, safeops counter afterwards, number of open swamps whose vigil counter is
   not 0 afterwards *)
Record vcase := {
  vc_h : option handler;   (* None: a handler outside the modelled prefix table (oracle only) *)
  vc_sh : shape;
  vc_nil : bool; vc_code : Z; vc_panics : Z; vc_hang : bool; vc_safeops : Z; vc_vigil_bad : Z;
  vc_escaped : bool;       (* a panic left the handler: no gRPC layer above would have recovered it *)
  vc_changed : bool;       (* existence or contents of a swamp named by the request differ after the call *)
  vc_nilelem : bool        (* the request holds a nil element in a repeated message field (in-process only) *)
}.
Definition code_of (e : err) : Z := match e with EInvalid => 3 | EFailedPre => 9 | EInternal => 13 end.
(* a rejection: no response, and the code of a validation error *)
Definition rejected (v : vcase) : bool := vc_nil v && ((vc_code v =? 3) || (vc_code v =? 9)).
Definition vcheck (v : vcase) : N :=
  if vc_hang v then 4%N
  else if vc_escaped v then 8%N
  else if negb (vc_panics v =? 0) then (if vc_nilelem v then 9%N else 3%N)
  else if rejected v && vc_changed v then 7%N
  else if vc_nil v && (vc_code v =? 0) then 2%N
  else if negb (vc_safeops v =? 0) then 5%N
  else if negb (vc_vigil_bad v =? 0) then 6%N
  else
    match vc_h v with
    | None => 0%N
    | Some h =>
        match validate vcfg_now h (vc_sh v) with
        | Reject e wr => if (vc_code v =? code_of e) && Bool.eqb (vc_nil v) (negb wr) then 0%N else 1%N
        | PanicAt => 1%N
        | Proceed =>
            if strict h && vc_nil v && ((vc_code v =? 3) || (vc_code v =? 9)) then 1%N else 0%N
        end
    end.
Definition check_all (cases : list vcase) : list verdict := check_cases vcheck cases.
Definition SH := Build_shape.
Definition VC := Build_vcase.
