(* Swamp/ClaimsProofs.v — invariants of Swamp/Claims.v (configuration of the current tree) for
   every schedule of any number of claimers and writers, the consequences for a selection step,
   and the machine-checked refutations for the three behaviours of the pinned commit. *)
From HV Require Import Base.Prelude Swamp.Claims.
From Coq Require Import Sorted.

(* ---- list helpers ---------------------------------------------------------------------- *)

Lemma memN_In k l : memN k l = true <-> In k l.
Proof.
  unfold memN. rewrite existsb_exists. split.
  - intros [x [Hi E]]. apply N.eqb_eq in E. subst. assumption.
  - intro H. exists k. split; [assumption|apply N.eqb_refl].
Qed.

Lemma rem_In x k l : In x (rem k l) <-> In x l /\ x <> k.
Proof.
  induction l as [|y t IH]; simpl; [tauto|].
  destruct (N.eqb y k) eqn:E.
  - apply N.eqb_eq in E. subst. rewrite IH. split; [tauto|]. intros [[->|H] Hn]; tauto.
  - apply N.eqb_neq in E. simpl. rewrite IH. split; [intros [->|[H Hn]]; tauto | tauto].
Qed.

Lemma rem_NoDup k l : NoDup l -> NoDup (rem k l).
Proof.
  induction l as [|y t IH]; simpl; intro H; [constructor|].
  inversion H as [|? ? Hn Ht]; subst. destruct (N.eqb y k); [auto|].
  constructor; [rewrite rem_In; tauto | auto].
Qed.

Lemma ins_In x k l : In x (ins k l) <-> In x l \/ x = k.
Proof.
  unfold ins. destruct (memN k l) eqn:E.
  - apply memN_In in E. split; [tauto|]. intros [H| ->]; assumption.
  - rewrite in_app_iff. simpl. split; [intros [H|[H|[]]]; auto | intros [H|H]; auto].
Qed.

Lemma ins_NoDup k l : NoDup l -> NoDup (ins k l).
Proof.
  unfold ins. destruct (memN k l) eqn:E; [auto|]. intro H.
  assert (~ In k l) as Hn by (rewrite <- memN_In; congruence).
  clear E. induction l as [|y t IH]; simpl.
  - constructor; [tauto|constructor].
  - inversion H as [|? ? Hy Ht]; subst. constructor.
    + rewrite in_app_iff. simpl. intros [Hi|[->|[]]]; [tauto| apply Hn; left; reflexivity].
    + apply IH; [assumption|]. intro Hi; apply Hn; right; assumption.
Qed.

Lemma rem_all_In x ks l : In x (rem_all ks l) <-> In x l /\ ~ In x ks.
Proof.
  revert l; induction ks as [|k t IH]; intro l; simpl; [tauto|].
  rewrite IH, rem_In. split.
  - intros [[H Hn] Ht]. split; [assumption|]. intros [E|E]; [apply Hn; symmetry; assumption|contradiction].
  - intros [H Hn]. repeat split; [assumption| |]; intro E; apply Hn; [left; symmetry; assumption|right; assumption].
Qed.

Lemma rem_all_NoDup ks l : NoDup l -> NoDup (rem_all ks l).
Proof. revert l; induction ks as [|k t IH]; intro l; simpl; auto using rem_NoDup. Qed.

Lemma lookup_key k l r : lookup k l = Some r -> rk r = k.
Proof.
  induction l as [|h t IH]; simpl; [discriminate|].
  destruct (N.eqb (rk h) k) eqn:E; [intro H; inversion H; subst; apply N.eqb_eq; assumption | assumption].
Qed.

Lemma lookup_replace_same k r' l r : rk r' = k -> lookup k l = Some r -> lookup k (replace k r' l) = Some r'.
Proof.
  intro Hk. induction l as [|h t IH]; simpl; [discriminate|].
  destruct (N.eqb (rk h) k) eqn:E; simpl.
  - intros _. rewrite Hk, N.eqb_refl. reflexivity.
  - rewrite E. assumption.
Qed.

Lemma lookup_replace_other k k' r' l : rk r' = k -> k' <> k -> lookup k' (replace k r' l) = lookup k' l.
Proof.
  intros Hk Hne. induction l as [|h t IH]; simpl; [reflexivity|].
  destruct (N.eqb (rk h) k) eqn:E; simpl.
  - apply N.eqb_eq in E. rewrite Hk.
    assert (N.eqb k k' = false) as -> by (apply N.eqb_neq; congruence).
    assert (N.eqb (rk h) k' = false) as -> by (apply N.eqb_neq; congruence). reflexivity.
  - destruct (N.eqb (rk h) k'); [reflexivity|assumption].
Qed.

Lemma lookup_app_some k l x r : lookup k l = Some r -> lookup k (l ++ [x]) = Some r.
Proof. induction l as [|h t IH]; simpl; [discriminate|]. destruct (N.eqb (rk h) k); auto. Qed.

Lemma lookup_app_none k l x : lookup k l = None -> lookup k (l ++ [x]) = if N.eqb (rk x) k then Some x else None.
Proof. induction l as [|h t IH]; simpl; [reflexivity|]. destruct (N.eqb (rk h) k); [discriminate|auto]. Qed.

(* ---- the structural invariant --------------------------------------------------------- *)

Definition Good (rs : list rec) (sl cl' : list N) : Prop :=
  NoDup sl /\ (forall k, In k sl -> alive_k k rs = true) /\ (forall k, In k cl' -> ~ In k sl).

Definition keeps_alive (rs rs' : list rec) (k : N) : Prop :=
  forall k', k' <> k -> alive_k k' rs = true -> alive_k k' rs' = true.

Lemma keeps_replace k r' l : rk r' = k -> keeps_alive l (replace k r' l) k.
Proof. intros Hk k' Hne. unfold alive_k. rewrite lookup_replace_other by assumption. auto. Qed.

Lemma alive_replace_same k r' l r : rk r' = k -> lookup k l = Some r -> alive_k k (replace k r' l) = ralive r'.
Proof. intros Hk H. unfold alive_k. rewrite (lookup_replace_same _ _ _ _ Hk H). reflexivity. Qed.

(* removing k from the slice: nothing is required of k *)
Lemma good_rem rs rs' sl cl0 cl1 k :
  Good rs sl cl0 -> keeps_alive rs rs' k -> (forall x, In x cl1 -> In x cl0) ->
  Good rs' (rem k sl) cl1.
Proof.
  intros [Hn [Ha Hc]] Hk Hs. repeat split.
  - apply rem_NoDup; assumption.
  - intros x Hx. apply rem_In in Hx as [Hx Hne]. auto.
  - intros x Hx Hi. apply rem_In in Hi as [Hi _]. eapply Hc; eauto.
Qed.

(* (re-)inserting k: k must be alive afterwards and leaves the claimed set *)
Lemma good_ins rs rs' sl cl0 k :
  Good rs sl cl0 -> keeps_alive rs rs' k -> alive_k k rs' = true ->
  Good rs' (ins k (rem k sl)) (rem k cl0).
Proof.
  intros [Hn [Ha Hc]] Hk Hal. repeat split.
  - apply ins_NoDup, rem_NoDup; assumption.
  - intros x Hx. apply ins_In in Hx as [Hx| ->]; [|assumption].
    apply rem_In in Hx as [Hx Hne]. auto.
  - intros x Hx Hi. apply rem_In in Hx as [Hx Hne]. apply ins_In in Hi as [Hi|Hi]; [|contradiction].
    apply rem_In in Hi as [Hi _]. eapply Hc; eauto.
Qed.

Lemma good_same_slice rs rs' sl cl0 :
  Good rs sl cl0 -> (forall k, alive_k k rs = true -> alive_k k rs' = true) -> Good rs' sl cl0.
Proof. intros [Hn [Ha Hc]] H. repeat split; auto. Qed.

Lemma good_wstep w s rs sl cl' :
  Good (recs s) (slice s) (cl s) -> wstep w s = (rs, sl, cl') -> Good rs sl cl'.
Proof.
  intros HG. destruct w as [k|k st grp e|k st|k e]; simpl.
  - destruct (lookup k (recs s)) as [r|] eqn:E; [|intro H; inversion H; subst; assumption].
    destruct (ralive r); intro H; inversion H; subst; [|assumption].
    eapply good_rem; eauto. apply keeps_replace; reflexivity.
  - destruct (lookup k (recs s)) as [r|] eqn:E; intro H; inversion H; subst; clear H.
    + destruct (Z.eqb e 0).
      * eapply good_rem; eauto; [apply keeps_replace; reflexivity | intros x Hx; apply rem_In in Hx; tauto].
      * eapply good_ins; eauto; [apply keeps_replace; reflexivity|].
        erewrite alive_replace_same; eauto.
    + assert (KA : keeps_alive (recs s) (recs s ++ [{| rk := k; rst := st; rgrp := grp; rexp := e; rg := 0; ralive := true |}]) k).
      { intros k' Hne. unfold alive_k. destruct (lookup k' (recs s)) as [r'|] eqn:E'; [|discriminate].
        erewrite lookup_app_some; eauto. }
      destruct (Z.eqb e 0).
      * eapply good_rem; eauto. intros x Hx; apply rem_In in Hx; tauto.
      * eapply good_ins; eauto. unfold alive_k. rewrite lookup_app_none by assumption. simpl.
        rewrite N.eqb_refl. reflexivity.
  - destruct (lookup k (recs s)) as [r|] eqn:E; [|intro H; inversion H; subst; assumption].
    destruct (ralive r) eqn:Al; intro H; inversion H; subst; [|assumption].
    eapply good_same_slice; eauto. intros k' Hk'. destruct (N.eq_dec k' k) as [->|Hne].
    + erewrite alive_replace_same; eauto.
    + eapply keeps_replace; eauto.
  - destruct (lookup k (recs s)) as [r|] eqn:E; [|intro H; inversion H; subst; assumption].
    destruct (ralive r) eqn:Al; intro H; inversion H; subst; [|assumption].
    destruct (Z.eqb e 0).
    + eapply good_rem; eauto; [apply keeps_replace; reflexivity | intros x Hx; apply rem_In in Hx; tauto].
    + eapply good_ins; eauto; [apply keeps_replace; reflexivity|]. erewrite alive_replace_same; eauto.
Qed.

Lemma good_select rs sl cl0 keys : Good rs sl cl0 -> Good rs (rem_all keys sl) (cl0 ++ keys).
Proof.
  intros [Hn [Ha Hc]]. repeat split.
  - apply rem_all_NoDup; assumption.
  - intros k Hk. apply rem_all_In in Hk as [Hk _]. auto.
  - intros k Hk Hi. apply rem_all_In in Hi as [Hi Hnk]. apply in_app_iff in Hk as [Hk|Hk]; [eapply Hc; eauto|tauto].
Qed.

Lemma good_reindex sel rs : forall sl cl0 sl' cl1,
  Good rs sl cl0 -> reindex cfg_now sel rs sl cl0 = (sl', cl1) -> Good rs sl' cl1.
Proof.
  induction sel as [|[k g] t IH]; simpl; intros sl cl0 sl' cl1 HG H.
  - inversion H; subst; assumption.
  - destruct (lookup k rs) as [r|] eqn:E; [|eapply IH; eauto].
    destruct (still_there cfg_now k g rs && negb (Z.eqb (rexp r) 0)) eqn:C; [|eapply IH; eauto].
    eapply IH; [|exact H].
    apply andb_true_iff in C as [C _]. unfold still_there in C. rewrite E in C. simpl in C.
    apply andb_true_iff in C as [Al _].
    destruct HG as [Hn [Ha Hc]]. repeat split.
    + apply ins_NoDup; assumption.
    + intros x Hx. apply ins_In in Hx as [Hx| ->]; [auto|]. unfold alive_k. rewrite E. assumption.
    + intros x Hx Hi. apply rem_In in Hx as [Hx Hne]. apply ins_In in Hi as [Hi|Hi]; [eapply Hc; eauto|contradiction].
Qed.

(* ---- walk: what a selection step can see ---------------------------------------------- *)

Lemma ins_sorted_In x y l : In x (ins_sorted y l) <-> x = y \/ In x l.
Proof.
  induction l as [|h t IH]; simpl; [split; [intros [H|[]]; auto | intros [H|[]]; auto]|].
  destruct (Z.ltb (rexp y) (rexp h)); simpl; [split; [intros [H|H]; auto | intros [H|H]; auto]|].
  rewrite IH. split; [intros [H|[H|H]]; auto | intros [H|[H|H]]; auto].
Qed.

Lemma walk_aux_In rs r : forall l,
  In r (fold_right (fun k acc => match lookup k rs with Some x => ins_sorted x acc | None => acc end) [] l) ->
  In (rk r) l /\ lookup (rk r) rs = Some r.
Proof.
  induction l as [|k t IH]; simpl; [tauto|].
  destruct (lookup k rs) as [x|] eqn:E.
  - intro H. apply ins_sorted_In in H as [->|H].
    + pose proof (lookup_key _ _ _ E) as Hk. rewrite Hk. auto.
    + destruct (IH H). auto.
  - intro H. destruct (IH H). auto.
Qed.

Lemma walk_In s r : In r (walk s) -> In (rk r) (slice s) /\ lookup (rk r) (recs s) = Some r.
Proof.
  unfold walk. intro H. apply walk_aux_In in H as [H1 H2]. split; [|assumption].
  apply in_rev. assumption.
Qed.

Definition le_exp (a b : rec) : Prop := (rexp a <= rexp b)%Z.

Lemma ins_sorted_sorted x l : StronglySorted le_exp l -> StronglySorted le_exp (ins_sorted x l).
Proof.
  induction l as [|h t IH]; simpl; intro H; [constructor; constructor|].
  inversion H as [|? ? Ht Hh]; subst.
  destruct (Z.ltb (rexp x) (rexp h)) eqn:E.
  - apply Z.ltb_lt in E. constructor; [assumption|].
    constructor; [unfold le_exp; lia|]. eapply Forall_impl; [|exact Hh]. unfold le_exp. intros; lia.
  - apply Z.ltb_ge in E. constructor; [auto|].
    apply Forall_forall. intros y Hy. apply ins_sorted_In in Hy as [->|Hy]; [assumption|].
    rewrite Forall_forall in Hh. auto.
Qed.

Lemma walk_sorted s : StronglySorted le_exp (walk s).
Proof.
  unfold walk. induction (rev (slice s)) as [|k t IH]; simpl; [constructor|].
  destruct (lookup k (recs s)); [apply ins_sorted_sorted|]; assumption.
Qed.

Lemma firstn_In {A} (x : A) : forall n l, In x (firstn n l) -> In x l.
Proof.
  induction n as [|n IH]; intros [|h t] H; simpl in *; try tauto. destruct H as [H|H]; auto.
Qed.

(* ---- a selection step in a good state -------------------------------------------------- *)

Lemma pred_crit od p ks x : pred cfg_now od p ks x = true -> crit od p x = true.
Proof.
  unfold pred, crit. simpl. intro H. apply andb_true_iff in H as [H H3]. apply andb_true_iff in H as [H1 _].
  rewrite H1, H3. reflexivity.
Qed.

Lemma select_sound s hm od p ks :
  Good (recs s) (slice s) (cl s) ->
  let sel := select cfg_now hm od p ks s in
  length sel <= hm /\
  (forall r, In r sel -> crit od p r = true /\ ralive r = true /\ In (rk r) (slice s) /\ ~ In (rk r) (cl s)) /\
  StronglySorted le_exp sel.
Proof.
  intros [Hn [Ha Hc]] sel. repeat split.
  - unfold sel, select. rewrite firstn_length. lia.
  - apply pred_crit with ks. unfold sel, select in H. apply firstn_In in H. apply filter_In in H. tauto.
  - unfold sel, select in H. apply firstn_In, filter_In in H. destruct H as [H _].
    apply walk_In in H as [Hs Hl]. specialize (Ha _ Hs). unfold alive_k in Ha. rewrite Hl in Ha. assumption.
  - unfold sel, select in H. apply firstn_In, filter_In in H. destruct H as [H _]. apply walk_In in H. tauto.
  - intro Hi. unfold sel, select in H. apply firstn_In, filter_In in H. destruct H as [H _].
    apply walk_In in H as [Hs _]. eapply Hc; eauto.
  - unfold sel, select.
    assert (SF : forall l, StronglySorted le_exp l -> StronglySorted le_exp (filter (pred cfg_now od p ks) l)).
    { induction l as [|h t IH]; simpl; intro H; [constructor|]. inversion H as [|? ? Ht Hh]; subst.
      destruct (pred cfg_now od p ks h); [|auto]. constructor; [auto|].
      apply Forall_forall. intros y Hy. apply filter_In in Hy as [Hy _]. rewrite Forall_forall in Hh. auto. }
    assert (SN : forall n l, StronglySorted le_exp l -> StronglySorted le_exp (firstn n l)).
    { induction n as [|n IH]; intros l H; simpl; [constructor|]. destruct l as [|h t]; [constructor|].
      inversion H as [|? ? Ht Hh]; subst. constructor; [auto|].
      apply Forall_forall. intros y Hy. apply firstn_In in Hy. rewrite Forall_forall in Hh. auto. }
    apply SN, SF, walk_sorted.
Qed.

Lemma monitors_silent s hm od p ks :
  Good (recs s) (slice s) (cl s) -> monitors od p (select cfg_now hm od p ks s) s = [].
Proof.
  intro HG. destruct (select_sound s hm od p ks HG) as [_ [H _]].
  set (sel := select cfg_now hm od p ks s) in *. unfold monitors.
  assert (E1 : existsb (fun r => memN (rk r) (cl s)) sel = false).
  { apply not_true_is_false. intro E. apply existsb_exists in E as [r [Hr Hm]]. apply memN_In in Hm.
    destruct (H r Hr) as [_ [_ [_ Hn]]]. contradiction. }
  assert (E2 : forallb (crit od p) sel = true) by (apply forallb_forall; intros r Hr; apply H; assumption).
  assert (E3 : forallb ralive sel = true) by (apply forallb_forall; intros r Hr; apply H; assumption).
  rewrite E1, E2, E3. reflexivity.
Qed.

(* ---- the invariant and its preservation -------------------------------------------------- *)

Definition Inv (s : state) : Prop := Good (recs s) (slice s) (cl s) /\ bad s = [].

Lemma mk_fields s t lo rs sl cl' bad' p add :
  nth_error (thr s) t = Some lo ->
  let s' := mk s t rs sl cl' bad' p add in
  recs s' = rs /\ slice s' = sl /\ cl s' = cl' /\ bad s' = bad'.
Proof. intro H. unfold mk. rewrite H. simpl. auto. Qed.

Lemma inv_mk s t lo rs sl cl' bad' p add :
  nth_error (thr s) t = Some lo -> Good rs sl cl' -> bad' = [] -> Inv (mk s t rs sl cl' bad' p add).
Proof.
  intros Ht HG Hb. destruct (mk_fields s t lo rs sl cl' bad' p add Ht) as [E1 [E2 [E3 E4]]].
  unfold Inv. rewrite E1, E2, E3, E4. auto.
Qed.

Lemma step_inv t s s' : Inv s -> step cfg_now t s = Some s' -> Inv s'.
Proof.
  intros [HG Hb]. unfold step. destruct (nth_error (thr s) t) as [lo|] eqn:Ht; [|discriminate].
  destruct (lpc lo) as [p|hm od p ks|todo|hm p ks nst nexp|sel todo nst nexp|sel|]; try discriminate.
  - destruct p as [hm od p|hm p nst nexp|w].
    + intro H; inversion H; subst. eapply inv_mk; eauto.
    + intro H; inversion H; subst. eapply inv_mk; eauto.
    + destruct (wstep w s) as [[rs sl] cl'] eqn:W. intro H; inversion H; subst.
      eapply inv_mk; eauto. eapply good_wstep; eauto.
  - intro H; inversion H; subst. eapply inv_mk; eauto.
    + apply good_select; assumption.
    + rewrite Hb. simpl. apply monitors_silent; assumption.
  - destruct todo as [|k r].
    + intro H; inversion H; subst. eapply inv_mk; eauto.
    + destruct (wstep (WDel k) s) as [[rs sl] cl'] eqn:W. intro H; inversion H; subst.
      eapply inv_mk; eauto. eapply good_wstep; eauto.
  - intro H; inversion H; subst. eapply inv_mk; eauto.
    + apply good_select; assumption.
    + rewrite Hb. simpl. apply monitors_silent; assumption.
  - destruct todo as [|[k g] r].
    + intro H; inversion H; subst. eapply inv_mk; eauto.
    + destruct (lookup k (recs s)) as [x|] eqn:E; [|intro H; inversion H; subst; eapply inv_mk; eauto].
      destruct (still_there cfg_now k g (recs s)) eqn:ST; [|intro H; inversion H; subst; eapply inv_mk; eauto].
      unfold still_there in ST. rewrite E in ST. simpl in ST. apply andb_true_iff in ST as [Al _].
      intro H; inversion H; subst; clear H. rewrite Al. simpl.
      set (e := match nexp with Some e => e | None => rexp x end).
      set (x' := {| rk := k; rst := nst; rgrp := rgrp x; rexp := e; rg := rg x; ralive := true |}).
      eapply inv_mk; eauto; [|rewrite Hb; reflexivity].
      assert (KA : keeps_alive (recs s) (replace k x' (recs s)) k) by (apply keeps_replace; reflexivity).
      assert (AK : alive_k k (replace k x' (recs s)) = true) by (erewrite alive_replace_same; eauto).
      rewrite orb_false_r. destruct (match nexp with Some _ => true | None => false end).
      * destruct (Z.eqb e 0).
        -- eapply good_rem; eauto. intros y Hy; apply rem_In in Hy; tauto.
        -- eapply good_ins; eauto.
      * eapply good_same_slice; eauto. intros k' Hk'. destruct (N.eq_dec k' k) as [->|Hne]; auto.
  - destruct (reindex cfg_now sel (recs s) (slice s) (cl s)) as [sl cl'] eqn:R.
    intro H; inversion H; subst. eapply inv_mk; eauto. eapply good_reindex; eauto.
Qed.

Lemma run_inv sched : forall s, Inv s -> Inv (run cfg_now sched s).
Proof.
  induction sched as [|t r IH]; intros s HI; simpl; [assumption|].
  destruct (step cfg_now t s) as [s'|] eqn:E; [apply IH; eapply step_inv; eauto | apply IH; assumption].
Qed.

Lemma init_slice_In rs k :
  In k (map rk (filter (fun r => ralive r && negb (Z.eqb (rexp r) 0)) rs)) -> NoDup (map rk rs) ->
  alive_k k rs = true.
Proof.
  induction rs as [|h t IH]; simpl; [tauto|]. intros H Hn. inversion Hn as [|? ? Hh Ht]; subst.
  unfold alive_k. simpl.
  destruct (ralive h && negb (Z.eqb (rexp h) 0)) eqn:C; simpl in H.
  - destruct H as [<-|H].
    + rewrite N.eqb_refl. apply andb_true_iff in C. tauto.
    + destruct (N.eqb (rk h) k) eqn:E.
      * apply N.eqb_eq in E. subst. exfalso. apply Hh. apply in_map_iff in H as [r [Hr Hi]].
        apply filter_In in Hi as [Hi _]. rewrite <- Hr. apply in_map. assumption.
      * apply IH; assumption.
  - destruct (N.eqb (rk h) k) eqn:E.
    + apply N.eqb_eq in E. subst. exfalso. apply Hh. apply in_map_iff in H as [r [Hr Hi]].
      apply filter_In in Hi as [Hi _]. rewrite <- Hr. apply in_map. assumption.
    + apply IH; assumption.
Qed.

Lemma NoDup_map_filter {A} (f : A -> N) (g : A -> bool) l : NoDup (map f l) -> NoDup (map f (filter g l)).
Proof.
  induction l as [|h t IH]; simpl; intro H; [constructor|]. inversion H as [|? ? Hh Ht]; subst.
  destruct (g h); simpl; [|auto]. constructor; [|auto].
  intro Hi. apply Hh. apply in_map_iff in Hi as [r [Hr Hi]]. apply filter_In in Hi as [Hi _].
  rewrite <- Hr. apply in_map. assumption.
Qed.

Lemma init_inv rs ps : NoDup (map rk rs) -> Inv (init rs ps).
Proof.
  intro Hn. split; [|reflexivity]. simpl. repeat split.
  - apply NoDup_map_filter; assumption.
  - intros k Hk. apply init_slice_In; assumption.
  - intros k [].
Qed.

(* ---- the theorems -------------------------------------------------------------------------- *)

(* no monitor ever fires: in particular no claimed key was already claimed and not re-inserted
   since, every claimed record satisfies the caller's full criteria and is alive in the state of
   its selection step, and no patch re-saves a record that is not in the swamp *)
Theorem claims_monitors_silent rs ps sched :
  NoDup (map rk rs) -> bad (run cfg_now sched (init rs ps)) = [].
Proof. intro H. apply (run_inv sched _ (init_inv rs ps H)). Qed.

(* every selection step of every reachable state *)
Theorem claims_selection rs ps sched hm od p ks :
  NoDup (map rk rs) ->
  let s := run cfg_now sched (init rs ps) in
  let sel := select cfg_now hm od p ks s in
  length sel <= hm /\
  (forall r, In r sel -> crit od p r = true /\ ralive r = true /\ In (rk r) (slice s) /\ ~ In (rk r) (cl s)) /\
  StronglySorted le_exp sel /\
  sel = firstn hm (filter (pred cfg_now od p ks) (walk s)).
Proof.
  intros H s sel. destruct (run_inv sched _ (init_inv rs ps H)) as [HG _].
  destruct (select_sound s hm od p ks HG) as [A [B C]]. repeat split; auto; apply B; assumption.
Qed.

(* the index never holds a key that is not in the swamp, and claimed keys are out of it *)
Theorem claims_index_alive rs ps sched :
  NoDup (map rk rs) ->
  let s := run cfg_now sched (init rs ps) in
  NoDup (slice s) /\ (forall k, In k (slice s) -> alive_k k (recs s) = true) /\
  (forall k, In k (cl s) -> ~ In k (slice s)).
Proof. intros H s. destruct (run_inv sched _ (init_inv rs ps H)) as [HG _]. exact HG. Qed.

(* ---- non-vacuity ----------------------------------------------------------------------------- *)
Definition r_ (k st grp : N) (e : Z) : rec := {| rk := k; rst := st; rgrp := grp; rexp := e; rg := 0; ralive := true |}.
Definition ex_recs : list rec := [r_ 1 0 1 (-5); r_ 2 1 2 (-4); r_ 3 1 0 (-3); r_ 4 0 3 7; r_ 5 1 5 (-1)].
Definition ex_progs : list prog :=
  [CShift 1 true (PIndexed (st_eq 1) (grp_ge 1)); CPatch 2 None 2 (Some 9%Z); CShift 5 true (PBypass ftrue);
   W (WPatch 2 0); W (WDel 1); W (WPut 1 1 4 (-9))].

(* an interleaving in which the stale candidate (key 2, patched out of status 1 during the
   yield) is NOT claimed, the deleted key 1 is not patched (KEY_NOT_FOUND) and is claimed again
   only after its re-creation *)
Example claims_nonvacuous :
  let s := run cfg_now [0;3;1;1;4;0;1;1;1;1;5;2;2;0;0;2;2;2] (init ex_recs ex_progs) in
  bad s = [] /\ map lres (thr s) =
    [[(5,0)]; [(1,2); (2,0)]; [(1,0); (3,0)]; []; []; []]%N.
Proof. vm_compute. split; reflexivity. Qed.

(* ---- refutations for the pinned commit ------------------------------------------------------ *)
Definition old_nil : cfg := {| nil_skips := true; residual_only := true; reindex_unchecked := false |}.
Definition old_stale : cfg := {| nil_skips := false; residual_only := true; reindex_unchecked := false |}.
Definition old_reidx : cfg := {| nil_skips := false; residual_only := false; reindex_unchecked := true |}.

(* five pending records, ShiftMatching filtered on status = done (1): all five are claimed; no
   concurrency needed *)
Theorem claims_refuted_empty_candidates :
  exists rs ps sched, NoDup (map rk rs) /\
    let s := run old_nil sched (init rs ps) in
    In 2%N (bad s) /\ length (lres (nth 0 (thr s) {| lpc := Done; lres := [] |})) = 5.
Proof.
  exists [r_ 1 0 0 (-5); r_ 2 0 0 (-4); r_ 3 0 0 (-3); r_ 4 0 0 (-2); r_ 5 0 0 (-1)],
         [CShift 10 false (PIndexed (st_eq 1) ftrue)], [0;0;0;0;0;0;0;0].
  split; [repeat constructor; simpl; intuition discriminate|]. vm_compute. split; [tauto|reflexivity].
Qed.

(* stale candidate set: key 1 has status done (1) when the candidates are collected, is patched
   to pending (0) during the yield, and is still claimed *)
Theorem claims_refuted_stale_candidates :
  exists rs ps sched, NoDup (map rk rs) /\
    let s := run old_stale sched (init rs ps) in
    In 2%N (bad s) /\ lres (nth 0 (thr s) {| lpc := Done; lres := [] |}) = [(1, 0)]%N.
Proof.
  exists [r_ 1 1 0 (-5); r_ 2 0 0 (-4)],
         [CShift 10 false (PIndexed (st_eq 1) ftrue); W (WPatch 1 0)], [0;1;0;0;0].
  split; [repeat constructor; simpl; intuition discriminate|]. vm_compute. split; [tauto|reflexivity].
Qed.

(* resurrection: PatchExpired selects key 1, a writer deletes it, the patch re-saves it (4),
   it is alive again and back in the index *)
Theorem claims_refuted_resurrection :
  exists rs ps sched, NoDup (map rk rs) /\
    let s := run old_reidx sched (init rs ps) in
    In 4%N (bad s) /\ alive_k 1 (recs s) = true /\ In 1%N (slice s).
Proof.
  exists [r_ 1 0 0 (-5); r_ 2 0 0 7],
         [CPatch 1 None 2 None; W (WDel 1)], [0;0;1;0;0;0].
  split; [repeat constructor; simpl; intuition discriminate|]. vm_compute. split; [tauto|split; [reflexivity|tauto]].
Qed.
