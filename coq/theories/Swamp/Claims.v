(* Swamp/Claims.v — executable model of the claim paths over one ordered index (the expiry
   index): gateway_shift_matching.go buildShiftMatchingPredicate / gateway_patch_expired.go
   buildPatchExpiredSelectionPredicate (candidate key set built BEFORE the engine call),
   beacon.go ShiftExpired / ShiftMatching / SelectExpiredForPatchWithCap (selection + removal
   from the ordered slice in one step under the beacon lock), swamp.go deleteHandler per shifted
   key, swamp_patch_expired.go per-record patch + ReindexExpiration.  Model only, no proofs.

   Interleaving semantics (DESIGN M6): shared swamp + a list of arbitrarily many thread-locals;
   [step c t s] = next atomic step of thread t.  The gap between predicate construction in the
   gateway and the engine call is a yield (pc ShBuilt / PeBuilt).

   Configuration (the faithful model of the current tree is [cfg_now]; the other values are the
   behaviours of the pinned commit, kept for the machine-checked refutations):
     nil_skips         an EMPTY candidate list yields no key set at all and the indexed condition
                       is skipped (ShiftMatching only; candidateKeySet returned nil)
     residual_only     after the key-set test only the residual filter is evaluated on the live
                       record (now: the full filter)
     reindex_unchecked PatchExpired patches / re-saves / re-indexes a selected record without
                       checking that it still exists in the swamp (now: existence re-check)

   Safety monitors are part of the model: [bad s] collects a code whenever a step violates a
   clause of C11 (1 = a claimed key was already claimed and not re-inserted since; 2 = a claimed
   record does not satisfy the full criteria in the state of the selection step; 3 = a claimed
   record is not alive; 4 = a patch re-saved a record that is not alive).  The theorems say
   [bad] stays empty. *)
From HV Require Import Base.Prelude.

Record cfg := { nil_skips : bool; residual_only : bool; reindex_unchecked : bool }.
Definition cfg_now : cfg := {| nil_skips := false; residual_only := false; reindex_unchecked := false |}.

(* status / grp: body fields the filters talk about; exp: expiry relative to "now"
   (0 = none, negative = expired, positive = in the future); g: generation of the treasure
   object stored under the key; alive = present in the main key index *)
Record rec := { rk : N; rst : N; rgrp : N; rexp : Z; rg : nat; ralive : bool }.

Definition due (r : rec) : bool := Z.ltb (rexp r) 0.

Inductive plan :=
| PBypass (f : rec -> bool)                (* no indexable leg: the whole filter is evaluated *)
| PIndexed (i : rec -> bool) (r : rec -> bool).  (* indexed leg i (candidate key set) + residual r *)

Definition full (p : plan) (x : rec) : bool :=
  match p with PBypass f => f x | PIndexed i r => i x && r x end.
Definition resid (p : plan) (x : rec) : bool :=
  match p with PBypass f => f x | PIndexed _ r => r x end.

Inductive wop :=
| WDel (k : N)
| WPut (k st grp : N) (e : Z)      (* create, or overwrite body + expiry of an existing record *)
| WPatch (k st : N)                (* PatchTreasures: set status of an existing record *)
| WExp (k : N) (e : Z).            (* change only the expiry of an existing record *)

Inductive prog :=
| CShift (hm : nat) (onlydue : bool) (p : plan)
| CPatch (hm : nat) (p : option plan) (nst : N) (nexp : option Z)  (* None = expiry untouched *)
| W (w : wop).

Inductive pc :=
| Idle (p : prog)
| ShBuilt (hm : nat) (onlydue : bool) (p : plan) (ks : option (list N))
| ShSel (todo : list N)
| PeBuilt (hm : nat) (p : option plan) (ks : option (list N)) (nst : N) (nexp : option Z)
| PeSel (sel : list (N * nat)) (todo : list (N * nat)) (nst : N) (nexp : option Z)
| PeReidx (sel : list (N * nat))
| Done.

Record local := { lpc : pc; lres : list (N * N) }.

Record state := {
  recs : list rec;        (* every key ever stored; [ralive] tells whether it is in the swamp *)
  slice : list N;         (* keys in the ordered slice of the index *)
  cl : list N;            (* ghost: keys claimed and not (re-)inserted into the slice since *)
  bad : list N;           (* ghost: fired monitors *)
  thr : list local
}.

Fixpoint lookup (k : N) (l : list rec) : option rec :=
  match l with [] => None | r :: t => if N.eqb (rk r) k then Some r else lookup k t end.
Fixpoint replace (k : N) (r' : rec) (l : list rec) : list rec :=
  match l with [] => [] | r :: t => if N.eqb (rk r) k then r' :: t else r :: replace k r' t end.
Definition memN (k : N) (l : list N) : bool := existsb (N.eqb k) l.
Fixpoint rem (k : N) (l : list N) : list N :=
  match l with [] => [] | x :: t => if N.eqb x k then rem k t else x :: rem k t end.
Definition ins (k : N) (l : list N) : list N := if memN k l then l else l ++ [k].
Fixpoint rem_all (ks : list N) (l : list N) : list N :=
  match ks with [] => l | k :: t => rem_all t (rem k l) end.

Definition alive_k (k : N) (l : list rec) : bool :=
  match lookup k l with Some r => ralive r | None => false end.

Fixpoint upd {A} (n : nat) (x : A) (l : list A) : list A :=
  match l, n with
  | [], _ => []
  | _ :: t, O => x :: t
  | h :: t, S k => h :: upd k x t
  end.

(* walk order of the index: ascending expiry (stable) *)
Fixpoint ins_sorted (x : rec) (l : list rec) : list rec :=
  match l with
  | [] => [x]
  | y :: t => if Z.ltb (rexp x) (rexp y) then x :: l else y :: ins_sorted x t
  end.
Definition walk (s : state) : list rec :=
  fold_right (fun k acc => match lookup k (recs s) with Some r => ins_sorted r acc | None => acc end)
             [] (rev (slice s)).

(* the per-treasure predicate the engine evaluates on the live record *)
Definition pred (c : cfg) (onlydue : bool) (p : option plan) (ks : option (list N)) (x : rec) : bool :=
  (if onlydue then due x else true) &&
  match ks with None => true | Some l => memN (rk x) l end &&
  match p with None => true | Some q => if residual_only c then resid q x else full q x end.

(* the selection criteria the caller asked for *)
Definition crit (onlydue : bool) (p : option plan) (x : rec) : bool :=
  (if onlydue then due x else true) && match p with None => true | Some q => full q x end.

Definition candidates (q : plan) (l : list rec) : option (list N) :=
  match q with
  | PBypass _ => None
  | PIndexed i _ => Some (map rk (filter (fun r => ralive r && i r) l))
  end.

Definition select (c : cfg) (hm : nat) (od : bool) (p : option plan) (ks : option (list N)) (s : state) : list rec :=
  firstn hm (filter (pred c od p ks) (walk s)).

(* monitors evaluated at a selection step *)
Definition monitors (od : bool) (p : option plan) (sel : list rec) (s : state) : list N :=
  (if existsb (fun r => memN (rk r) (cl s)) sel then [1%N] else []) ++
  (if forallb (crit od p) sel then [] else [2%N]) ++
  (if forallb ralive sel then [] else [3%N]).

Definition wstep (w : wop) (s : state) : list rec * list N * list N :=
  match w with
  | WDel k =>
      match lookup k (recs s) with
      | Some r => if ralive r
                  then (replace k {| rk := k; rst := rst r; rgrp := rgrp r; rexp := rexp r; rg := rg r; ralive := false |} (recs s),
                        rem k (slice s), cl s)
                  else (recs s, slice s, cl s)
      | None => (recs s, slice s, cl s)
      end
  | WPut k st grp e =>
      let sl := if Z.eqb e 0 then rem k (slice s) else ins k (rem k (slice s)) in
      match lookup k (recs s) with
      | Some r =>
          let g := if ralive r then rg r else S (rg r) in
          (replace k {| rk := k; rst := st; rgrp := grp; rexp := e; rg := g; ralive := true |} (recs s), sl, rem k (cl s))
      | None =>
          (recs s ++ [{| rk := k; rst := st; rgrp := grp; rexp := e; rg := 0; ralive := true |}], sl, rem k (cl s))
      end
  | WPatch k st =>
      match lookup k (recs s) with
      | Some r => if ralive r
                  then (* a body patch does not touch the expiry index *)
                       (replace k {| rk := k; rst := st; rgrp := rgrp r; rexp := rexp r; rg := rg r; ralive := true |} (recs s),
                        slice s, cl s)
                  else (recs s, slice s, cl s)
      | None => (recs s, slice s, cl s)
      end
  | WExp k e =>
      match lookup k (recs s) with
      | Some r => if ralive r
                  then (replace k {| rk := k; rst := rst r; rgrp := rgrp r; rexp := e; rg := rg r; ralive := true |} (recs s),
                        (if Z.eqb e 0 then rem k (slice s) else ins k (rem k (slice s))), rem k (cl s))
                  else (recs s, slice s, cl s)
      | None => (recs s, slice s, cl s)
      end
  end.

Definition mk (s : state) (t : nat) (rs : list rec) (sl cl' bad' : list N) (p : pc) (add : list (N * N)) : state :=
  match nth_error (thr s) t with
  | Some lo => {| recs := rs; slice := sl; cl := cl'; bad := bad';
                  thr := upd t {| lpc := p; lres := lres lo ++ add |} (thr s) |}
  | None => s
  end.

(* may the per-record patch / re-index touch record (k, g)? *)
Definition still_there (c : cfg) (k : N) (g : nat) (l : list rec) : bool :=
  match lookup k l with
  | Some r => reindex_unchecked c || (ralive r && Nat.eqb (rg r) g)
  | None => false
  end.

Fixpoint reindex (c : cfg) (sel : list (N * nat)) (l : list rec) (sl cl' : list N) : list N * list N :=
  match sel with
  | [] => (sl, cl')
  | (k, g) :: t =>
      match lookup k l with
      | Some r =>
          if still_there c k g l && negb (Z.eqb (rexp r) 0)
          then reindex c t l (ins k sl) (rem k cl')
          else reindex c t l sl cl'
      | None => reindex c t l sl cl'
      end
  end.

Definition step (c : cfg) (t : nat) (s : state) : option state :=
  match nth_error (thr s) t with
  | None => None
  | Some lo =>
      match lpc lo with
      | Done => None
      | Idle (W w) =>
          let '(rs, sl, cl') := wstep w s in Some (mk s t rs sl cl' (bad s) Done [])
      | Idle (CShift hm od p) =>
          let ks := match candidates p (recs s) with
                    | Some [] => if nil_skips c then None else Some []
                    | x => x
                    end in
          Some (mk s t (recs s) (slice s) (cl s) (bad s) (ShBuilt hm od p ks) [])
      | ShBuilt hm od p ks =>
          let sel := select c hm od (Some p) ks s in
          let keys := map rk sel in
          Some (mk s t (recs s) (rem_all keys (slice s)) (cl s ++ keys)
                   (bad s ++ monitors od (Some p) sel s) (ShSel keys) (map (fun k => (k, 0%N)) keys))
      | ShSel [] => Some (mk s t (recs s) (slice s) (cl s) (bad s) Done [])
      | ShSel (k :: r) =>
          (* deleteHandler(key): deletes whatever is stored under the key now *)
          let '(rs, sl, cl') := wstep (WDel k) s in
          Some (mk s t rs sl cl' (bad s) (ShSel r) [])
      | Idle (CPatch hm p nst nexp) =>
          let ks := match p with Some q => candidates q (recs s) | None => None end in
          Some (mk s t (recs s) (slice s) (cl s) (bad s) (PeBuilt hm p ks nst nexp) [])
      | PeBuilt hm p ks nst nexp =>
          let sel := select c hm true p ks s in
          let keys := map rk sel in
          let kg := map (fun r => (rk r, rg r)) sel in
          Some (mk s t (recs s) (rem_all keys (slice s)) (cl s ++ keys)
                   (bad s ++ monitors true p sel s) (PeSel kg kg nst nexp) [])
      | PeSel sel [] nst nexp => Some (mk s t (recs s) (slice s) (cl s) (bad s) (PeReidx sel) [])
      | PeSel sel ((k, g) :: r) nst nexp =>
          match lookup k (recs s) with
          | Some x =>
              if still_there c k g (recs s) then
                let e := match nexp with Some e => e | None => rexp x end in
                let x' := {| rk := k; rst := nst; rgrp := rgrp x; rexp := e; rg := rg x; ralive := true |} in
                (* Save: SaveFunction refreshes the expiry-index entry (drop + re-add unless the new
                   expiry is 0) only when this patch called SetExpirationTime (the change flags are
                   reset after every save); a record that is not in the main index is added as new.
                   An untouched expiry leaves the index alone: the record comes back at the final
                   re-index. *)
                let touched := match nexp with Some _ => true | None => false end || negb (ralive x) in
                let sl := if touched then (if Z.eqb e 0 then rem k (slice s) else ins k (rem k (slice s))) else slice s in
                let cl' := if touched then rem k (cl s) else cl s in
                Some (mk s t (replace k x' (recs s)) sl cl'
                         (bad s ++ (if ralive x then [] else [4%N])) (PeSel sel r nst nexp) [(k, 0%N)])
              else Some (mk s t (recs s) (slice s) (cl s) (bad s) (PeSel sel r nst nexp) [(k, 2%N)])
          | None => Some (mk s t (recs s) (slice s) (cl s) (bad s) (PeSel sel r nst nexp) [(k, 2%N)])
          end
      | PeReidx sel =>
          let '(sl, cl') := reindex c sel (recs s) (slice s) (cl s) in
          Some (mk s t (recs s) sl cl' (bad s) Done [])
      end
  end.

Fixpoint run (c : cfg) (sched : list nat) (s : state) : state :=
  match sched with
  | [] => s
  | t :: r => match step c t s with Some s' => run c r s' | None => run c r s end
  end.

Definition init (rs : list rec) (ps : list prog) : state :=
  {| recs := rs;
     slice := map rk (filter (fun r => ralive r && negb (Z.eqb (rexp r) 0)) rs);
     cl := []; bad := [];
     thr := map (fun p => {| lpc := Idle p; lres := [] |}) ps |}.

(* ---- macro steps (forced schedules through the hook points) ------------------------------ *)
Inductive mstep :=
| MBuilt (t : nat)     (* run until the predicate is built (gateway.*.predicateBuilt) *)
| MSelected (t : nat)  (* run until the selection is done (swamp.*.selected) *)
| MPatched (t : nat)   (* PatchExpired: run until all patches are applied (beforeReindex) *)
| MFinish (t : nat).

Fixpoint until (c : cfg) (stop : pc -> bool) (t : nat) (fuel : nat) (s : state) : option state :=
  match fuel with
  | O => None
  | S f =>
      match step c t s with
      | None => None
      | Some s' =>
          match nth_error (thr s') t with
          | Some lo => if stop (lpc lo) then Some s' else until c stop t f s'
          | None => None
          end
      end
  end.

Fixpoint finish (c : cfg) (t : nat) (fuel : nat) (s : state) : option state :=
  match fuel with
  | O => None
  | S f =>
      match nth_error (thr s) t with
      | Some lo => match lpc lo with
                   | Done => Some s
                   | _ => match step c t s with Some s' => finish c t f s' | None => None end
                   end
      | None => None
      end
  end.

Definition is_built (p : pc) : bool := match p with ShBuilt _ _ _ _ | PeBuilt _ _ _ _ _ => true | _ => false end.
Definition is_selected (p : pc) : bool := match p with ShSel _ | PeSel _ _ _ _ => true | _ => false end.
Definition is_patched (p : pc) : bool := match p with PeReidx _ => true | _ => false end.

Definition mrun1 (c : cfg) (m : mstep) (s : state) : option state :=
  match m with
  | MBuilt t => until c is_built t 2 s
  | MSelected t => until c is_selected t 3 s
  | MPatched t => until c is_patched t 1000 s
  | MFinish t => finish c t 1000 s
  end.

Fixpoint mrun (c : cfg) (ms : list mstep) (s : state) : option state :=
  match ms with
  | [] => Some s
  | m :: r => match mrun1 c m s with Some s' => mrun c r s' | None => None end
  end.

(* ---- property oracle on the implementation's observations ------------------------------- *)
(* What the harness saw, in order.  A claim event carries the caller's criteria and the records
   as they were at the selection step (Shift: the returned clones; PatchExpired: the state read
   while every other thread was parked). *)
Inductive oev :=
| OClaim (t : nat) (inplace : bool) (hm : nat) (od : bool) (p : option plan) (snap : list rec)
         (pre : list rec)  (* the records stored under the claimed keys when the selection step began
                              (read while every other thread was parked); [] = not observed *)
| OPatched (t : nat) (res : list (N * N))   (* PatchExpired finished its patches: (key, status) *)
| OReidx (t : nat) (ks : list N)            (* PatchExpired t ran its final re-index over its selection ks *)
| OPut (k : N)                              (* a writer created or re-scheduled key k *)
| ODel (k : N).                             (* a writer's Delete of k succeeded *)

(* same stored record: key, body fields and expiry *)
Definition rec_same (a b : rec) : bool :=
  N.eqb (rk a) (rk b) && N.eqb (rst a) (rst b) && N.eqb (rgrp a) (rgrp b) && Z.eqb (rexp a) (rexp b).

Fixpoint sorted_exp (l : list rec) : bool :=
  match l with
  | x :: ((y :: _) as t) => Z.leb (rexp x) (rexp y) && sorted_exp t
  | _ => true
  end.

Fixpoint nodupN (l : list N) : bool :=
  match l with [] => true | x :: t => negb (memN x t) && nodupN t end.

(* taken: keys handed to a shift claimer and not re-put since; fl: (t, key) in-place claims in
   flight; dead: keys deleted by a writer and not re-put since.
   codes: 12 same key to two claimers; 13 claimed record did not satisfy the criteria at claim
   time; 14 a deleted key was returned / patched; 15 a deleted key is present at the end;
   16 more than HowMany or not in index order; 17 see below; 18 a returned record is not the
   record that was stored under its key when it was claimed (a deleted treasure object was handed out) *)
Fixpoint oracle (taken : list N) (fl : list (nat * N)) (dead ri : list N) (evs : list oev) (final : list N) : N :=
  match evs with
  | [] => if existsb (fun k => memN k final) dead then 15%N else 0%N
  | OClaim t inplace hm od p snap pre :: r =>
      let keys := map rk snap in
      let dup k := memN k taken || existsb (fun q => N.eqb (snd q) k) fl in
      if negb (nodupN keys) || existsb dup keys then
        (* 17: the key was put back into the index by another PatchExpired's final re-index while
           this in-place claim was in flight (recorded open finding); 12: any other double claim *)
        (if forallb (fun k => negb (dup k) || memN k ri) keys && nodupN keys then 17%N else 12%N)
      else if negb (forallb (crit od p) snap) then 13%N
      else if negb (match pre with [] => true | _ => list_eqb rec_same snap pre end) then 18%N
      else if existsb (fun k => memN k dead) keys then 14%N
      else if Nat.ltb hm (length snap) || negb (sorted_exp snap) then 16%N
      else if inplace then oracle taken (fl ++ map (fun k => (t, k)) keys) dead ri r final
      else oracle (taken ++ keys) fl dead ri r final
  | OPatched t res :: r =>
      if existsb (fun q => N.eqb (snd q) 0 && memN (fst q) dead) res then 14%N
      else oracle taken (filter (fun q => negb (Nat.eqb (fst q) t)) fl) dead ri r final
  | OReidx t ks :: r =>
      (* keys of t's selection that are held by ANOTHER claimer right now (shifted, or in flight in place) *)
      let hit := filter (fun k => memN k taken || existsb (fun q => N.eqb (snd q) k && negb (Nat.eqb (fst q) t)) fl) ks in
      oracle taken fl dead (ri ++ hit) r final
  | OPut k :: r => oracle (rem k taken) (filter (fun q => negb (N.eqb (snd q) k)) fl) (rem k dead) (rem k ri) r final
  | ODel k :: r => oracle taken fl (k :: dead) ri r final
  end.

(* ---- a case ---------------------------------------------------------------------------------- *)
Record case := {
  c_recs : list rec; c_progs : list prog;
  c_replay : bool;                      (* false: free-running stress, only the oracle applies *)
  c_sched : list mstep;
  c_events : list oev;
  c_res : list (list (N * N));          (* per thread (key, code) *)
  c_final : list (N * N)                (* (key, status) of the records in the swamp, by key *)
}.

Definition pair_eqb (a b : N * N) : bool := N.eqb (fst a) (fst b) && N.eqb (snd a) (snd b).
Fixpoint insert_kn (x : N * N) (l : list (N * N)) : list (N * N) :=
  match l with
  | [] => [x]
  | y :: t => if N.leb (fst x) (fst y) then x :: l else y :: insert_kn x t
  end.
Definition final_of (s : state) : list (N * N) :=
  fold_right insert_kn [] (map (fun r => (rk r, rst r)) (filter ralive (recs s))).

(* verdict codes: 0 ok; 1 results/final differ from the model's replay; 3 schedule not executable
   in the model; 5 the model's own monitors fired on the replay (cannot happen: theorem);
   12..16 oracle (see above) *)
Definition check_case (x : case) : N :=
  match oracle [] [] [] [] (c_events x) (map fst (c_final x)) with
  | 0%N =>
      if negb (c_replay x) then 0%N else
      match mrun cfg_now (c_sched x) (init (c_recs x) (c_progs x)) with
      | None => 3%N
      | Some s =>
          if negb (match bad s with [] => true | _ => false end) then 5%N
          else if list_eqb (list_eqb pair_eqb) (map lres (thr s)) (c_res x)
                  && list_eqb pair_eqb (final_of s) (c_final x)
          then 0%N else 1%N
      end
  | v => v
  end.

Definition check_all (cases : list case) : list verdict := check_cases check_case cases.

(* filter vocabulary used by the harness *)
Definition st_eq (v : N) (r : rec) : bool := N.eqb (rst r) v.
Definition st_ne (v : N) (r : rec) : bool := negb (N.eqb (rst r) v).
Definition grp_ge (v : N) (r : rec) : bool := N.leb v (rgrp r).
Definition grp_eq (v : N) (r : rec) : bool := N.eqb (rgrp r) v.
Definition ftrue (r : rec) : bool := true.
(* lower bound of a time window on the index attribute (FromTime, inclusive) *)
Definition exp_ge (v : Z) (r : rec) : bool := Z.leb v (rexp r).
Definition andp (f g : rec -> bool) (r : rec) : bool := f r && g r.
