(* Swamp/Abs.v — the abstraction from the faithful server state (Api.v) to the reference state
   (Spec.v), the well-formedness of stored records, and which keys of a swamp carry leftovers of a
   request outside the specified inputs ("tainted"). Definitions only; used by the proofs
   (ApiProofs.v) and by the case checker (ApiCheck.v). *)
From HV Require Import Base.Prelude Swamp.Api Swamp.Spec.
Local Open Scope Z_scope.

Definition sval_of (c : option content) : sval :=
  match c with
  | None => SVoid
  | Some c =>
      if c_void c then SVoid
      else match c_sc c with
           | Some (t, z) => SSc t z
           | None => match c_sl c with Some l => SSl l | None => SVoid end
           end
  end.
Definition abs_rec (r : rec) : srec := {| s_val := sval_of (r_c r); s_meta := r_meta r |}.
Definition amap {A B} (f : A -> B) (l : list (Z * A)) : list (Z * B) := map (fun p => (fst p, f (snd p))) l.
Definition abs_swamp (x : swamp) : sswamp := amap abs_rec (recs x).
Definition abs (s : srv) : sstate := amap abs_swamp s.

(* stored records of a history inside the specified inputs: one form of content, no pending flags *)
Definition single (c : option content) : bool :=
  match c with
  | None => false
  | Some c =>
      match c_void c, c_sc c, c_sl c with
      | true, None, None => true
      | false, Some _, None => true
      | false, None, Some _ => true
      | _, _, _ => false
      end
  end.
Definition wf_rec (r : rec) : bool := negb (r_dirty r) && single (r_c r).
Definition aall {A} (f : A -> bool) (l : list (Z * A)) : bool := forallb (fun p => f (snd p)) l.
Definition wf_swamp (x : swamp) : bool :=
  match infl x with [] => true | _ => false end && aall wf_rec (recs x).
Definition wf (s : srv) : bool := aall wf_swamp s.


(* ---------- leftovers of requests outside the specified inputs ----------
   A key is tainted when its stored record carries pending change flags or more than one form of
   content, or when a detached record for it is parked in creatingTreasures. Only requests that
   consult such a record individually are sensitive to it: the writers (Set, Increment*,
   Uint32SlicePush/Delete), the slice reads, and ShiftByKeys (its clone picks the content by another
   order than GetContentType). Get / GetByKeys / GetAll / Delete / counts / existence are not. *)
Definition tainted (x : swamp) (k : Z) : bool :=
  ahas k (infl x) || match aget k (recs x) with Some r => negb (wf_rec r) | None => false end.
Definition sensitive_keys (q : request) : option (Z * list Z) :=
  match q with
  | QSet sw _ _ (Some its) => Some (sw, map kv_key its)
  | QShiftByKeys sw keys => Some (sw, keys)
  | QInc _ sw k _ _ _ _ => Some (sw, [k])
  | QPush sw pairs => Some (sw, map fst pairs)
  | QSlDel sw pairs => Some (sw, map fst pairs)
  | QSize sw k => Some (sw, [k])
  | QIsVal sw k _ => Some (sw, [k])
  | _ => None
  end.
Definition clean (s : srv) (q : request) : bool :=
  match sensitive_keys q with
  | None => true
  | Some (sw, ks) => forallb (fun k => negb (tainted (summon s sw) k)) ks
  end.
