(* Swamp/ValidateProofs.v — C26: accounting and validation theorems about Swamp/Validate.v. *)
From HV Require Import Base.Prelude Swamp.Api Swamp.Validate.
Local Open Scope Z_scope.

(* case analysis only on the fields the handler at hand looks at *)
Ltac split_vars :=
  repeat (cbn;
          match goal with
          | |- context [match ?x with _ => _ end] => is_var x; destruct x
          | H : context [match ?x with _ => _ end] |- _ => is_var x; destruct x
          | |- context [negb ?x] => is_var x; destruct x
          | H : context [negb ?x] |- _ => is_var x; destruct x
          | |- context [?x || _] => is_var x; destruct x
          | H : context [?x || _] |- _ => is_var x; destruct x
          | |- context [?x && _] => is_var x; destruct x
          | H : context [?x && _] |- _ => is_var x; destruct x
          end).
Ltac open_shape sh := destruct sh as [n ex ks kvn by0 ke ie wk wl];
  unfold run, validate, check_shape, safeops_delta, vigil_delta in *; cbn [sh_name sh_exists sh_keys sh_kvnil sh_by0 sh_key_empty sh_id_empty sh_wkey_empty sh_wkey_long v_short v_getkeys] in *.

(* safeops: LockSystem is always matched by the deferred UnlockSystem - on a reject, on a panic in
   the validation, on a panic in the body and on every normal return. vigil: BeginVigil is matched by
   the deferred CeaseVigil, except on the auto-destroy paths, where the engine ceases once itself
   (the counter ends at -1 on the destroyed swamp object: the double cease owned by C17). *)
Theorem counters_restored : forall c h sh b,
  safeops_delta (run c h sh b) = 0 /\
  vigil_delta (run c h sh b) =
    match validate c h sh, b with
    | Proceed, BAutoDestroy => if has_vigil h then -1 else 0
    | _, _ => 0
    end.
Proof.
  intros [vs vg] h sh b. open_shape sh. destruct h, b; split_vars; split; reflexivity.
Qed.

(* a Reject happens before any summon / vigil: no swamp is created, opened or pinned *)
Theorem no_side_effect_on_reject : forall c h sh b e wr,
  validate c h sh = Reject e wr ->
  existsb is_summon (run c h sh b) = false /\ existsb is_begin (run c h sh b) = false /\
  existsb is_nilnil (run c h sh b) = false.
Proof.
  intros [vs vg] h sh b e wr H. open_shape sh. destruct h, b; split_vars;
    try discriminate H; repeat split; reflexivity.
Qed.

(* the repaired validation never panics, for every handler and every request shape *)
Theorem well_defined_now : forall h sh, validate vcfg_now h sh <> PanicAt.
Proof. intros h sh. open_shape sh. destruct h; split_vars; discriminate. Qed.

(* ... and then (nil, nil) can only come from a panic inside the body *)
Theorem nilnil_only_from_body_panic : forall h sh b,
  b <> BPanic -> existsb is_nilnil (run vcfg_now h sh b) = false.
Proof.
  intros h sh b Hb. open_shape sh. destruct h, b; try (exfalso; apply Hb; reflexivity); split_vars; reflexivity.
Qed.

(* the pinned commit: every handler that loads the name panics on a short name, Get on Keys = [] *)
Definition short_shape : shape :=
  {| sh_name := NShort; sh_exists := false; sh_keys := KOk; sh_kvnil := false; sh_by0 := false;
     sh_key_empty := false; sh_id_empty := false; sh_wkey_empty := false; sh_wkey_long := false |}.
Definition emptykeys_shape : shape :=
  {| sh_name := NOk; sh_exists := true; sh_keys := KEmptyList; sh_kvnil := false; sh_by0 := false;
     sh_key_empty := false; sh_id_empty := false; sh_wkey_empty := false; sh_wkey_long := false |}.
Theorem well_defined_refuted_pinned :
  (forall h, In h all_handlers -> h <> HLock -> h <> HUnlock -> validate vcfg_pinned h short_shape = PanicAt) /\
  validate vcfg_pinned HGet emptykeys_shape = PanicAt /\
  existsb is_nilnil (run vcfg_pinned HGetAll short_shape BOk) = true.
Proof.
  split; [|split; vm_compute; reflexivity].
  intros h Hin H1 H2. destruct h; try reflexivity; [exfalso; apply H1; reflexivity | exfalso; apply H2; reflexivity].
Qed.

(* non-vacuity: a shape that is rejected, one that proceeds *)
Example ex_reject : validate vcfg_now HGetAll short_shape = Reject EInvalid false.
Proof. reflexivity. Qed.
(* a key of 65536 bytes or more is rejected before the swamp is touched, by every writing handler *)
Theorem long_key_rejected : forall h sh,
  In h [HSet; HInc; HPush] -> sh_name sh = NOk -> sh_kvnil sh = false -> sh_by0 sh = false ->
  sh_wkey_long sh = true -> validate vcfg_now h sh = Reject EInvalid false.
Proof.
  intros h sh Hin Hn Hk Hb Hl. destruct sh as [n ex ks kvn by0 ke ie wk wl]; cbn in Hn, Hk, Hb, Hl; subst.
  destruct Hin as [<-|[<-|[<-|[]]]]; unfold validate, check_shape; cbn; destruct wk; reflexivity.
Qed.

Example ex_proceed : validate vcfg_now HGet
  {| sh_name := NOk; sh_exists := true; sh_keys := KOk; sh_kvnil := false; sh_by0 := false; sh_key_empty := false; sh_id_empty := false; sh_wkey_empty := false; sh_wkey_long := false |} = Proceed.
Proof. reflexivity. Qed.

(* ---- requests with several entries ---- *)
(* Two-pass validation: when the request is answered with a rejection, no entry has been executed -
   whatever the position of the malformed entry - and the system lock is released. *)
Theorem rejected_many_no_side_effect : forall c h shs,
  existsb is_reject_ret (run_many c h shs) = true ->
  existsb is_summon (run_many c h shs) = false /\ existsb is_begin (run_many c h shs) = false /\
  safeops_delta (run_many c h shs) = 0.
Proof.
  intros c h shs H. unfold run_many in *. destruct (validate_many c h shs) as [e wr| |].
  - cbn. repeat split; reflexivity.
  - exfalso. cbn in H. rewrite existsb_app in H. apply orb_true_iff in H as [H|H]; [|cbn in H; discriminate].
    unfold exec_entries in H. induction (seq 0 (length shs)) as [|x t IH]; cbn in H; [discriminate|exact (IH H)].
  - cbn in H. discriminate.
Qed.

(* ... which a single-pass handler does not give: a valid entry followed by a malformed one is
   executed before the request is rejected. *)
Definition ok_shape : shape :=
  {| sh_name := NOk; sh_exists := true; sh_keys := KOk; sh_kvnil := false; sh_by0 := false;
     sh_key_empty := false; sh_id_empty := false; sh_wkey_empty := false; sh_wkey_long := false |}.
Theorem single_pass_refuted :
  existsb is_reject_ret (run_many_single_pass vcfg_now HSet [ok_shape; short_shape]) = true /\
  existsb is_summon (run_many_single_pass vcfg_now HSet [ok_shape; short_shape]) = true.
Proof. vm_compute. split; reflexivity. Qed.
