(* Swamp/ApiCheck.v — evaluation of the C06 correspondence cases (no proofs).

   A case is one history executed on the real gateway: the requests with the canonicalised
   responses the implementation gave, and the final GetAll of every swamp of the key space.
     oracle  (spec):  the observed responses are compared with [spec_step] run on the same requests;
                      a request that never returned is code 3, a recovered panic code 4, a response
                      that differs from the reference model code 2 - unless the history had already
                      left the specified inputs through one of the classes of [Spec.disc], then the
                      first difference is attributed to that class (code 10 + class);
     tie     (model): the observed responses and the final contents must be exactly those of
                      [api_step cfg_now]; a difference is code 1.
   The oracle's code wins over the tie's. *)
From HV Require Export Base.Prelude Swamp.Api Swamp.Spec.
Local Open Scope Z_scope.

(* ---------- flat encodings (only used to compare observations) ---------- *)
Definition b2z (b : bool) : Z := if b then 1 else 0.
Definition enc_list {A} (f : A -> list Z) (l : list A) : list Z :=
  Z.of_nat (length l) :: flat_map f l.
Definition enc_meta (m : meta) : list Z := [m_cat m; m_cby m; m_mat m; m_mby m; m_exp m].
Definition enc_sc (o : option (ty * Z)) : list Z :=
  match o with Some (t, z) => [1; ty_num t; z] | None => [0] end.
Definition enc_view (v : view) : list Z :=
  [v_key v; b2z (v_exist v)] ++ enc_sc (v_sc v) ++ enc_list (fun z => [z]) (v_sl v) ++ enc_meta (v_meta v).
Definition enc_status (s : status) : Z :=
  match s with StNotFound => 0 | StNew => 1 | StUpdated => 2 | StNothing => 3 | StDeleted => 4 end.
Definition enc_err (e : err) : Z := match e with EInvalid => 3 | EFailedPre => 9 | EInternal => 13 end.
Definition enc_ks (l : list (Z * status)) : list Z := enc_list (fun p => [fst p; enc_status (snd p)]) l.
Definition enc_optz (o : option Z) : list Z := match o with Some z => [1; z] | None => [0] end.
Definition enc_resp (r : response) : list Z :=
  match r with
  | RErr e => [1; enc_err e]
  | RRespErr e => [2; enc_err e]
  | RPanic => [3]
  | RNil => [3]            (* both are the observable (nil, nil) *)
  | RHang => [4]
  | ROk => [5]
  | RSet l => 6 :: enc_list (fun p => enc_optz (fst p) ++ enc_ks (snd p)) l
  | RGet l => 7 :: enc_list (fun p => b2z (fst p) :: enc_list enc_view (snd p)) l
  | RViews l => 8 :: enc_list enc_view l
  | RDelete l => 9 :: enc_list (fun p => enc_optz (fst p) ++ enc_ks (snd p)) l
  | RCount l => 10 :: enc_list (fun p => [fst (fst p); snd (fst p); b2z (snd p)]) l
  | RBool b => [11; b2z b]
  | RKeys l => 12 :: enc_list (fun p => [fst p; b2z (snd p)]) l
  | RSize n => [13; n]
  | RInc v i m => [14; v; b2z i] ++ match m with Some m => 1 :: enc_meta m | None => [0] end
  end.

(* GetAll comes out of a Go map: sort by key on both sides *)
Fixpoint ins_view (v : view) (l : list view) : list view :=
  match l with
  | [] => [v]
  | w :: t => if Z.leb (v_key v) (v_key w) then v :: l else w :: ins_view v t
  end.
Definition sort_views (l : list view) : list view := fold_right ins_view [] l.
Definition canon (q : request) (r : response) : response :=
  match q, r with
  | QGetAll _, RViews l => RViews (sort_views l)
  | _, _ => r
  end.
Definition resp_same (q : request) (a b : response) : bool :=
  zlist_eqb (enc_resp (canon q a)) (enc_resp (canon q b)).

Definition is_hang (r : response) : bool := match r with RHang => true | _ => false end.
Definition is_nilnil (r : response) : bool := match r with RPanic | RNil => true | _ => false end.

(* final contents: (swamp, exists, sorted views) *)
Definition final := list (Z * bool * list view).
Definition final_same (obs : final) (mine : Z -> option (list view)) : bool :=
  forallb (fun p =>
             let '(sw, ex, vs) := p in
             match mine sw with
             | None => negb ex
             | Some l => ex && zlist_eqb (enc_list enc_view vs) (enc_list enc_view (sort_views l))
             end) obs.

Record ccase := { cc_hist : list (request * response); cc_final : final }.

(* short constructor names for the generated case files (plain applications elaborate much faster
   than record notation) *)
Definition CC := Build_ccase.
Definition M := Build_meta.
Definition M0 := meta0.
Definition V := Build_view.
Definition KV := Build_kv.
Definition IM := Build_imeta.

(* ---------- oracle ---------- *)
Fixpoint oracle (t : sstate) (cls : Z) (h : list (request * response)) : Z * sstate * Z * bool :=
  (* result: code, final spec state, class, completed *)
  match h with
  | [] => (0, t, cls, true)
  | (q, obs) :: rest =>
      if is_hang obs then (3, t, cls, false)
      else if is_nilnil obs then (4, t, cls, false)
      else
        let d := if Z.eqb cls 0 then disc t q else cls in
        let '(t', r) := spec_step t q in
        if resp_same q r obs then oracle t' d rest
        else (if Z.eqb d 0 then 2 else 10 + d, t, d, false)
  end.
Definition spec_final (t : sstate) (sw : Z) : option (list view) :=
  match aget sw t with Some x => Some (map (fun p => sview (fst p) (snd p)) x) | None => None end.
Definition oracle_code (c : ccase) : Z :=
  let '(code, t, cls, done) := oracle sstate0 0 (cc_hist c) in
  if negb (Z.eqb code 0) then code
  else if final_same (cc_final c) (spec_final t) then 0
  else if Z.eqb cls 0 then 2 else 10 + cls.

(* ---------- tie ---------- *)
Fixpoint tie (s : srv) (h : list (request * response)) : bool * srv * bool :=
  (* ok, final state, completed (no hang) *)
  match h with
  | [] => (true, s, true)
  | (q, obs) :: rest =>
      let '(s', r) := api_step cfg_now s q in
      if resp_same q r obs then (if is_hang obs then (true, s', false) else tie s' rest)
      else (false, s, false)
  end.
Definition api_final (s : srv) (sw : Z) : option (list view) :=
  match aget sw s with Some x => Some (all_views x) | None => None end.
Definition tie_code (c : ccase) : Z :=
  let '(ok, s, done) := tie srv0 (cc_hist c) in
  if negb ok then 1
  else if negb done then 0
  else if final_same (cc_final c) (api_final s) then 0 else 1.

Definition check_case (c : ccase) : N :=
  let o := oracle_code c in
  Z.to_N (if Z.eqb o 0 then tie_code c else o).

Definition check_all (cases : list ccase) : list verdict := check_cases check_case cases.

(* ---------- model -> impl: every short history over one key and a small alphabet ---------- *)
Fixpoint sequences {A} (alphabet : list A) (n : nat) : list (list A) :=
  match n with
  | O => [[]]
  | S k => flat_map (fun s => map (fun a => a :: s) alphabet) (sequences alphabet k)
  end.
