(* Swamp/ApiCheck.v — evaluation of the C06 correspondence cases (no proofs).

   A case is one history executed on the real gateway: the requests with the canonicalised
   responses the implementation gave (the harness ends every history with IsSwampExist and GetAll
   of every swamp of the key space), and the final contents once more as [cc_final].
   See [walk] for the verdict codes. *)
From HV Require Export Base.Prelude Swamp.Api Swamp.Spec Swamp.Abs.
Local Open Scope Z_scope.

(* ---------- flat encodings (only used to compare observations) ---------- *)
Definition b2z (b : bool) : Z := if b then 1 else 0.
Definition enc_list {A} (f : A -> list Z) (l : list A) : list Z :=
  Z.of_nat (length l) :: flat_map f l.
Definition enc_meta (m : meta) : list Z := [m_cat m; m_cby m; m_mat m; m_mby m; m_exp m].
Definition enc_sc (o : option (ty * Z)) : list Z :=
  match o with Some (t, z) => [1; ty_num t; z] | None => [0] end.
Definition enc_view (v : view) : list Z :=
  [v_key v; b2z (v_exist v)] ++ enc_sc (v_sc v) ++ enc_list (fun z => [z]) (v_sl v) ++ enc_meta (v_meta v).
Definition enc_status (s : status) : Z :=
  match s with StNotFound => 0 | StNew => 1 | StUpdated => 2 | StNothing => 3 | StDeleted => 4 end.
Definition enc_err (e : err) : Z := match e with EInvalid => 3 | EFailedPre => 9 | EInternal => 13 end.
Definition enc_ks (l : list (Z * status)) : list Z := enc_list (fun p => [fst p; enc_status (snd p)]) l.
Definition enc_optz (o : option Z) : list Z := match o with Some z => [1; z] | None => [0] end.
Definition enc_resp (r : response) : list Z :=
  match r with
  | RErr e => [1; enc_err e]
  | RRespErr e => [2; enc_err e]
  | RPanic => [3]
  | RNil => [3]            (* both are the observable (nil, nil) *)
  | RHang => [4]
  | ROk => [5]
  | RSet l => 6 :: enc_list (fun p => enc_optz (fst p) ++ enc_ks (snd p)) l
  | RGet l => 7 :: enc_list (fun p => b2z (fst p) :: enc_list enc_view (snd p)) l
  | RViews l => 8 :: enc_list enc_view l
  | RDelete l => 9 :: enc_list (fun p => enc_optz (fst p) ++ enc_ks (snd p)) l
  | RCount l => 10 :: enc_list (fun p => [fst (fst p); snd (fst p); b2z (snd p)]) l
  | RBool b => [11; b2z b]
  | RKeys l => 12 :: enc_list (fun p => [fst p; b2z (snd p)]) l
  | RSize n => [13; n]
  | RInc v i m => [14; v; b2z i] ++ match m with Some m => 1 :: enc_meta m | None => [0] end
  end.

(* GetAll comes out of a Go map: sort by key on both sides *)
Fixpoint ins_view (v : view) (l : list view) : list view :=
  match l with
  | [] => [v]
  | w :: t => if Z.leb (v_key v) (v_key w) then v :: l else w :: ins_view v t
  end.
Definition sort_views (l : list view) : list view := fold_right ins_view [] l.
Definition canon (q : request) (r : response) : response :=
  match q, r with
  | QGetAll _, RViews l => RViews (sort_views l)
  | _, _ => r
  end.
Definition resp_same (q : request) (a b : response) : bool :=
  zlist_eqb (enc_resp (canon q a)) (enc_resp (canon q b)).

Definition is_hang (r : response) : bool := match r with RHang => true | _ => false end.
Definition is_nilnil (r : response) : bool := match r with RPanic | RNil => true | _ => false end.

(* final contents: (swamp, exists, sorted views) *)
Definition final := list (Z * bool * list view).
Definition final_same (obs : final) (mine : Z -> option (list view)) : bool :=
  forallb (fun p =>
             let '(sw, ex, vs) := p in
             match mine sw with
             | None => negb ex
             | Some l => ex && zlist_eqb (enc_list enc_view vs) (enc_list enc_view (sort_views l))
             end) obs.

Record ccase := { cc_hist : list (request * response); cc_final : final }.

(* short constructor names for the generated case files (plain applications elaborate much faster
   than record notation) *)
Definition CC := Build_ccase.
Definition M := Build_meta.
Definition M0 := meta0.
Definition V := Build_view.
Definition KV := Build_kv.
Definition IM := Build_imeta.

(* ---------- the walk: tie and per-request oracle together ----------
   The faithful model is run along the history (state s). For every request the observed response is
   compared with
     - the reference model started from the abstraction of s (the implementation and the model are in
       step up to here, so abs s is the reference state the request meets), and
     - the faithful model.
   A response that differs from the reference model is a violation (code 2) when the request is
   inside the specified inputs (Spec.disc = 0) and clean (it consults no tainted record, Abs.clean);
   otherwise it has to be exactly the modelled deviation - it is then remembered as the known class
   (10 + class) and the walk goes on - and if it is not even that, the tie is broken (code 1).
   A response that agrees with the reference model must agree with the faithful model too (code 1).
   A request that never returned is code 3, an answer (nil, nil) code 4. *)
Fixpoint walk (s : srv) (cls known : Z) (h : list (request * response)) : Z * srv * bool :=
  (* result: code, final model state, completed *)
  match h with
  | [] => (known, s, true)
  | (q, obs) :: rest =>
      if is_hang obs then (3, s, false)
      else if is_nilnil obs then (4, s, false)
      else
        let '(s', rm) := api_step cfg_now s q in
        let d := disc (abs s) q in
        let rs := snd (spec_step (abs s) q) in
        let cls' := if Z.eqb d 0 then cls else d in
        if resp_same q rs obs then
          if resp_same q rm obs then walk s' cls' known rest else (1, s, false)
        else if Z.eqb d 0 && (clean s q || Z.eqb cls 0) then (2, s, false)
        else if resp_same q rm obs then
          walk s' cls' (if Z.eqb known 0 then 10 + cls' else known) rest
        else (1, s, false)
  end.
Definition api_final (s : srv) (sw : Z) : option (list view) :=
  match aget sw s with Some x => Some (all_views x) | None => None end.

Definition check_case (c : ccase) : N :=
  let '(code, s, done) := walk srv0 0 0 (cc_hist c) in
  Z.to_N (if negb done then code
          else if Z.eqb code 1 || Z.eqb code 2 then code
          else if final_same (cc_final c) (api_final s) then code else 1).

Definition check_all (cases : list ccase) : list verdict := check_cases check_case cases.

(* ---------- model -> impl: every short history over one key and a small alphabet ---------- *)
Fixpoint sequences {A} (alphabet : list A) (n : nat) : list (list A) :=
  match n with
  | O => [[]]
  | S k => flat_map (fun s => map (fun a => a :: s) alphabet) (sequences alphabet k)
  end.
