(* Swamp/Index.v — executable model of the ordered indexes ("beacons") of a swamp.
   Model only (no proofs) so that it still runs when a proof breaks.

   Go sources: app/core/hydra/swamp/swamp.go (GetTreasuresByBeacon, findIn*Beacon, buildBeacon,
   treasuresForBeacon, addTreasureToBeacons/addTo*Beacon, SaveFunction, deleteHandler,
   deleteTreasureFromBeacons), app/core/hydra/swamp/beacon/beacon.go (Add, Delete,
   PushManyFromMap, SortBy*, GetManyFromOrderPosition, findTimeRangeBounds), and the gateway's
   Set / Delete / GetByIndex / GetByIndexStream which call them.

   Sort attributes are values of one totally ordered type [skey] = list Z under the
   lexicographic order: integers, timestamps and (dyadic) floats are singleton lists, strings
   and record keys are their byte lists (Go compares strings bytewise).

   A beacon's ordered slice holds pointers to the live treasure objects; a Set on an existing
   key mutates that object in place. The model therefore stores *keys* in the slices and reads
   every attribute through the current record map – which is what makes a missing re-index
   observable as an unsorted slice.

   [legacy = true] reproduces the two maintenance rules of the pinned commit that the fix:
   commits of C07 repaired (addToValueBeacon always re-sorted as Int64; the modified branch of
   SaveFunction refreshed the expiry index only). [legacy = false] is the current code. *)
From HV Require Import Base.Prelude.
From Coq Require Import Sorted Permutation.
Local Open Scope Z_scope.

(* ---- the attribute order ----------------------------------------------------------------- *)
Definition skey := list Z.

Fixpoint skey_leb (a b : skey) : bool :=
  match a, b with
  | [], _ => true
  | _ :: _, [] => false
  | x :: a', y :: b' => if Z.ltb x y then true else if Z.eqb x y then skey_leb a' b' else false
  end.
Definition skey_ltb (a b : skey) : bool := negb (skey_leb b a).
Definition skey_eqb (a b : skey) : bool := list_eqb Z.eqb a b.

(* order of a beacon: ascending sorts with [<], descending with [>] *)
Definition ord_leb (asc : bool) (a b : skey) : bool := if asc then skey_leb a b else skey_leb b a.

(* insertion sort; Go's sort.Slice is not stable, so the order of ties is not specified –
   the theorems are stated up to ties, and the correspondence compares exactly only tie-free *)
Fixpoint insert_by {X} (le : X -> X -> bool) (x : X) (l : list X) : list X :=
  match l with
  | [] => [x]
  | y :: t => if le x y then x :: l else y :: insert_by le x t
  end.
Definition isort {X} (le : X -> X -> bool) (l : list X) : list X := fold_right (insert_by le) [] l.

(* ---- records ----------------------------------------------------------------------------- *)
(* value types: 0 = content that no value index covers (void, bool, bytes, uint32 slice);
   otherwise the number of the protobuf IndexType: 4..7 int8..int64, 8..11 uint8..uint64,
   12 float32, 13 float64, 14 string *)
Definition VT_INT64 : N := 7%N.

Record rec := mkrec {
  r_key : skey;
  r_ct : N;            (* value type of the content *)
  r_val : skey;        (* the content as sort attribute *)
  r_created : Z; r_updated : Z; r_expiry : Z;      (* UnixNano, 0 = not set *)
  r_fc : bool; r_fu : bool; r_fe : bool            (* createdAt/modifiedAt/expiration "changed" flags of the last save *)
}.

Inductive fam := FKey | FCreated | FUpdated | FExpiry | FValue.
Definition fam_eqb (a b : fam) : bool :=
  match a, b with
  | FKey, FKey | FCreated, FCreated | FUpdated, FUpdated | FExpiry, FExpiry | FValue, FValue => true
  | _, _ => false
  end.

(* does the record belong into the index (treasuresForBeacon / the guards of addTreasureToBeacons) *)
Definition has_attr (f : fam) (vt : N) (r : rec) : bool :=
  match f with
  | FKey => true
  | FCreated => negb (r_created r =? 0)
  | FUpdated => negb (r_updated r =? 0)
  | FExpiry => negb (r_expiry r =? 0)
  | FValue => N.eqb (r_ct r) vt
  end.
(* the attribute the index sorts by *)
Definition raw_attr (f : fam) (r : rec) : skey :=
  match f with
  | FKey => r_key r
  | FCreated => [r_created r]
  | FUpdated => [r_updated r]
  | FExpiry => [r_expiry r]
  | FValue => r_val r
  end.

Fixpoint find_rec (k : skey) (rs : list rec) : option rec :=
  match rs with
  | [] => None
  | r :: t => if skey_eqb (r_key r) k then Some r else find_rec k t
  end.
(* attribute of the treasure a slice entry points to *)
Definition key_attr (rs : list rec) (f : fam) (k : skey) : skey :=
  match find_rec k rs with Some r => raw_attr f r | None => [] end.
Definition key_has (rs : list rec) (f : fam) (vt : N) (k : skey) : bool :=
  match find_rec k rs with Some r => has_attr f vt r | None => false end.

(* ---- beacons ----------------------------------------------------------------------------- *)
Record beacon := mkb { b_init : bool; b_slice : list skey }.
Definition b0 : beacon := mkb false [].

Record st := mkst {
  recs : list rec;                     (* beaconKey: the records of the swamp, insertion order *)
  bcn : fam -> bool -> beacon;         (* family -> ascending? -> beacon *)
  vtype : N                            (* the value type the value beacons are built for *)
}.
Definition init_st : st := mkst [] (fun _ _ => b0) 0%N.

Definition set_bcn (s : st) (f : fam) (asc : bool) (b : beacon) : st :=
  mkst (recs s)
       (fun f' a' => if fam_eqb f' f && Bool.eqb a' asc then b else bcn s f' a')
       (vtype s).

Definition sort_slice (rs : list rec) (f : fam) (asc : bool) (l : list skey) : list skey :=
  isort (fun k1 k2 => ord_leb asc (key_attr rs f k1) (key_attr rs f k2)) l.

(* SortByValueInt64ASC/DESC: error (slice left as it is) unless every entry is an int64 *)
Definition sort_slice_int64 (rs : list rec) (asc : bool) (l : list skey) : list skey :=
  if forallb (key_has rs FValue VT_INT64) l then sort_slice rs FValue asc l else l.

(* beacon.Add: append unless the key is already there *)
Definition slice_add (k : skey) (l : list skey) : list skey :=
  if existsb (skey_eqb k) l then l else l ++ [k].
(* beacon.Delete *)
Fixpoint slice_del (k : skey) (l : list skey) : list skey :=
  match l with
  | [] => []
  | x :: t => if skey_eqb x k then t else x :: slice_del k t
  end.

(* One maintenance step on one beacon, for the treasure with key [k]:
   [del]: deleteTreasureIfBeaconInitialized (beacon.Delete);
   [add]: addTo<X>Beacon – only if the ASC beacon of the pair is initialised ([asc_init]):
          beacon.Add (stores initialized = 1) followed by the re-sort [srt]. *)
Definition upd_beacon (srt : bool -> list skey -> list skey) (asc del add : bool) (k : skey)
  (asc_init : bool) (b : beacon) : beacon :=
  let b1 := if del && b_init b then mkb true (slice_del k (b_slice b)) else b in
  if add && asc_init then mkb true (srt asc (slice_add k (b_slice b1))) else b1.

(* A maintenance pass over the ten beacons (deleteTreasureFromBeacons / addTreasureToBeacons /
   the refresh in SaveFunction). The five families do not read each other's beacons, so the
   pass is written pointwise. [rs'] is the record map after the write: the slices point to the
   live treasure objects, so every re-sort sees the new attribute values. *)
Definition upd_all (s : st) (rs' : list rec) (srt : fam -> bool -> list skey -> list skey)
  (del add : fam -> bool) (k : skey) : st :=
  mkst rs'
       (fun f asc => upd_beacon (srt f) asc (del f) (add f) k (b_init (bcn s f true)) (bcn s f asc))
       (vtype s).

(* the re-sort used by addTo<X>Beacon; the legacy addToValueBeacon used SortByValueInt64* *)
Definition resort (legacy : bool) (rs : list rec) (f : fam) : bool -> list skey -> list skey :=
  if legacy && fam_eqb f FValue then sort_slice_int64 rs else sort_slice rs f.

Fixpoint replace_rec (r : rec) (rs : list rec) : list rec :=
  match rs with
  | [] => []
  | x :: t => if skey_eqb (r_key x) (r_key r) then r :: t else x :: replace_rec r t
  end.
Fixpoint remove_rec (k : skey) (rs : list rec) : list rec :=
  match rs with
  | [] => []
  | x :: t => if skey_eqb (r_key x) k then t else x :: remove_rec k t
  end.

Definition opt_or (o : option Z) (d : Z) : Z := match o with Some z => z | None => d end.
Definition is_some {X} (o : option X) : bool := match o with Some _ => true | None => false end.

(* which indexes SaveFunction's modified branch refreshes for record [r]: the "changed" flags
   the setters of this save raised (the swamp resets them after every save – ResetChangeFlags;
   a Set/patch always rewrites the content, so the value index is always refreshed;
   contentTypeChanged is not raised by the gateway's Set). Legacy: the expiry index only. *)
Definition refreshed (legacy : bool) (r : rec) (f : fam) : bool :=
  match f with
  | FKey => false
  | FExpiry => r_fe r
  | FCreated => negb legacy && r_fc r
  | FUpdated => negb legacy && r_fu r
  | FValue => negb legacy
  end.

(* gateway Set of one key (CreateIfNotExist, Overwrite): keyValuesToTreasure + Save -> SaveFunction.
   Meta fields that are absent in the request keep their old value. *)
Definition do_set (legacy : bool) (s : st) (k : skey) (ct : N) (v : skey) (c u e : option Z) : st :=
  match find_rec k (recs s) with
  | None =>
      (* new treasure: addTreasureToBeacons, with its guards (timestamp <> 0; current code:
         content type = the value type the value beacons are built for) *)
      let r := mkrec k ct v (opt_or c 0) (opt_or u 0) (opt_or e 0) (is_some c) (is_some u) (is_some e) in
      let rs' := recs s ++ [r] in
      upd_all s rs' (resort legacy rs') (fun _ => false)
              (fun f => if legacy && fam_eqb f FValue then true else has_attr f (vtype s) r) k
  | Some old =>
      let r := mkrec k ct v (opt_or c (r_created old)) (opt_or u (r_updated old)) (opt_or e (r_expiry old))
                     (is_some c) (is_some u) (is_some e) in
      let rs' := replace_rec r (recs s) in
      (* modified branch: drop the stale entry, re-add it under the new attribute if it has one *)
      upd_all s rs' (resort false rs') (refreshed legacy r)
              (fun f => refreshed legacy r f && has_attr f (vtype s) r) k
  end.

(* gateway Delete -> DeleteTreasure -> deleteHandler; an emptied swamp is destroyed *)
Definition do_del (s : st) (k : skey) : st :=
  match find_rec k (recs s) with
  | None => s
  | Some _ =>
      let rs' := remove_rec k (recs s) in
      match rs' with
      | [] => init_st
      | _ => upd_all s rs' (resort false rs') (fun _ => true) (fun _ => false) k
      end
  end.

(* ---- reads -------------------------------------------------------------------------------- *)
Inductive idx := IKey | ICreated | IUpdated | IExpiry | IValue (vt : N).
Definition fam_of (i : idx) : fam :=
  match i with IKey => FKey | ICreated => FCreated | IUpdated => FUpdated | IExpiry => FExpiry | IValue _ => FValue end.
Definition vt_of (i : idx) (dflt : N) : N := match i with IValue vt => vt | _ => dflt end.
Definition is_time (f : fam) : bool := match f with FCreated | FUpdated | FExpiry => true | _ => false end.

(* buildBeacon: each uninitialised beacon of the pair gets initialized := 1, the records [cs]
   pushed (map iteration order – irrelevant after the sort) and is sorted *)
Definition build_beacon (rs : list rec) (f : fam) (asc : bool) (cs : list skey) (b : beacon) : beacon :=
  if b_init b then b else mkb true (sort_slice rs f asc (b_slice b ++ cs)).
Definition build_family (s : st) (f : fam) (cs : list skey) : st :=
  mkst (recs s)
       (fun f' a => if fam_eqb f' f then build_beacon (recs s) f a cs (bcn s f' a) else bcn s f' a)
       (vtype s).
(* treasuresForBeacon *)
Definition carrier_keys (f : fam) (vt : N) (rs : list rec) : list skey := map r_key (filter (has_attr f vt) rs).

(* findInValueBeacon (current code): a request for another value type than the one the pair was
   built for resets the pair first *)
Definition prepare_value (s : st) (vt : N) : st :=
  if N.eqb (vtype s) vt then s
  else mkst (recs s)
            (fun f a => if fam_eqb f FValue then b0 else bcn s f a)
            vt.

(* one binary-search loop of findTimeRangeBounds:
     for l < r { m := l + (r-l)/2; if go_right(ts[m]) { l = m+1 } else { r = m } }   result l *)
Fixpoint bs (fuel : nat) (go_right : skey -> bool) (a : list skey) (l r : nat) : option nat :=
  match fuel with
  | O => None
  | S fuel' =>
      if Nat.ltb l r then
        let m := (l + (r - l) / 2)%nat in
        match nth_error a m with
        | None => None                                    (* index out of range: Go would panic *)
        | Some x => if go_right x then bs fuel' go_right a (S m) r else bs fuel' go_right a l m
        end
      else Some l
  end.

(* findTimeRangeBounds over the attributes [a] of the ordered slice; inclusive bounds, (0,-1)
   for "nothing". None = panic / out of fuel (proved unreachable). *)
Definition find_bounds (asc : bool) (a : list skey) (ft tu : option skey) : option (Z * Z) :=
  let n := length a in
  if Nat.eqb n 0 then Some (0, -1) else
  let fuel := S n in
  let search (p : skey -> bool) := bs fuel p a 0%nat n in
  let start_o :=
    if asc then match ft with
                | Some f => search (fun ts => skey_ltb ts f)              (* first idx with ts >= from *)
                | None => Some 0%nat end
    else match tu with
         | Some t => search (fun ts => negb (skey_ltb ts t))              (* first idx with ts < to *)
         | None => Some 0%nat end in
  let end_o :=                                                            (* endIdx + 1 *)
    if asc then match tu with
                | Some t => search (fun ts => skey_ltb ts t)              (* last idx with ts < to *)
                | None => Some n end
    else match ft with
         | Some f => search (fun ts => negb (skey_ltb ts f))              (* last idx with ts >= from *)
         | None => Some n end in
  match start_o, end_o with
  | Some s0, Some e1 =>
      let startIdx := Z.of_nat s0 in
      let endIdx := Z.of_nat e1 - 1 in
      let startIdx := if startIdx <? 0 then 0 else startIdx in
      let endIdx := if endIdx >=? Z.of_nat n then Z.of_nat n - 1 else endIdx in
      if (startIdx >? endIdx) || (startIdx >=? Z.of_nat n) || (endIdx <? 0) then Some (0, -1)
      else Some (startIdx, endIdx)
  | _, _ => None
  end.

(* GetManyFromOrderPosition; [a] = attribute of each slice entry *)
Definition get_many (asc : bool) (slice : list skey) (a : list skey) (from lim : Z) (ft tu : option skey)
  : option (list skey) :=
  let n := Z.of_nat (length slice) in
  let windowed := is_some ft || is_some tu in
  match (if windowed then find_bounds asc a ft tu else Some (0, n - 1)) with
  | None => None
  | Some (startIdx, endIdx) =>
      if windowed && ((endIdx <? startIdx) || (startIdx <? 0)) then Some [] else
      let actualStart := startIdx + from in
      if actualStart >? endIdx then Some [] else
      let actualEnd := if lim =? 0 then endIdx
                       else if actualStart + lim - 1 >? endIdx then endIdx else actualStart + lim - 1 in
      let size := actualEnd - actualStart + 1 in
      if size <=? 0 then Some [] else
      if (actualStart <? 0) || (actualStart + size >? n) then None     (* slice index out of range *)
      else Some (firstn (Z.to_nat size) (skipn (Z.to_nat actualStart) slice))
  end.

(* GetTreasuresByBeacon. Time windows reach only the three time indexes. *)
Definition do_read (legacy : bool) (s : st) (i : idx) (asc : bool) (from lim : N) (ft tu : option Z)
  : st * option (list skey) :=
  let f := fam_of i in
  let lim' := if N.eqb lim 0 then Z.of_nat (length (recs s)) else Z.of_N lim in
  let s1 := match i with
            | IValue vt => if legacy then build_family s FValue (map r_key (recs s))   (* every record *)
                           else build_family (prepare_value s vt) FValue (carrier_keys FValue vt (recs s))
            | _ => build_family s f (carrier_keys f 0%N (recs s))
            end in
  let b := bcn s1 f asc in
  let w (o : option Z) := if is_time f then option_map (fun z => [z]) o else None in
  (* GetManyFromOrderPosition stores initialized = 1 *)
  (set_bcn s1 f asc (mkb true (b_slice b)),
   get_many asc (b_slice b) (map (key_attr (recs s1) f) (b_slice b)) (Z.of_N from) lim' (w ft) (w tu)).

(* ---- histories ---------------------------------------------------------------------------- *)
Inductive op :=
| OSet (k : skey) (ct : N) (v : skey) (c u e : option Z)
| ODel (k : skey)
| ORead (i : idx) (asc : bool) (from lim : N) (ft tu : option Z).

(* PatchTreasures (CreateIfNotExist) with PatchMeta runs through the same Save -> SaveFunction:
   the body is a msgpack byte array (value type 0: no value index covers it); SetCreatedAt (only
   when the call creates the record) and SetUpdatedAt stamp the server clock – the stamped value
   is observed and passed in; SetExpiredAt z is [Some z]; ClearExpiredAt is [Some 0]
   (SetExpirationTime(zero time) stores 0 and raises the expiration-changed flag), so the record
   stops carrying the expiry attribute. IncrementInt64 is [OSet k 7 [new value] None None None];
   ShiftExpiredTreasures is an [ODel] of every record it returned (deleteHandler).
   PatchExpiredTreasures is an [OPatch k None u e] for every record it reports PATCHED (c = None:
   never a create); its own choreography on the expiry beacons (remove the selection from DESC,
   Save, ReindexExpiration on ASC, re-add to DESC) is not transcribed – it must leave both expiry
   beacons as the per-record refresh leaves them, which the correspondence check observes. *)
Definition OPatch (k : skey) (c u e : option Z) : op := OSet k 0%N [] c u e.

Definition step (legacy : bool) (s : st) (o : op) : st * option (option (list skey)) :=
  match o with
  | OSet k ct v c u e => (do_set legacy s k ct v c u e, None)
  | ODel k => (do_del s k, None)
  | ORead i asc from lim ft tu => let '(s', p) := do_read legacy s i asc from lim ft tu in (s', Some p)
  end.

Fixpoint run (legacy : bool) (s : st) (ops : list op) : st :=
  match ops with
  | [] => s
  | o :: t => run legacy (fst (step legacy s o)) t
  end.

(* ---- spec and oracle ---------------------------------------------------------------------- *)
Definition in_win (f : fam) (ft tu : option Z) (a : skey) : bool :=
  if is_time f then
    (match ft with Some x => skey_leb [x] a | None => true end) &&
    (match tu with Some y => skey_ltb a [y] | None => true end)
  else true.

(* the records an index read is about: carry the attribute, inside the window *)
Definition wanted (rs : list rec) (i : idx) (ft tu : option Z) : list rec :=
  filter (fun r => has_attr (fam_of i) (vt_of i 0%N) r && in_win (fam_of i) ft tu (raw_attr (fam_of i) r)) rs.

(* paging: drop [from], take [lim] (0 = no limit) *)
Definition page_of {X} (from lim : nat) (l : list X) : list X :=
  match lim with O => skipn from l | _ => firstn lim (skipn from l) end.

Definition rec_le (f : fam) (asc : bool) (r1 r2 : rec) : Prop :=
  ord_leb asc (raw_attr f r1) (raw_attr f r2) = true.

(* the property: the page is the paged cut of the wanted records sorted by the attribute, for
   some order of the ties *)
Definition is_spec_page (rs : list rec) (i : idx) (asc : bool) (from lim : N) (ft tu : option Z)
  (page : list skey) : Prop :=
  exists L : list rec,
    Permutation L (wanted rs i ft tu) /\
    Sorted (rec_le (fam_of i) asc) L /\
    page = map r_key (page_of (N.to_nat from) (N.to_nat lim) L).

Fixpoint nodupb (l : list skey) : bool :=
  match l with
  | [] => true
  | x :: t => negb (existsb (skey_eqb x) t) && nodupb t
  end.

Fixpoint lookup_all (rs : list rec) (ks : list skey) : option (list rec) :=
  match ks with
  | [] => Some []
  | k :: t => match find_rec k rs, lookup_all rs t with
              | Some r, Some l => Some (r :: l)
              | _, _ => None
              end
  end.

(* the oracle: decidable form of [is_spec_page] (equivalence proved in IndexProofs.v) *)
Definition valid_page (rs : list rec) (i : idx) (asc : bool) (from lim : N) (ft tu : option Z)
  (page : list skey) : bool :=
  let f := fam_of i in
  let W := wanted rs i ft tu in
  match lookup_all W page with
  | None => false                                    (* a returned key is not a wanted record *)
  | Some P =>
      nodupb page &&
      list_eqb skey_eqb (map (raw_attr f) P)
               (page_of (N.to_nat from) (N.to_nat lim) (isort (ord_leb asc) (map (raw_attr f) W)))
  end.

(* finer classification of a failed page, for signatures *)
Definition page_sorted (rs : list rec) (f : fam) (asc : bool) (page : list skey) : bool :=
  let a := map (key_attr rs f) page in
  list_eqb skey_eqb a (isort (ord_leb asc) a).
Definition all_carriers (rs : list rec) (i : idx) (page : list skey) : bool :=
  forallb (key_has rs (fam_of i) (vt_of i 0%N)) page.

(* ---- case checker ------------------------------------------------------------------------- *)
(* A case is one history executed on the real engine: the operations, and for every read the
   returned page as (key, attribute as reported by the returned record) pairs, or None if the
   call failed. *)
Definition obs := option (list (skey * skey)).
Definition case := list (op * obs).

Definition tie_free (rs : list rec) (i : idx) : bool :=
  nodupb (map (raw_attr (fam_of i)) (filter (has_attr (fam_of i) (vt_of i 0%N)) rs)).

(* codes: 0 ok; 1 model page <> implementation page on a tie-free state; 2 returned record's
   attribute differs from the history's record (model of the record map is off);
   10.. violations of the property clause, by failure class *)
Definition check_read (s : st) (mp : option (list skey)) (i : idx) (asc : bool) (from lim : N)
  (ft tu : option Z) (o : obs) : N :=
  let f := fam_of i in
  let rs := recs s in
  match o with
  | None => 13%N                                                        (* the read failed *)
  | Some pg =>
      let keys := map fst pg in
      let ft' := if is_time f then ft else None in
      let tu' := if is_time f then tu else None in
      if valid_page rs i asc from lim ft' tu' keys then
        if negb (list_eqb skey_eqb (map snd pg) (map (key_attr rs f) keys)) then 2%N
        else if tie_free rs i then
          match mp with
          | Some m => if list_eqb skey_eqb m keys then 0%N else 1%N
          | None => 1%N
          end
        else 0%N
      else if negb (all_carriers rs i keys) then
             (match i with IValue _ => 14%N | _ => 15%N end)                (* a record without the attribute *)
      else if negb (page_sorted rs f asc keys) then
             (match i with IValue _ => 10%N | _ => 11%N end)                (* not sorted *)
      else 12%N                                                        (* wrong set / window / paging *)
  end.

(* The beacons are a function; every maintenance step wraps the previous one and reads it
   twice, so a long history would be re-evaluated exponentially often. The checker therefore
   tabulates the ten beacons after every step (extensionally the identity). *)
Definition freeze (s : st) : st :=
  let k1 := bcn s FKey true in let k0 := bcn s FKey false in
  let c1 := bcn s FCreated true in let c0 := bcn s FCreated false in
  let u1 := bcn s FUpdated true in let u0 := bcn s FUpdated false in
  let e1 := bcn s FExpiry true in let e0 := bcn s FExpiry false in
  let v1 := bcn s FValue true in let v0 := bcn s FValue false in
  mkst (recs s)
       (fun f a => match f, a with
                   | FKey, true => k1 | FKey, false => k0
                   | FCreated, true => c1 | FCreated, false => c0
                   | FUpdated, true => u1 | FUpdated, false => u0
                   | FExpiry, true => e1 | FExpiry, false => e0
                   | FValue, true => v1 | FValue, false => v0
                   end)
       (vtype s).

Fixpoint check_from (s : st) (c : case) : N :=
  match c with
  | [] => 0%N
  | (o, ob) :: t =>
      match o with
      | ORead i asc from lim ft tu =>
          let '(s0, mp) := do_read false s i asc from lim ft tu in
          let s' := freeze s0 in
          let code := check_read s' mp i asc from lim ft tu ob in
          if N.eqb code 0 then check_from s' t else code
      | _ => check_from (freeze (fst (step false s o))) t
      end
  end.

Definition check_case (c : case) : N := check_from init_st c.
Definition check_all (cases : list case) : list verdict := check_cases check_case cases.
