(* Swamp/EventsProofs.v — proofs about the event model (Swamp/Events.v). *)
From HV Require Import Base.Prelude Swamp.Events.
From Coq Require Import ZifyN ZifyNat ZifyBool.
Local Open Scope Z_scope.

(* ---- (1) subscription window: received = committed change log of the window ------------------ *)
Lemma nmem_app1 : forall c c' l, nmem c (l ++ [c']) = nmem c l || N.eqb c c'.
Proof.
  intros c c' l. unfold nmem. rewrite existsb_app. simpl. rewrite orb_false_r. reflexivity.
Qed.

Lemma nmem_nremove : forall c c' l, nmem c (nremove c' l) = negb (N.eqb c' c) && nmem c l.
Proof.
  intros c c' l. unfold nmem, nremove. induction l as [|x t IH]; simpl.
  - rewrite andb_false_r. reflexivity.
  - destruct (N.eqb c' x) eqn:E1; simpl.
    + rewrite IH. apply N.eqb_eq in E1. subst x.
      destruct (N.eqb c c') eqn:E2; simpl; [|reflexivity].
      apply N.eqb_eq in E2. subst. rewrite N.eqb_refl. reflexivity.
    + rewrite IH. destruct (N.eqb c x) eqn:E2; simpl; [|reflexivity].
      apply N.eqb_eq in E2. subst x. rewrite E1. reflexivity.
Qed.

Lemma nmem_In : forall c l, nmem c l = true <-> In c l.
Proof.
  intros c l. unfold nmem. rewrite existsb_exists. split.
  - intros [x [H E]]. apply N.eqb_eq in E. subst. exact H.
  - intro H. exists c. split; [exact H|apply N.eqb_refl].
Qed.

Lemma nodup_nremove : forall c l, NoDup l -> NoDup (nremove c l).
Proof. intros c l H. unfold nremove. apply NoDup_filter. exact H. Qed.

Lemma nodup_snoc : forall (x : N) l, NoDup l -> ~ In x l -> NoDup (l ++ [x]).
Proof.
  intros x l H. induction H as [|y t Hn Hd IH]; intro Hx; simpl.
  - constructor; [intros []|constructor].
  - constructor.
    + intro C. apply in_app_or in C as [C|[C|[]]]; [contradiction|].
      subst. apply Hx. left. reflexivity.
    + apply IH. intro C. apply Hx. right. exact C.
Qed.

Lemma fanout_of : forall c (m : msg) l, NoDup l ->
  map snd (filter (fun p : N * msg => N.eqb (fst p) c) (map (fun c' => (c', m)) l)) =
  if nmem c l then [m] else [].
Proof.
  intros c m l H. induction H as [|x t Hn Hd IH]; simpl; [reflexivity|].
  rewrite (N.eqb_sym x c). destruct (N.eqb c x) eqn:E; simpl.
  - rewrite IH. apply N.eqb_eq in E. subst x.
    destruct (nmem c t) eqn:M; [|reflexivity]. apply nmem_In in M. contradiction.
  - exact IH.
Qed.

Record HInv (fixed : bool) (c : N) (s : hst) (acc : bool * list msg) : Prop := {
  hi_sub : nmem c (subs s) = fst acc;
  hi_recv : recv_of c s = snd acc;
  hi_active : loaded s = true -> subs s <> [] -> active s = true;
  hi_entry : subs s <> [] -> entry s = true;
  hi_nodup : NoDup (subs s)
}.

Lemma hinv_init : forall fixed c, HInv fixed c h_init (false, []).
Proof.
  intros. split; simpl; try reflexivity; try (intros; congruence); try constructor.
Qed.

Lemma recv_of_app : forall c s l,
  map snd (filter (fun p : N * msg => N.eqb (fst p) c) (recv s ++ l)) =
  recv_of c s ++ map snd (filter (fun p : N * msg => N.eqb (fst p) c) l).
Proof. intros. unfold recv_of. rewrite filter_app, map_app. reflexivity. Qed.

Lemma hinv_step : forall fixed c s acc x,
  HInv fixed c s acc -> HInv fixed c (hstep_fn fixed s x) (spec_step fixed c acc x).
Proof.
  intros fixed c s acc x [Hs Hr Ha He Hn]. destruct x as [c'|c' others| |k st v now].
  - (* subscribe *)
    split; simpl.
    + destruct (nmem c' (subs s)) eqn:M.
      * destruct (N.eqb c' c) eqn:E; simpl; [|exact Hs].
        apply N.eqb_eq in E. subst. exact M.
      * rewrite nmem_app1. rewrite Hs. rewrite (N.eqb_sym c c').
        destruct (N.eqb c' c) eqn:E; simpl; [apply orb_true_r|apply orb_false_r].
    + unfold recv_of in *. simpl. destruct (N.eqb c' c); simpl; exact Hr.
    + intros L _. rewrite L. reflexivity.
    + intros _. reflexivity.
    + destruct (nmem c' (subs s)) eqn:M; [exact Hn|].
      apply nodup_snoc; [exact Hn|].
      intro C. apply nmem_In in C. congruence.
  - (* unsubscribe *)
    split; simpl.
    + rewrite nmem_nremove. rewrite Hs. destruct (N.eqb c' c); simpl; reflexivity.
    + unfold recv_of in *. simpl. destruct (N.eqb c' c); simpl; exact Hr.
    + intros L Hne.
      assert (Hne' : subs s <> []). { intro C. rewrite C in Hne. apply Hne. reflexivity. }
      rewrite (He Hne'). simpl. apply Ha; assumption.
    + intro Hne. apply He. intro C. rewrite C in Hne. apply Hne. reflexivity.
    + apply nodup_nremove. exact Hn.
  - (* unload *)
    split; simpl; try assumption.
    intros C. discriminate.
  - (* write *)
    assert (S1 : HInv fixed c (summon s) acc).
    { unfold summon. destruct (loaded s) eqn:L.
      - split; try assumption. intros _ X. apply Ha; [reflexivity|exact X].
      - split; simpl; try assumption.
        intros _ Hne. destruct (subs s); [exfalso; apply Hne; reflexivity|reflexivity]. }
    destruct S1 as [Hs1 Hr1 Ha1 He1 Hn1].
    assert (L1 : loaded (summon s) = true).
    { unfold summon. destruct (loaded s) eqn:L; [exact L|reflexivity]. }
    simpl. unfold emit, deliver, spec_step. simpl.
    destruct (is_change st) eqn:C.
    + destruct (active (summon s)) eqn:A; simpl.
      * rewrite C. split; simpl; try assumption.
        -- rewrite Hs1. destruct (fst acc) eqn:F; simpl; [reflexivity|symmetry; exact F].
        -- unfold recv_of at 1. simpl. rewrite recv_of_app. rewrite (fanout_of c _ _ Hn1).
           rewrite Hs1, Hr1. destruct (fst acc) eqn:F; simpl; [reflexivity|apply app_nil_r].
      * assert (E : subs (summon s) = []).
        { destruct (subs (summon s)) eqn:Q; [reflexivity|].
          assert (T : false = true) by (apply Ha1; [exact L1|discriminate]).
          discriminate. }
        rewrite E in Hs1. simpl in Hs1. rewrite <- Hs1. simpl.
        split; simpl; try assumption.
        -- rewrite E. exact Hs1.
        -- intros _ X. rewrite E in X. exfalso. apply X. reflexivity.
    + rewrite !andb_false_r. simpl. split; assumption.
Qed.

Lemma hinv_fold : forall fixed c h s acc,
  HInv fixed c s acc ->
  HInv fixed c (fold_left (hstep_fn fixed) h s) (fold_left (spec_step fixed c) h acc).
Proof.
  intros fixed c h. induction h as [|x t IH]; intros s acc H; simpl; [exact H|].
  apply IH. apply hinv_step. exact H.
Qed.

Theorem one_event_per_change : forall fixed h c,
  recv_of c (hrun fixed h) = expected fixed c h.
Proof.
  intros fixed h c. unfold hrun, expected.
  apply (hi_recv _ _ _ _ (hinv_fold fixed c h h_init (false, []) (hinv_init fixed c))).
Qed.

(* a save the engine reports as "nothing changed" adds nothing; a reported change while subscribed
   adds exactly one message *)
Lemma expected_snoc : forall fixed c h x,
  expected fixed c (h ++ [x]) =
  snd (spec_step fixed c (fold_left (spec_step fixed c) h (false, [])) x).
Proof. intros. unfold expected. rewrite fold_left_app. reflexivity. Qed.

Theorem no_event_without_change : forall fixed c h k st v now,
  is_change st = false ->
  expected fixed c (h ++ [HWrite k st v now]) = expected fixed c h.
Proof.
  intros fixed c h k st v now H. rewrite expected_snoc. simpl. rewrite H.
  rewrite andb_false_r. reflexivity.
Qed.

(* with the status function of the reference (C06) a save of the current value is such a save,
   and so is the first no-op save of a freshly loaded record even with the sticky flags *)
Theorem noop_save_status : forall v dirty,
  is_change (save_status false (Some v) dirty v) = false /\
  is_change (save_status true (Some v) false v) = false.
Proof. intros v dirty. unfold save_status. rewrite Z.eqb_refl. simpl. split; reflexivity. Qed.

(* the sticky change flags: subscribe; set k 1 (new); set k 1 again -> a second event *)
Definition sticky_witness : list hstep :=
  [HSub 0; HWrite 0 (save_status true None false 1) 1 0; HWrite 0 (save_status true (Some 1) true 1) 1 0].

Theorem one_event_per_change_refuted_sticky :
  length (recv_of 0 (hrun true sticky_witness)) = 2%nat /\
  save_status false (Some 1) true 1 = StSame.
Proof. vm_compute. split; reflexivity. Qed.

(* ---- event time ------------------------------------------------------------------------------ *)
Lemma giga_pos : 0 < giga.
Proof. reflexivity. Qed.

Theorem event_time : forall active k s v now e m,
  emit active k s v now = Some e -> deliver true e = Some m ->
  ts_nanos (m_secs m, m_nanos m) = now /\ 0 <= m_nanos m < giga.
Proof.
  intros active k s v now e m E D. unfold emit in E.
  destruct (active && is_change s); [|discriminate]. inversion E; subst e; clear E.
  unfold deliver in D. simpl in D. destruct (is_change s); [|discriminate].
  inversion D; subst m; clear D. unfold ts_nanos. simpl.
  pose proof (Z.div_mod now giga) as H. pose proof (Z.mod_pos_bound now giga giga_pos) as B.
  assert (giga <> 0) by (unfold giga; lia). specialize (H H0). split; [|exact B]. lia.
Qed.

Theorem event_time_refuted_seconds_conversion :
  exists now e m, emit true 0 StNew 0 now = Some e /\ deliver false e = Some m /\
                  ts_nanos (m_secs m, m_nanos m) <> now.
Proof.
  exists 1. eexists. eexists. split; [reflexivity|]. split; [reflexivity|].
  vm_compute. discriminate.
Qed.

(* ---- (2) delivery by concurrent writers --------------------------------------------------------- *)
Record DInv (s : dst) : Prop := {
  di_order : forall k, of_key k (sent s) ++ pending_of s k = of_key k (clog s);
  di_key : forall k w e, slot s k = Some (w, PCommitted e) -> ev_key e = k
}.

Lemma dinv_init : DInv d_init.
Proof. split; intros; simpl in *; [reflexivity|discriminate]. Qed.

Lemma of_key_app : forall k a b, of_key k (a ++ b) = of_key k a ++ of_key k b.
Proof. intros. unfold of_key. apply filter_app. Qed.

Lemma dinv_step : forall mutex s x s', DInv s -> dstep_fn mutex s x = Some s' -> DInv s'.
Proof.
  intros mutex s x s' [Ho Hk] E. destruct x as [w k|w k e|w k|w k|w k]; simpl in E.
  - (* begin *)
    destruct (slot s k) eqn:Sk; [discriminate|]. inversion E; subst s'; clear E.
    split; simpl.
    + intro k'. unfold pending_of, set_slot. simpl. specialize (Ho k'). unfold pending_of in Ho.
      destruct (N.eqb k' k) eqn:Q; [|exact Ho].
      apply N.eqb_eq in Q. subst k'. rewrite Sk in Ho. exact Ho.
    + intros k' w' e'. unfold set_slot. destruct (N.eqb k' k); [discriminate|apply Hk].
  - (* commit *)
    destruct (slot s k) as [[w' ph]|] eqn:Sk; [|discriminate].
    destruct ph; try discriminate.
    destruct (N.eqb w w' && N.eqb (ev_key e) k) eqn:C; [|discriminate].
    apply andb_true_iff in C as [_ C]. apply N.eqb_eq in C.
    inversion E; subst s'; clear E. split; simpl.
    + intro k'. unfold pending_of, set_slot. simpl. rewrite of_key_app.
      specialize (Ho k'). unfold pending_of in Ho. unfold of_key at 3. simpl.
      destruct (N.eqb k' k) eqn:Q.
      * apply N.eqb_eq in Q. subst k'. rewrite Sk in Ho. rewrite C, N.eqb_refl.
        rewrite app_nil_r in Ho. rewrite Ho. reflexivity.
      * rewrite C. rewrite (N.eqb_sym k k'), Q. rewrite app_nil_r. exact Ho.
    + intros k' w'' e'. unfold set_slot. destruct (N.eqb k' k) eqn:Q; [|apply Hk].
      intro H. inversion H; subst. apply N.eqb_eq in Q. subst. reflexivity.
  - (* send start *)
    destruct (slot s k) as [[w' ph]|] eqn:Sk; [|discriminate].
    destruct ph as [|e| |]; try discriminate.
    destruct (N.eqb w w' && (negb mutex || Nat.eqb (nsending s) 0)); [|discriminate].
    inversion E; subst s'; clear E. pose proof (Hk k w' e Sk) as Ke. split; simpl.
    + intro k'. unfold pending_of, set_slot. simpl. rewrite of_key_app.
      specialize (Ho k'). unfold pending_of in Ho. unfold of_key at 2. simpl.
      destruct (N.eqb k' k) eqn:Q.
      * apply N.eqb_eq in Q. subst k'. rewrite Sk in Ho. rewrite Ke, N.eqb_refl.
        rewrite app_nil_r. exact Ho.
      * rewrite Ke. rewrite (N.eqb_sym k k'), Q. rewrite app_nil_r. exact Ho.
    + intros k' w'' e'. unfold set_slot. destruct (N.eqb k' k) eqn:Q; [discriminate|apply Hk].
  - (* send end *)
    destruct (slot s k) as [[w' ph]|] eqn:Sk; [|discriminate].
    destruct ph; try discriminate.
    destruct (N.eqb w w'); [|discriminate].
    inversion E; subst s'; clear E. split; simpl.
    + intro k'. unfold pending_of, set_slot. simpl. specialize (Ho k'). unfold pending_of in Ho.
      destruct (N.eqb k' k) eqn:Q; [|exact Ho].
      apply N.eqb_eq in Q. subst k'. rewrite Sk in Ho. exact Ho.
    + intros k' w'' e'. unfold set_slot. destruct (N.eqb k' k); [discriminate|apply Hk].
  - (* end *)
    destruct (slot s k) as [[w' ph]|] eqn:Sk; [|discriminate].
    destruct ph; try discriminate;
      (destruct (N.eqb w w'); [|discriminate]);
      inversion E; subst s'; clear E; (split; simpl;
      [ intro k'; unfold pending_of, set_slot; simpl; specialize (Ho k'); unfold pending_of in Ho;
        destruct (N.eqb k' k) eqn:Q; [|exact Ho];
        apply N.eqb_eq in Q; subst k'; rewrite Sk in Ho; exact Ho
      | intros k' w'' e'; unfold set_slot; destruct (N.eqb k' k); [discriminate|apply Hk] ]).
Qed.

Lemma dinv_run : forall mutex tr s s', DInv s -> drun mutex s tr = Some s' -> DInv s'.
Proof.
  intros mutex tr. induction tr as [|x t IH]; intros s s' H E; simpl in E.
  - inversion E; subst. exact H.
  - destruct (dstep_fn mutex s x) as [s1|] eqn:S; [|discriminate].
    eapply IH; [|exact E]. eapply dinv_step; eauto.
Qed.

(* the events of one key enter the stream in commit order; none is lost or duplicated: what was
   sent, followed by the event whose send has not started yet (at most one: the guard holder's),
   is the commit log of the key *)
Theorem per_key_order : forall mutex tr s k,
  drun mutex d_init tr = Some s ->
  of_key k (sent s) ++ pending_of s k = of_key k (clog s) /\ (length (pending_of s k) <= 1)%nat.
Proof.
  intros mutex tr s k E. split.
  - apply (di_order _ (dinv_run mutex tr d_init s dinv_init E)).
  - unfold pending_of. destruct (slot s k) as [[w ph]|]; [destruct ph|]; simpl; lia.
Qed.

Corollary per_key_order_quiescent : forall mutex tr s k,
  drun mutex d_init tr = Some s -> slot s k = None -> of_key k (sent s) = of_key k (clog s).
Proof.
  intros mutex tr s k E Q. destruct (per_key_order mutex tr s k E) as [H _].
  unfold pending_of in H. rewrite Q in H. rewrite app_nil_r in H. exact H.
Qed.

(* with the per-subscription mutex no two SendMsg calls are in progress at once *)
Definition MInv (s : dst) : Prop := (nsending s <= 1)%nat /\ over s = false.

Lemma minv_step : forall s x s', MInv s -> dstep_fn true s x = Some s' -> MInv s'.
Proof.
  intros s x s' [Hn Hv] E. destruct x as [w k|w k e|w k|w k|w k]; simpl in E.
  - destruct (slot s k); [discriminate|]. inversion E; subst; split; assumption.
  - destruct (slot s k) as [[w' ph]|]; [|discriminate]. destruct ph; try discriminate.
    destruct (N.eqb w w' && N.eqb (ev_key e) k); [|discriminate].
    inversion E; subst; split; assumption.
  - destruct (slot s k) as [[w' ph]|]; [|discriminate]. destruct ph; try discriminate.
    simpl in E. destruct (N.eqb w w'); simpl in E; [|discriminate].
    destruct (Nat.eqb (nsending s) 0) eqn:Z; [|discriminate].
    inversion E; subst; clear E. apply Nat.eqb_eq in Z. split; simpl.
    + lia.
    + rewrite Hv. reflexivity.
  - destruct (slot s k) as [[w' ph]|]; [|discriminate]. destruct ph; try discriminate.
    destruct (N.eqb w w'); [|discriminate]. inversion E; subst; split; simpl; [lia|assumption].
  - destruct (slot s k) as [[w' ph]|]; [|discriminate].
    destruct ph; try discriminate; (destruct (N.eqb w w'); [|discriminate]);
      inversion E; subst; split; assumption.
Qed.

Theorem sends_not_concurrent : forall tr s,
  drun true d_init tr = Some s -> (nsending s <= 1)%nat /\ over s = false.
Proof.
  intros tr. assert (G : forall s0 s, MInv s0 -> drun true s0 tr = Some s -> MInv s).
  { induction tr as [|x t IH]; intros s0 s H E; simpl in E.
    - inversion E; subst. exact H.
    - destruct (dstep_fn true s0 x) as [s1|] eqn:S; [|discriminate].
      eapply IH; [|exact E]. eapply minv_step; eauto. }
  intros s E. apply (G d_init s); [|exact E]. split; simpl; [lia|reflexivity].
Qed.

Definition ev1 : event := {| ev_key := 1; ev_status := StNew; ev_val := 5; ev_time := 7 |}.
Definition ev2 : event := {| ev_key := 2; ev_status := StNew; ev_val := 6; ev_time := 8 |}.
Definition two_writers : list dstep :=
  [DBegin 1 1; DBegin 2 2; DCommit 1 1 ev1; DCommit 2 2 ev2; DSendStart 1 1; DSendStart 2 2].

(* the pinned code (no mutex): two writers on different keys are inside SendMsg together *)
Theorem sends_not_concurrent_refuted_without_mutex :
  exists tr, option_map (fun s => (nsending s, over s)) (drun false d_init tr) = Some (2%nat, true).
Proof. exists two_writers. vm_compute. reflexivity. Qed.

(* the same schedule is not a run of the code with the mutex: the second writer has to wait *)
Example two_writers_blocked_by_mutex : drun true d_init two_writers = None.
Proof. vm_compute. reflexivity. Qed.

(* ---- (3) two first subscribers of one swamp -------------------------------------------------- *)
(* both calls return successfully, only the second client is registered *)
Theorem first_subscribers_race_loses_one :
  exists tr, s_map (srun tr) = Some [2%N] /\
             tr = [SLoad 1; SLoad 2; SStore 1; SStore 2].
Proof. eexists. split; [|reflexivity]. vm_compute. reflexivity. Qed.

Example subscribers_one_after_the_other :
  s_map (srun [SLoad 1; SStore 1; SLoad 2; SStore 2]) = Some [1%N; 2%N].
Proof. vm_compute. reflexivity. Qed.

(* ---- non-vacuity ------------------------------------------------------------------------------- *)
Definition ex_hist : list hstep :=
  [HWrite 1 StNew 10 100; HSub 7; HWrite 1 StModified 11 2000000123; HWrite 2 StNew 5 3000000000;
   HWrite 1 StSame 11 4; HSub 8; HWrite 2 StDeleted 5 5; HUnsub 7 false; HUnload;
   HWrite 1 StDeleted 11 6; HWrite 3 StNotFound 0 7].

Example ex_recv7 : map (fun m => (m_key m, m_status m, m_val m, m_secs m, m_nanos m)) (recv_of 7 (hrun true ex_hist))
  = [(1%N, PbUpdated, 11, 2, 123); (2%N, PbNew, 5, 3, 0); (2%N, PbDeleted, 5, 0, 5)].
Proof. vm_compute. reflexivity. Qed.
Example ex_recv8 : map (fun m => (m_key m, m_status m, m_val m)) (recv_of 8 (hrun true ex_hist))
  = [(2%N, PbDeleted, 5); (1%N, PbDeleted, 11)].
Proof. vm_compute. reflexivity. Qed.

Definition ex_trace : list dstep :=
  [DBegin 1 1; DBegin 2 2; DCommit 1 1 ev1; DCommit 2 2 ev2; DSendStart 2 2; DSendEnd 2 2;
   DSendStart 1 1; DEnd 2 2; DSendEnd 1 1; DEnd 1 1; DBegin 2 1;
   DCommit 2 1 {| ev_key := 1; ev_status := StModified; ev_val := 9; ev_time := 9 |}].
Example ex_trace_runs :
  option_map (fun s => (map ev_val (sent s), map ev_val (clog s), map ev_val (pending_of s 1)))
             (drun true d_init ex_trace) = Some ([6; 5], [5; 6; 9], [9]).
Proof. vm_compute. reflexivity. Qed.
