(* Swamp/Events.v — executable model of change events: emission in swamp.go (SaveFunction,
   deleteHandler -> sendEventToHydra / sendDeletedEventToClient), the subscription window in
   hydra.go (SubscribeToSwampEvents / UnsubscribeFromSwampEvents / SummonSwamp's
   StartSendingEvents, eventCallbackFunction fan-out) and the gateway's conversion and send in
   gateway.go:SubscribeToEvents.  Model only (no proofs).

   Two machines:
   (1) [hrun]: one swamp, any number of subscribers, a history of subscribe / unsubscribe /
       unload (idle close, destroy) / write steps.  A write carries the status the ENGINE
       reports for it (treasure.TreasureStatus) - the model is a function of that status, it does
       not recompute it (the status function itself belongs to C06).
   (2) [drun]: the delivery of events to ONE subscriber stream by concurrent writers: a writer
       takes the record guard of its key, commits (event created), calls SendMsg on the stream
       from its own goroutine (start / end are separate steps), releases the guard.
       [mutex] selects whether the sends of one subscription are serialised by a mutex
       (true: the code after the fix: commit for C19; false: the pinned code).
   [fixed] selects the event-time conversion: true = time.Unix(0, nanos) (after the fix),
   false = time.Unix(nanos, 0) (pinned code). *)
From HV Require Import Base.Prelude.
Local Open Scope Z_scope.

(* ---- statuses ------------------------------------------------------------------------------ *)
Inductive status := StNew | StModified | StSame | StDeleted | StNotFound.
Inductive pbstatus := PbNew | PbUpdated | PbNothingChanged | PbDeleted | PbNotFound.

(* gateway.go:convertTreasureStatusToPbStatus *)
Definition conv_status (s : status) : pbstatus :=
  match s with
  | StNew => PbNew | StModified => PbUpdated | StSame => PbNothingChanged
  | StDeleted => PbDeleted | StNotFound => PbNotFound
  end.

Definition is_change (s : status) : bool :=
  match s with StNew | StModified | StDeleted => true | _ => false end.

Record event := { ev_key : N; ev_status : status; ev_val : Z; ev_time : Z (* UnixNano *) }.

(* swamp.go: the three emission sites; nothing for StatusSame, nothing for a failed delete,
   nothing while isEventSendingActive = 0.  EventTime = time.Now().UnixNano(). *)
Definition emit (active : bool) (k : N) (s : status) (v : Z) (now : Z) : option event :=
  if active && is_change s
  then Some {| ev_key := k; ev_status := s; ev_val := v; ev_time := now |}
  else None.

(* ---- the message a subscriber gets ----------------------------------------------------------- *)
Record msg := { m_key : N; m_status : pbstatus; m_val : Z; m_secs : Z; m_nanos : Z }.

Definition giga : Z := 1000000000.

(* timestamppb.New(time.Unix(sec, nsec)): seconds = floor, 0 <= nanos < 10^9 *)
Definition conv_time (fixed : bool) (t : Z) : Z * Z :=
  if fixed then (t / giga, t mod giga) else (t, 0).

Definition ts_nanos (p : Z * Z) : Z := fst p * giga + snd p.

(* the callback of SubscribeToEvents: statuses other than New/Modified/Deleted are dropped *)
Definition deliver (fixed : bool) (e : event) : option msg :=
  if is_change (ev_status e)
  then let t := conv_time fixed (ev_time e) in
       Some {| m_key := ev_key e; m_status := conv_status (ev_status e); m_val := ev_val e;
               m_secs := fst t; m_nanos := snd t |}
  else None.

(* ---- (1) subscription window ----------------------------------------------------------------- *)
Inductive hstep :=
| HSub (c : N)                        (* SubscribeToSwampEvents *)
| HUnsub (c : N) (others : bool)      (* Unsubscribe; [others]: the hydra has subscriber entries for other swamps *)
| HUnload                             (* the in-memory swamp goes away (idle close, destroy) *)
| HWrite (k : N) (s : status) (v : Z) (now : Z).   (* gateway write: summon, then save/delete *)

Record hst := {
  subs : list N;          (* callbacks registered for this swamp *)
  entry : bool;           (* eventSubscribers has an entry for this swamp (never removed) *)
  loaded : bool;
  active : bool;          (* isEventSendingActive of the loaded swamp object *)
  recv : list (N * msg)   (* (subscriber, message), oldest first *)
}.

Definition h_init : hst := {| subs := []; entry := false; loaded := false; active := false; recv := [] |}.

Definition nmem (k : N) (l : list N) : bool := existsb (N.eqb k) l.
Definition nremove (k : N) (l : list N) : list N := filter (fun x => negb (N.eqb k x)) l.

(* SummonSwamp of a swamp that is not in memory: new object (inactive), then
   hasEventSubscriber => StartSendingEvents *)
Definition summon (s : hst) : hst :=
  if loaded s then s
  else {| subs := subs s; entry := entry s; loaded := true;
          active := match subs s with [] => false | _ => true end; recv := recv s |}.

Definition hstep_fn (fixed : bool) (s : hst) (x : hstep) : hst :=
  match x with
  | HSub c =>
      {| subs := if nmem c (subs s) then subs s else subs s ++ [c]; entry := true;
         loaded := loaded s; active := if loaded s then true else active s; recv := recv s |}
  | HUnsub c others =>
      (* allSubscribers counts the swamps that have an entry, not the callbacks *)
      {| subs := nremove c (subs s); entry := entry s; loaded := loaded s;
         active := if negb (entry s) && negb others && loaded s then false else active s;
         recv := recv s |}
  | HUnload =>
      {| subs := subs s; entry := entry s; loaded := false; active := false; recv := recv s |}
  | HWrite k st v now =>
      let s1 := summon s in
      match emit (active s1) k st v now with
      | None => s1
      | Some e =>
          match deliver fixed e with
          | None => s1
          | Some m =>
              {| subs := subs s1; entry := entry s1; loaded := loaded s1; active := active s1;
                 recv := recv s1 ++ map (fun c => (c, m)) (subs s1) |}
          end
      end
  end.

Definition hrun (fixed : bool) (h : list hstep) : hst := fold_left (hstep_fn fixed) h h_init.

Definition recv_of (c : N) (s : hst) : list msg :=
  map snd (filter (fun p => N.eqb (fst p) c) (recv s)).

(* specification: the committed change log of c's subscription windows *)
Definition spec_step (fixed : bool) (c : N) (acc : bool * list msg) (x : hstep) : bool * list msg :=
  match x with
  | HSub c' => if N.eqb c' c then (true, snd acc) else acc
  | HUnsub c' _ => if N.eqb c' c then (false, snd acc) else acc
  | HUnload => acc
  | HWrite k st v now =>
      if fst acc && is_change st
      then let t := conv_time fixed now in
           (true, snd acc ++ [{| m_key := k; m_status := conv_status st; m_val := v;
                                 m_secs := fst t; m_nanos := snd t |}])
      else acc
  end.

Definition expected (fixed : bool) (c : N) (h : list hstep) : list msg :=
  snd (fold_left (spec_step fixed c) h (false, [])).

(* ---- the status the engine should report for a save (the reference of C06), and the sticky
        change flags of the current engine: a treasure object that was created or modified since
        it was loaded keeps contentChanged = true. ---------------------------------------------- *)
Definition save_status (sticky : bool) (cur : option Z) (dirty : bool) (v : Z) : status :=
  match cur with
  | None => StNew
  | Some v' => if Z.eqb v v' && negb (sticky && dirty) then StSame else StModified
  end.

(* ---- (2) delivery on one stream by concurrent writers --------------------------------------- *)
Inductive phase := PBegun | PCommitted (e : event) | PSending | PSent.

Inductive dstep :=
| DBegin (w k : N)                   (* StartTreasureGuard(true) returned for writer w on key k *)
| DCommit (w k : N) (e : event)      (* Save / delete inside the guard; event created *)
| DSendStart (w k : N)               (* the callback enters eventServer.SendMsg *)
| DSendEnd (w k : N)
| DEnd (w k : N).                    (* ReleaseTreasureGuard *)

Record dst := {
  slot : N -> option (N * phase);    (* key -> (guard holder, where it is) *)
  nsending : nat;                    (* SendMsg calls in progress on the stream *)
  over : bool;                       (* two SendMsg calls overlapped at some time *)
  sent : list event;                 (* in the order SendMsg was entered *)
  clog : list event                  (* in commit order *)
}.

Definition d_init : dst :=
  {| slot := fun _ => None; nsending := 0; over := false; sent := []; clog := [] |}.

Definition set_slot (f : N -> option (N * phase)) (k : N) (v : option (N * phase)) :=
  fun k' => if N.eqb k' k then v else f k'.

Definition dstep_fn (mutex : bool) (s : dst) (x : dstep) : option dst :=
  match x with
  | DBegin w k =>
      match slot s k with
      | None => Some {| slot := set_slot (slot s) k (Some (w, PBegun)); nsending := nsending s;
                        over := over s; sent := sent s; clog := clog s |}
      | Some _ => None                (* the guard is held: the caller keeps waiting *)
      end
  | DCommit w k e =>
      match slot s k with
      | Some (w', PBegun) =>
          if N.eqb w w' && N.eqb (ev_key e) k
          then Some {| slot := set_slot (slot s) k (Some (w, PCommitted e)); nsending := nsending s;
                       over := over s; sent := sent s; clog := clog s ++ [e] |}
          else None
      | _ => None
      end
  | DSendStart w k =>
      match slot s k with
      | Some (w', PCommitted e) =>
          if N.eqb w w' && (negb mutex || Nat.eqb (nsending s) 0)
          then Some {| slot := set_slot (slot s) k (Some (w, PSending)); nsending := S (nsending s);
                       over := over s || negb (Nat.eqb (nsending s) 0);
                       sent := sent s ++ [e]; clog := clog s |}
          else None
      | _ => None
      end
  | DSendEnd w k =>
      match slot s k with
      | Some (w', PSending) =>
          if N.eqb w w'
          then Some {| slot := set_slot (slot s) k (Some (w, PSent)); nsending := pred (nsending s);
                       over := over s; sent := sent s; clog := clog s |}
          else None
      | _ => None
      end
  | DEnd w k =>
      match slot s k with
      | Some (w', PBegun) | Some (w', PSent) =>
          if N.eqb w w'
          then Some {| slot := set_slot (slot s) k None; nsending := nsending s;
                       over := over s; sent := sent s; clog := clog s |}
          else None
      | _ => None
      end
  end.

Fixpoint drun (mutex : bool) (s : dst) (tr : list dstep) : option dst :=
  match tr with
  | [] => Some s
  | x :: t => match dstep_fn mutex s x with Some s' => drun mutex s' t | None => None end
  end.

Definition of_key (k : N) (l : list event) : list event := filter (fun e => N.eqb (ev_key e) k) l.

Definition pending_of (s : dst) (k : N) : list event :=
  match slot s k with Some (_, PCommitted e) => [e] | _ => [] end.

(* ---- (3) SubscribeToSwampEvents at sync.Map granularity --------------------------------------
   The function first Loads the swamp's subscriber map; if there is one it Stores the callback in
   it, otherwise it builds a fresh map holding the callback and Stores that map under the swamp
   name - over whatever is there by then.  Load and Store are separate steps. *)
Inductive sstep := SLoad (c : N) | SStore (c : N).

Record sst := { s_map : option (list N);        (* eventSubscribers[swamp] *)
                s_seen : list (N * bool) }.     (* client -> its Load found a map *)

Definition s_init : sst := {| s_map := None; s_seen := [] |}.

Definition sstep_fn (s : sst) (x : sstep) : sst :=
  match x with
  | SLoad c =>
      {| s_map := s_map s;
         s_seen := (c, match s_map s with Some _ => true | None => false end) :: s_seen s |}
  | SStore c =>
      match find (fun p => N.eqb (fst p) c) (s_seen s) with
      | Some (_, true) =>
          {| s_map := match s_map s with Some l => Some (l ++ [c]) | None => Some [c] end;
             s_seen := s_seen s |}
      | Some (_, false) => {| s_map := Some [c]; s_seen := s_seen s |}
      | None => s
      end
  end.

Definition srun (tr : list sstep) : sst := fold_left sstep_fn tr s_init.

(* ---- case checker ------------------------------------------------------------------------------ *)
(* one observed SendMsg on a subscriber's stream *)
Record omsg := {
  o_key : N; o_status : pbstatus; o_val : Z;
  o_secs : Z; o_nanos : Z;      (* EventTime as received *)
  o_wall : Z;                   (* wall clock (UnixNano) when SendMsg was entered *)
  o_start : N; o_end : N        (* global sequence numbers at entry / exit of SendMsg *)
}.

(* what the harness asked for and what the engine answered, in per-key commit order *)
Inductive wkind := WSet | WDelete | WShift | WIncr.

Record wop := { w_kind : wkind; w_key : N; w_req : Z (* value set / increment *);
                w_status : status (* reported *); w_val : Z (* value after (or removed value) *) }.

(* [CPar ws]: writers running concurrently, each with its operations in program order (the
   commit order across writers is not known to the harness).  [CDestroy]: gateway Destroy (all
   records gone, no events).  [CSync k v]: the harness read record k and found value v. *)
Inductive cstep :=
| CSub (c : N) | CUnsub (c : N) | CUnload | CWrite (o : wop)
| CPar (ws : list (list wop)) | CDestroy | CSync (k : N) (v : Z).

(* one linearisation: writer by writer *)
Definition flat1 (x : cstep) : list cstep :=
  match x with
  | CPar ws => map CWrite (concat ws)
  | _ => [x]
  end.
Definition flatten (h : list cstep) : list cstep := flat_map flat1 h.

Record case := {
  c_hist : list cstep;
  c_subs : list N; c_keys : list N;
  c_recv : list (N * list omsg)      (* per subscriber, in the order SendMsg was entered *)
}.

Definition to_hstep (x : cstep) : list hstep :=
  match x with
  | CSub c => [HSub c]
  | CUnsub c => [HUnsub c false]
  | CUnload => [HUnload]
  | CDestroy => [HUnload]
  | CWrite o => [HWrite (w_key o) (w_status o) (w_val o) 0]
  | CPar _ => []
  | CSync _ _ => []
  end.

Definition pbstatus_eqb (a b : pbstatus) : bool :=
  match a, b with
  | PbNew, PbNew | PbUpdated, PbUpdated | PbNothingChanged, PbNothingChanged
  | PbDeleted, PbDeleted | PbNotFound, PbNotFound => true
  | _, _ => false
  end.

(* projection compared between implementation and model: key, status, value *)
Definition proj_o (m : omsg) := (o_key m, o_status m, o_val m).
Definition proj_m (m : msg) := (m_key m, m_status m, m_val m).
Definition proj_eqb (a b : N * pbstatus * Z) : bool :=
  N.eqb (fst (fst a)) (fst (fst b)) && pbstatus_eqb (snd (fst a)) (snd (fst b)) && Z.eqb (snd a) (snd b).

Definition obs_of (c : case) (s : N) : list omsg :=
  match find (fun p => N.eqb (fst p) s) (c_recv c) with Some p => snd p | None => [] end.

Fixpoint overlap_from (hi : N) (l : list omsg) : bool :=
  match l with
  | [] => false
  | m :: t => N.ltb (o_start m) hi || overlap_from (N.max hi (o_end m)) t
  end.

Definition five_s : Z := 5 * giga.

Definition time_ok (m : omsg) : bool :=
  Z.ltb (Z.abs (ts_nanos (o_secs m, o_nanos m) - o_wall m)) five_s.
(* the pinned conversion: the nanosecond count arrives in the seconds field *)
Definition time_is_nanos_as_secs (m : omsg) : bool :=
  Z.eqb (o_nanos m) 0 && Z.ltb (Z.abs (o_secs m - o_wall m)) five_s.

Definition key_of_o (k : N) (l : list omsg) := filter (fun m => N.eqb (o_key m) k) l.
Definition key_of_m (k : N) (l : list msg) := filter (fun m => N.eqb (m_key m) k) l.

(* 0 equal; 2 an expected event is missing; 3 an event without a committed change; 7 same events, other order *)
Fixpoint count_p (x : N * pbstatus * Z) (l : list (N * pbstatus * Z)) : nat :=
  match l with [] => O | y :: t => (if proj_eqb x y then 1 else 0) + count_p x t end.

Definition cmp_lists (obs exp : list (N * pbstatus * Z)) : N :=
  if list_eqb proj_eqb obs exp then 0%N
  else if existsb (fun x => Nat.ltb (count_p x obs) (count_p x exp)) exp then 2%N
  else if existsb (fun x => Nat.ltb (count_p x exp) (count_p x obs)) obs then 3%N
  else 7%N.

Fixpoint first_nz (l : list N) : N :=
  match l with [] => 0%N | x :: t => if N.eqb x 0 then first_nz t else x end.

(* "none for saves that change nothing": a Set of the value the key already has, reported as
   Modified while somebody is subscribed.  [st]: key -> (current value, dirty). *)
Fixpoint noop_scan (h : list cstep) (nsub : nat) (st : list (N * (Z * bool))) : N :=
  match h with
  | [] => 0%N
  | CSub _ :: t => noop_scan t (S nsub) st
  | CUnsub _ :: t => noop_scan t (pred nsub) st
  | CUnload :: t => noop_scan t nsub (map (fun p => (fst p, (fst (snd p), false))) st)
  | CDestroy :: t => noop_scan t nsub []
  | CPar _ :: t => noop_scan t nsub st       (* not present after [flatten] *)
  | CSync k v :: t =>
      noop_scan t nsub ((k, (v, match find (fun p => N.eqb (fst p) k) st with
                                  | Some p => snd (snd p) | None => true end))
                        :: filter (fun p => negb (N.eqb (fst p) k)) st)
  | CWrite o :: t =>
      let k := w_key o in
      let cur := match find (fun p => N.eqb (fst p) k) st with Some p => Some (snd p) | None => None end in
      let rest := filter (fun p => negb (N.eqb (fst p) k)) st in
      let bad :=
        match w_kind o, cur with
        | WSet, Some (v, dirty) =>
            if Z.eqb (w_req o) v && is_change (w_status o) && negb (Nat.eqb nsub 0)
            then (if dirty then 8%N else 9%N) else 0%N
        | _, _ => 0%N
        end in
      if negb (N.eqb bad 0) then bad
      else
        let st' :=
          match w_status o with
          | StNew | StModified => (k, (w_val o, true)) :: rest
          | StSame => st
          | StDeleted => rest
          | StNotFound => st
          end in
        noop_scan t nsub st'
  end.

(* ---- per key: the received list must be an interleaving of the writers' change lists ------------ *)
Definition proj_w (o : wop) := (w_key o, conv_status (w_status o), w_val o).
Definition is_chg_k (k : N) (o : wop) : bool := N.eqb (w_key o) k && is_change (w_status o).
Definition is_nil {A} (l : list A) : bool := match l with [] => true | _ => false end.

(* a commit order of one record has New only on an absent record, Modified/Deleted on a present one *)
Definition status_ok (present : bool) (s : status) : bool :=
  match s with StNew => negb present | StModified | StDeleted => present | _ => true end.
Definition present_after (present : bool) (s : status) : bool :=
  match s with StNew | StModified => true | StDeleted => false | _ => present end.

Fixpoint pop_match (x : N * pbstatus * Z) (ws : list (list wop)) : option (wop * list (list wop)) :=
  match ws with
  | [] => None
  | [] :: t => option_map (fun r => (fst r, [] :: snd r)) (pop_match x t)
  | (o :: r) :: t =>
      if proj_eqb x (proj_w o) then Some (o, r :: t)
      else option_map (fun q => (fst q, (o :: r) :: snd q)) (pop_match x t)
  end.

Fixpoint consume (fuel : nat) (strict : bool) (obs : list (N * pbstatus * Z)) (ws : list (list wop))
                 (present : bool) : option (list (N * pbstatus * Z) * bool) :=
  if forallb is_nil ws then Some (obs, present) else
  match fuel with
  | O => None
  | S f =>
      match obs with
      | [] => None
      | x :: t =>
          match pop_match x ws with
          | None => None
          | Some (o, ws') =>
              if negb strict || status_ok present (w_status o)
              then consume f strict t ws' (present_after present (w_status o))
              else None
          end
      end
  end.

Definition block (k : N) (ws : list (list wop)) (sub present : bool) (obs : list (N * pbstatus * Z))
  : option (list (N * pbstatus * Z) * bool) :=
  let wk := map (filter (is_chg_k k)) ws in
  if sub then
    consume (length (concat wk)) (Nat.leb 2 (length (filter (fun l => negb (is_nil l)) wk))) obs wk present
  else Some (obs, fold_left (fun p o => present_after p (w_status o)) (concat wk) present).

Fixpoint walk (s k : N) (h : list cstep) (sub present : bool) (obs : list (N * pbstatus * Z)) : bool :=
  match h with
  | [] => is_nil obs
  | CSub c :: t => walk s k t (if N.eqb c s then true else sub) present obs
  | CUnsub c :: t => walk s k t (if N.eqb c s then false else sub) present obs
  | CUnload :: t => walk s k t sub present obs
  | CDestroy :: t => walk s k t sub false obs
  | CSync _ _ :: t => walk s k t sub present obs
  | CWrite o :: t =>
      match block k [[o]] sub present obs with
      | Some (obs', p') => walk s k t sub p' obs' | None => false end
  | CPar ws :: t =>
      match block k ws sub present obs with
      | Some (obs', p') => walk s k t sub p' obs' | None => false end
  end.

Definition perm_eqb (a b : list (N * pbstatus * Z)) : bool :=
  Nat.eqb (length a) (length b) && forallb (fun x => Nat.eqb (count_p x a) (count_p x b)) a.

Definition chk (c : case) : N :=
  let fl := flatten (c_hist c) in
  let h := flat_map to_hstep fl in
  (* Concurrent changes never corrupt the stream: no two SendMsg calls of one stream overlap *)
  if existsb (fun s => overlap_from 0 (obs_of c s)) (c_subs c) then 4%N
  (* the timestamp is the wall-clock time of the change *)
  else if existsb (fun s => existsb (fun m => negb (time_ok m)) (obs_of c s)) (c_subs c) then
    (if forallb (fun s => forallb (fun m => time_ok m || time_is_nanos_as_secs m) (obs_of c s)) (c_subs c)
     then 6%N else 5%N)
  else
    (* one event per committed change of the window; per key in a commit order (an interleaving of
       the writers' program orders with consistent statuses); whole list as a multiset *)
    let per_key :=
      first_nz (flat_map (fun s =>
        map (fun k =>
               let ok := map proj_o (key_of_o k (obs_of c s)) in
               if walk s k (c_hist c) false false ok then 0%N
               else match cmp_lists ok (map proj_m (key_of_m k (expected true s h))) with
                    | 0%N => 7%N | x => x end) (c_keys c)
        ++ [if Nat.eqb (length (obs_of c s)) (length (expected true s h))
               && forallb (fun m => nmem (o_key m) (c_keys c)) (obs_of c s) then 0%N else 3%N])
        (c_subs c)) in
    if negb (N.eqb per_key 0) then per_key
    else
      let np := noop_scan fl 0 [] in
      if negb (N.eqb np 0) then np
      else
        (* replay on the faithful machine (one linearisation: compared per key as multisets) *)
        let st := hrun true h in
        if forallb (fun s => forallb (fun k =>
              perm_eqb (map proj_o (key_of_o k (obs_of c s)))
                       (map proj_m (key_of_m k (recv_of s st)))) (c_keys c)) (c_subs c)
        then 0%N else 1%N.

Definition check_all (cs : list case) : list verdict := check_cases chk cs.
