(* Swamp/IndexProofs.v — lemmas and theorems about Swamp/Index.v *)
From HV Require Import Base.Prelude Swamp.Index.
From Coq Require Import Sorted Permutation Lia ZifyNat ZifyBool ZifyN.
Ltac Zify.zify_post_hook ::= Z.div_mod_to_equations.
Local Open Scope Z_scope.

(* ---- A. the attribute order is a total order --------------------------------------------- *)
Lemma skey_leb_refl a : skey_leb a a = true.
Proof. induction a as [|x a IH]; simpl; auto. rewrite Z.ltb_irrefl, Z.eqb_refl. exact IH. Qed.

Lemma skey_leb_total a : forall b, skey_leb a b = true \/ skey_leb b a = true.
Proof.
  induction a as [|x a IH]; intros [|y b]; simpl; auto.
  destruct (Z.ltb_spec x y), (Z.ltb_spec y x); auto; try lia.
  assert (x = y) by lia; subst. rewrite Z.eqb_refl. apply IH.
Qed.

Lemma skey_leb_trans a : forall b c, skey_leb a b = true -> skey_leb b c = true -> skey_leb a c = true.
Proof.
  induction a as [|x a IH]; intros [|y b] [|z c]; simpl; auto; try discriminate.
  destruct (Z.ltb_spec x y), (Z.ltb_spec y z), (Z.ltb_spec x z); auto; try lia;
    destruct (Z.eqb_spec x y), (Z.eqb_spec y z), (Z.eqb_spec x z); auto; try lia; try discriminate.
  apply IH.
Qed.

Lemma skey_leb_antisym a : forall b, skey_leb a b = true -> skey_leb b a = true -> a = b.
Proof.
  induction a as [|x a IH]; intros [|y b]; simpl; auto; try discriminate.
  destruct (Z.ltb_spec x y), (Z.ltb_spec y x), (Z.eqb_spec x y), (Z.eqb_spec y x);
    try lia; intros H1 H2; try discriminate.
  subst. f_equal. apply IH; assumption.
Qed.

Lemma skey_eqb_eq a b : skey_eqb a b = true <-> a = b.
Proof. unfold skey_eqb. apply list_eqb_eq. intros x y. apply Z.eqb_eq. Qed.
Lemma skey_eqb_refl a : skey_eqb a a = true.
Proof. apply skey_eqb_eq. reflexivity. Qed.
Lemma skey_eqb_neq a b : skey_eqb a b = false <-> a <> b.
Proof. split; intros H. - intros E. apply skey_eqb_eq in E. congruence.
  - destruct (skey_eqb a b) eqn:E; auto. apply skey_eqb_eq in E. contradiction. Qed.

Lemma ord_leb_refl asc a : ord_leb asc a a = true.
Proof. destruct asc; apply skey_leb_refl. Qed.
Lemma ord_leb_total asc a b : ord_leb asc a b = false -> ord_leb asc b a = true.
Proof. destruct asc; simpl; intros H; [destruct (skey_leb_total a b)|destruct (skey_leb_total b a)]; congruence. Qed.
Lemma ord_leb_trans asc a b c : ord_leb asc a b = true -> ord_leb asc b c = true -> ord_leb asc a c = true.
Proof. destruct asc; simpl; intros; eauto using skey_leb_trans. Qed.
Lemma ord_leb_antisym asc a b : ord_leb asc a b = true -> ord_leb asc b a = true -> a = b.
Proof. destruct asc; simpl; intros; auto using skey_leb_antisym. Qed.

(* strict/non-strict mixes *)
Lemma ltb_leb_trans x f t : skey_ltb x f = true -> skey_leb f t = true -> skey_ltb x t = true.
Proof.
  unfold skey_ltb. intros H1 H2. destruct (skey_leb t x) eqn:E; auto.
  rewrite (skey_leb_trans _ _ _ H2 E) in H1. discriminate.
Qed.
Lemma leb_ltb_trans y z f : skey_leb y z = true -> skey_ltb z f = true -> skey_ltb y f = true.
Proof.
  unfold skey_ltb. intros H1 H2. destruct (skey_leb f y) eqn:E; auto.
  rewrite (skey_leb_trans _ _ _ E H1) in H2. discriminate.
Qed.
Lemma ltb_leb x f : skey_ltb x f = true -> skey_leb x f = true.
Proof. unfold skey_ltb. intros H. destruct (skey_leb_total x f) as [A|A]; auto. rewrite A in H. discriminate. Qed.

(* ---- B. insertion sort --------------------------------------------------------------------- *)
Section Isort.
  Context {X : Type} (le : X -> X -> bool).
  Hypothesis le_total : forall a b, le a b = false -> le b a = true.
  Let R := fun a b => le a b = true.

  Lemma insert_by_perm x l : Permutation (insert_by le x l) (x :: l).
  Proof.
    induction l as [|y t IH]; simpl; auto. destruct (le x y); auto.
    eapply perm_trans; [apply perm_skip, IH | apply perm_swap].
  Qed.
  Lemma isort_perm l : Permutation (isort le l) l.
  Proof.
    induction l as [|x t IH]; simpl; auto.
    eapply perm_trans; [apply insert_by_perm | apply perm_skip, IH].
  Qed.
  Lemma insert_by_hdrel a x l : HdRel R a l -> R a x -> HdRel R a (insert_by le x l).
  Proof. intros H Hx. destruct l as [|y t]; simpl; [constructor; auto|]. inversion H; subst.
    destruct (le x y); constructor; auto. Qed.
  Lemma insert_by_sorted x l : Sorted R l -> Sorted R (insert_by le x l).
  Proof.
    induction 1 as [|y t Hs IH Hh]; simpl; [repeat constructor|].
    destruct (le x y) eqn:E.
    - constructor; [constructor; auto | constructor; exact E].
    - constructor; auto. apply insert_by_hdrel; auto. apply le_total; exact E.
  Qed.
  Lemma isort_sorted l : Sorted R (isort le l).
  Proof. induction l as [|x t IH]; simpl; [constructor | apply insert_by_sorted; exact IH]. Qed.
End Isort.

(* sorted lists with the same elements are equal (antisymmetric total order) *)
Lemma sorted_perm_unique asc (l1 : list skey) : forall l2,
  Sorted (fun a b => ord_leb asc a b = true) l1 -> Sorted (fun a b => ord_leb asc a b = true) l2 ->
  Permutation l1 l2 -> l1 = l2.
Proof.
  induction l1 as [|x t IH]; intros l2 S1 S2 P.
  - apply Permutation_nil in P. auto.
  - destruct l2 as [|y u]; [apply Permutation_sym, Permutation_nil in P; discriminate|].
    apply Sorted_StronglySorted in S1; [|intros a b c; apply ord_leb_trans].
    apply Sorted_StronglySorted in S2; [|intros a b c; apply ord_leb_trans].
    inversion S1 as [|? ? S1t F1]; inversion S2 as [|? ? S2u F2]; subst.
    assert (x = y).
    { assert (Ix : In x (y :: u)) by (eapply Permutation_in; [exact P | left; auto]).
      assert (Iy : In y (x :: t)) by (eapply Permutation_in; [apply Permutation_sym; exact P | left; auto]).
      destruct Ix as [->|Ix]; auto. destruct Iy as [->|Iy]; auto.
      rewrite Forall_forall in F1, F2. apply (ord_leb_antisym asc); auto. }
    subst y. f_equal. apply IH.
    + apply StronglySorted_Sorted; auto.
    + apply StronglySorted_Sorted; auto.
    + eapply Permutation_cons_inv; eauto.
Qed.

(* ---- generic list facts -------------------------------------------------------------------- *)
Section ListFacts.
  Context {X : Type}.
  Lemma filter_and (f g : X -> bool) l : filter (fun x => f x && g x) l = filter g (filter f l).
  Proof. induction l as [|x t IH]; simpl; auto. destruct (f x); simpl; [destruct (g x)|]; rewrite IH; auto. Qed.
  Lemma filter_comm (f g : X -> bool) l : filter f (filter g l) = filter g (filter f l).
  Proof. rewrite <- !filter_and. apply filter_ext. intros; apply andb_comm. Qed.
  Lemma filter_all (f : X -> bool) l : (forall x, In x l -> f x = true) -> filter f l = l.
  Proof. induction l as [|x t IH]; simpl; intros H; auto. rewrite (H x) by auto. f_equal. apply IH. auto. Qed.
  Lemma filter_none (f : X -> bool) l : (forall x, In x l -> f x = false) -> filter f l = [].
  Proof. induction l as [|x t IH]; simpl; intros H; auto. rewrite (H x) by auto. apply IH. auto. Qed.
  Lemma filter_len_part (f : X -> bool) l :
    (length (filter f l) + length (filter (fun x => negb (f x)) l) = length l)%nat.
  Proof. induction l as [|x t IH]; simpl; auto. destruct (f x); simpl; lia. Qed.
  Lemma filter_len_le (f : X -> bool) l : (length (filter f l) <= length l)%nat.
  Proof. pose proof (filter_len_part f l). lia. Qed.
  Lemma filter_map_len {Y} (g : X -> Y) (p : Y -> bool) l :
    length (filter p (map g l)) = length (filter (fun x => p (g x)) l).
  Proof. induction l as [|x t IH]; simpl; auto. destruct (p (g x)); simpl; auto. Qed.

  (* a predicate that is closed towards the front of a sorted list holds on a prefix *)
  Lemma sorted_split (R : X -> X -> Prop) (p : X -> bool) :
    (forall y z, R y z -> p z = true -> p y = true) ->
    forall a, StronglySorted R a -> a = filter p a ++ filter (fun x => negb (p x)) a.
  Proof.
    intros C a S. induction S as [|y t S IH F]; simpl; auto.
    destruct (p y) eqn:E; simpl.
    - f_equal. exact IH.
    - rewrite Forall_forall in F.
      assert (N : forall z, In z t -> p z = false).
      { intros z Hz. destruct (p z) eqn:Ez; auto. rewrite (C y z (F z Hz) Ez) in E. discriminate. }
      rewrite (filter_none p t N). simpl. f_equal. symmetry. apply filter_all.
      intros z Hz. rewrite (N z Hz). reflexivity.
  Qed.

  (* the elements between two prefix predicates form the index interval [s, e1) *)
  Lemma seg_lemma (p1 p2 : X -> bool) a :
    a = filter p1 a ++ filter (fun x => negb (p1 x)) a ->
    a = filter p2 a ++ filter (fun x => negb (p2 x)) a ->
    ((forall x, p1 x = true -> p2 x = true) \/ (forall x, p2 x = true -> p1 x = true)) ->
    filter (fun x => negb (p1 x) && p2 x) a =
      firstn (length (filter p2 a) - length (filter p1 a)) (skipn (length (filter p1 a)) a).
  Proof.
    intros H1 H2 Himp.
    set (np1 := fun x => negb (p1 x)) in *. set (np2 := fun x => negb (p2 x)) in *.
    change (filter (fun x => negb (p1 x) && p2 x) a) with (filter (fun x => np1 x && p2 x) a).
    assert (Sk : skipn (length (filter p1 a)) a = filter np1 a).
    { rewrite H1 at 2. rewrite skipn_app, skipn_all, Nat.sub_diag. reflexivity. }
    rewrite Sk. rewrite (filter_and np1 p2 a).
    set (Xs := filter np1 (filter p2 a)).
    assert (B : filter np1 a = Xs ++ filter np1 (filter np2 a)).
    { rewrite H2 at 1. rewrite filter_app. reflexivity. }
    assert (FX : filter p2 (filter np1 a) = Xs).
    { rewrite B, filter_app. unfold Xs. rewrite (filter_comm p2 np1 (filter p2 a)).
      rewrite (filter_all p2 (filter p2 a)) by (intros x Hx; apply filter_In in Hx; tauto).
      rewrite (filter_comm p2 np1 (filter np2 a)).
      rewrite (filter_none p2 (filter np2 a)).
      - simpl. apply app_nil_r.
      - intros x Hx. apply filter_In in Hx. destruct Hx as [_ Hx]. unfold np2 in Hx.
        destruct (p2 x); auto; discriminate. }
    rewrite FX.
    assert (L : (length Xs = length (filter p2 a) - length (filter p1 a))%nat).
    { pose proof (filter_len_part p1 (filter p2 a)) as P. fold np1 in P. fold Xs in P.
      destruct Himp as [I|I].
      - rewrite (filter_comm p1 p2 a) in P.
        rewrite (filter_all p2 (filter p1 a)) in P; [lia|].
        intros x Hx. apply filter_In in Hx. apply I. tauto.
      - assert (Xs = []) as ->.
        { apply filter_none. intros x Hx. apply filter_In in Hx. unfold np1. rewrite (I x); tauto. }
        simpl in *. rewrite (filter_comm p1 p2 a) in P.
        pose proof (filter_len_le p2 (filter p1 a)). lia. }
    rewrite <- L, B. rewrite firstn_app, Nat.sub_diag, firstn_all. simpl. rewrite app_nil_r. reflexivity.
  Qed.
End ListFacts.

(* ---- C. the binary searches of findTimeRangeBounds ------------------------------------------ *)
Lemma bs_correct (go : skey -> bool) (a1 a2 : list skey) :
  forallb go a1 = true -> forallb (fun x => negb (go x)) a2 = true ->
  forall fuel l r, (l <= length a1)%nat -> (length a1 <= r)%nat -> (r <= length (a1 ++ a2))%nat ->
    (r - l < fuel)%nat -> bs fuel go (a1 ++ a2) l r = Some (length a1).
Proof.
  intros G1 G2. rewrite forallb_forall in G1, G2.
  induction fuel as [|fuel IH]; intros l r Hl Hr Hn Hf; [lia|].
  cbn [bs]. destruct (Nat.ltb_spec l r) as [Lt|Ge].
  - cbv zeta. set (m := (l + (r - l) / 2)%nat).
    assert (Hm : (l <= m < r)%nat) by (unfold m; split; [lia|]; pose proof (Nat.div_lt (r - l) 2); lia).
    destruct (nth_error (a1 ++ a2) m) as [x|] eqn:E.
    2:{ apply nth_error_None in E. lia. }
    destruct (Nat.lt_ge_cases m (length a1)) as [Lm|Gm].
    + rewrite nth_error_app1 in E by exact Lm. apply nth_error_In in E. rewrite (G1 x E).
      apply IH; lia.
    + rewrite nth_error_app2 in E by exact Gm. apply nth_error_In in E.
      specialize (G2 x E). destruct (go x); [discriminate|]. apply IH; lia.
  - f_equal. lia.
Qed.

Lemma search_ok (p : skey -> bool) a :
  a = filter p a ++ filter (fun x => negb (p x)) a ->
  bs (S (length a)) p a 0 (length a) = Some (length (filter p a)).
Proof.
  intros H.
  pose proof (bs_correct p (filter p a) (filter (fun x => negb (p x)) a)) as B.
  rewrite <- H in B. apply B.
  - apply forallb_forall. intros x Hx. apply filter_In in Hx. tauto.
  - apply forallb_forall. intros x Hx. apply filter_In in Hx. tauto.
  - lia.
  - apply filter_len_le.
  - lia.
  - lia.
Qed.

(* the two prefix predicates of a window, per direction *)
Definition lo_pred (asc : bool) (ft tu : option skey) : skey -> bool :=
  if asc then match ft with Some f => fun x => skey_ltb x f | None => fun _ => false end
  else match tu with Some t => fun x => negb (skey_ltb x t) | None => fun _ => false end.
Definition hi_pred (asc : bool) (ft tu : option skey) : skey -> bool :=
  if asc then match tu with Some t => fun x => skey_ltb x t | None => fun _ => true end
  else match ft with Some f => fun x => negb (skey_ltb x f) | None => fun _ => true end.

(* membership in the half-open window [from, to) *)
Definition win (ft tu : option skey) (x : skey) : bool :=
  (match ft with Some f => skey_leb f x | None => true end) &&
  (match tu with Some t => skey_ltb x t | None => true end).

Lemma win_preds asc ft tu x : win ft tu x = negb (lo_pred asc ft tu x) && hi_pred asc ft tu x.
Proof.
  unfold win, lo_pred, hi_pred, skey_ltb. destruct asc, ft, tu; simpl;
    rewrite ?negb_involutive, ?andb_true_r; auto using andb_comm.
Qed.

Definition ordR (asc : bool) : skey -> skey -> Prop := fun x y => ord_leb asc x y = true.

Lemma lo_pred_closed asc ft tu y z : ordR asc y z -> lo_pred asc ft tu z = true -> lo_pred asc ft tu y = true.
Proof.
  unfold ordR, lo_pred. destruct asc; simpl.
  - destruct ft; auto. intros. eapply leb_ltb_trans; eauto.
  - destruct tu; auto. unfold skey_ltb. rewrite !negb_involutive. intros. eapply skey_leb_trans; eauto.
Qed.
Lemma hi_pred_closed asc ft tu y z : ordR asc y z -> hi_pred asc ft tu z = true -> hi_pred asc ft tu y = true.
Proof.
  unfold ordR, hi_pred. destruct asc; simpl.
  - destruct tu; auto. intros. eapply leb_ltb_trans; eauto.
  - destruct ft; auto. unfold skey_ltb. rewrite !negb_involutive. intros. eapply skey_leb_trans; eauto.
Qed.
Lemma lo_hi_nested asc ft tu :
  (forall x, lo_pred asc ft tu x = true -> hi_pred asc ft tu x = true) \/
  (forall x, hi_pred asc ft tu x = true -> lo_pred asc ft tu x = true).
Proof.
  unfold lo_pred, hi_pred. destruct asc, ft as [f|], tu as [t|]; simpl; auto;
    try (left; intros; discriminate).
  - destruct (skey_leb_total f t) as [L|L].
    + left. intros x H. eapply ltb_leb_trans; eauto.
    + right. intros x H. eapply ltb_leb_trans; eauto.
  - unfold skey_ltb. destruct (skey_leb_total f t) as [L|L].
    + left. intros x. rewrite !negb_involutive. intros H. eapply skey_leb_trans; eauto.
    + right. intros x. rewrite !negb_involutive. intros H. eapply skey_leb_trans; eauto.
Qed.

Lemma find_bounds_spec asc a ft tu :
  Sorted (ordR asc) a ->
  let s0 := length (filter (lo_pred asc ft tu) a) in
  let e1 := length (filter (hi_pred asc ft tu) a) in
  find_bounds asc a ft tu =
    Some (if (s0 <? e1)%nat then (Z.of_nat s0, Z.of_nat e1 - 1) else (0, -1)).
Proof.
  intros Srt s0 e1.
  apply Sorted_StronglySorted in Srt; [|intros x y z; apply ord_leb_trans].
  pose proof (sorted_split (ordR asc) _ (lo_pred_closed asc ft tu) a Srt) as Plo.
  pose proof (sorted_split (ordR asc) _ (hi_pred_closed asc ft tu) a Srt) as Phi.
  pose proof (filter_len_le (lo_pred asc ft tu) a) as Ls.
  pose proof (filter_len_le (hi_pred asc ft tu) a) as Le.
  unfold find_bounds. destruct (Nat.eqb_spec (length a) 0) as [Z0|NZ].
  - fold s0 in Ls. fold e1 in Le. replace (s0 <? e1)%nat with false; auto.
    symmetry. apply Nat.ltb_ge. lia.
  - assert (St : (if asc
                  then match ft with Some f => bs (S (length a)) (fun ts => skey_ltb ts f) a 0 (length a) | None => Some 0%nat end
                  else match tu with Some t => bs (S (length a)) (fun ts => negb (skey_ltb ts t)) a 0 (length a) | None => Some 0%nat end)
                 = Some s0).
    { unfold s0, lo_pred in *. destruct asc; [destruct ft | destruct tu];
        try (apply search_ok; exact Plo);
        rewrite (filter_none (fun _ : skey => false)); auto. }
    assert (En : (if asc
                  then match tu with Some t => bs (S (length a)) (fun ts => skey_ltb ts t) a 0 (length a) | None => Some (length a) end
                  else match ft with Some f => bs (S (length a)) (fun ts => negb (skey_ltb ts f)) a 0 (length a) | None => Some (length a) end)
                 = Some e1).
    { unfold e1, hi_pred in *. destruct asc; [destruct tu | destruct ft];
        try (apply search_ok; exact Phi);
        rewrite (filter_all (fun _ : skey => true)); auto. }
    rewrite St, En. fold s0 in Ls. fold e1 in Le.
    destruct (Nat.ltb_spec s0 e1) as [Lt|Ge]; f_equal.
    + replace (Z.of_nat s0 <? 0) with false by lia.
      replace (Z.of_nat e1 - 1 >=? Z.of_nat (length a)) with false by lia.
      replace (Z.of_nat s0 >? Z.of_nat e1 - 1) with false by lia.
      replace (Z.of_nat s0 >=? Z.of_nat (length a)) with false by lia.
      replace (Z.of_nat e1 - 1 <? 0) with false by lia. reflexivity.
    + replace (Z.of_nat s0 <? 0) with false by lia.
      replace (Z.of_nat e1 - 1 >=? Z.of_nat (length a)) with false by lia.
      replace (Z.of_nat s0 >? Z.of_nat e1 - 1) with true by lia. reflexivity.
Qed.

(* findTimeRangeBounds on a slice sorted by the active attribute returns exactly the index
   interval of the entries with from <= ts < to (ascending and descending): the entries at
   [s..e] are, in order, all entries inside the window. No panic, no fuel exhaustion. *)
Theorem bounds_correct asc a ft tu :
  Sorted (ordR asc) a ->
  exists s e, find_bounds asc a ft tu = Some (s, e) /\
    0 <= s /\ -1 <= e < Z.of_nat (length a) /\ s <= e + 1 /\
    filter (win ft tu) a = firstn (Z.to_nat (e + 1 - s)) (skipn (Z.to_nat s) a).
Proof.
  intros Srt. pose proof (find_bounds_spec asc a ft tu Srt) as F. cbv zeta in F.
  set (s0 := length (filter (lo_pred asc ft tu) a)) in *.
  set (e1 := length (filter (hi_pred asc ft tu) a)) in *.
  pose proof (filter_len_le (hi_pred asc ft tu) a) as Le. fold e1 in Le.
  assert (W : filter (win ft tu) a = firstn (e1 - s0) (skipn s0 a)).
  { rewrite (filter_ext _ _ (win_preds asc ft tu)).
    apply Sorted_StronglySorted in Srt; [|intros x y z; apply ord_leb_trans].
    apply seg_lemma.
    - apply (sorted_split (ordR asc) _ (lo_pred_closed asc ft tu) a Srt).
    - apply (sorted_split (ordR asc) _ (hi_pred_closed asc ft tu) a Srt).
    - apply lo_hi_nested. }
  destruct (Nat.ltb_spec s0 e1) as [Lt|Ge].
  - exists (Z.of_nat s0), (Z.of_nat e1 - 1). split; [exact F|]. repeat split; try lia.
    rewrite W. f_equal; [lia | f_equal; lia].
  - exists 0, (-1). split; [exact F|]. repeat split; try lia.
    rewrite W. replace (e1 - s0)%nat with 0%nat by lia. reflexivity.
Qed.

(* ---- D. GetManyFromOrderPosition on a sorted slice ------------------------------------------ *)
Lemma page_of_nil {X} from lim : @page_of X from lim [] = [].
Proof. unfold page_of. destruct lim; rewrite skipn_nil; auto. Qed.

Lemma skipn_skipn {X} (x y : nat) (l : list X) : skipn x (skipn y l) = skipn (x + y) l.
Proof.
  revert l. induction y as [|y IH]; intros l.
  - rewrite Nat.add_0_r. reflexivity.
  - rewrite Nat.add_succ_r. destruct l as [|a t]; [rewrite !skipn_nil; reflexivity|]. cbn [skipn]. apply IH.
Qed.

Lemma Sorted_map {X Y} (g : X -> Y) (R : Y -> Y -> Prop) l :
  Sorted (fun a b => R (g a) (g b)) l -> Sorted R (map g l).
Proof.
  induction 1 as [|x t Hs IH Hh]; simpl; constructor; auto.
  destruct Hh; simpl; constructor; auto.
Qed.
Lemma Sorted_map_inv {X Y} (g : X -> Y) (R : Y -> Y -> Prop) l :
  Sorted R (map g l) -> Sorted (fun a b => R (g a) (g b)) l.
Proof.
  induction l as [|x t IH]; simpl; intros H; constructor; inversion H; subst; auto.
  destruct t; simpl in *; constructor. inversion H3; auto.
Qed.

(* the part of GetManyFromOrderPosition after the bounds are known *)
Definition gm_tail (slice : list skey) (windowed : bool) (startIdx endIdx from lim : Z) : option (list skey) :=
  let n := Z.of_nat (length slice) in
  if windowed && ((endIdx <? startIdx) || (startIdx <? 0)) then Some [] else
  let actualStart := startIdx + from in
  if actualStart >? endIdx then Some [] else
  let actualEnd := if lim =? 0 then endIdx
                   else if actualStart + lim - 1 >? endIdx then endIdx else actualStart + lim - 1 in
  let size := actualEnd - actualStart + 1 in
  if size <=? 0 then Some [] else
  if (actualStart <? 0) || (actualStart + size >? n) then None
  else Some (firstn (Z.to_nat size) (skipn (Z.to_nat actualStart) slice)).

Lemma get_many_unfold asc slice a from lim ft tu :
  get_many asc slice a from lim ft tu =
  match (if is_some ft || is_some tu then find_bounds asc a ft tu
         else Some (0, Z.of_nat (length slice) - 1)) with
  | None => None
  | Some (s, e) => gm_tail slice (is_some ft || is_some tu) s e from lim
  end.
Proof. reflexivity. Qed.

Lemma paging_core (slice : list skey) windowed (s0 e1 : nat) from lim :
  (e1 <= length slice)%nat -> 0 <= from -> 0 <= lim ->
  let b := if (s0 <? e1)%nat then (Z.of_nat s0, Z.of_nat e1 - 1) else (0, -1) in
  gm_tail slice windowed (fst b) (snd b) from lim =
    Some (page_of (Z.to_nat from) (Z.to_nat lim) (firstn (e1 - s0) (skipn s0 slice))).
Proof.
  intros He Hf Hl b. unfold gm_tail. subst b.
  destruct (Nat.ltb_spec s0 e1) as [Lt|Ge]; cbn [fst snd].
  2:{ replace (e1 - s0)%nat with 0%nat by lia. cbn [firstn]. rewrite page_of_nil.
      destruct windowed; cbn [andb]; [reflexivity|].
      replace (0 + from >? -1) with true by lia. reflexivity. }
  replace (windowed && ((Z.of_nat e1 - 1 <? Z.of_nat s0) || (Z.of_nat s0 <? 0))) with false
    by (destruct windowed; cbn [andb]; lia).
  set (k := (e1 - s0)%nat). set (L := skipn s0 slice).
  assert (LL : length L = (length slice - s0)%nat) by (unfold L; apply skipn_length).
  destruct (Z.gtb_spec (Z.of_nat s0 + from) (Z.of_nat e1 - 1)) as [Big|Small].
  - (* offset beyond the range *)
    unfold page_of. rewrite skipn_firstn_comm.
    replace (k - Z.to_nat from)%nat with 0%nat by lia. cbn [firstn].
    destruct (Z.to_nat lim); reflexivity.
  - destruct (Z.eqb_spec lim 0) as [L0|LN].
    + (* no limit *)
      replace (Z.of_nat e1 - 1 - (Z.of_nat s0 + from) + 1 <=? 0) with false by lia.
      replace ((Z.of_nat s0 + from <? 0) ||
               (Z.of_nat s0 + from + (Z.of_nat e1 - 1 - (Z.of_nat s0 + from) + 1) >? Z.of_nat (length slice)))
        with false by lia.
      subst lim. cbn [Z.to_nat page_of]. rewrite skipn_firstn_comm. unfold L. rewrite skipn_skipn.
      f_equal. f_equal; [lia | f_equal; lia].
    + destruct (Z.to_nat lim) as [|lim'] eqn:EL; [lia|]. unfold page_of.
      rewrite skipn_firstn_comm, firstn_firstn. unfold L. rewrite skipn_skipn.
      destruct (Z.gtb_spec (Z.of_nat s0 + from + lim - 1) (Z.of_nat e1 - 1)) as [Cap|NoCap].
      * replace (Z.of_nat e1 - 1 - (Z.of_nat s0 + from) + 1 <=? 0) with false by lia.
        replace ((Z.of_nat s0 + from <? 0) ||
                 (Z.of_nat s0 + from + (Z.of_nat e1 - 1 - (Z.of_nat s0 + from) + 1) >? Z.of_nat (length slice)))
          with false by lia.
        f_equal. f_equal; [lia | f_equal; lia].
      * replace (Z.of_nat s0 + from + lim - 1 - (Z.of_nat s0 + from) + 1 <=? 0) with false by lia.
        replace ((Z.of_nat s0 + from <? 0) ||
                 (Z.of_nat s0 + from + (Z.of_nat s0 + from + lim - 1 - (Z.of_nat s0 + from) + 1) >? Z.of_nat (length slice)))
          with false by lia.
        f_equal. f_equal; [lia | f_equal; lia].
Qed.

(* If the ordered slice is sorted by the active attribute, GetManyFromOrderPosition returns the
   paged cut of the entries inside the window: no panic, exact offsets, half-open window. *)
Theorem page_correct_on_sorted asc (at_ : skey -> skey) slice from lim ft tu :
  Sorted (fun k1 k2 => ord_leb asc (at_ k1) (at_ k2) = true) slice ->
  0 <= from -> 0 <= lim ->
  get_many asc slice (map at_ slice) from lim ft tu =
    Some (page_of (Z.to_nat from) (Z.to_nat lim) (filter (fun k => win ft tu (at_ k)) slice)).
Proof.
  intros Srt Hf Hl. rewrite get_many_unfold.
  set (lo := fun k => lo_pred asc ft tu (at_ k)). set (hi := fun k => hi_pred asc ft tu (at_ k)).
  set (s0 := length (filter lo slice)). set (e1 := length (filter hi slice)).
  assert (SrtA : Sorted (ordR asc) (map at_ slice)) by (apply Sorted_map; exact Srt).
  assert (W : filter (fun k => win ft tu (at_ k)) slice = firstn (e1 - s0) (skipn s0 slice)).
  { rewrite (filter_ext _ (fun k => negb (lo k) && hi k)) by (intros k; apply win_preds).
    apply Sorted_StronglySorted in Srt.
    2:{ intros x y z; apply ord_leb_trans. }
    apply seg_lemma.
    - apply (sorted_split _ lo) in Srt; auto. intros y z. apply lo_pred_closed.
    - apply (sorted_split _ hi) in Srt; auto. intros y z. apply hi_pred_closed.
    - destruct (lo_hi_nested asc ft tu) as [I|I]; [left|right]; intros x; apply I. }
  assert (B : (if is_some ft || is_some tu then find_bounds asc (map at_ slice) ft tu
               else Some (0, Z.of_nat (length slice) - 1))
              = Some (if (s0 <? e1)%nat then (Z.of_nat s0, Z.of_nat e1 - 1) else (0, -1))).
  { destruct (is_some ft || is_some tu) eqn:Wd.
    - rewrite (find_bounds_spec asc _ ft tu SrtA). cbv zeta. rewrite !filter_map_len. reflexivity.
    - destruct ft, tu; try discriminate. f_equal.
      assert (s0 = 0%nat) as ->.
      { unfold s0, lo, lo_pred. destruct asc; rewrite (filter_none (fun _ => false)); auto. }
      assert (e1 = length slice) as ->.
      { unfold e1, hi, hi_pred. destruct asc; rewrite (filter_all (fun _ => true)); auto. }
      destruct (Nat.ltb_spec 0 (length slice)); f_equal; lia. }
  rewrite B.
  pose proof (paging_core slice (is_some ft || is_some tu) s0 e1 from lim) as P. cbv zeta in P.
  destruct (s0 <? e1)%nat; cbn [fst snd] in P; rewrite W; apply P; auto; apply filter_len_le.
Qed.

(* ---- F. the maintenance invariant ------------------------------------------------------------ *)
Definition attr_le (rs : list rec) (f : fam) (asc : bool) : skey -> skey -> Prop :=
  fun k1 k2 => ord_leb asc (key_attr rs f k1) (key_attr rs f k2) = true.

(* an initialised beacon holds exactly the keys of the records that carry the attribute, sorted *)
Definition good (rs : list rec) (vt : N) (f : fam) (asc : bool) (b : beacon) : Prop :=
  (b_init b = false -> b_slice b = []) /\
  (b_init b = true -> Permutation (b_slice b) (carrier_keys f vt rs) /\ Sorted (attr_le rs f asc) (b_slice b)).

Definition Inv (s : st) : Prop :=
  NoDup (map r_key (recs s)) /\
  (forall f asc, good (recs s) (vtype s) f asc (bcn s f asc)) /\
  (forall f, b_init (bcn s f true) = b_init (bcn s f false)).

Lemma attr_le_trans rs f asc x y z : attr_le rs f asc x y -> attr_le rs f asc y z -> attr_le rs f asc x z.
Proof. unfold attr_le. apply ord_leb_trans. Qed.

Lemma sort_slice_perm rs f asc l : Permutation (sort_slice rs f asc l) l.
Proof. apply isort_perm. Qed.
Lemma sort_slice_sorted rs f asc l : Sorted (attr_le rs f asc) (sort_slice rs f asc l).
Proof. unfold sort_slice, attr_le. apply (isort_sorted (fun k1 k2 => ord_leb asc (key_attr rs f k1) (key_attr rs f k2))).
  intros a b. apply ord_leb_total. Qed.

Lemma sort_slice_good rs vt f asc l :
  Permutation l (carrier_keys f vt rs) -> good rs vt f asc (mkb true (sort_slice rs f asc l)).
Proof.
  intros P. split; cbn; intros H; [discriminate|]. split.
  - eapply perm_trans; [apply sort_slice_perm | exact P].
  - apply sort_slice_sorted.
Qed.

Lemma Sorted_ext_in {X} (R R' : X -> X -> Prop) l :
  (forall x y, In x l -> In y l -> R x y -> R' x y) -> Sorted R l -> Sorted R' l.
Proof.
  intros E S. induction S as [|x t S IH H]; constructor.
  - apply IH. intros a b Ha Hb. apply E; right; auto.
  - destruct H; constructor. apply E; [left; auto | right; left; auto | auto].
Qed.

(* -- slices -- *)
Lemma existsb_skey k l : existsb (skey_eqb k) l = true <-> In k l.
Proof. rewrite existsb_exists. split.
  - intros [x [Hx E]]. apply skey_eqb_eq in E. subst. auto.
  - intros H. exists k. split; auto. apply skey_eqb_refl. Qed.
Lemma slice_add_in k l : In k l -> slice_add k l = l.
Proof. intros H. unfold slice_add. apply existsb_skey in H. rewrite H. reflexivity. Qed.
Lemma slice_add_notin k l : ~ In k l -> slice_add k l = l ++ [k].
Proof. intros H. unfold slice_add. destruct (existsb (skey_eqb k) l) eqn:E; auto. apply existsb_skey in E. contradiction. Qed.

Lemma slice_del_notin k l : ~ In k l -> slice_del k l = l.
Proof. induction l as [|x t IH]; simpl; intros H; auto.
  destruct (skey_eqb x k) eqn:E. - apply skey_eqb_eq in E. subst. exfalso. apply H. auto.
  - f_equal. apply IH. tauto. Qed.
Lemma slice_del_sub k l x : In x (slice_del k l) -> In x l.
Proof. induction l as [|y t IH]; simpl; auto. destruct (skey_eqb y k); simpl; intros H; auto. destruct H; auto. Qed.
Lemma slice_del_perm k l1 l2 : Permutation l1 l2 -> Permutation (slice_del k l1) (slice_del k l2).
Proof.
  induction 1 as [|x l l' P IH|x y l|l l' l'' P1 IH1 P2 IH2]; simpl; auto.
  - destruct (skey_eqb x k); auto.
  - destruct (skey_eqb y k) eqn:Ey, (skey_eqb x k) eqn:Ex; auto.
    + apply skey_eqb_eq in Ey, Ex. subst. auto.
    + apply perm_swap.
  - eapply perm_trans; eauto.
Qed.
Lemma slice_del_cons_perm k l : In k l -> Permutation l (k :: slice_del k l).
Proof. induction l as [|x t IH]; simpl; intros H; [contradiction|].
  destruct (skey_eqb x k) eqn:E. - apply skey_eqb_eq in E. subst. auto.
  - destruct H as [->|H]; [rewrite skey_eqb_refl in E; discriminate|].
    eapply perm_trans; [apply perm_skip, IH, H | apply perm_swap]. Qed.
Lemma slice_del_nodup_notin k l : NoDup l -> ~ In k (slice_del k l).
Proof. induction 1 as [|x t Hx N IH]; simpl; auto.
  destruct (skey_eqb x k) eqn:E. - apply skey_eqb_eq in E. subst. auto.
  - intros [->|H]; [rewrite skey_eqb_refl in E; discriminate | auto]. Qed.
Lemma slice_del_ssorted (R : skey -> skey -> Prop) k l : StronglySorted R l -> StronglySorted R (slice_del k l).
Proof. induction 1 as [|x t S IH F]; simpl; [constructor|]. destruct (skey_eqb x k); auto.
  constructor; auto. rewrite Forall_forall in *. intros y Hy. apply F. eapply slice_del_sub; eauto. Qed.
Lemma slice_del_sorted rs f asc k l : Sorted (attr_le rs f asc) l -> Sorted (attr_le rs f asc) (slice_del k l).
Proof. intros S. apply StronglySorted_Sorted, slice_del_ssorted, Sorted_StronglySorted; auto.
  intros x y z. apply attr_le_trans. Qed.

(* -- record maps -- *)
Lemma find_rec_key k rs r : find_rec k rs = Some r -> In r rs /\ r_key r = k.
Proof. induction rs as [|x t IH]; simpl; [discriminate|]. destruct (skey_eqb (r_key x) k) eqn:E.
  - intros H. inversion H; subst. apply skey_eqb_eq in E. auto.
  - intros H. destruct (IH H). auto. Qed.
Lemma find_rec_none k rs : find_rec k rs = None <-> ~ In k (map r_key rs).
Proof. induction rs as [|x t IH]; simpl; [tauto|]. destruct (skey_eqb (r_key x) k) eqn:E.
  - apply skey_eqb_eq in E. split; [discriminate | intros H; exfalso; apply H; auto].
  - apply skey_eqb_neq in E. rewrite IH. tauto. Qed.
Lemma find_rec_in rs r : NoDup (map r_key rs) -> In r rs -> find_rec (r_key r) rs = Some r.
Proof. induction rs as [|x t IH]; simpl; intros N H; [contradiction|]. inversion N; subst.
  destruct H as [->|H]; [rewrite skey_eqb_refl; auto|].
  destruct (skey_eqb (r_key x) (r_key r)) eqn:E; [|auto].
  apply skey_eqb_eq in E. exfalso. apply H2. rewrite E. apply in_map. exact H. Qed.

Lemma carrier_in rs f vt k : NoDup (map r_key rs) -> (In k (carrier_keys f vt rs) <-> key_has rs f vt k = true).
Proof.
  intros N. unfold carrier_keys, key_has. rewrite in_map_iff. split.
  - intros [r [<- Hr]]. apply filter_In in Hr. destruct Hr as [Hr Ha]. rewrite (find_rec_in rs r N Hr). exact Ha.
  - destruct (find_rec k rs) as [r|] eqn:E; [|discriminate]. intros Ha. apply find_rec_key in E.
    exists r. split; [tauto|]. apply filter_In. tauto.
Qed.
Lemma carrier_nodup rs f vt : NoDup (map r_key rs) -> NoDup (carrier_keys f vt rs).
Proof. unfold carrier_keys. induction rs as [|x t IH]; simpl; intros N; [constructor|]. inversion N; subst.
  destruct (has_attr f vt x); simpl; auto. constructor; auto.
  intros H. apply H1. apply in_map_iff in H. destruct H as [r [E Hr]]. apply filter_In in Hr.
  rewrite <- E. apply in_map. tauto. Qed.

(* what one write does to the record map, seen from an index: other keys untouched, the carriers
   are the old ones without [k], plus [k] if it carries the attribute now *)
Definition touches (k : skey) (rs rs' : list rec) : Prop :=
  NoDup (map r_key rs') /\
  (forall k', k' <> k -> find_rec k' rs' = find_rec k' rs) /\
  (forall f vt, Permutation (carrier_keys f vt rs')
     (if key_has rs' f vt k then k :: slice_del k (carrier_keys f vt rs) else slice_del k (carrier_keys f vt rs))).

Lemma touches_append rs r : NoDup (map r_key rs) -> find_rec (r_key r) rs = None -> touches (r_key r) rs (rs ++ [r]).
Proof.
  intros N Fr. pose proof Fr as Nin. apply find_rec_none in Nin.
  assert (F1 : forall k', find_rec k' (rs ++ [r]) = match find_rec k' rs with Some x => Some x | None => if skey_eqb (r_key r) k' then Some r else None end).
  { intros k'. clear. induction rs as [|x t IH]; simpl; auto. destruct (skey_eqb (r_key x) k'); auto. }
  split; [|split].
  - rewrite map_app. simpl. eapply Permutation_NoDup; [apply Permutation_cons_append | constructor; auto].
  - intros k' Hk. rewrite F1. destruct (find_rec k' rs); auto.
    destruct (skey_eqb (r_key r) k') eqn:E; auto. apply skey_eqb_eq in E. congruence.
  - intros f vt. unfold key_has. rewrite F1, Fr, skey_eqb_refl.
    assert (D : slice_del (r_key r) (carrier_keys f vt rs) = carrier_keys f vt rs).
    { apply slice_del_notin. intros H. apply Nin. unfold carrier_keys in H. apply in_map_iff in H.
      destruct H as [x [E Hx]]. apply filter_In in Hx. rewrite <- E. apply in_map. tauto. }
    rewrite D. unfold carrier_keys. rewrite filter_app, map_app. simpl.
    destruct (has_attr f vt r); simpl.
    + apply Permutation_sym, Permutation_cons_append.
    + rewrite app_nil_r. apply Permutation_refl.
Qed.

Lemma replace_keys r rs : map r_key (replace_rec r rs) = map r_key rs.
Proof. induction rs as [|x t IH]; simpl; auto. destruct (skey_eqb (r_key x) (r_key r)) eqn:E; simpl.
  - apply skey_eqb_eq in E. congruence. - congruence. Qed.

Lemma touches_replace rs r old : NoDup (map r_key rs) -> find_rec (r_key r) rs = Some old -> touches (r_key r) rs (replace_rec r rs).
Proof.
  intros N Fr.
  assert (F1 : forall k', find_rec k' (replace_rec r rs) = if skey_eqb (r_key r) k' then Some r else find_rec k' rs).
  { intros k'. revert Fr. clear. induction rs as [|x t IH]; simpl; [discriminate|].
    destruct (skey_eqb (r_key x) (r_key r)) eqn:E; simpl.
    - intros _. apply skey_eqb_eq in E. rewrite E. destruct (skey_eqb (r_key r) k'); auto.
    - intros H. rewrite (IH H). destruct (skey_eqb (r_key x) k') eqn:E2; auto.
      destruct (skey_eqb (r_key r) k') eqn:E3; auto.
      apply skey_eqb_eq in E2, E3. apply skey_eqb_neq in E. congruence. }
  split; [|split].
  - rewrite replace_keys. exact N.
  - intros k' Hk. rewrite F1. destruct (skey_eqb (r_key r) k') eqn:E; auto. apply skey_eqb_eq in E. congruence.
  - intros f vt. unfold key_has. rewrite F1, skey_eqb_refl.
    revert N Fr. clear. unfold carrier_keys. induction rs as [|x t IH]; simpl; [discriminate|]. intros N. inversion N; subst.
    destruct (skey_eqb (r_key x) (r_key r)) eqn:E.
    + intros _. apply skey_eqb_eq in E.
      assert (D : slice_del (r_key r) (map r_key (filter (has_attr f vt) t)) = map r_key (filter (has_attr f vt) t)).
      { apply slice_del_notin. intros H. apply H1. rewrite E. apply in_map_iff in H.
        destruct H as [y [Ey Hy]]. apply filter_In in Hy. rewrite <- Ey. apply in_map. tauto. }
      simpl. destruct (has_attr f vt x), (has_attr f vt r); simpl; rewrite ?E, ?skey_eqb_refl, ?D; apply Permutation_refl.
    + intros Fr. specialize (IH H2 Fr). simpl.
      destruct (has_attr f vt x); simpl; [rewrite E|]; auto.
      destruct (has_attr f vt r); [|apply perm_skip; auto].
      eapply perm_trans; [apply perm_skip, IH | apply perm_swap].
Qed.

Lemma touches_remove rs k : NoDup (map r_key rs) -> touches k rs (remove_rec k rs) /\ find_rec k (remove_rec k rs) = None.
Proof.
  intros N.
  assert (Fk : find_rec k (remove_rec k rs) = None).
  { revert N. clear. induction rs as [|x t IH]; simpl; auto. intros N. inversion N; subst.
    destruct (skey_eqb (r_key x) k) eqn:E.
    - apply skey_eqb_eq in E. subst. apply find_rec_none. auto.
    - simpl. rewrite E. auto. }
  split; [|exact Fk]. split; [|split].
  - revert N. clear. induction rs as [|x t IH]; simpl; auto. intros N. inversion N; subst.
    destruct (skey_eqb (r_key x) k); auto. simpl. constructor; auto.
    intros H. apply H1. clear -H. induction t as [|y u IHu]; simpl in *; auto.
    destruct (skey_eqb (r_key y) k); simpl in *; auto. destruct H; auto.
  - intros k' Hk. clear -Hk. induction rs as [|x t IH]; simpl; auto.
    destruct (skey_eqb (r_key x) k) eqn:E; simpl.
    + apply skey_eqb_eq in E. destruct (skey_eqb (r_key x) k') eqn:E2; auto. apply skey_eqb_eq in E2. congruence.
    + destruct (skey_eqb (r_key x) k'); auto.
  - intros f vt. unfold key_has. rewrite Fk.
    revert N. clear. unfold carrier_keys. induction rs as [|x t IH]; simpl; auto. intros N. inversion N; subst.
    destruct (skey_eqb (r_key x) k) eqn:E.
    + apply skey_eqb_eq in E. destruct (has_attr f vt x); simpl; [rewrite E, skey_eqb_refl; auto|].
      rewrite slice_del_notin; auto. intros H. apply H1. rewrite E. apply in_map_iff in H.
      destruct H as [y [Ey Hy]]. apply filter_In in Hy. rewrite <- Ey. apply in_map. tauto.
    + simpl. destruct (has_attr f vt x); simpl; [rewrite E; apply perm_skip|]; auto.
Qed.

(* -- one beacon under one maintenance step -- *)
Lemma upd_good rs rs' vt f asc k del add b :
  NoDup (map r_key rs) -> touches k rs rs' ->
  good rs vt f asc b ->
  (del = false -> add = false ->
     key_has rs' f vt k = key_has rs f vt k /\ (key_has rs f vt k = true -> key_attr rs' f k = key_attr rs f k)) ->
  (del = false -> add = true -> key_has rs f vt k = false /\ key_has rs' f vt k = true) ->
  (del = true -> add = key_has rs' f vt k) ->
  good rs' vt f asc (upd_beacon (sort_slice rs' f) asc del add k (b_init b) b).
Proof.
  intros N [N' [F1 F2]] [G0 G1] CA CB CC. specialize (F2 f vt).
  unfold upd_beacon. destruct (b_init b) eqn:Ib.
  2:{ rewrite !andb_false_r. split; intros H; [auto | congruence]. }
  rewrite !andb_true_r. destruct (G1 eq_refl) as [P S].
  set (C := carrier_keys f vt rs) in *.
  assert (NC : NoDup C) by (apply carrier_nodup; exact N).
  assert (NS : NoDup (b_slice b)) by (eapply Permutation_NoDup; [apply Permutation_sym; exact P | exact NC]).
  assert (AE : forall k', k' <> k -> key_attr rs' f k' = key_attr rs f k').
  { intros k' Hk. unfold key_attr. rewrite (F1 k' Hk). reflexivity. }
  assert (InC : In k C <-> key_has rs f vt k = true) by (apply carrier_in; exact N).
  destruct del, add; cbn [b_slice].
  - (* refresh, carries the attribute now *)
    rewrite <- (CC eq_refl) in F2.
    apply sort_slice_good. rewrite slice_add_notin by (apply slice_del_nodup_notin; exact NS).
    eapply perm_trans; [apply Permutation_sym, Permutation_cons_append|].
    eapply perm_trans; [|apply Permutation_sym; exact F2].
    apply perm_skip, slice_del_perm, P.
  - (* delete / refresh without the attribute *)
    rewrite <- (CC eq_refl) in F2.
    split; cbn; intros H; [discriminate|]. split.
    + eapply perm_trans; [apply slice_del_perm, P | apply Permutation_sym; exact F2].
    + eapply Sorted_ext_in; [|apply slice_del_sorted; exact S].
      intros x y Hx Hy. unfold attr_le.
      assert (x <> k) by (intros ->; eapply slice_del_nodup_notin; eauto).
      assert (y <> k) by (intros ->; eapply slice_del_nodup_notin; eauto).
      rewrite !AE by auto. auto.
  - (* insert *)
    destruct (CB eq_refl eq_refl) as [H0 H1]. rewrite H1 in F2.
    assert (NK : ~ In k C) by (rewrite InC, H0; discriminate).
    rewrite (slice_del_notin k C NK) in F2.
    apply sort_slice_good. rewrite slice_add_notin.
    + eapply perm_trans; [apply Permutation_sym, Permutation_cons_append|].
      eapply perm_trans; [apply perm_skip, P | apply Permutation_sym; exact F2].
    + intros H. apply NK. eapply Permutation_in; eauto.
  - (* untouched *)
    destruct (CA eq_refl eq_refl) as [H0 H1]. rewrite H0 in F2.
    replace b with (mkb true (b_slice b)) by (destruct b; cbn in *; congruence).
    split; cbn; intros H; [discriminate|]. split.
    + eapply perm_trans; [exact P|]. eapply perm_trans; [|apply Permutation_sym; exact F2].
      destruct (key_has rs f vt k) eqn:Hk.
      * apply slice_del_cons_perm. apply InC. reflexivity.
      * rewrite slice_del_notin; auto. rewrite InC. congruence.
    + eapply Sorted_ext_in; [|exact S]. intros x y Hx Hy. unfold attr_le.
      assert (E : forall z, In z (b_slice b) -> key_attr rs' f z = key_attr rs f z).
      { intros z Hz. destruct (skey_eqb z k) eqn:Ez.
        - apply skey_eqb_eq in Ez. subst z. apply H1. apply InC. eapply Permutation_in; eauto.
        - apply AE. apply skey_eqb_neq. exact Ez. }
      rewrite !E by auto. auto.
Qed.

Lemma upd_beacon_init srt asc del add k b : b_init (upd_beacon srt asc del add k (b_init b) b) = b_init b.
Proof. unfold upd_beacon. destruct (b_init b) eqn:E, del, add; cbn; auto. Qed.

Lemma upd_all_inv s rs' del add k :
  Inv s -> touches k (recs s) rs' ->
  (forall f, del f = false -> add f = false ->
     key_has rs' f (vtype s) k = key_has (recs s) f (vtype s) k /\
     (key_has (recs s) f (vtype s) k = true -> key_attr rs' f k = key_attr (recs s) f k)) ->
  (forall f, del f = false -> add f = true -> key_has (recs s) f (vtype s) k = false /\ key_has rs' f (vtype s) k = true) ->
  (forall f, del f = true -> add f = key_has rs' f (vtype s) k) ->
  Inv (upd_all s rs' (resort false rs') del add k).
Proof.
  intros [N [G I]] T CA CB CC. split; [|split]; cbn.
  - destruct T; auto.
  - intros f asc. rewrite (I f). assert (E : b_init (bcn s f false) = b_init (bcn s f asc)) by (destruct asc; auto).
    rewrite E. apply upd_good with (rs := recs s); auto.
  - intros f. rewrite upd_beacon_init. rewrite (I f). rewrite upd_beacon_init. reflexivity.
Qed.

(* ---- G. every operation preserves the invariant ---------------------------------------------- *)
Lemma inv_init : Inv init_st.
Proof.
  split; [constructor | split]; cbn; auto.
  intros f asc. split; cbn; intros H; [auto | discriminate].
Qed.

Lemma fam_eqb_eq a b : fam_eqb a b = true <-> a = b.
Proof. destruct a, b; cbn; split; intros H; auto; discriminate. Qed.

Lemma key_has_found rs f vt k r : find_rec k rs = Some r -> key_has rs f vt k = has_attr f vt r.
Proof. unfold key_has. intros ->. reflexivity. Qed.
Lemma key_attr_found rs f k r : find_rec k rs = Some r -> key_attr rs f k = raw_attr f r.
Proof. unfold key_attr. intros ->. reflexivity. Qed.
Lemma key_has_none rs f vt k : find_rec k rs = None -> key_has rs f vt k = false.
Proof. unfold key_has. intros ->. reflexivity. Qed.

Lemma find_rec_app_new rs r : find_rec (r_key r) rs = None -> find_rec (r_key r) (rs ++ [r]) = Some r.
Proof. induction rs as [|x t IH]; simpl; [rewrite skey_eqb_refl; auto|].
  destruct (skey_eqb (r_key x) (r_key r)); [discriminate | auto]. Qed.
Lemma find_rec_replace rs r old : find_rec (r_key r) rs = Some old -> find_rec (r_key r) (replace_rec r rs) = Some r.
Proof. induction rs as [|x t IH]; simpl; [discriminate|].
  destruct (skey_eqb (r_key x) (r_key r)) eqn:E; simpl; [rewrite skey_eqb_refl; auto | rewrite E; auto]. Qed.

Lemma inv_set s k ct v c u e : Inv s -> Inv (do_set false s k ct v c u e).
Proof.
  intros I. pose proof I as [N _]. unfold do_set. destruct (find_rec k (recs s)) as [old|] eqn:F.
  - (* existing record, updated in place *)
    set (r := mkrec k ct v _ _ _ _ _ _).
    assert (Kr : r_key r = k) by reflexivity.
    pose proof (find_rec_key _ _ _ F) as [_ Ko].
    assert (F' : find_rec k (replace_rec r (recs s)) = Some r).
    { rewrite <- Kr. eapply find_rec_replace. rewrite Kr. exact F. }
    apply upd_all_inv; auto.
    + rewrite <- Kr. eapply touches_replace; [exact N | rewrite Kr; exact F].
    + intros f Hd _. rewrite (key_has_found _ f _ _ _ F'), (key_has_found _ f _ _ _ F),
        (key_attr_found _ f _ _ F'), (key_attr_found _ f _ _ F).
      destruct f; cbn in Hd; try discriminate.
      * cbn. split; auto; intros _; congruence.
      * destruct c; [discriminate|]. cbn. auto.
      * destruct u; [discriminate|]. cbn. auto.
      * destruct e; [discriminate|]. cbn. auto.
    + intros f Hd Ha. rewrite Hd in Ha. discriminate.
    + intros f Hd. rewrite Hd. rewrite (key_has_found _ f _ _ _ F'). reflexivity.
  - (* new record *)
    set (r := mkrec k ct v _ _ _ _ _ _).
    assert (Kr : r_key r = k) by reflexivity.
    assert (F' : find_rec k (recs s ++ [r]) = Some r).
    { rewrite <- Kr. apply find_rec_app_new. rewrite Kr. exact F. }
    apply upd_all_inv; auto.
    + rewrite <- Kr. apply touches_append; [exact N | rewrite Kr; exact F].
    + intros f _ Ha. cbn in Ha. rewrite (key_has_found _ f _ _ _ F'), (key_has_none _ f _ _ F), Ha.
      split; auto. discriminate.
    + intros f _ Ha. cbn in Ha. rewrite (key_has_found _ f _ _ _ F'), (key_has_none _ f _ _ F), Ha. auto.
    + intros f Hd. discriminate.
Qed.

Lemma inv_del s k : Inv s -> Inv (do_del s k).
Proof.
  intros I. pose proof I as [N _]. unfold do_del. destruct (find_rec k (recs s)) eqn:F; auto.
  destruct (touches_remove (recs s) k N) as [T Fk].
  destruct (remove_rec k (recs s)) as [|x t] eqn:E; [apply inv_init|].
  apply upd_all_inv; auto.
  - intros f Hd. discriminate.
  - intros f Hd. discriminate.
  - intros f _. rewrite (key_has_none _ f _ _ Fk). reflexivity.
Qed.

Lemma carrier_keys_vt f vt vt' rs : f <> FValue -> carrier_keys f vt rs = carrier_keys f vt' rs.
Proof. intros H. unfold carrier_keys. f_equal. apply filter_ext. intros r. destruct f; auto. contradiction. Qed.
Lemma good_vt f vt vt' rs asc b : f <> FValue -> good rs vt f asc b -> good rs vt' f asc b.
Proof. intros H. unfold good. rewrite (carrier_keys_vt f vt vt' rs H). auto. Qed.

Lemma inv_prepare s vt : Inv s -> Inv (prepare_value s vt) /\ vtype (prepare_value s vt) = vt /\ recs (prepare_value s vt) = recs s.
Proof.
  intros [N [G I]]. unfold prepare_value. destruct (N.eqb_spec (vtype s) vt) as [E|NE].
  - split; [split; [exact N | split; [exact G | exact I]] | split; [exact E | reflexivity]].
  - split; [|split; reflexivity]. split; [exact N | split]; cbn.
    + intros f asc. destruct f; cbn; try (apply (good_vt _ (vtype s)); [discriminate | apply G]).
      split; cbn; intros H; [reflexivity | discriminate].
    + intros f. destruct f; cbn; auto.
Qed.

Lemma inv_build s f cs :
  Inv s -> Permutation cs (carrier_keys f (vtype s) (recs s)) ->
  Inv (build_family s f cs) /\ (forall asc, b_init (bcn (build_family s f cs) f asc) = true) /\
  recs (build_family s f cs) = recs s /\ vtype (build_family s f cs) = vtype s.
Proof.
  intros [N [G I]] P.
  assert (BG : forall asc, good (recs s) (vtype s) f asc (build_beacon (recs s) f asc cs (bcn s f asc))).
  { intros asc. unfold build_beacon. destruct (b_init (bcn s f asc)) eqn:E; [apply G|].
    destruct (G f asc) as [G0 _]. rewrite (G0 E). cbn [app]. apply sort_slice_good. exact P. }
  assert (BI : forall asc, b_init (build_beacon (recs s) f asc cs (bcn s f asc)) = true).
  { intros asc. unfold build_beacon. destruct (b_init (bcn s f asc)) eqn:E; auto. }
  split; [|split; [|split]]; cbn; auto.
  - split; [|split]; cbn; auto.
    + intros f' asc. destruct (fam_eqb f' f) eqn:E; [apply fam_eqb_eq in E; subst; apply BG | apply G].
    + intros f'. destruct (fam_eqb f' f) eqn:E; [apply fam_eqb_eq in E; subst; rewrite !BI; auto | apply I].
  - intros asc. replace (fam_eqb f f) with true by (destruct f; auto). apply BI.
Qed.

Lemma inv_touch s f asc :
  Inv s -> b_init (bcn s f asc) = true -> Inv (set_bcn s f asc (mkb true (b_slice (bcn s f asc)))).
Proof.
  intros [N [G I]] Hi.
  assert (E : mkb true (b_slice (bcn s f asc)) = bcn s f asc) by (destruct (bcn s f asc); cbn in *; congruence).
  rewrite E. split; [|split]; cbn; auto.
  - intros f' a'. destruct (fam_eqb f' f && Bool.eqb a' asc) eqn:C; [|apply G].
    apply andb_true_iff in C. destruct C as [C1 C2]. apply fam_eqb_eq in C1. apply Bool.eqb_prop in C2. subst. apply G.
  - intros f'. destruct (fam_eqb f' f) eqn:C; cbn; [|apply I].
    apply fam_eqb_eq in C. subst. destruct asc; cbn; apply I.
Qed.

(* the state in which GetManyFromOrderPosition runs *)
Definition read_state (s : st) (i : idx) : st :=
  match i with
  | IValue vt => build_family (prepare_value s vt) FValue (carrier_keys FValue vt (recs s))
  | _ => build_family s (fam_of i) (carrier_keys (fam_of i) 0%N (recs s))
  end.

Lemma read_state_inv s i :
  Inv s ->
  Inv (read_state s i) /\ (forall asc, b_init (bcn (read_state s i) (fam_of i) asc) = true) /\
  recs (read_state s i) = recs s /\
  carrier_keys (fam_of i) (vtype (read_state s i)) (recs s) = carrier_keys (fam_of i) (vt_of i 0%N) (recs s).
Proof.
  intros I. destruct i as [| | | |vt]; cbn [read_state fam_of vt_of].
  1-4: (match goal with |- context [build_family ?s0 ?f ?cs] =>
          destruct (inv_build s0 f cs I) as [A [B [C D]]];
          [ rewrite (carrier_keys_vt f 0%N (vtype s0)) by discriminate; apply Permutation_refl
          | split; [exact A | split; [exact B | split; [exact C | rewrite D; apply carrier_keys_vt; discriminate]]] ] end).
  destruct (inv_prepare s vt I) as [Ip [Ev Er]].
  destruct (inv_build (prepare_value s vt) FValue (carrier_keys FValue vt (recs s)) Ip) as [A [B [C D]]].
  - rewrite Ev, Er. apply Permutation_refl.
  - split; [exact A | split; [exact B | split; [congruence | rewrite D, Ev; reflexivity]]].
Qed.

Lemma do_read_eq s i asc from lim ft tu :
  do_read false s i asc from lim ft tu =
  let s1 := read_state s i in
  let f := fam_of i in
  let b := bcn s1 f asc in
  let w (o : option Z) := if is_time f then option_map (fun z => [z]) o else None in
  (set_bcn s1 f asc (mkb true (b_slice b)),
   get_many asc (b_slice b) (map (key_attr (recs s1) f) (b_slice b)) (Z.of_N from)
            (if N.eqb lim 0 then Z.of_nat (length (recs s)) else Z.of_N lim) (w ft) (w tu)).
Proof. destruct i; reflexivity. Qed.

Lemma inv_read s i asc from lim ft tu : Inv s -> Inv (fst (do_read false s i asc from lim ft tu)).
Proof.
  intros I. rewrite do_read_eq. cbv zeta. cbn [fst].
  destruct (read_state_inv s i I) as [A [B _]]. apply inv_touch; auto.
Qed.

Lemma inv_step s o : Inv s -> Inv (fst (step false s o)).
Proof.
  intros I. destruct o; cbn [step fst].
  - apply inv_set; auto.
  - apply inv_del; auto.
  - destruct (do_read false s i asc from lim ft tu) eqn:E. cbn [fst].
    change s0 with (fst (s0, o)). rewrite <- E. apply inv_read; auto.
Qed.

Lemma inv_run ops : forall s, Inv s -> Inv (run false s ops).
Proof. induction ops as [|o t IH]; cbn [run]; intros s I; auto. apply IH, inv_step, I. Qed.

(* ---- H. a read in a state that satisfies the invariant is a spec page ------------------------- *)
Definition dummy_rec : rec := mkrec [] 0%N [] 0 0 0 false false false.
Definition getr (rs : list rec) (k : skey) : rec := match find_rec k rs with Some r => r | None => dummy_rec end.

Lemma win_in_win f ft tu a :
  win (if is_time f then option_map (fun z => [z]) ft else None)
      (if is_time f then option_map (fun z => [z]) tu else None) a = in_win f ft tu a.
Proof. unfold win, in_win. destruct (is_time f), ft, tu; reflexivity. Qed.

Lemma nodup_recs rs : NoDup (map r_key rs) -> NoDup rs.
Proof. apply NoDup_map_inv. Qed.

Lemma filter_ssorted {X} (R : X -> X -> Prop) p l : StronglySorted R l -> StronglySorted R (filter p l).
Proof. induction 1 as [|x t S IH F]; simpl; [constructor|]. destruct (p x); auto. constructor; auto.
  rewrite Forall_forall in *. intros y Hy. apply filter_In in Hy. apply F. tauto. Qed.

Lemma page_of_map {X Y} (g : X -> Y) from lim l : page_of from lim (map g l) = map g (page_of from lim l).
Proof. unfold page_of. destruct lim; rewrite ?firstn_map, ?skipn_map; rewrite <- ?skipn_map; auto.
  rewrite skipn_map. rewrite firstn_map. reflexivity. Qed.

Lemma page_of_count {X} from n (l : list X) : (length l <= n)%nat -> page_of from n l = page_of from 0 l.
Proof. intros H. unfold page_of. destruct n; auto. apply firstn_all2. rewrite skipn_length. lia. Qed.

Theorem read_is_spec_page s i asc from lim ft tu :
  Inv s ->
  exists page, snd (do_read false s i asc from lim ft tu) = Some page /\
               is_spec_page (recs s) i asc from lim ft tu page.
Proof.
  intros I. pose proof I as [N _].
  rewrite do_read_eq. cbv zeta. cbn [snd].
  destruct (read_state_inv s i I) as [[_ [G _]] [B [Er Ec]]].
  set (s1 := read_state s i) in *. set (f := fam_of i) in *.
  specialize (G f asc). destruct G as [_ G]. destruct (G (B asc)) as [P S]. clear G.
  rewrite Er in *. rewrite Ec in P.
  set (slice := b_slice (bcn s1 f asc)) in *.
  set (lim' := if N.eqb lim 0 then Z.of_nat (length (recs s)) else Z.of_N lim).
  rewrite (page_correct_on_sorted asc (key_attr (recs s) f) slice (Z.of_N from) lim') by (auto; unfold lim'; destruct (N.eqb lim 0); lia).
  eexists. split; [reflexivity|].
  set (Wk := filter (fun k => win _ _ (key_attr (recs s) f k)) slice).
  (* facts about the slice keys *)
  assert (KS : forall k, In k slice -> exists r, find_rec k (recs s) = Some r /\ In r (recs s) /\ r_key r = k /\ has_attr f (vt_of i 0%N) r = true).
  { intros k Hk. assert (Hc : In k (carrier_keys f (vt_of i 0%N) (recs s))) by (eapply Permutation_in; eauto).
    apply carrier_in in Hc; auto. unfold key_has in Hc. destruct (find_rec k (recs s)) as [r|] eqn:F; [|discriminate].
    destruct (find_rec_key _ _ _ F). exists r. auto. }
  assert (NSl : NoDup slice) by (eapply Permutation_NoDup; [apply Permutation_sym; exact P | apply carrier_nodup; exact N]).
  assert (WkS : forall k, In k Wk -> In k slice) by (intros k Hk; apply filter_In in Hk; tauto).
  exists (map (getr (recs s)) Wk).
  assert (MK : map r_key (map (getr (recs s)) Wk) = Wk).
  { rewrite map_map. rewrite <- (map_id Wk) at 2. apply map_ext_in. intros k Hk.
    destruct (KS k (WkS k Hk)) as [r [F [_ [Kr _]]]]. unfold getr. rewrite F. exact Kr. }
  split; [|split].
  - (* same records *)
    apply NoDup_Permutation.
    + apply (NoDup_map_inv r_key). rewrite MK. apply NoDup_filter. exact NSl.
    + unfold wanted. apply NoDup_filter. apply nodup_recs. exact N.
    + intros r. unfold wanted. rewrite filter_In, in_map_iff. split.
      * intros [k [E Hk]]. pose proof Hk as Hk'. apply filter_In in Hk'. destruct Hk' as [Hs Hw].
        destruct (KS k Hs) as [r' [F [Hin [Kr Ha]]]]. unfold getr in E. rewrite F in E. subst r'.
        split; auto. fold f. rewrite Ha. cbn [andb]. unfold f in Hw. rewrite win_in_win in Hw.
        fold f in Hw. rewrite (key_attr_found _ f _ _ F) in Hw. exact Hw.
      * intros [Hin Hc]. fold f in Hc. apply andb_true_iff in Hc. destruct Hc as [Ha Hw].
        exists (r_key r). pose proof (find_rec_in _ _ N Hin) as F. split; [unfold getr; rewrite F; auto|].
        apply filter_In. split.
        -- eapply Permutation_in; [apply Permutation_sym; exact P|]. apply carrier_in; auto.
           rewrite (key_has_found _ _ _ _ _ F). exact Ha.
        -- unfold f. rewrite win_in_win. fold f. rewrite (key_attr_found _ f _ _ F). exact Hw.
  - (* sorted by the attribute *)
    assert (SW : Sorted (attr_le (recs s) f asc) Wk).
    { apply StronglySorted_Sorted, filter_ssorted, Sorted_StronglySorted; auto.
      intros x y z. apply attr_le_trans. }
    assert (SL : Sorted (fun a b => attr_le (recs s) f asc (r_key a) (r_key b)) (map (getr (recs s)) Wk)).
    { apply Sorted_map_inv. rewrite MK. exact SW. }
    eapply Sorted_ext_in; [|exact SL]. intros x y Hx Hy. unfold attr_le, rec_le.
    apply in_map_iff in Hx, Hy. destruct Hx as [kx [Ex Hx]], Hy as [ky [Ey Hy]].
    destruct (KS kx (WkS kx Hx)) as [rx [Fx [_ [Kx _]]]]. destruct (KS ky (WkS ky Hy)) as [ry [Fy [_ [Ky _]]]].
    unfold getr in Ex, Ey. rewrite Fx in Ex. rewrite Fy in Ey. subst rx ry.
    rewrite Kx, Ky, (key_attr_found _ f _ _ Fx), (key_attr_found _ f _ _ Fy). auto.
  - (* the paged cut *)
    rewrite <- page_of_map, MK. replace (Z.to_nat (Z.of_N from)) with (N.to_nat from) by lia. unfold lim'. destruct (N.eqb_spec lim 0) as [L0|LN].
    + subst lim. rewrite Nat2Z.id. cbn [N.to_nat].
      apply page_of_count. unfold Wk.
      eapply Nat.le_trans; [apply filter_len_le|].
      rewrite (Permutation_length P). unfold carrier_keys. rewrite map_length. apply filter_len_le.
    + replace (Z.to_nat (Z.of_N lim)) with (N.to_nat lim) by lia. reflexivity.
Qed.

(* The property: after every history, every index read (any index type, order, offset, limit,
   time window) returns a page that is the paged cut of the wanted records sorted by the
   attribute, for some order of the ties; in particular it never fails. *)
Theorem reads_correct ops i asc from lim ft tu :
  let s := run false init_st ops in
  exists page, snd (do_read false s i asc from lim ft tu) = Some page /\
               is_spec_page (recs s) i asc from lim ft tu page.
Proof. intros s. apply read_is_spec_page. apply inv_run, inv_init. Qed.

(* ---- I. the maintenance rules of the pinned commit (legacy = true) violate the property ----- *)
(* (a) Float64 value index built by a read, then one insert: the ascending read returns
       1.5 2.5 3.5 0.5 (values in quarters: 6 10 14 2) – not a valid page. *)
Definition legacy_witness_a : list op :=
  [OSet [97] 13%N [6] None None None; OSet [98] 13%N [10] None None None; OSet [99] 13%N [14] None None None;
   ORead (IValue 13%N) true 0%N 0%N None None;
   OSet [100] 13%N [2] None None None].
(* (b) UpdatedAt of an indexed record moved by an update; the update-time read is unsorted *)
Definition legacy_witness_b : list op :=
  [OSet [97] 7%N [1] None (Some 10) None; OSet [98] 7%N [2] None (Some 20) None; OSet [99] 7%N [3] None (Some 30) None;
   ORead IUpdated true 0%N 0%N None None;
   OSet [97] 7%N [1] None (Some 80) None].

Definition legacy_read_valid (ops : list op) (i : idx) : bool :=
  let s := run true init_st ops in
  match snd (do_read true s i true 0%N 0%N None None) with
  | Some page => valid_page (recs s) i true 0%N 0%N None None page
  | None => false
  end.

Lemma legacy_reads_refuted :
  exists ops i, legacy_read_valid ops i = false.
Proof. exists legacy_witness_a, (IValue 13%N). vm_compute. reflexivity. Qed.
Lemma legacy_time_reads_refuted :
  exists ops, legacy_read_valid ops IUpdated = false.
Proof. exists legacy_witness_b. vm_compute. reflexivity. Qed.
(* the same histories under the current rules *)
Example current_witness_a_page :
  snd (do_read false (run false init_st legacy_witness_a) (IValue 13%N) true 0%N 0%N None None)
  = Some [[100]; [97]; [98]; [99]].
Proof. vm_compute. reflexivity. Qed.
Example current_witness_b_page :
  snd (do_read false (run false init_st legacy_witness_b) IUpdated true 0%N 0%N (Some 15) (Some 81))
  = Some [[98]; [99]; [97]].
Proof. vm_compute. reflexivity. Qed.

(* ---- E. the oracle valid_page decides is_spec_page ------------------------------------------- *)
Lemma nodupb_iff l : nodupb l = true <-> NoDup l.
Proof.
  induction l as [|x t IH]; simpl; [split; auto; constructor|].
  rewrite andb_true_iff, negb_true_iff, IH. split.
  - intros [H1 H2]. constructor; auto. intros H. apply existsb_skey in H. congruence.
  - intros H. inversion H; subst. split; auto. destruct (existsb (skey_eqb x) t) eqn:E; auto.
    apply existsb_skey in E. contradiction.
Qed.

Lemma skeys_eqb_eq (a b : list skey) : list_eqb skey_eqb a b = true <-> a = b.
Proof. apply list_eqb_eq. intros x y. apply skey_eqb_eq. Qed.

Lemma nodup_keys_filter p rs : NoDup (map r_key rs) -> NoDup (map r_key (filter p rs)).
Proof. induction rs as [|x t IH]; simpl; intros N; auto. inversion N; subst.
  destruct (p x); simpl; auto. constructor; auto. intros H. apply H1.
  apply in_map_iff in H. destruct H as [r [E Hr]]. apply filter_In in Hr. rewrite <- E. apply in_map. tauto. Qed.

Lemma lookup_all_spec W page P : lookup_all W page = Some P -> map r_key P = page /\ (forall r, In r P -> In r W).
Proof.
  revert P. induction page as [|k t IH]; simpl; intros P H.
  - inversion H; subst. split; auto. intros r [].
  - destruct (find_rec k W) as [r|] eqn:F; [|discriminate]. destruct (lookup_all W t) as [l|]; [|discriminate].
    inversion H; subst. destruct (IH l eq_refl) as [A B]. destruct (find_rec_key _ _ _ F) as [C D].
    split; simpl; [congruence|]. intros x [<-|Hx]; auto.
Qed.
Lemma lookup_all_complete W Q : NoDup (map r_key W) -> (forall r, In r Q -> In r W) -> lookup_all W (map r_key Q) = Some Q.
Proof.
  intros N. induction Q as [|r t IH]; simpl; intros H; auto.
  rewrite (find_rec_in W r N) by auto. rewrite IH by auto. reflexivity.
Qed.

Lemma in_firstn {X} n (l : list X) x : In x (firstn n l) -> In x l.
Proof. intros H. rewrite <- (firstn_skipn n l). apply in_or_app. auto. Qed.
Lemma in_skipn {X} n (l : list X) x : In x (skipn n l) -> In x l.
Proof. intros H. rewrite <- (firstn_skipn n l). apply in_or_app. auto. Qed.
Lemma page_of_incl {X} from lim (l : list X) x : In x (page_of from lim l) -> In x l.
Proof. unfold page_of. destruct lim; intros H; [|apply in_firstn in H]; eapply in_skipn; eauto. Qed.

Lemma nodup_app_l {X} (a b : list X) : NoDup (a ++ b) -> NoDup a.
Proof. induction a as [|x t IH]; simpl; intros H; [constructor|]. inversion H; subst. constructor; auto.
  intros Hx. apply H2. apply in_or_app. auto. Qed.
Lemma nodup_app_r {X} (a b : list X) : NoDup (a ++ b) -> NoDup b.
Proof. induction a as [|x t IH]; simpl; intros H; auto. inversion H; auto. Qed.
Lemma nodup_page_of {X} from lim (l : list X) : NoDup l -> NoDup (page_of from lim l).
Proof. intros N. assert (NS : NoDup (skipn from l)) by (rewrite <- (firstn_skipn from l) in N; eapply nodup_app_r; eauto).
  unfold page_of. destruct lim; auto. rewrite <- (firstn_skipn (S lim) (skipn from l)) in NS. eapply nodup_app_l; eauto. Qed.

(* the attribute list of the wanted records in index order is unique *)
Lemma sorted_attrs_unique asc (g : rec -> skey) L W :
  Permutation L W -> Sorted (fun r1 r2 => ord_leb asc (g r1) (g r2) = true) L ->
  map g L = isort (ord_leb asc) (map g W).
Proof.
  intros P S. apply (sorted_perm_unique asc).
  - apply Sorted_map. exact S.
  - apply (isort_sorted (ord_leb asc)). intros a b. apply ord_leb_total.
  - eapply perm_trans; [apply Permutation_map; exact P | apply Permutation_sym, isort_perm].
Qed.

Lemma valid_page_complete rs i asc from lim ft tu page :
  NoDup (map r_key rs) -> is_spec_page rs i asc from lim ft tu page ->
  valid_page rs i asc from lim ft tu page = true.
Proof.
  intros N [L [P [S E]]]. unfold valid_page.
  set (W := wanted rs i ft tu) in *. set (f := fam_of i) in *.
  assert (NW : NoDup (map r_key W)) by (apply nodup_keys_filter; exact N).
  assert (Inc : forall r, In r (page_of (N.to_nat from) (N.to_nat lim) L) -> In r W).
  { intros r Hr. eapply Permutation_in; [exact P|]. eapply page_of_incl; eauto. }
  rewrite E, (lookup_all_complete W _ NW Inc). apply andb_true_iff. split.
  - apply nodupb_iff. rewrite <- page_of_map. apply nodup_page_of.
    eapply Permutation_NoDup; [apply Permutation_sym, Permutation_map; exact P | exact NW].
  - apply skeys_eqb_eq. rewrite <- page_of_map. f_equal. apply sorted_attrs_unique; auto.
Qed.

(* -- soundness: a page accepted by the oracle is a spec page for a suitable order of the ties -- *)
Lemma ssorted_app_r {X} (R : X -> X -> Prop) (y z : list X) : StronglySorted R (y ++ z) -> StronglySorted R z.
Proof. induction y as [|a t IH]; simpl; auto. intros H. inversion H; auto. Qed.
Lemma ssorted_drop_mid {X} (R : X -> X -> Prop) (x y z : list X) :
  StronglySorted R (x ++ y ++ z) -> StronglySorted R (x ++ z).
Proof.
  induction x as [|a t IH]; simpl; intros H; [eapply ssorted_app_r; eauto|].
  inversion H as [|? ? S F]; subst. constructor; auto.
  rewrite Forall_forall in *. intros b Hb. apply F. apply in_app_or in Hb. apply in_or_app.
  destruct Hb; auto. right. apply in_or_app. auto.
Qed.

Lemma firstn_self {X} m (Y : list X) : firstn (length (firstn m Y)) Y = firstn m Y.
Proof. rewrite firstn_length. destruct (Nat.le_ge_cases m (length Y)) as [H|H].
  - rewrite Nat.min_l; auto. - rewrite Nat.min_r; auto. rewrite !firstn_all2; auto; lia. Qed.

Lemma page_of_as_firstn {X} from lim (l : list X) :
  page_of from lim l = firstn (length (page_of from lim l)) (skipn from l) /\
  (lim = 0%nat \/ (length (page_of from lim l) < lim)%nat -> skipn (length (page_of from lim l)) (skipn from l) = []).
Proof.
  unfold page_of. destruct lim as [|lim].
  - split; [rewrite firstn_all; auto | intros _; apply skipn_all].
  - split; [symmetry; apply firstn_self|]. intros [H|H]; [discriminate|].
    rewrite firstn_length in H. apply skipn_all2. rewrite firstn_length. lia.
Qed.

Lemma valid_page_sound rs i asc from lim ft tu page :
  NoDup (map r_key rs) -> valid_page rs i asc from lim ft tu page = true ->
  is_spec_page rs i asc from lim ft tu page.
Proof.
  intros N. unfold valid_page, is_spec_page.
  set (W := wanted rs i ft tu). set (f := fam_of i). set (g := raw_attr f).
  set (fr := N.to_nat from). set (lm := N.to_nat lim).
  set (cmp := fun r1 r2 : rec => ord_leb asc (g r1) (g r2)).
  assert (cmp_total : forall a b, cmp a b = false -> cmp b a = true) by (intros a b; apply ord_leb_total).
  assert (NW : NoDup (map r_key W)) by (apply nodup_keys_filter; exact N).
  assert (NWr : NoDup W) by (apply (NoDup_map_inv r_key); exact NW).
  destruct (lookup_all W page) as [P|] eqn:LA; [|discriminate].
  intros H. apply andb_true_iff in H. destruct H as [ND EQ].
  apply nodupb_iff in ND. apply skeys_eqb_eq in EQ.
  destruct (lookup_all_spec _ _ _ LA) as [KP PW].
  set (aS := isort (ord_leb asc) (map g W)) in *.
  assert (SaS : Sorted (ordR asc) aS) by (apply (isort_sorted (ord_leb asc)); intros a b; apply ord_leb_total).
  assert (Pcase : P = [] \/ P <> []) by (destruct P; [left; reflexivity | right; discriminate]).
  destruct Pcase as [Pe|Pne].
  { (* empty page *)
    subst P.
    exists (isort cmp W). split; [apply isort_perm | split].
    - apply (isort_sorted cmp cmp_total).
    - simpl in KP. subst page. symmetry.
      assert (M : map g (page_of fr lm (isort cmp W)) = []).
      { rewrite <- page_of_map. rewrite (sorted_attrs_unique asc g (isort cmp W) W).
        - symmetry. exact EQ. - apply isort_perm. - apply (isort_sorted cmp cmp_total). }
      apply map_eq_nil in M. rewrite M. reflexivity. }
  assert (NP : NoDup P) by (apply (NoDup_map_inv r_key); rewrite KP; exact ND).
  set (n := length P).
  (* the rest of the wanted records *)
  set (Rm := filter (fun r => negb (existsb (skey_eqb (r_key r)) page)) W).
  assert (PermW : Permutation W (P ++ Rm)).
  { apply NoDup_Permutation; auto.
    - apply NoDup_app_iff || idtac. 
      assert (Dis : forall r, In r P -> ~ In r Rm).
      { intros r Hr Hm. apply filter_In in Hm. destruct Hm as [_ Hm]. apply negb_true_iff in Hm.
        assert (existsb (skey_eqb (r_key r)) page = true).
        { apply existsb_skey. rewrite <- KP. apply in_map. exact Hr. }
        congruence. }
      assert (NR : NoDup Rm) by (apply NoDup_filter; exact NWr).
      clear -NP NR Dis. induction P as [|x t IH]; simpl; auto. inversion NP; subst. constructor.
      + intros Hx. apply in_app_or in Hx. destruct Hx as [Hx|Hx]; auto. apply (Dis x); simpl; auto.
      + apply IH; auto. intros r Hr. apply Dis. simpl; auto.
    - intros r. rewrite in_app_iff. split.
      + intros Hr. destruct (existsb (skey_eqb (r_key r)) page) eqn:E.
        * left. apply existsb_skey in E. rewrite <- KP in E. apply in_map_iff in E. destruct E as [r' [Ek Hr']].
          assert (r' = r); [|subst; auto].
          pose proof (find_rec_in W r' NW (PW r' Hr')) as F1. pose proof (find_rec_in W r NW Hr) as F2.
          rewrite Ek in F1. congruence.
        * right. apply filter_In. rewrite E. auto.
      + intros [Hr|Hr]; [auto | apply filter_In in Hr; tauto]. }
  set (R := isort cmp Rm).
  assert (PermR : Permutation R Rm) by apply isort_perm.
  assert (SR : Sorted (fun r1 r2 => cmp r1 r2 = true) R) by apply (isort_sorted cmp cmp_total).
  (* the attribute lists *)
  destruct (page_of_as_firstn fr lm aS) as [Seg Tail]. rewrite <- EQ in Seg, Tail. rewrite map_length in Seg, Tail. fold n in Seg, Tail.
  set (A := firstn fr aS). set (B := skipn n (skipn fr aS)).
  assert (Split : aS = A ++ map g P ++ B).
  { unfold A, B. rewrite Seg at 1. rewrite firstn_skipn, firstn_skipn. reflexivity. }
  assert (LA' : length A = fr).
  { unfold A. rewrite firstn_length. apply Nat.min_l.
    destruct (Nat.le_gt_cases fr (length aS)) as [Hle|Hgt]; auto.
    exfalso. apply Pne. apply (map_eq_nil g). rewrite Seg. rewrite skipn_all2 by lia. apply firstn_nil. }
  assert (MR : map g R = A ++ B).
  { apply (sorted_perm_unique asc).
    - apply Sorted_map. exact SR.
    - apply StronglySorted_Sorted. apply (ssorted_drop_mid _ A (map g P) B). rewrite <- Split.
      apply Sorted_StronglySorted; auto. intros x y z. apply ord_leb_trans.
    - apply (Permutation_app_inv_m (map g P) [] (map g R) A B). simpl. rewrite <- Split.
      eapply perm_trans; [|apply Permutation_sym, isort_perm].
      rewrite <- map_app. apply Permutation_map.
      eapply perm_trans; [apply Permutation_app_head, PermR | apply Permutation_sym, PermW]. }
  assert (LR : (fr <= length R)%nat).
  { rewrite <- (map_length g R), MR, app_length. lia. }
  assert (F1 : map g (firstn fr R) = A).
  { rewrite <- firstn_map, MR. rewrite firstn_app, LA', Nat.sub_diag, firstn_all2 by lia. simpl. apply app_nil_r. }
  assert (F2 : map g (skipn fr R) = B).
  { rewrite <- skipn_map, MR. rewrite skipn_app, LA', Nat.sub_diag, skipn_all2 by lia. reflexivity. }
  exists (firstn fr R ++ P ++ skipn fr R). split; [|split].
  - eapply perm_trans; [|apply Permutation_sym; exact PermW].
    eapply perm_trans; [apply Permutation_app_swap_app|]. apply Permutation_app_head.
    rewrite firstn_skipn. exact PermR.
  - apply (Sorted_map_inv g (ordR asc)). rewrite !map_app, F1, F2, <- Split. exact SaS.
  - rewrite <- KP. f_equal.
    assert (SK : skipn fr (firstn fr R ++ P ++ skipn fr R) = P ++ skipn fr R).
    { rewrite skipn_app, firstn_length, Nat.min_l by lia. rewrite skipn_all2 by (rewrite firstn_length; lia).
      rewrite Nat.sub_diag. reflexivity. }
    unfold page_of. rewrite SK. fold lm.
    assert (Bnil : lm = 0%nat \/ (n < lm)%nat -> skipn fr R = []).
    { intros C. apply (map_eq_nil g). rewrite F2. unfold B. apply Tail. exact C. }
    destruct lm as [|lm'] eqn:ELM.
    + rewrite Bnil by auto. symmetry. apply app_nil_r.
    + assert (n <= S lm')%nat.
      { unfold n. rewrite <- (map_length g P), EQ. unfold page_of. try (fold lm; rewrite ELM). rewrite firstn_length. lia. }
      destruct (Nat.eq_dec n (S lm')) as [En|Nn].
      * rewrite firstn_app. fold n. rewrite <- En. unfold n. rewrite Nat.sub_diag, firstn_all. simpl. symmetry. apply app_nil_r.
      * rewrite Bnil by lia. rewrite app_nil_r. symmetry. apply firstn_all2. fold n. lia.
Qed.

(* The oracle used by the correspondence check accepts exactly the spec pages. *)
Theorem valid_page_iff rs i asc from lim ft tu page :
  NoDup (map r_key rs) ->
  (valid_page rs i asc from lim ft tu page = true <-> is_spec_page rs i asc from lim ft tu page).
Proof. intros N. split; [apply valid_page_sound | apply valid_page_complete]; auto. Qed.

(* ---- non-vacuity: the hypotheses of the main theorems hold on concrete non-trivial data ------- *)
Example bounds_example_desc :
  Sorted (ordR false) [[9]; [7]; [7]; [4]; [2]] /\
  find_bounds false [[9]; [7]; [7]; [4]; [2]] (Some [4]) (Some [9]) = Some (1, 3) /\
  filter (win (Some [4]) (Some [9])) [[9]; [7]; [7]; [4]; [2]] = [[7]; [7]; [4]].
Proof. split; [repeat constructor | split; vm_compute; reflexivity]. Qed.
Example bounds_example_asc_empty_window :
  Sorted (ordR true) [[2]; [4]; [7]] /\ find_bounds true [[2]; [4]; [7]] (Some [5]) (Some [5]) = Some (0, -1).
Proof. split; [repeat constructor | vm_compute; reflexivity]. Qed.
Example page_example :
  get_many true [[1]; [2]; [3]; [4]] (map (fun k => k) [[1]; [2]; [3]; [4]]) 1 2 (Some [2]) None = Some [[3]; [4]].
Proof. vm_compute. reflexivity. Qed.
Example valid_page_example_ties :
  let rs := [mkrec [97] 7 [5] 0 0 0 false false false; mkrec [98] 7 [5] 0 0 0 false false false;
             mkrec [99] 7 [1] 0 0 0 false false false] in
  valid_page rs (IValue 7) true 1 1 None None [[97]] = true /\
  valid_page rs (IValue 7) true 1 1 None None [[98]] = true /\
  valid_page rs (IValue 7) true 1 1 None None [[99]] = false.
Proof. vm_compute. auto. Qed.

(* the tabulation used by the case checker does not change the state *)
Lemma freeze_ext s : recs (freeze s) = recs s /\ vtype (freeze s) = vtype s /\
  forall f a, bcn (freeze s) f a = bcn s f a.
Proof. split; [reflexivity | split; [reflexivity|]]. intros f a. destruct f, a; reflexivity. Qed.
