(* Swamp/IndexProofs.v — lemmas and theorems about Swamp/Index.v *)
From HV Require Import Base.Prelude Swamp.Index.
From Coq Require Import Sorted Permutation Lia.
Local Open Scope Z_scope.

Lemma placeholder : True. Proof. exact I. Qed.
