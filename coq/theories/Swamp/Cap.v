(* Swamp/Cap.v — executable model of the Cap quota across the three cap-bearing flows
   (gateway_patch.go: patchTreasuresOneSwamp/capPreCount, swamp_patch.go: PatchFields four-cell
   rule, swamp_patch_expired.go: PatchExpired, swamp.go: CloneAndDeleteMatchingTreasures,
   beacon.go: ShiftMatching / SelectExpiredForPatchWithCap).  Model only, no proofs.

   Interleaving semantics (DESIGN M6): a state is the shared swamp (records + the capMu owner)
   plus a list of arbitrarily many thread-locals; [step cfg t s] performs the next atomic step
   of thread t, [None] = thread t is blocked (capMu held by another thread) or finished.
   A mutex-protected region without blocking calls is one step.

   Configuration:
     count_first = false : PatchTreasures locks capMu, then counts (the code after the fix)
     count_first = true  : counts, then locks (the code at the pinned commit)
     index_count = false : PatchExpired counts Cap.Filter over the whole swamp (after the fix)
     index_count = true  : counts only records that are members of the expiry index, i.e. have
                           a non-zero expiry (the code at the pinned commit)
   The faithful model of the current tree is [cfg_now]; the other values are kept so that the
   refutations for the old code stay machine-checked. *)
From HV Require Import Base.Prelude.

Record cfg := { count_first : bool; index_count : bool; cmax : nat }.
Definition cfg_now (m : nat) : cfg := {| count_first := false; index_count := false; cmax := m |}.

(* A record: key; m = body matches Cap.Filter; x = has an expiry (member of the expiry index);
   d = expired now (claimable by PatchExpired / the expired-shift). *)
Record rec := { rk : N; rm : bool; rx : bool; rd : bool }.

Fixpoint matching (l : list rec) : nat :=
  match l with [] => 0 | r :: t => (if rm r then 1 else 0) + matching t end.

Fixpoint matching_indexed (l : list rec) : nat :=
  match l with [] => 0 | r :: t => (if rm r && rx r then 1 else 0) + matching_indexed t end.

Fixpoint lookup (k : N) (l : list rec) : option rec :=
  match l with [] => None | r :: t => if N.eqb (rk r) k then Some r else lookup k t end.

(* replace the first record with key k *)
Fixpoint replace (k : N) (r' : rec) (l : list rec) : list rec :=
  match l with [] => [] | r :: t => if N.eqb (rk r) k then r' :: t else r :: replace k r' t end.

Fixpoint remove (k : N) (l : list rec) : list rec :=
  match l with [] => [] | r :: t => if N.eqb (rk r) k then t else r :: remove k t end.

(* keys of the expired records in expiry-index order; the harness chooses expiry times so that
   this order is the key order (M2: the tie/sort policy of the index is not C12's concern) *)
Fixpoint insertN (x : N) (l : list N) : list N :=
  match l with [] => [x] | y :: t => if N.leb x y then x :: l else y :: insertN x t end.
Definition due_keys (l : list rec) : list N := fold_right insertN [] (map rk (filter rd l)).

Fixpoint remove_all (ks : list N) (l : list rec) : list rec :=
  match ks with [] => l | k :: t => remove_all t (remove k l) end.

(* ---- the four-cell rule (swamp_patch.go: PatchFields, "Cap pre/post check") --------------- *)
(* returns (accepted, budget'); a rejected patch changes nothing *)
Definition patch_fields_cap (pre post : bool) (budget : nat) : bool * nat :=
  if negb pre && post then
    match budget with O => (false, O) | S b => (true, b) end
  else (true, budget).

(* ---- programs ------------------------------------------------------------------------------ *)
(* one PatchTreasures item: key, the post-patch value of "matches" when the record did not
   match before (or is created), and when it did *)
(* ipc: the post-patch value when the record is CREATED by this patch (ops applied to the
   InitialMsgpackOnCreate seed; a create always counts as pre = not matching);
   iskip: the patch carries a Condition that is not met: CONDITION_NOT_MET (3), nothing changes *)
Record item := { ik : N; ipf : bool; ipt : bool; ipc : bool; iskip : bool }.

Inductive wop :=
| WDel (k : N)                       (* delete *)
| WPut (k : N) (x d : bool)          (* create or overwrite with a NON-matching body *)
| WExp (k : N) (x d : bool).         (* change only the expiry of an existing record *)

Inductive prog :=
| PT (create : bool) (items : list item)      (* cap-bearing PatchTreasures batch *)
| PE (hm : nat) (post nx nd : bool)            (* cap-bearing PatchExpired: patch sets m,x,d *)
| SH (hm : nat)                                (* cap-bearing ShiftMatching over expired records *)
| WR (w : wop).                                (* operation without Cap that cannot move a record
                                                  into the filter *)

Inductive pc :=
| Idle (p : prog)
| PTcounted (create : bool) (items : list item) (c : nat)   (* old order only: counted, no lock *)
| PTlocked (create : bool) (items : list item)              (* new order: holds capMu, not counted *)
| PTrun (create : bool) (items : list item) (budget : nat)  (* holds capMu *)
| PElocked (hm : nat) (post nx nd : bool)
| PErun (sel : list N) (post nx nd : bool)                  (* selected, not yet patched *)
| SHlocked (hm : nat)
| Done.

(* per-item result codes (PatchResult.StatusCode): 0 PATCHED, 1 CREATED, 2 KEY_NOT_FOUND,
   3 CONDITION_NOT_MET,
   9 CAP_EXCEEDED; for PE/SH: (key, 0) per selected key *)
Record local := { lpc : pc; lres : list (N * N) }.

Record state := { recs : list rec; capmu : option nat; thr : list local }.

Fixpoint upd {A} (n : nat) (x : A) (l : list A) : list A :=
  match l, n with
  | [], _ => []
  | _ :: t, O => x :: t
  | h :: t, S k => h :: upd k x t
  end.

Definition free_for (t : nat) (s : state) : bool :=
  match capmu s with None => true | Some _ => false end.

Definition count_pe (c : cfg) (l : list rec) : nat :=
  if index_count c then matching_indexed l else matching l.

Definition wstep (w : wop) (l : list rec) : list rec :=
  match w with
  | WDel k => remove k l
  | WPut k x d =>
      match lookup k l with
      | Some _ => replace k {| rk := k; rm := false; rx := x; rd := d |} l
      | None => l ++ [{| rk := k; rm := false; rx := x; rd := d |}]
      end
  | WExp k x d =>
      match lookup k l with
      | Some r => replace k {| rk := k; rm := rm r; rx := x; rd := d |} l
      | None => l
      end
  end.

(* one PatchFields call under the per-key guard *)
Definition patch_item (create : bool) (it : item) (budget : nat) (l : list rec)
  : list rec * nat * N :=
  match lookup (ik it) l with
  | None =>
      if create then
        if iskip it then (l, budget, 3%N) else
        let '(ok, b') := patch_fields_cap false (ipc it) budget in
        if ok then (l ++ [{| rk := ik it; rm := ipc it; rx := false; rd := false |}], b', 1%N)
        else (l, b', 9%N)
      else (l, budget, 2%N)
  | Some r =>
      if iskip it then (l, budget, 3%N) else
      let post := if rm r then ipt it else ipf it in
      let '(ok, b') := patch_fields_cap (rm r) post budget in
      if ok then (replace (ik it) {| rk := rk r; rm := post; rx := rx r; rd := rd r |} l, b', 0%N)
      else (l, b', 9%N)
  end.

Definition mk (s : state) (t : nat) (rs : list rec) (mu : option nat) (p : pc) (add : list (N * N)) : state :=
  match nth_error (thr s) t with
  | Some lo => {| recs := rs; capmu := mu; thr := upd t {| lpc := p; lres := lres lo ++ add |} (thr s) |}
  | None => s
  end.

Definition step (c : cfg) (t : nat) (s : state) : option state :=
  match nth_error (thr s) t with
  | None => None
  | Some lo =>
      match lpc lo with
      | Done => None
      | Idle (WR w) => Some (mk s t (wstep w (recs s)) (capmu s) Done [])
      | Idle (PT cr items) =>
          if count_first c then Some (mk s t (recs s) (capmu s) (PTcounted cr items (matching (recs s))) [])
          else if free_for t s then Some (mk s t (recs s) (Some t) (PTlocked cr items) []) else None
      | PTcounted cr items n =>
          if free_for t s then Some (mk s t (recs s) (Some t) (PTrun cr items (cmax c - n)) []) else None
      | PTlocked cr items =>
          Some (mk s t (recs s) (capmu s) (PTrun cr items (cmax c - matching (recs s))) [])
      | PTrun cr [] b => Some (mk s t (recs s) None Done [])
      | PTrun cr (it :: r) b =>
          let '(rs, b', code) := patch_item cr it b (recs s) in
          Some (mk s t rs (capmu s) (PTrun cr r b') [(ik it, code)])
      | Idle (PE hm post nx nd) =>
          if free_for t s then Some (mk s t (recs s) (Some t) (PElocked hm post nx nd) []) else None
      | PElocked hm post nx nd =>
          let budget := cmax c - count_pe c (recs s) in
          let sel := firstn (Nat.min hm budget) (due_keys (recs s)) in
          Some (mk s t (recs s) (capmu s) (PErun sel post nx nd) (map (fun k => (k, 0%N)) sel))
      | PErun [] post nx nd => Some (mk s t (recs s) None Done [])
      | PErun (k :: r) post nx nd =>
          let rs := match lookup k (recs s) with
                    | Some _ => replace k {| rk := k; rm := post; rx := nx; rd := nd |} (recs s)
                    | None => recs s
                    end in
          Some (mk s t rs (capmu s) (PErun r post nx nd) [])
      | Idle (SH hm) =>
          if free_for t s then Some (mk s t (recs s) (Some t) (SHlocked hm) []) else None
      | SHlocked hm =>
          let budget := cmax c - count_pe c (recs s) in
          let sel := firstn (Nat.min hm budget) (due_keys (recs s)) in
          Some (mk s t (remove_all sel (recs s)) None Done (map (fun k => (k, 0%N)) sel))
      end
  end.

Fixpoint run (c : cfg) (sched : list nat) (s : state) : state :=
  match sched with
  | [] => s
  | t :: r => match step c t s with Some s' => run c r s' | None => run c r s end
  end.

Definition init (rs : list rec) (ps : list prog) : state :=
  {| recs := rs; capmu := None; thr := map (fun p => {| lpc := Idle p; lres := [] |}) ps |}.

(* ---- macro steps: run a thread up to its next instrumentation point ---------------------- *)
(* The harness forces schedules through the hook points of the real code; a released thread
   runs until it parks again or returns.  Park points: after the count of a PatchTreasures batch
   (gateway.capPreCount.counted), after the selection of PatchExpired
   (swamp.patchExpired.selected), before its re-index/unlock (swamp.patchExpired.beforeReindex). *)

(* run thread t until it is Done (fuel-bounded) *)
Fixpoint finish (c : cfg) (t : nat) (fuel : nat) (s : state) : option state :=
  match fuel with
  | O => None
  | S f =>
      match nth_error (thr s) t with
      | Some lo => match lpc lo with
                   | Done => Some s
                   | _ => match step c t s with Some s' => finish c t f s' | None => None end
                   end
      | None => None
      end
  end.

(* run thread t until its pc satisfies [stop] (checked after each step) *)
Fixpoint until (c : cfg) (stop : pc -> bool) (t : nat) (fuel : nat) (s : state) : option state :=
  match fuel with
  | O => None
  | S f =>
      match step c t s with
      | None => None
      | Some s' =>
          match nth_error (thr s') t with
          | Some lo => if stop (lpc lo) then Some s' else until c stop t f s'
          | None => None
          end
      end
  end.

(* ---- correspondence: replay of a forced schedule ------------------------------------------ *)
(* macro step kinds emitted by the harness *)
Inductive mstep :=
| MCount (t : nat)    (* release a not-yet-started PatchTreasures thread; it parks after counting *)
| MSelect (t : nat)   (* release a not-yet-started PatchExpired thread; it parks after selection *)
| MPatched (t : nat)  (* release it again; it parks before the re-index (all patches applied) *)
| MOne (t : nat)      (* release a parked batch for exactly one per-record / per-key patch
                         (swamp.patchExpired.afterPatch, gateway.patchTreasures.beforeKey) *)
| MFinish (t : nat).  (* release thread t (parked or not started); it runs to completion *)

Definition is_counted (p : pc) : bool :=
  match p with PTcounted _ _ _ => true | PTrun _ _ _ => true | _ => false end.
Definition is_selected (p : pc) : bool := match p with PErun _ _ _ _ => true | _ => false end.
Definition is_patched (p : pc) : bool := match p with PErun [] _ _ _ => true | _ => false end.

Definition mrun1 (c : cfg) (m : mstep) (s : state) : option state :=
  match m with
  | MCount t => until c is_counted t 4 s
  | MSelect t => until c is_selected t 4 s
  | MPatched t =>
      match nth_error (thr s) t with
      | Some lo => if is_patched (lpc lo) then Some s else until c is_patched t 1000 s
      | None => None
      end
  | MOne t =>
      match nth_error (thr s) t with
      | Some lo => match lpc lo with
                   | PTrun _ (_ :: _) _ | PErun (_ :: _) _ _ _ => step c t s
                   | _ => None
                   end
      | None => None
      end
  | MFinish t => finish c t 1000 s
  end.

Fixpoint mrun (c : cfg) (ms : list mstep) (s : state) : option state :=
  match ms with
  | [] => Some s
  | m :: r => match mrun1 c m s with Some s' => mrun c r s' | None => None end
  end.

(* a case: configuration max, initial records, thread programs, forced schedule (the prefix that
   ran; [c_blocked] = the next macro step, which did not reach its park point because the
   thread blocked on capMu), and what the implementation did *)
Record case := {
  c_max : nat; c_recs : list rec; c_progs : list prog;
  c_replay : bool;                     (* false: free-running stress, only the oracle applies *)
  c_sched : list mstep; c_blocked : option mstep;
  c_counts : list nat;                 (* matching count observed at each quiescent point *)
  c_res : list (list (N * N));         (* per thread (key, code) in order *)
  c_final : list (N * bool)            (* final (key, matches) sorted by key *)
}.

Definition pair_eqb (a b : N * N) : bool := N.eqb (fst a) (fst b) && N.eqb (snd a) (snd b).
Definition kb_eqb (a b : N * bool) : bool := N.eqb (fst a) (fst b) && Bool.eqb (snd a) (snd b).

Fixpoint insert_kb (x : N * bool) (l : list (N * bool)) : list (N * bool) :=
  match l with
  | [] => [x]
  | y :: t => if N.leb (fst x) (fst y) then x :: l else y :: insert_kb x t
  end.
Definition sort_kb (l : list (N * bool)) : list (N * bool) := fold_right insert_kb [] l.

Definition final_of (s : state) : list (N * bool) := sort_kb (map (fun r => (rk r, rm r)) (recs s)).

Definition count_true (l : list (N * bool)) : nat := length (filter snd l).

(* verdict codes: 0 ok; 1 model/impl mismatch (results or final records); 2 the implementation's
   matching count exceeds the cap at a quiescent point although it did not at the start
   (property oracle, implementation observations only); 3 the forced schedule is not executable
   in the model, or the step the implementation blocked on is enabled in the model *)
Definition check_case (x : case) : N :=
  let start := matching (c_recs x) in
  if Nat.leb start (c_max x) &&
     (existsb (fun n => Nat.ltb (c_max x) n) (c_counts x) || Nat.ltb (c_max x) (count_true (c_final x)))
  then 2%N
  else if negb (c_replay x) then 0%N
  else
    match mrun (cfg_now (c_max x)) (c_sched x) (init (c_recs x) (c_progs x)) with
    | None => 3%N
    | Some s =>
        match c_blocked x with
        | Some m => match mrun1 (cfg_now (c_max x)) m s with None => 0%N | Some _ => 3%N end
        | None =>
            if list_eqb (list_eqb pair_eqb) (map lres (thr s)) (c_res x)
               && list_eqb kb_eqb (final_of s) (c_final x)
            then 0%N else 1%N
        end
    end.

Definition check_all (cases : list case) : list verdict := check_cases check_case cases.
