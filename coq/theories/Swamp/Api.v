(* Swamp/Api.v — faithful sequential model of the non-streaming data RPCs of
   app/server/gateway/gateway.go on top of swamp.go / treasure.go (C06, C26).

   One request is one call of [api_step]; the server state is the set of swamps that are open in
   hydra's map (with close-after-idle far away, a swamp "exists" iff it is open or has a file, and
   within one session a file exists only for an open swamp), each with the records of its key
   beacon and the detached records parked in [creatingTreasures].

   The model follows the code that exists, including its quirks:
     - records are mutated in place, before Save classifies the save from the change flags;
     - SetContentT replaces the whole Content, SetContentVoid does not clear a typed value,
       Uint32SlicePush adds a slice next to whatever value is there (GetContentType picks by a fixed
       order: Void flag, scalar, slice);
     - the Increment* functions apply "set to 0" and the metadata *before* the condition is checked
       and leave a detached record in creatingTreasures when they return without Save;
     - Delete / ShiftByKeys / Uint32SliceDelete destroy a swamp they emptied and keep using the dead
       swamp object for the rest of the request.
   Six behaviours of the pinned commit are switchable ([cfg]), so that the old behaviour stays
   machine-checked as the reason for the repairs: change flags never reset ([c_sticky]),
   Uint32SliceDelete calling DeleteTreasure with the record guard still held ([c_hold] => Hang),
   Get indexing Keys[0] of an empty non-nil list ([c_getpanic] => Panic, recovered to (nil,nil)),
   Set answering a second bare entry after an error entry ([c_dupset]), Uint32SlicePush/Delete
   answering (nil, nil) on success ([c_pushnil]), the writing handlers accepting the empty key, which the
   storage reader refuses ([c_keycheck] = false). [cfg_now] is the repaired code.

   Abstractions (M3/M4): keys, swamp names, strings, byte strings are Z tokens (0 = the empty
   string); integer payloads are their numeric value with Go's conversions written out ([wrap]);
   float payloads are integer-valued floats in the range where float arithmetic is exact, so
   "+" and the comparisons are those of Z; times are tokens (0 = unset, n>0 = n seconds,
   [now_tok] = "the wall clock at that moment"). No proofs in this file. *)
From HV Require Import Base.Prelude.
Local Open Scope Z_scope.

(* ---------- association lists keyed by Z (insertion order is kept; outputs that come from Go maps
   are sorted before comparison) ---------- *)
Fixpoint aget {A} (k : Z) (l : list (Z * A)) : option A :=
  match l with
  | [] => None
  | (k', v) :: t => if Z.eqb k k' then Some v else aget k t
  end.
Fixpoint aput {A} (k : Z) (v : A) (l : list (Z * A)) : list (Z * A) :=
  match l with
  | [] => [(k, v)]
  | (k', v') :: t => if Z.eqb k k' then (k, v) :: t else (k', v') :: aput k v t
  end.
Fixpoint adel {A} (k : Z) (l : list (Z * A)) : list (Z * A) :=
  match l with
  | [] => []
  | (k', v') :: t => if Z.eqb k k' then t else (k', v') :: adel k t
  end.
Definition ahas {A} (k : Z) (l : list (Z * A)) : bool :=
  match aget k l with Some _ => true | None => false end.

Fixpoint zmem (x : Z) (l : list Z) : bool :=
  match l with [] => false | y :: t => Z.eqb x y || zmem x t end.

(* ---------- typed values ---------- *)
Inductive ty := TU8 | TU16 | TU32 | TU64 | TI8 | TI16 | TI32 | TI64 | TF32 | TF64 | TStr | TBool | TBytes.

Definition ty_num (t : ty) : Z :=
  match t with
  | TU8 => 1 | TU16 => 2 | TU32 => 3 | TU64 => 4 | TI8 => 5 | TI16 => 6 | TI32 => 7 | TI64 => 8
  | TF32 => 9 | TF64 => 10 | TStr => 11 | TBool => 12 | TBytes => 13
  end.
Definition ty_eqb (a b : ty) : bool := Z.eqb (ty_num a) (ty_num b).

Definition wrapu (w z : Z) : Z := z mod 2 ^ w.
Definition wraps (w z : Z) : Z :=
  let m := z mod 2 ^ w in if m <? 2 ^ (w - 1) then m else m - 2 ^ w.
(* Go's conversion to the width of the type (uint8(x), int8(x), ...) *)
Definition wrap (t : ty) (z : Z) : Z :=
  match t with
  | TU8 => wrapu 8 z | TU16 => wrapu 16 z | TU32 => wrapu 32 z | TU64 => wrapu 64 z
  | TI8 => wraps 8 z | TI16 => wraps 16 z | TI32 => wraps 32 z | TI64 => wraps 64 z
  | _ => z
  end.
Definition numeric (t : ty) : bool :=
  match t with TStr | TBool | TBytes => false | _ => true end.

(* treasure.Content: the Void flag, at most one typed scalar (every SetContentT installs a fresh
   Content holding only that field), and the uint32 slice that Uint32SlicePush adds next to it *)
Record content := { c_void : bool; c_sc : option (ty * Z); c_sl : option (list Z) }.

Record meta := { m_cat : Z; m_cby : Z; m_mat : Z; m_mby : Z; m_exp : Z }.
Definition meta0 : meta := {| m_cat := 0; m_cby := 0; m_mat := 0; m_mby := 0; m_exp := 0 |}.

(* a treasure: Content pointer, metadata, and the disjunction of the change flags *)
Record rec := { r_c : option content; r_meta : meta; r_dirty : bool }.
Definition fresh_rec : rec := {| r_c := None; r_meta := meta0; r_dirty := false |}.

Inductive ctype := CVoid | CSc (t : ty) | CSlice.
(* treasure.GetContentType *)
Definition ctype_of (c : option content) : ctype :=
  match c with
  | None => CVoid
  | Some c =>
      if c_void c then CVoid
      else match c_sc c with
           | Some (t, _) => CSc t
           | None => match c_sl c with Some _ => CSlice | None => CVoid end
           end
  end.

Definition now_tok : Z := 1000000.

(* ---------- setters of treasure.go ---------- *)
Definition set_dirty (r : rec) : rec := {| r_c := r_c r; r_meta := r_meta r; r_dirty := true |}.
Definition with_c (r : rec) (c : option content) : rec :=
  {| r_c := c; r_meta := r_meta r; r_dirty := true |}.

Definition sc_same (c : option content) (t : ty) (z : Z) : bool :=
  match c with
  | Some c => match c_sc c with Some (t', z') => ty_eqb t t' && Z.eqb z z' | None => false end
  | None => false
  end.
(* SetContentInt64 & co: nothing if the same typed value is already there, else a fresh Content *)
Definition set_sc (r : rec) (t : ty) (z : Z) : rec :=
  if sc_same (r_c r) t z then r
  else with_c r (Some {| c_void := false; c_sc := Some (t, z); c_sl := None |}).
(* SetContentVoid: only a nil Content becomes {Void:true}; an existing non-void Content keeps its
   value (the flag is only ever re-set to true when it already is) *)
Definition set_void (r : rec) : rec :=
  match r_c r with
  | Some c => if c_void c then r else set_dirty r
  | None => with_c r (Some {| c_void := true; c_sc := None; c_sl := None |})
  end.
Fixpoint push_new (have add : list Z) : list Z :=
  match add with
  | [] => []
  | v :: t => if zmem v have then push_new have t else v :: push_new (have ++ [v]) t
  end.
(* treasure.Uint32SlicePush: creates Content / slice when missing, appends the values not yet in the
   slice, marks the content changed only if something was appended *)
Definition push_sl (r : rec) (vals : list Z) : rec :=
  let c := match r_c r with Some c => c | None => {| c_void := false; c_sc := None; c_sl := None |} end in
  let old := match c_sl c with Some l => l | None => [] end in
  let add := push_new old vals in
  {| r_c := Some {| c_void := c_void c; c_sc := c_sc c; c_sl := Some (old ++ add) |};
     r_meta := r_meta r;
     r_dirty := match add with [] => r_dirty r | _ => true end |}.
(* treasure.Uint32SliceDelete: keeps the values not listed; contentChanged is set when a value is kept *)
Definition del_sl (r : rec) (vals : list Z) : rec :=
  match r_c r with
  | Some c =>
      match c_sl c with
      | Some l =>
          let keep := filter (fun v => negb (zmem v vals)) l in
          {| r_c := Some {| c_void := c_void c; c_sc := c_sc c; c_sl := Some keep |};
             r_meta := r_meta r;
             r_dirty := match keep with [] => r_dirty r | _ => true end |}
      | None => r
      end
  | None => r
  end.
(* treasure.Uint32SliceSize: None = "content type is not a uint32 slice" *)
Definition sl_size (r : rec) : option Z :=
  match r_c r with
  | Some c => match c_sl c with Some l => Some (Z.of_nat (length l)) | None => None end
  | None => None
  end.
Definition sl_all (r : rec) : list Z :=
  match r_c r with
  | Some c => match c_sl c with Some l => l | None => [] end
  | None => []
  end.

Definition upd_meta (r : rec) (m : meta) : rec := {| r_c := r_c r; r_meta := m; r_dirty := true |}.
(* the metadata part of keyValuesToTreasure: a field is applied only when supplied (token <> 0),
   every applied setter raises its change flag *)
Definition apply_meta (r : rec) (m : meta) : rec :=
  let o := r_meta r in
  let r1 := if Z.eqb (m_cat m) 0 then r else upd_meta r {| m_cat := m_cat m; m_cby := m_cby o; m_mat := m_mat o; m_mby := m_mby o; m_exp := m_exp o |} in
  let o := r_meta r1 in
  let r2 := if Z.eqb (m_cby m) 0 then r1 else upd_meta r1 {| m_cat := m_cat o; m_cby := m_cby m; m_mat := m_mat o; m_mby := m_mby o; m_exp := m_exp o |} in
  let o := r_meta r2 in
  let r3 := if Z.eqb (m_mat m) 0 then r2 else upd_meta r2 {| m_cat := m_cat o; m_cby := m_cby o; m_mat := m_mat m; m_mby := m_mby o; m_exp := m_exp o |} in
  let o := r_meta r3 in
  let r4 := if Z.eqb (m_mby m) 0 then r3 else upd_meta r3 {| m_cat := m_cat o; m_cby := m_cby o; m_mat := m_mat o; m_mby := m_mby m; m_exp := m_exp o |} in
  let o := r_meta r4 in
  if Z.eqb (m_exp m) 0 then r4 else upd_meta r4 {| m_cat := m_cat o; m_cby := m_cby o; m_mat := m_mat o; m_mby := m_mby o; m_exp := m_exp m |}.

(* IncrementRequestMetadata: CreatedAt/UpdatedAt are "set to now" switches *)
Record imeta := { i_cat : bool; i_cby : Z; i_mat : bool; i_mby : Z; i_exp : Z }.
Definition imeta_to_meta (m : imeta) : meta :=
  {| m_cat := if i_cat m then now_tok else 0; m_cby := i_cby m;
     m_mat := if i_mat m then now_tok else 0; m_mby := i_mby m; m_exp := i_exp m |}.

(* ---------- requests ---------- *)
Inductive setval := SVVoid | SVSc (t : ty) (z : Z) | SVSl (l : list Z).
Record kv := { kv_key : Z; kv_val : setval; kv_meta : meta }.

Inductive request :=
| QSet (sw : Z) (create over : bool) (kvs : option (list kv))   (* one SwampRequest; None = nil KeyValues *)
| QGet (l : list (Z * option (list Z)))                          (* swamps with their key lists (None = nil) *)
| QGetAll (sw : Z)
| QGetByKeys (sw : Z) (keys : list Z)
| QDelete (sw : Z) (keys : list Z)                               (* one swamp *)
| QCount (sws : list Z)
| QIsSwampExist (sw : Z)
| QIsKeyExist (sw k : Z)
| QAreKeysExist (sw : Z) (keys : list Z)
| QShiftByKeys (sw : Z) (keys : list Z)
| QInc (t : ty) (sw k by_ : Z) (cond : option (Z * Z)) (ne e : option imeta)
| QPush (sw : Z) (pairs : list (Z * list Z))
| QSlDel (sw : Z) (pairs : list (Z * list Z))
| QSize (sw k : Z)
| QIsVal (sw k v : Z)
| QDestroy (sw : Z).

(* ---------- responses (canonical form of (response message, gRPC error)) ---------- *)
Inductive status := StNotFound | StNew | StUpdated | StNothing | StDeleted.
Inductive err := EInvalid | EFailedPre | EInternal.
Record view := { v_key : Z; v_exist : bool; v_sc : option (ty * Z); v_sl : list Z; v_meta : meta }.

Inductive response :=
| RErr (e : err)            (* (nil, error) *)
| RRespErr (e : err)        (* (non-nil response, error) *)
| RPanic                    (* the handler panicked; handlePanic turns that into (nil, nil) *)
| RNil                      (* (nil, nil) returned deliberately *)
| RHang                     (* the handler never returns *)
| ROk                       (* an empty response message *)
| RSet (l : list (option Z * list (Z * status)))     (* per SwampResponse: ErrorCode, KeysAndStatuses *)
| RGet (l : list (bool * list view))
| RViews (l : list view)
| RDelete (l : list (option Z * list (Z * status)))
| RCount (l : list (Z * Z * bool))
| RBool (b : bool)
| RKeys (l : list (Z * bool))
| RSize (n : Z)
| RInc (v : Z) (inc : bool) (m : option meta).

Definition ec_cannot : Z := 1.   (* SwampResponse_CanNotBeExecuted *)
Definition ec_noswamp : Z := 2.  (* ..._SwampDoesNotExist *)

(* ---------- server state ---------- *)
Record swamp := { recs : list (Z * rec); infl : list (Z * rec) }.
Definition empty_swamp : swamp := {| recs := []; infl := [] |}.
Definition srv := list (Z * swamp).
Definition srv0 : srv := [].

Record cfg := { c_sticky : bool; c_hold : bool; c_getpanic : bool; c_dupset : bool; c_pushnil : bool; c_keycheck : bool }.
Definition cfg_now : cfg := {| c_sticky := false; c_hold := false; c_getpanic := false; c_dupset := false; c_pushnil := false; c_keycheck := true |}.
Definition cfg_pinned : cfg := {| c_sticky := true; c_hold := true; c_getpanic := true; c_dupset := true; c_pushnil := true; c_keycheck := false |}.

Definition exists_sw (s : srv) (sw : Z) : bool := ahas sw s.
(* SummonSwamp: the open swamp, or a new empty one *)
Definition summon (s : srv) (sw : Z) : swamp :=
  match aget sw s with Some x => x | None => empty_swamp end.
(* write a swamp object back: alive => it is (still) in hydra's map; dead => it was destroyed *)
Definition commit (s : srv) (sw : Z) (x : swamp) (alive : bool) : srv :=
  if alive then aput sw x s else adel sw s.

(* checkSwampName: "" => InvalidArgument; optional existence check => FailedPrecondition *)
Definition check_name (s : srv) (sw : Z) (must_exist : bool) : option err :=
  if Z.eqb sw 0 then Some EInvalid
  else if must_exist && negb (exists_sw s sw) then Some EFailedPre
  else None.

(* swamp.CreateTreasure: the record in the beacon, else the parked detached one, else a new one
   (which is parked until its first Save) *)
Definition obj_of (x : swamp) (k : Z) : rec :=
  match aget k (recs x) with
  | Some r => r
  | None => match aget k (infl x) with Some r => r | None => fresh_rec end
  end.
(* the handler returns without Save: in-place mutations stay on the object it worked on *)
Definition keep_unsaved (x : swamp) (k : Z) (r : rec) : swamp :=
  if ahas k (recs x) then {| recs := aput k r (recs x); infl := infl x |}
  else {| recs := recs x; infl := aput k r (infl x) |}.
Definition clear_flags (c : cfg) (r : rec) : rec :=
  if c_sticky c then r else {| r_c := r_c r; r_meta := r_meta r; r_dirty := false |}.
(* treasure.Save -> swamp.SaveFunction *)
Definition save (c : cfg) (x : swamp) (k : Z) (r : rec) : swamp * status :=
  if ahas k (recs x) then
    if r_dirty r then ({| recs := aput k (clear_flags c r) (recs x); infl := infl x |}, StUpdated)
    else ({| recs := aput k r (recs x); infl := infl x |}, StNothing)
  else ({| recs := aput k (clear_flags c r) (recs x); infl := adel k (infl x) |}, StNew).

(* treasureToKeyValuePair *)
Definition view_of (k : Z) (r : rec) : view :=
  match ctype_of (r_c r) with
  | CVoid => {| v_key := k; v_exist := true; v_sc := None; v_sl := []; v_meta := r_meta r |}
  | CSc _ => {| v_key := k; v_exist := true;
                v_sc := match r_c r with Some c => c_sc c | None => None end; v_sl := []; v_meta := r_meta r |}
  | CSlice => {| v_key := k; v_exist := true; v_sc := None; v_sl := sl_all r; v_meta := r_meta r |}
  end.
Definition view_missing (k : Z) : view :=
  {| v_key := k; v_exist := false; v_sc := None; v_sl := []; v_meta := meta0 |}.
(* treasure.Clone -> cloneContent: scalar first, then the slice, then the Void flag *)
Definition clone_rec (r : rec) : rec :=
  let c' := match r_c r with
            | None => {| c_void := false; c_sc := None; c_sl := None |}
            | Some c =>
                match c_sc c with
                | Some v => {| c_void := false; c_sc := Some v; c_sl := None |}
                | None => match c_sl c with
                          | Some l => {| c_void := false; c_sc := None; c_sl := Some l |}
                          | None => {| c_void := c_void c; c_sc := None; c_sl := None |}
                          end
                end
            end in
  {| r_c := Some c'; r_meta := r_meta r; r_dirty := false |}.

(* ---------- Set ---------- *)
Definition apply_val (r : rec) (v : setval) : rec :=
  match v with
  | SVVoid => set_void r
  | SVSc t z => set_sc r t (wrap t z)
  | SVSl l => push_sl r l
  end.
Definition set_item (c : cfg) (create over : bool) (x : swamp) (it : kv) : swamp * (Z * status) :=
  let k := kv_key it in
  if negb create && negb (ahas k (recs x)) then (x, (k, StNotFound))
  else if negb over && ahas k (recs x) then (x, (k, StNothing))
  else
    let r := apply_meta (apply_val (obj_of x k) (kv_val it)) (kv_meta it) in
    let '(x', st) := save c x k r in (x', (k, st)).
Fixpoint set_items (c : cfg) (create over : bool) (x : swamp) (its : list kv) : swamp * list (Z * status) :=
  match its with
  | [] => (x, [])
  | it :: t =>
      let '(x1, o) := set_item c create over x it in
      let '(x2, os) := set_items c create over x1 t in (x2, o :: os)
  end.
Definition set_err (c : cfg) (code : Z) : response :=
  RSet ((Some code, []) :: (if c_dupset c then [(None, [])] else [])).
Definition do_set (c : cfg) (s : srv) (sw : Z) (create over : bool) (kvs : option (list kv)) : srv * response :=
  match check_name s sw false with
  | Some e => (s, RErr e)
  | None =>
      match kvs with
      | None => (s, RErr EInvalid)
      | Some its =>
          if c_keycheck c && existsb (fun it => Z.eqb (kv_key it) 0) its then (s, RErr EInvalid)
          else if negb create && negb over then (s, set_err c ec_cannot)
          else if negb create && negb (exists_sw s sw) then (s, set_err c ec_noswamp)
          else
            let '(x, os) := set_items c create over (summon s sw) its in
            (commit s sw x true, RSet [(None, os)])
      end
  end.

(* ---------- reads ---------- *)
Definition get_views (x : swamp) (keys : list Z) : list view :=
  map (fun k => match aget k (recs x) with Some r => view_of k r | None => view_missing k end) keys.
(* validation loop of Get; [single] = exactly one swamp in the request *)
Fixpoint get_validate (c : cfg) (s : srv) (single : bool) (l : list (Z * option (list Z))) : option response :=
  match l with
  | [] => None
  | (sw, keys) :: t =>
      match check_name s sw single with
      | Some e => Some (RErr e)
      | None =>
          match keys with
          | None => Some (RErr EInvalid)
          | Some [] => if c_getpanic c then Some RPanic else Some (RErr EInvalid)
          | Some (k0 :: _) => if Z.eqb k0 0 then Some (RErr EInvalid) else get_validate c s single t
          end
      end
  end.
Definition do_get (c : cfg) (s : srv) (l : list (Z * option (list Z))) : srv * response :=
  let single := match l with [_] => true | _ => false end in
  match get_validate c s single l with
  | Some r => (s, r)
  | None =>
      (s, RGet (map (fun p =>
                       match aget (fst p) s with
                       | None => (false, [])
                       | Some x => (true, get_views x (match snd p with Some ks => ks | None => [] end))
                       end) l))
  end.
Definition views_of_keys (x : swamp) (keys : list Z) : list view :=
  flat_map (fun k => match aget k (recs x) with Some r => [view_of k r] | None => [] end) keys.
Definition all_views (x : swamp) : list view := map (fun p => view_of (fst p) (snd p)) (recs x).

(* ---------- deletes; a swamp left without records is destroyed (and stays dead for the rest of the
   request: the handler keeps the dead object) ---------- *)
Fixpoint del_keys (x : swamp) (alive : bool) (keys : list Z) : swamp * bool * list (Z * status) :=
  match keys with
  | [] => (x, alive, [])
  | k :: t =>
      if ahas k (recs x) then
        let x1 := {| recs := adel k (recs x); infl := infl x |} in
        let alive1 := match recs x1 with [] => false | _ => alive end in
        let '(x2, a2, os) := del_keys x1 alive1 t in (x2, a2, (k, StDeleted) :: os)
      else
        let '(x2, a2, os) := del_keys x alive t in (x2, a2, (k, StNotFound) :: os)
  end.
Fixpoint shift_keys (x : swamp) (keys : list Z) : swamp * list view :=
  match keys with
  | [] => (x, [])
  | k :: t =>
      match aget k (recs x) with
      | Some r =>
          let '(x2, vs) := shift_keys {| recs := adel k (recs x); infl := infl x |} t in
          (x2, view_of k (clone_rec r) :: vs)
      | None => shift_keys x t
      end
  end.

(* ---------- uint32 slices ---------- *)
Fixpoint push_pairs (c : cfg) (x : swamp) (pairs : list (Z * list Z)) : swamp :=
  match pairs with
  | [] => x
  | (k, vals) :: t => push_pairs c (fst (save c x k (push_sl (obj_of x k) vals))) t
  end.
(* result: swamp object, alive, hang *)
Fixpoint sldel_pairs (c : cfg) (x : swamp) (alive : bool) (pairs : list (Z * list Z)) : swamp * bool * bool :=
  match pairs with
  | [] => (x, alive, false)
  | (k, vals) :: t =>
      match aget k (recs x) with
      | None => sldel_pairs c x alive t
      | Some r =>
          let r1 := del_sl r vals in
          let x1 := fst (save c x k r1) in
          let emptied := match sl_size r1 with None => true | Some n => Z.eqb n 0 end in
          if emptied then
            if c_hold c then (x1, alive, true)   (* DeleteTreasure waits for the guard this handler holds *)
            else
              let x2 := {| recs := adel k (recs x1); infl := infl x1 |} in
              let alive2 := match recs x2 with [] => false | _ => alive end in
              sldel_pairs c x2 alive2 t
          else sldel_pairs c x1 alive t
      end
  end.

(* ---------- Increment* ---------- *)
Definition cond_holds (op cur v : Z) : bool :=
  if Z.eqb op 1 then Z.ltb v cur            (* GREATER_THAN *)
  else if Z.eqb op 2 then Z.leb v cur       (* GREATER_THAN_OR_EQUAL *)
  else if Z.eqb op 3 then Z.ltb cur v       (* LESS_THAN *)
  else if Z.eqb op 4 then Z.leb cur v       (* LESS_THAN_OR_EQUAL *)
  else if Z.eqb op 5 then negb (Z.eqb cur v) (* NOT_EQUAL *)
  else Z.eqb cur v.                          (* EQUAL and every other operator value *)
Definition meta_resp (m : meta) : option meta :=
  if Z.eqb (m_cat m) 0 && Z.eqb (m_cby m) 0 && Z.eqb (m_mat m) 0 && Z.eqb (m_mby m) 0 && Z.eqb (m_exp m) 0
  then None else Some m.
Definition sc_val (r : rec) : Z :=
  match r_c r with Some c => match c_sc c with Some (_, z) => z | None => 0 end | None => 0 end.
Definition opt_meta (r : rec) (m : option imeta) : rec :=
  match m with Some m => apply_meta r (imeta_to_meta m) | None => r end.
Definition do_inc_swamp (c : cfg) (x : swamp) (t : ty) (k by_ : Z) (cond : option (Z * Z)) (ne e : option imeta)
  : swamp * response :=
  let r0 := obj_of x k in
  let prep :=
    match ctype_of (r_c r0) with
    | CVoid => Some (opt_meta (set_sc r0 t 0) ne)
    | CSc t' => if ty_eqb t t' then Some (opt_meta r0 e) else None
    | CSlice => None
    end in
  match prep with
  | None => (keep_unsaved x k r0, RErr EInvalid)
  | Some r1 =>
      let cur := sc_val r1 in
      let ok := match cond with Some (op, v) => cond_holds op cur (wrap t v) | None => true end in
      if ok then
        let nv := wrap t (cur + wrap t by_) in
        let r2 := set_sc r1 t nv in
        let '(x', _) := save c x k r2 in
        (x', RInc nv true (meta_resp (r_meta r2)))
      else (keep_unsaved x k r1, RInc cur false (meta_resp (r_meta r1)))
  end.

(* ---------- the step ---------- *)
Definition api_step (c : cfg) (s : srv) (q : request) : srv * response :=
  match q with
  | QSet sw create over kvs => do_set c s sw create over kvs
  | QGet l => do_get c s l
  | QGetAll sw =>
      match check_name s sw true with
      | Some e => (s, RErr e)
      | None => (s, RViews (all_views (summon s sw)))
      end
  | QGetByKeys sw keys =>
      match check_name s sw true with
      | Some e => (s, RErr e)
      | None => (s, RViews (views_of_keys (summon s sw) keys))
      end
  | QDelete sw keys =>
      match check_name s sw true with
      | Some _ => (s, RDelete [(Some ec_noswamp, [])])
      | None =>
          let '(x, alive, os) := del_keys (summon s sw) true keys in
          (commit s sw x alive, RDelete [(None, os)])
      end
  | QCount sws =>
      (fix go (l : list Z) (acc : list (Z * Z * bool)) : srv * response :=
         match l with
         | [] => (s, RCount (rev acc))
         | sw :: t =>
             match check_name s sw true with
             | Some e => (s, RErr e)
             | None => go t ((sw, Z.of_nat (length (recs (summon s sw))), true) :: acc)
             end
         end) sws []
  | QIsSwampExist sw =>
      match check_name s sw true with
      | Some EFailedPre => (s, RBool false)
      | Some e => (s, RRespErr e)
      | None => (s, RBool true)
      end
  | QIsKeyExist sw k =>
      match check_name s sw true with
      | Some e => (s, RErr e)
      | None => (s, RBool (ahas k (recs (summon s sw))))
      end
  | QAreKeysExist sw keys =>
      match check_name s sw true with
      | Some e => (s, RErr e)
      | None => (s, RKeys (map (fun k => (k, ahas k (recs (summon s sw)))) keys))
      end
  | QShiftByKeys sw keys =>
      match check_name s sw true with
      | Some e => (s, RErr e)
      | None =>
          match keys with
          | [] => (s, RViews [])
          | _ =>
              let '(x, vs) := shift_keys (summon s sw) keys in
              (commit s sw x (match recs x with [] => false | _ => true end), RViews vs)
          end
      end
  | QInc t sw k by_ cond ne e =>
      if Z.eqb sw 0 then (s, RErr EInvalid)
      else if Z.eqb by_ 0 || negb (numeric t) then (s, RErr EInvalid)
      else if c_keycheck c && Z.eqb k 0 then (s, RErr EInvalid)
      else
        let '(x, r) := do_inc_swamp c (summon s sw) t k by_ cond ne e in
        (commit s sw x true, r)
  | QPush sw pairs =>
      match check_name s sw false with
      | Some e => (s, RErr e)
      | None =>
          if c_keycheck c && existsb (fun p => Z.eqb (fst p) 0) pairs then (s, RErr EInvalid)
          else (commit s sw (push_pairs c (summon s sw) pairs) true, if c_pushnil c then RNil else ROk)
      end
  | QSlDel sw pairs =>
      match check_name s sw false with
      | Some e => (s, RErr e)
      | None =>
          let '(x, alive, hang) := sldel_pairs c (summon s sw) true pairs in
          (commit s sw x alive, if hang then RHang else if c_pushnil c then RNil else ROk)
      end
  | QSize sw k =>
      match check_name s sw false with
      | Some e => (s, RErr e)
      | None =>
          let x := summon s sw in
          (commit s sw x true,
           match aget k (recs x) with
           | None => RRespErr EInvalid
           | Some r => match sl_size r with Some n => RSize n | None => RErr EFailedPre end
           end)
      end
  | QIsVal sw k v =>
      match check_name s sw false with
      | Some e => (s, RErr e)
      | None =>
          let x := summon s sw in
          (commit s sw x true,
           match aget k (recs x) with
           | None => RErr EInvalid
           | Some r => RBool (zmem v (sl_all r))
           end)
      end
  | QDestroy sw =>
      match check_name s sw false with
      | Some e => (s, RErr e)
      | None => (adel sw s, ROk)
      end
  end.

Fixpoint api_run (c : cfg) (s : srv) (qs : list request) : srv * list response :=
  match qs with
  | [] => (s, [])
  | q :: t =>
      let '(s1, r) := api_step c s q in
      let '(s2, rs) := api_run c s1 t in (s2, r :: rs)
  end.
