(* Swamp/CapProofs.v — the cap invariant of Swamp/Cap.v for every schedule of any number of
   threads (configuration of the current tree), the four-cell rule, and the machine-checked
   refutations for the two behaviours of the pinned commit. *)
From HV Require Import Base.Prelude Swamp.Cap.

(* ---- list helpers ---------------------------------------------------------------------- *)

Lemma nth_upd_same {A} (l : list A) t x y : nth_error l t = Some y -> nth_error (upd t x l) t = Some x.
Proof.
  revert t; induction l as [|h r IH]; intros [|t] H; simpl in *; try discriminate; auto.
Qed.

Lemma nth_upd_other {A} (l : list A) t t' x : t <> t' -> nth_error (upd t x l) t' = nth_error l t'.
Proof.
  revert t t'; induction l as [|h r IH]; intros [|t] [|t'] H; simpl; auto; try congruence.
Qed.

Definition bn (b : bool) : nat := if b then 1 else 0.

Lemma matching_app l r : matching (l ++ [r]) = matching l + bn (rm r).
Proof. induction l as [|h t IH]; simpl; [unfold bn; lia|]. rewrite IH. lia. Qed.

Lemma matching_replace k r r' l :
  lookup k l = Some r -> matching (replace k r' l) + bn (rm r) = matching l + bn (rm r').
Proof.
  induction l as [|h t IH]; simpl; [discriminate|].
  destruct (N.eqb (rk h) k); intro H.
  - inversion H; subst. simpl. unfold bn. lia.
  - simpl. specialize (IH H). lia.
Qed.

Lemma matching_remove k l : matching (remove k l) <= matching l.
Proof.
  induction l as [|h t IH]; simpl; [lia|]. destruct (N.eqb (rk h) k); simpl; lia.
Qed.

Lemma matching_remove_all ks l : matching (remove_all ks l) <= matching l.
Proof.
  revert l; induction ks as [|k t IH]; intro l; simpl; [lia|].
  etransitivity; [apply IH | apply matching_remove].
Qed.

Lemma matching_wstep w l : matching (wstep w l) <= matching l.
Proof.
  destruct w as [k|k x d|k x d]; simpl.
  - apply matching_remove.
  - destruct (lookup k l) as [r|] eqn:E.
    + pose proof (matching_replace k r {| rk := k; rm := false; rx := x; rd := d |} l E) as H.
      simpl in H. unfold bn in H. destruct (rm r); lia.
    + rewrite matching_app. simpl. lia.
  - destruct (lookup k l) as [r|] eqn:E; [|lia].
    pose proof (matching_replace k r {| rk := k; rm := rm r; rx := x; rd := d |} l E) as H.
    simpl in H. lia.
Qed.

(* ---- the four-cell rule ------------------------------------------------------------------ *)

(* budget is consumed iff the patch is accepted and moves the record from not-matching to
   matching; a patch is rejected only in that cell and only with an exhausted budget; a rejected
   patch leaves the budget unchanged; the other three cells always proceed unchanged *)
Lemma four_cell_rule pre post b :
  let '(ok, b') := patch_fields_cap pre post b in
  (ok = false <-> (pre = false /\ post = true /\ b = 0)) /\
  (b' = b - 1 /\ b' < b <-> (ok = true /\ pre = false /\ post = true)) /\
  (ok = false -> b' = b) /\
  ((pre = true \/ post = false) -> ok = true /\ b' = b).
Proof.
  unfold patch_fields_cap. destruct pre, post, b as [|b]; simpl;
    repeat split; intros; try tauto; try discriminate; try lia;
    repeat match goal with H : _ /\ _ |- _ => destruct H end; try discriminate; try lia;
    try (match goal with H : _ \/ _ |- _ => destruct H; discriminate end).
Qed.

Lemma patch_item_bound cr it b l rs b' code :
  patch_item cr it b l = (rs, b', code) -> matching rs + b' <= matching l + b.
Proof.
  unfold patch_item. destruct (lookup (ik it) l) as [r|] eqn:E.
  - destruct (iskip it); [intro H; inversion H; subst; lia|].
    destruct (patch_fields_cap (rm r) (if rm r then ipt it else ipf it) b) as [ok b1] eqn:P.
    destruct ok; intro H; inversion H; subst; clear H.
    + pose proof (matching_replace (ik it) r
        {| rk := rk r; rm := (if rm r then ipt it else ipf it); rx := rx r; rd := rd r |} l E) as M.
      simpl in M. unfold patch_fields_cap in P. unfold bn in M.
      destruct (rm r), (ipt it), (ipf it), b as [|b]; simpl in *; inversion P; subst; lia.
    + unfold patch_fields_cap in P.
      destruct (rm r), (ipt it), (ipf it), b as [|b]; simpl in *; inversion P; subst; lia.
  - destruct cr.
    + destruct (iskip it); [intro H; inversion H; subst; lia|].
      destruct (patch_fields_cap false (ipc it) b) as [ok b1] eqn:P.
      destruct ok; intro H; inversion H; subst; clear H.
      * rewrite matching_app. simpl. unfold patch_fields_cap in P. unfold bn.
        destruct (ipc it), b as [|b]; simpl in *; inversion P; subst; lia.
      * unfold patch_fields_cap in P.
        destruct (ipc it), b as [|b]; simpl in *; inversion P; subst; lia.
    + intro H; inversion H; subst. lia.
Qed.

(* ---- the invariant ------------------------------------------------------------------------- *)

Definition holds (p : pc) : bool :=
  match p with
  | PTlocked _ _ | PTrun _ _ _ | PElocked _ _ _ _ | PErun _ _ _ _ | SHlocked _ => true
  | _ => false
  end.

Definition pending (p : pc) : nat :=
  match p with PTrun _ _ b => b | PErun sel _ _ _ => length sel | _ => 0 end.

Definition not_counted (p : pc) : Prop := match p with PTcounted _ _ _ => False | _ => True end.

Definition pend_of (s : state) : nat :=
  match capmu s with
  | Some h => match nth_error (thr s) h with Some lo => pending (lpc lo) | None => 0 end
  | None => 0
  end.

Record Inv (c : cfg) (s : state) : Prop := {
  I_bound : matching (recs s) + pend_of s <= cmax c;
  I_hold  : forall t lo, nth_error (thr s) t = Some lo -> holds (lpc lo) = true -> capmu s = Some t;
  I_owner : forall h, capmu s = Some h ->
            exists lo, nth_error (thr s) h = Some lo /\ holds (lpc lo) = true;
  I_nc    : forall t lo, nth_error (thr s) t = Some lo -> not_counted (lpc lo)
}.

Lemma mk_eq s t lo rs mu p add :
  nth_error (thr s) t = Some lo ->
  mk s t rs mu p add = {| recs := rs; capmu := mu; thr := upd t {| lpc := p; lres := lres lo ++ add |} (thr s) |}.
Proof. intro H. unfold mk. rewrite H. reflexivity. Qed.

Lemma nth_mk s t lo x t' lo' :
  nth_error (thr s) t = Some lo -> nth_error (upd t x (thr s)) t' = Some lo' ->
  (t' = t /\ lo' = x) \/ (t' <> t /\ nth_error (thr s) t' = Some lo').
Proof.
  intros H H'. destruct (Nat.eq_dec t' t) as [->|Hne].
  - rewrite (nth_upd_same _ _ _ _ H) in H'. inversion H'. auto.
  - rewrite nth_upd_other in H' by congruence. auto.
Qed.

(* T1: a step of a thread that neither holds nor acquires capMu *)
Lemma inv_other c s t lo rs p add :
  Inv c s -> nth_error (thr s) t = Some lo ->
  holds (lpc lo) = false -> holds p = false -> not_counted p ->
  matching rs <= matching (recs s) ->
  Inv c (mk s t rs (capmu s) p add).
Proof.
  intros [Ib Ih Io In] Ht Hl Hp Hc Hm. rewrite (mk_eq _ _ _ _ _ _ _ Ht).
  assert (Hown : forall h, capmu s = Some h -> h <> t).
  { intros h Hh ->. destruct (Io _ Hh) as [lo' [E Hh']]. rewrite Ht in E. inversion E; subst. congruence. }
  constructor; simpl.
  - unfold pend_of in *; simpl. destruct (capmu s) as [h|] eqn:Ec; [|lia].
    rewrite nth_upd_other by (intro; subst; eapply Hown; eauto). lia.
  - intros t' lo' H' Hh'. destruct (nth_mk _ _ _ _ _ _ Ht H') as [[-> ->]|[Hne E]]; simpl in *; [congruence|].
    eapply Ih; eauto.
  - intros h Hh. destruct (Io _ Hh) as [lo' [E Hh']]. exists lo'. split; [|assumption].
    rewrite nth_upd_other; [assumption|]. intro; subst. eapply Hown; eauto.
  - intros t' lo' H'. destruct (nth_mk _ _ _ _ _ _ Ht H') as [[-> ->]|[Hne E]]; simpl; [assumption|].
    eapply In; eauto.
Qed.

(* T2: acquiring the free capMu *)
Lemma inv_acquire c s t lo p add :
  Inv c s -> nth_error (thr s) t = Some lo -> capmu s = None ->
  holds p = true -> pending p = 0 -> not_counted p ->
  Inv c (mk s t (recs s) (Some t) p add).
Proof.
  intros [Ib Ih Io In] Ht Hfree Hp Hz Hc. rewrite (mk_eq _ _ _ _ _ _ _ Ht).
  constructor; simpl.
  - unfold pend_of in *; simpl. rewrite (nth_upd_same _ _ _ _ Ht). simpl. rewrite Hfree in Ib. lia.
  - intros t' lo' H' Hh'. destruct (nth_mk _ _ _ _ _ _ Ht H') as [[-> ->]|[Hne E]]; [reflexivity|].
    specialize (Ih _ _ E Hh'). congruence.
  - intros h Hh. inversion Hh; subst. eexists. split; [eapply nth_upd_same; eauto|assumption].
  - intros t' lo' H'. destruct (nth_mk _ _ _ _ _ _ Ht H') as [[-> ->]|[Hne E]]; simpl; [assumption|].
    eapply In; eauto.
Qed.

(* T3: a step of the holder that keeps capMu *)
Lemma inv_holder c s t lo rs p add :
  Inv c s -> nth_error (thr s) t = Some lo -> holds (lpc lo) = true ->
  holds p = true -> not_counted p ->
  (matching rs + pending p <= cmax c \/ matching rs + pending p <= matching (recs s) + pending (lpc lo)) ->
  Inv c (mk s t rs (capmu s) p add).
Proof.
  intros [Ib Ih Io In] Ht Hl Hp Hc Hm. rewrite (mk_eq _ _ _ _ _ _ _ Ht).
  pose proof (Ih _ _ Ht Hl) as Hmu.
  constructor; simpl.
  - unfold pend_of in *; simpl in *. rewrite Hmu in Ib |- *. rewrite (nth_upd_same _ _ _ _ Ht). rewrite Ht in Ib.
    simpl in *. lia.
  - intros t' lo' H' Hh'. destruct (nth_mk _ _ _ _ _ _ Ht H') as [[-> ->]|[Hne E]]; [assumption|].
    eapply Ih; eauto.
  - intros h Hh. rewrite Hmu in Hh. inversion Hh; subst.
    eexists. split; [eapply nth_upd_same; eauto|assumption].
  - intros t' lo' H'. destruct (nth_mk _ _ _ _ _ _ Ht H') as [[-> ->]|[Hne E]]; simpl; [assumption|].
    eapply In; eauto.
Qed.

(* T4: the holder releases capMu and finishes *)
Lemma inv_release c s t lo rs add :
  Inv c s -> nth_error (thr s) t = Some lo -> holds (lpc lo) = true ->
  matching rs <= matching (recs s) ->
  Inv c (mk s t rs None Done add).
Proof.
  intros [Ib Ih Io In] Ht Hl Hm. rewrite (mk_eq _ _ _ _ _ _ _ Ht).
  pose proof (Ih _ _ Ht Hl) as Hmu.
  constructor; simpl.
  - unfold pend_of; simpl. lia.
  - intros t' lo' H' Hh'. destruct (nth_mk _ _ _ _ _ _ Ht H') as [[-> ->]|[Hne E]]; simpl in *; [discriminate|].
    specialize (Ih _ _ E Hh'). congruence.
  - intros h Hh. discriminate.
  - intros t' lo' H'. destruct (nth_mk _ _ _ _ _ _ Ht H') as [[-> ->]|[Hne E]]; simpl; [exact I|].
    eapply In; eauto.
Qed.

Lemma firstn_min_len {A} (l : list A) a b : length (firstn (Nat.min a b) l) <= b.
Proof. rewrite firstn_length. lia. Qed.

Lemma free_for_none t s : free_for t s = true -> capmu s = None.
Proof. unfold free_for. destruct (capmu s); [discriminate|reflexivity]. Qed.

Lemma step_inv m t s s' :
  Inv (cfg_now m) s -> step (cfg_now m) t s = Some s' -> Inv (cfg_now m) s'.
Proof.
  intros HI. unfold step. destruct (nth_error (thr s) t) as [lo|] eqn:Ht; [|discriminate].
  pose proof (I_nc _ _ HI _ _ Ht) as Hnc.
  pose proof (I_bound _ _ HI) as Hb. simpl in Hb.
  destruct (lpc lo) as [p|cr items n|cr items|cr items b|hm post nx nd|sel post nx nd|hm|] eqn:Hpc;
    simpl in *; try discriminate; try contradiction.
  - (* Idle *)
    destruct p as [cr items|hm post nx nd|hm|w].
    + destruct (free_for t s) eqn:F; [|discriminate]. intro H; inversion H; subst; clear H.
      eapply inv_acquire; eauto using free_for_none; simpl; auto.
    + destruct (free_for t s) eqn:F; [|discriminate]. intro H; inversion H; subst; clear H.
      eapply inv_acquire; eauto using free_for_none; simpl; auto.
    + destruct (free_for t s) eqn:F; [|discriminate]. intro H; inversion H; subst; clear H.
      eapply inv_acquire; eauto using free_for_none; simpl; auto.
    + intro H; inversion H; subst; clear H.
      eapply inv_other; eauto; try (rewrite Hpc; reflexivity); simpl; auto using matching_wstep.
  - (* PTlocked: count under the lock *)
    intro H; inversion H; subst; clear H.
    eapply inv_holder; eauto; try (rewrite Hpc; reflexivity); simpl; auto. left. lia.
  - (* PTrun *)
    destruct items as [|it r].
    + intro H; inversion H; subst; clear H.
      eapply inv_release; eauto; try (rewrite Hpc; reflexivity); try lia.
    + destruct (patch_item cr it b (recs s)) as [[rs b'] code] eqn:P.
      intro H; inversion H; subst; clear H.
      eapply inv_holder; eauto; try (rewrite Hpc; reflexivity); simpl; auto.
      right. rewrite Hpc. simpl. eapply patch_item_bound; eauto.
  - (* PElocked: count + select *)
    intro H; inversion H; subst; clear H.
    eapply inv_holder; eauto; try (rewrite Hpc; reflexivity); simpl; auto. left.
    unfold count_pe; simpl.
    pose proof (firstn_min_len (due_keys (recs s)) hm (m - matching (recs s))). lia.
  - (* PErun *)
    destruct sel as [|k r].
    + intro H; inversion H; subst; clear H.
      eapply inv_release; eauto; try (rewrite Hpc; reflexivity); try lia.
    + intro H; inversion H; subst; clear H.
      eapply inv_holder; eauto; try (rewrite Hpc; reflexivity); simpl; auto.
      right. rewrite Hpc. simpl.
      destruct (lookup k (recs s)) as [r0|] eqn:E; [|lia].
      pose proof (matching_replace k r0 {| rk := k; rm := post; rx := nx; rd := nd |} (recs s) E) as M.
      simpl in M. unfold bn in M. destruct (rm r0), post; lia.
  - (* SHlocked *)
    intro H; inversion H; subst; clear H.
    eapply inv_release; eauto; try (rewrite Hpc; reflexivity). apply matching_remove_all.
Qed.

Lemma init_inv m rs ps : matching rs <= m -> Inv (cfg_now m) (init rs ps).
Proof.
  intro H. constructor; simpl.
  - unfold pend_of; simpl. lia.
  - intros t lo E Hh. apply nth_error_In in E. apply in_map_iff in E as [p [<- _]]. discriminate.
  - intros h E; discriminate.
  - intros t lo E. apply nth_error_In in E. apply in_map_iff in E as [p [<- _]]. exact I.
Qed.

Lemma run_inv m sched : forall s, Inv (cfg_now m) s -> Inv (cfg_now m) (run (cfg_now m) sched s).
Proof.
  induction sched as [|t r IH]; intros s HI; simpl; [assumption|].
  destruct (step (cfg_now m) t s) as [s'|] eqn:E; [apply IH; eapply step_inv; eauto | apply IH; assumption].
Qed.

(* C12 main theorem: for any number of cap-bearing PatchTreasures / PatchExpired / ShiftMatching
   threads with the same cap and any number of cap-less operations that cannot move a record
   into the filter, under every schedule: the matching count never exceeds the cap. *)
Theorem cap_invariant m rs ps sched :
  matching rs <= m -> matching (recs (run (cfg_now m) sched (init rs ps))) <= m.
Proof.
  intro H. pose proof (run_inv m sched _ (init_inv m rs ps H)) as HI.
  pose proof (I_bound _ _ HI) as B. simpl in B. lia.
Qed.

(* mutual exclusion on capMu as a by-product: at most one thread is inside a cap-bearing flow *)
Theorem cap_single_holder m rs ps sched t1 t2 l1 l2 :
  matching rs <= m ->
  let s := run (cfg_now m) sched (init rs ps) in
  nth_error (thr s) t1 = Some l1 -> nth_error (thr s) t2 = Some l2 ->
  holds (lpc l1) = true -> holds (lpc l2) = true -> t1 = t2.
Proof.
  intros H s H1 H2 Hh1 Hh2. pose proof (run_inv m sched _ (init_inv m rs ps H)) as HI.
  pose proof (I_hold _ _ HI _ _ H1 Hh1) as E1. pose proof (I_hold _ _ HI _ _ H2 Hh2) as E2.
  fold s in E1, E2. congruence.
Qed.

(* ---- non-vacuity -------------------------------------------------------------------------- *)
Definition r_ (k : N) (m x d : bool) : rec := {| rk := k; rm := m; rx := x; rd := d |}.
Definition it_ (k : N) (pf pt : bool) : item := {| ik := k; ipf := pf; ipt := pt; ipc := pf; iskip := false |}.

Definition ex_recs : list rec := [r_ 1 false true true; r_ 2 false true true; r_ 3 true false false; r_ 4 false false false].
Definition ex_progs : list prog :=
  [PT true [it_ 1 true true; it_ 4 true true; it_ 9 true true]; PE 5 true true false; SH 1; WR (WDel 3);
   PT false [it_ 2 true true]].

(* a schedule that interleaves all five threads reaches the cap exactly (2 matching of max 2)
   with one patch rejected, so the bound is tight and the hypotheses are satisfiable *)
Example cap_invariant_nonvacuous :
  let s := run (cfg_now 2) [0;0;3;0;0;0;0;1;1;1;1;4;4;4;4;2;2] (init ex_recs ex_progs) in
  matching (recs s) = 2 /\ existsb (fun lo => existsb (fun p => N.eqb (snd p) 9) (lres lo)) (thr s) = true.
Proof. vm_compute. split; reflexivity. Qed.

(* ---- refutations for the pinned commit ---------------------------------------------------- *)

(* count-then-lock: two PatchTreasures batches, max = 1, both count 0 and both proceed *)
Theorem cap_refuted_count_before_lock :
  exists rs ps sched,
    matching rs <= 1 /\
    matching (recs (run {| count_first := true; index_count := false; cmax := 1 |} sched (init rs ps))) = 2.
Proof.
  exists [r_ 1 false false false; r_ 2 false false false],
         [PT false [it_ 1 true true]; PT false [it_ 2 true true]],
         [0;1;0;0;0;1;1;1].
  vm_compute. split; [lia|reflexivity].
Qed.

(* index-only count: claimed records whose expiry was cleared are not counted; three sequential
   PatchExpired calls with max = 1 claim three records *)
Theorem cap_refuted_index_only_count :
  exists rs ps sched,
    matching rs <= 1 /\
    matching (recs (run {| count_first := false; index_count := true; cmax := 1 |} sched (init rs ps))) = 3.
Proof.
  exists [r_ 1 false true true; r_ 2 false true true; r_ 3 false true true],
         [PE 1 true false false; PE 1 true false false; PE 1 true false false],
         [0;0;0;0;1;1;1;1;2;2;2;2].
  vm_compute. split; [lia|reflexivity].
Qed.
