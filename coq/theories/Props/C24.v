(* Props/C24.v — Compression round-trips and never hides corruption.
   Property theorems only.  The wrapper model ([Compress/Wrapper.v]) is parametric in the four
   third-party codecs (M5: [enc]/[dec] are universally quantified functions); it is tied to
   app/core/compressor/compressor.go by the C24 correspondence check, which also feeds every
   snappy block (valid and damaged) to the Gallina decoder of [Compress/Snappy.v]. *)
From HV Require Import Base.Prelude Compress.Snappy Compress.Wrapper
  Compress.WrapperProofs Compress.SnappyProofs.
Local Open Scope N_scope.

(* The wrapper adds nothing and loses nothing: if every codec inverts itself, so does the
   Compressor, for every supported type and every input (also for the pinned commit). *)
Theorem C24_roundtrip : forall (enc dec : alg -> bytes -> res),
  (forall a x, exists y, enc a x = Ok y /\ dec a y = Ok x) ->
  forall bug t a x, alg_of_type t = Some a ->
  exists y, compress enc t x = Ok y /\ decompress dec bug t y = Ok x.
Proof. exact wrapper_roundtrip. Qed.
Print Assumptions C24_roundtrip.

(* A codec error is never swallowed (current code, after the fix: commit). *)
Theorem C24_errors_propagate : forall (dec : alg -> bytes -> res) t a y,
  alg_of_type t = Some a -> dec a y = Err -> decompress dec false t y = Err.
Proof. exact wrapper_errors_propagate. Qed.
Print Assumptions C24_errors_propagate.

(* The pinned commit returned the named result err (nil) from decompressGzip: (nil, nil). *)
Theorem C24_errors_propagate_refuted_with_named_err :
  exists (dec : alg -> bytes -> res) y,
    dec Gzip y = Err /\ decompress dec true 1%Z y = Ok [].
Proof. exact errors_propagate_refuted_with_named_err. Qed.
Print Assumptions C24_errors_propagate_refuted_with_named_err.

(* ... while LZ4, Snappy and Zstd errors were propagated even then. *)
Theorem C24_errors_propagate_partial : forall (dec : alg -> bytes -> res) bug t a y,
  alg_of_type t = Some a -> a <> Gzip -> dec a y = Err -> decompress dec bug t y = Err.
Proof. exact wrapper_errors_propagate_partial. Qed.
Print Assumptions C24_errors_propagate_partial.

(* Data returned without error is exactly what the codec produced. *)
Theorem C24_ok_passthrough : forall (dec : alg -> bytes -> res) t y o,
  decompress dec false t y = Ok o -> exists a, alg_of_type t = Some a /\ dec a y = Ok o.
Proof. exact wrapper_ok_passthrough. Qed.
Print Assumptions C24_ok_passthrough.

Theorem C24_unknown_type_rejected : forall (enc dec : alg -> bytes -> res) bug t x,
  alg_of_type t = None -> compress enc t x = Err /\ decompress dec bug t x = Err.
Proof. exact wrapper_unknown_type. Qed.
Print Assumptions C24_unknown_type_rejected.

(* Damaged data gives an error or the original - provided the codec's format detects damage;
   the wrapper preserves that. *)
Theorem C24_no_silent_difference : forall (enc dec : alg -> bytes -> res) t a x y y',
  alg_of_type t = Some a -> detects enc dec a ->
  compress enc t x = Ok y -> y' <> y ->
  decompress dec false t y' = Err \/ decompress dec false t y' = Ok x.
Proof. exact wrapper_no_silent_difference. Qed.
Print Assumptions C24_no_silent_difference.

Theorem C24_no_silent_difference_refuted_with_named_err :
  exists (enc dec : alg -> bytes -> res) x y y',
    detects enc dec Gzip /\ compress enc 1%Z x = Ok y /\ y' <> y /\ x <> [] /\
    decompress dec true 1%Z y' = Ok [].
Proof. exact no_silent_difference_refuted_with_named_err. Qed.
Print Assumptions C24_no_silent_difference_refuted_with_named_err.

(* Raw Snappy: the block decoder inverts the literal-only encoder ... *)
Theorem C24_snappy_decoder_roundtrip : forall x : bytes,
  (length x <= 60)%nat -> snappy_decode (enc_lit x) = Some x.
Proof. exact snappy_lit_roundtrip. Qed.
Print Assumptions C24_snappy_decoder_roundtrip.

(* ... hence a flipped literal byte decodes, without error, to different data ... *)
Theorem C24_snappy_literal_flip_undetected : forall (x : bytes) i b,
  (length x <= 60)%nat -> (i < length x)%nat -> nth i x 0 <> b ->
  let y := enc_lit x in
  let y' := set_nth (2 + i) b y in
  y' <> y /\ snappy_decode y' = Some (set_nth i b x) /\ set_nth i b x <> x.
Proof. exact snappy_literal_flip_undetected. Qed.
Print Assumptions C24_snappy_literal_flip_undetected.

(* ... and the hypothesis [detects] of C24_no_silent_difference is false for Snappy: the
   "never hides corruption" half of the property is refuted for that format (known finding
   snappy_literal_byte_flip; the V2 storage engine adds a CRC per block on top). *)
Theorem C24_no_silent_difference_refuted_for_snappy :
  forall (enc dec : alg -> bytes -> res) (x : bytes),
  x <> [] -> (length x <= 60)%nat ->
  enc Snappy x = Ok (enc_lit x) ->
  (forall y, dec Snappy y = res_of_opt (snappy_decode y)) ->
  ~ detects enc dec Snappy.
Proof. exact snappy_does_not_detect. Qed.
Print Assumptions C24_no_silent_difference_refuted_for_snappy.
