(* Props/C05.v — Close and reload preserve every record exactly.
   Property theorems only; each is closed by [exact] of a lemma of Record/GobProofs.v.
   gob is a parameter of every theorem, constrained only by its zero-omission law
   (gob c = gob_spec c), which the C05 harness validates on the real encoding/gob in every run.
   [true]/[false] select the current code (type hint ZeroOf/ZeroNeg in the serialized Content)
   and the pinned commit. *)
From HV Require Import Base.Prelude Record.Treasure Record.Gob Record.GobProofs.
Local Open Scope Z_scope.

(* After any history of API operations, close + re-summon shows every key exactly as before:
   existence, value type and value (zero-like values included), created/updated/expiry metadata. *)
Theorem C05_reload_identity : forall gob, (forall c, gob c = gob_spec c) ->
  forall h k, seen (reload gob true (run gob true h)) k = seen (run gob true h) k.
Proof. exact reload_identity. Qed.
Print Assumptions C05_reload_identity.

(* stronger: the stored state is identical, not only its projection to the wire *)
Theorem C05_reload_state_identity : forall gob, (forall c, gob c = gob_spec c) ->
  forall h, reload gob true (run gob true h) = run gob true h.
Proof. exact reload_state_identity. Qed.
Print Assumptions C05_reload_state_identity.

(* Closes (idle eviction, shutdown) in the middle of a history, wherever they fall relative to
   the operations and to the writer's ticks, leave the same state as the history without them. *)
Theorem C05_mid_history_reloads_invisible : forall gob, (forall c, gob c = gob_spec c) ->
  forall h, run gob true h = run gob true (filter (fun o => negb (is_reload o)) h).
Proof. exact mid_history_reloads_invisible. Qed.
Print Assumptions C05_mid_history_reloads_invisible.

(* every value of every content type survives ConvertToByte -> gob -> LoadFromByte *)
Theorem C05_value_roundtrip : forall gob, (forall c, gob c = gob_spec c) ->
  forall v, persist_value gob true v = v.
Proof. exact persist_value_fixed. Qed.
Print Assumptions C05_value_roundtrip.

(* The pinned commit: Set k (Uint8 0) reloads as a void record. *)
Theorem C05_reload_identity_refuted_before_fix : forall gob, (forall c, gob c = gob_spec c) ->
  exists h k, seen (reload gob false (run gob false h)) k <> seen (run gob false h) k.
Proof. exact reload_identity_refuted_old. Qed.
Print Assumptions C05_reload_identity_refuted_before_fix.

(* ... it lost exactly the zero-like values, and was correct for histories storing none *)
Theorem C05_value_loss_before_fix : forall gob, (forall c, gob c = gob_spec c) ->
  forall v, persist_value gob false v = if is_gob_zero v then VVoid else v.
Proof. exact persist_value_old. Qed.
Print Assumptions C05_value_loss_before_fix.

Theorem C05_reload_identity_partial_before_fix : forall gob, (forall c, gob c = gob_spec c) ->
  forall h, no_zero_values (run gob false h) -> forall k, seen (reload gob false (run gob false h)) k = seen (run gob false h) k.
Proof. exact reload_identity_partial_old. Qed.
Print Assumptions C05_reload_identity_partial_before_fix.

(* Existing files (written without the hint) are read by the current code exactly as before. *)
Theorem C05_old_files_load_unchanged : forall gob, (forall c, gob c = gob_spec c) ->
  forall v, of_content (from_wire true (gob (to_wire false (to_content v)))) =
            of_content (from_wire false (gob (to_wire false (to_content v)))).
Proof. exact old_files_load_unchanged. Qed.
Print Assumptions C05_old_files_load_unchanged.

(* All 15 content types x {zero-like, other}: zero-like values came back void before the fix and
   come back intact now; all other values always did. *)
Theorem C05_exhaustive_types :
  forallb (fun v => value_eqb (persist_value gob_spec false v) VVoid) zero_values = true /\
  forallb (fun v => value_eqb (persist_value gob_spec true v) v) zero_values = true /\
  forallb (fun v => value_eqb (persist_value gob_spec false v) v) other_values = true /\
  forallb (fun v => value_eqb (persist_value gob_spec true v) v) other_values = true /\
  map ctype zero_values = [1;2;3;4;5;6;7;8;9;9;10;10;11;12;13;14]%N /\
  map ctype other_values = [0;1;2;3;4;5;6;7;8;9;10;11;12;13;14]%N.
Proof. exact exhaustive_types. Qed.
Print Assumptions C05_exhaustive_types.
