(* Props/C11.v — Claims hand out disjoint, matching, oldest-first records.
   Property theorems only; each is closed by [exact] of a lemma proved in Swamp/ClaimsProofs.v.
   The model (Swamp/Claims.v, configuration [cfg_now]) is tied to gateway_shift_matching.go,
   gateway_patch_expired.go, beacon.go, swamp.go and swamp_patch_expired.go by the C11
   correspondence check (forced schedules through the predicateBuilt / selected / beforeReindex
   hook points, sequential histories, free-running stress with 8 claimers + writers).
   Scope of the model: all claimers walk the same ordered index (the expiry index). *)
From HV Require Import Base.Prelude Swamp.Claims Swamp.ClaimsProofs.
From Coq Require Import Sorted.

(* For any number of ShiftExpired / ShiftMatching / PatchExpired claimers and of writers
   (delete, create/overwrite, patch, expiry change), any initial swamp with distinct keys and
   every schedule: whatever selection step is taken in the reached state,
   - it returns at most HowMany records, in index (expiry) order, namely the first HowMany
     records of the index walk that pass the predicate (oldest first);
   - every returned record satisfies the caller's full criteria (expired, full filter) in the
     state of that very step, and is alive (in the swamp);
   - no returned key is in [cl] = the keys already claimed and not (re-)inserted into the index
     since (by a create, an expiry change, or the completion of an in-place claim): selection
     and removal are one atomic step, so two claimers never receive the same record. *)
Theorem C11_selection : forall rs ps sched hm od p ks,
  NoDup (map rk rs) ->
  let s := run cfg_now sched (init rs ps) in
  let sel := select cfg_now hm od p ks s in
  length sel <= hm /\
  (forall r, In r sel -> crit od p r = true /\ ralive r = true /\ In (rk r) (slice s) /\ ~ In (rk r) (cl s)) /\
  StronglySorted le_exp sel /\
  sel = firstn hm (filter (pred cfg_now od p ks) (walk s)).
Proof. exact claims_selection. Qed.
Print Assumptions C11_selection.

(* The monitors built into the model never fire on any schedule: 1 = a claimed key was already
   claimed and not re-inserted since (disjoint); 2 = a claimed record does not satisfy the full
   criteria at its selection step; 3 = a claimed record is not alive (a deleted record is never
   returned); 4 = a PatchExpired patch re-saved a record that is not in the swamp (a deleted
   record is never brought back to life). *)
Theorem C11_monitors_silent : forall rs ps sched,
  NoDup (map rk rs) -> bad (run cfg_now sched (init rs ps)) = [].
Proof. exact claims_monitors_silent. Qed.
Print Assumptions C11_monitors_silent.

(* No resurrection, structurally: in every reachable state the index holds no duplicate, holds
   only keys that are alive in the swamp, and holds no key that is claimed. *)
Theorem C11_no_resurrection : forall rs ps sched,
  NoDup (map rk rs) ->
  let s := run cfg_now sched (init rs ps) in
  NoDup (slice s) /\ (forall k, In k (slice s) -> alive_k k (recs s) = true) /\
  (forall k, In k (cl s) -> ~ In k (slice s)).
Proof. exact claims_index_alive. Qed.
Print Assumptions C11_no_resurrection.

(* The pinned commit: an empty candidate list dropped the indexed condition. *)
Theorem C11_claimed_satisfied_criteria_refuted_empty_candidates :
  exists rs ps sched, NoDup (map rk rs) /\
    let s := run old_nil sched (init rs ps) in
    In 2%N (bad s) /\ length (lres (nth 0 (thr s) {| lpc := Done; lres := [] |})) = 5.
Proof. exact claims_refuted_empty_candidates. Qed.
Print Assumptions C11_claimed_satisfied_criteria_refuted_empty_candidates.

(* The pinned commit: only the residual was re-evaluated under the selection lock. *)
Theorem C11_claimed_satisfied_criteria_refuted_stale_candidates :
  exists rs ps sched, NoDup (map rk rs) /\
    let s := run old_stale sched (init rs ps) in
    In 2%N (bad s) /\ lres (nth 0 (thr s) {| lpc := Done; lres := [] |}) = [(1, 0)]%N.
Proof. exact claims_refuted_stale_candidates. Qed.
Print Assumptions C11_claimed_satisfied_criteria_refuted_stale_candidates.

(* The pinned commit: PatchExpired re-saved and re-indexed a concurrently deleted record. *)
Theorem C11_no_resurrection_refuted_unchecked_reindex :
  exists rs ps sched, NoDup (map rk rs) /\
    let s := run old_reidx sched (init rs ps) in
    In 4%N (bad s) /\ alive_k 1 (recs s) = true /\ In 1%N (slice s).
Proof. exact claims_refuted_resurrection. Qed.
Print Assumptions C11_no_resurrection_refuted_unchecked_reindex.
