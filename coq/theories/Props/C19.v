(* Props/C19.v — Subscribers get each committed change once, in order, with correct time.
   Property theorems only; each is closed by [exact] of a lemma proved in Swamp/EventsProofs.v.
   The model (Swamp/Events.v; fixed = true, mutex = true: the code after the two fix: commits for
   C19) is tied to swamp.go / hydra.go / gateway.go by the C19 correspondence check (real
   Gateway.SubscribeToEvents on fake streams, concurrent writers on the real engine). *)
From HV Require Import Base.Prelude Swamp.Events Swamp.EventsProofs.
Local Open Scope Z_scope.

(* For every history of subscribe / unsubscribe / unload (idle close, destroy) / write steps on a
   swamp and every subscriber c: what c receives is exactly the committed change log of its
   subscription windows - one message per write the engine reports as New / Modified / Deleted
   while c is subscribed, in order, none for other writes, none outside the window. *)
Theorem C19_one_event_per_change : forall fixed h c,
  recv_of c (hrun fixed h) = expected fixed c h.
Proof. exact one_event_per_change. Qed.
Print Assumptions C19_one_event_per_change.

(* A write reported as "nothing changed" / "not found" produces no message ... *)
Theorem C19_no_event_without_change : forall fixed c h k st v now,
  is_change st = false ->
  expected fixed c (h ++ [HWrite k st v now]) = expected fixed c h.
Proof. exact no_event_without_change. Qed.
Print Assumptions C19_no_event_without_change.

(* ... and with the reference status function a save of the current value is such a write (also,
   with the engine's sticky change flags, the first no-op save of a freshly loaded record). *)
Theorem C19_noop_save_status : forall v dirty,
  is_change (save_status false (Some v) dirty v) = false /\
  is_change (save_status true (Some v) false v) = false.
Proof. exact noop_save_status. Qed.
Print Assumptions C19_noop_save_status.

(* The engine's change flags were never reset after a save at the pinned commit (C06): a save that
   changes nothing after an earlier creation/modification was reported Modified and emitted.
   Repaired by the C06 fix (ResetChangeFlags); kept as documentation. *)
Theorem C19_one_event_per_change_refuted_sticky :
  length (recv_of 0 (hrun true sticky_witness)) = 2%nat /\
  save_status false (Some 1) true 1 = StSame.
Proof. exact one_event_per_change_refuted_sticky. Qed.
Print Assumptions C19_one_event_per_change_refuted_sticky.

(* Any schedule of any number of writers (guard begin, commit, SendMsg start/end, guard release):
   the events of one key enter the subscriber's stream in commit order, none lost, none twice;
   at most the guard holder's event is still to be sent. *)
Theorem C19_per_key_order : forall mutex tr s k,
  drun mutex d_init tr = Some s ->
  of_key k (sent s) ++ pending_of s k = of_key k (clog s) /\ (length (pending_of s k) <= 1)%nat.
Proof. exact per_key_order. Qed.
Print Assumptions C19_per_key_order.

(* The delivered timestamp denotes the commit instant (time.Now().UnixNano() of the emission). *)
Theorem C19_event_time : forall active k s v now e m,
  emit active k s v now = Some e -> deliver true e = Some m ->
  ts_nanos (m_secs m, m_nanos m) = now /\ 0 <= m_nanos m < giga.
Proof. exact event_time. Qed.
Print Assumptions C19_event_time.

(* The pinned conversion time.Unix(nanos, 0) does not. *)
Theorem C19_event_time_refuted_seconds_conversion :
  exists now e m, emit true 0 StNew 0 now = Some e /\ deliver false e = Some m /\
                  ts_nanos (m_secs m, m_nanos m) <> now.
Proof. exact event_time_refuted_seconds_conversion. Qed.
Print Assumptions C19_event_time_refuted_seconds_conversion.

(* With the per-subscription mutex no two SendMsg calls on one stream are ever in progress. *)
Theorem C19_sends_not_concurrent : forall tr s,
  drun true d_init tr = Some s -> (nsending s <= 1)%nat /\ over s = false.
Proof. exact sends_not_concurrent. Qed.
Print Assumptions C19_sends_not_concurrent.

(* Without it (pinned code) two writers on different keys overlap. *)
Theorem C19_sends_not_concurrent_refuted_without_mutex :
  exists tr, option_map (fun s => (nsending s, over s)) (drun false d_init tr) = Some (2%nat, true).
Proof. exact sends_not_concurrent_refuted_without_mutex. Qed.
Print Assumptions C19_sends_not_concurrent_refuted_without_mutex.

(* Open finding: SubscribeToSwampEvents is atomic in the window machine above ([HSub]); at the
   granularity of its sync.Map operations two clients that subscribe at the same time to a swamp
   nobody subscribed to before can both succeed while only one is registered (the second Store of a
   fresh map overwrites the first): the other client receives nothing.  LoadOrStore would repair it. *)
Theorem C19_window_refuted_for_concurrent_first_subscribers :
  exists tr, s_map (srun tr) = Some [2%N] /\
             tr = [SLoad 1; SLoad 2; SStore 1; SStore 2].
Proof. exact first_subscribers_race_loses_one. Qed.
Print Assumptions C19_window_refuted_for_concurrent_first_subscribers.
