(* Props/C09.v — Concurrent writes on a key are linearizable; no lost updates.
   Property theorems only; each is closed by [exact] of a lemma proved in Conc/LinProofs.v.
   Model: Conc/Lin.v (write RPCs as thread programs over one record protected by the C15
   guard, both write modes) – tied to the code by the C09 correspondence check (certificate-
   checked linearizability of recorded request/response histories of the real engine). *)
From HV Require Import Base.Prelude Conc.Guard Conc.GuardProofs Conc.Lin Conc.LinProofs.
From Coq Require Import Sorted Permutation.

(* Guarded sections on one record are atomic, for every schedule and any number of threads
   in either write mode: the completed sections form a chain (each one read the state its
   predecessor wrote; the record holds the last write), ordered by their write steps; at
   most one thread is between its guard return and its write; and what such a thread has
   read is still the record's content. *)
Theorem guarded_section_atomic : forall s0 prog sched,
  let w := krun false (kinit s0 prog) sched in
  chain_ok kst op resp seq_step s0 (w_log w) /\
  last_state kst op resp s0 (w_log w) = w_val w /\
  StronglySorted lt (times kst op resp (w_log w)) /\
  (forall c1 c2 t1 t2, nth_error (w_thr w) c1 = Some t1 -> nth_error (w_thr w) c2 = Some t2 ->
     in_section kst resp (t_pc t1) = true -> in_section kst resp (t_pc t2) = true -> c1 = c2) /\
  (forall c t id r, nth_error (w_thr w) c = Some t -> t_pc t = PRead id r -> r = w_val w).
Proof. exact LinProofs.guarded_section_atomic. Qed.
Print Assumptions guarded_section_atomic.

(* Linearizability, both write modes (the second release of immediate-write mode is harmless
   with monotone guard ids): for every schedule the log of write steps is a sequential
   execution of the RPC meaning [seq_step] producing the final content and exactly the
   responses the clients received; it contains every request that passed its write step
   exactly once, every acknowledged request with its own operation and response; and it
   respects real time: if a was acknowledged before b was invoked, a's section precedes b's. *)
Theorem C09_linearizable : forall s0 prog sched,
  let w := krun false (kinit s0 prog) sched in
  sem_run seq_step s0 (map l_op (w_log w)) = (w_val w, map l_resp (w_log w)) /\
  NoDup (clients kst op resp (w_log w)) /\
  (forall c, In c (clients kst op resp (w_log w)) <->
             exists t, nth_error (w_thr w) c = Some t /\ past_write (t_pc t) = true) /\
  (forall c t rs, nth_error (w_thr w) c = Some t -> t_pc t = PDone rs ->
     exists e, In e (w_log w) /\ l_c e = c /\
               Some (l_op e) = option_map fst (nth_error prog c) /\ l_resp e = rs) /\
  StronglySorted lt (times kst op resp (w_log w)) /\
  (forall ea eb ta tb, In ea (w_log w) -> In eb (w_log w) ->
     nth_error (w_thr w) (l_c ea) = Some ta -> nth_error (w_thr w) (l_c eb) = Some tb ->
     is_done (t_pc ta) = true -> t_ret ta < t_inv tb -> l_time ea < l_time eb).
Proof. exact LinProofs.linearizable. Qed.
Print Assumptions C09_linearizable.

(* No lost update: any number of concurrent increments (any deltas, each request in either
   write mode), every schedule: once all are acknowledged the record holds the initial value
   plus the sum of the deltas in int64 arithmetic, each increment applied exactly once. *)
Theorem C09_no_lost_update : forall v0 (dm : list (Z * bool)) sched,
  wrap64 v0 = v0 ->
  let prog := map (fun p => (OInc (fst p), snd p)) dm in
  let w := krun false (kinit (Some (VI v0)) prog) sched in
  all_done w = true ->
  w_val w = Some (VI (wrap64 (v0 + zsum (map fst dm)))) /\ length (w_log w) = length dm.
Proof. exact no_lost_update. Qed.
Print Assumptions C09_no_lost_update.

Theorem C09_n_increments_add_n : forall (modes : list bool) sched,
  let prog := map (fun b => (OInc 1%Z, b)) modes in
  let w := krun false (kinit (Some (VI 0%Z)) prog) sched in
  all_done w = true ->
  w_val w = Some (VI (wrap64 (Z.of_nat (length modes)))).
Proof. exact n_increments_add_n. Qed.
Print Assumptions C09_n_increments_add_n.

(* The id policy of the pinned commit (guard ids restart when the queue empties) loses an
   acknowledged increment in immediate-write mode; kept as the reason for the C15 fix. *)
Theorem C09_lost_update_refuted_with_id_reset :
  exists prog sched,
    Forall (fun p => fst p = OInc 1%Z) prog /\
    let w := krun true (kinit (Some (VI 0%Z)) prog) sched in
    all_done w = true /\ length prog = 3%nat /\ w_val w = Some (VI 2%Z) /\
    map l_resp (w_log w) = [RInc 1%Z; RInc 2%Z; RInc 2%Z].
Proof. exact lost_update_with_id_reset. Qed.
Print Assumptions C09_lost_update_refuted_with_id_reset.

(* Consequences of the sequential meaning used as order-independent oracle clauses by the
   harness: a matching shift only hands out records satisfying its filter (and removes what
   it hands out); a rejected conditional increment changes nothing. *)
Theorem C09_shiftm_only_matching : forall s thr s' v,
  seq_step s (OShiftM thr) = (s', RShiftM (Some v)) -> shiftm_match thr (Some v) = true /\ s = Some v /\ s' = None.
Proof. exact shiftm_returns_matching. Qed.
Print Assumptions C09_shiftm_only_matching.

(* No serial execution of the alphabet (the harness never stores a void value) ends with an
   indexed void record (final-state clause). *)
Theorem C09_final_state_never_void : forall l s, s <> Some VV -> Forall (fun o => o <> OSet VV) l ->
  fst (sem_run seq_step s l) <> Some VV.
Proof. exact seq_run_not_void. Qed.
Print Assumptions C09_final_state_never_void.
