(* Props/C26.v — Malformed requests fail cleanly without side effects.
   Property theorems only; each is closed by [exact] of a lemma proved in Swamp/ValidateProofs.v.
   Swamp/Validate.v models the validation prefix of the gateway handlers, the recover wrapper and the
   safeops / vigil pairing; it is tied to the code by the C26 correspondence check (structural request
   generator over every request message of the service, executed in a child process). *)
From HV Require Import Base.Prelude Swamp.Api Swamp.Validate Swamp.ValidateProofs.
Local Open Scope Z_scope.

(* For every handler, every request shape and every outcome of the body - including a panic - the
   safeops counter returns to its previous value, and so does the vigil counter, except on the
   auto-destroy paths, where the destroyed swamp object is left at -1 (double cease, listed; C17). *)
Theorem C26_counters_restored : forall c h sh b,
  safeops_delta (run c h sh b) = 0 /\
  vigil_delta (run c h sh b) =
    match validate c h sh, b with
    | Proceed, BAutoDestroy => if has_vigil h then -1 else 0
    | _, _ => 0
    end.
Proof. exact counters_restored. Qed.
Print Assumptions C26_counters_restored.

(* A rejected request returns before any swamp is summoned, created or pinned, and it is answered
   with an error, never with (nil, nil). *)
Theorem C26_no_side_effect_on_reject : forall c h sh b e wr,
  validate c h sh = Reject e wr ->
  existsb is_summon (run c h sh b) = false /\ existsb is_begin (run c h sh b) = false /\
  existsb is_nilnil (run c h sh b) = false.
Proof. exact no_side_effect_on_reject. Qed.
Print Assumptions C26_no_side_effect_on_reject.

(* No request shape makes the (repaired) validation panic, for every handler ... *)
Theorem C26_well_defined_response : forall h sh, validate vcfg_now h sh <> PanicAt.
Proof. exact well_defined_now. Qed.
Print Assumptions C26_well_defined_response.

(* ... so (nil, nil) can only come from a panic inside a handler body. *)
Theorem C26_nilnil_only_from_body_panic : forall h sh b,
  b <> BPanic -> existsb is_nilnil (run vcfg_now h sh b) = false.
Proof. exact nilnil_only_from_body_panic. Qed.
Print Assumptions C26_nilnil_only_from_body_panic.

(* A treasure key the storage format cannot hold (longer than its 16-bit key length) is rejected with
   InvalidArgument by every handler that can create a treasure, before any swamp is touched - it is
   never acknowledged and then dropped by the writer. *)
Theorem C26_oversized_key_rejected : forall h sh,
  In h [HSet; HInc; HPush] -> sh_name sh = NOk -> sh_kvnil sh = false -> sh_by0 sh = false ->
  sh_wkey_long sh = true -> validate vcfg_now h sh = Reject EInvalid false.
Proof. exact long_key_rejected. Qed.
Print Assumptions C26_oversized_key_rejected.

(* A request with several swamp entries (Set, Get) that is answered with a rejection has executed
   none of its entries, wherever the malformed entry stands, and released the system lock: all
   entries are validated before the first one is executed. *)
Theorem C26_rejected_multi_entry_request_has_no_side_effect : forall c h shs,
  existsb is_reject_ret (run_many c h shs) = true ->
  existsb is_summon (run_many c h shs) = false /\ existsb is_begin (run_many c h shs) = false /\
  safeops_delta (run_many c h shs) = 0.
Proof. exact rejected_many_no_side_effect. Qed.
Print Assumptions C26_rejected_multi_entry_request_has_no_side_effect.

(* Validating each entry right before executing it does not have this property (witness: a valid
   entry followed by one with a short swamp name). *)
Theorem C26_single_pass_validation_refuted :
  existsb is_reject_ret (run_many_single_pass vcfg_now HSet [ok_shape; short_shape]) = true /\
  existsb is_summon (run_many_single_pass vcfg_now HSet [ok_shape; short_shape]) = true.
Proof. exact single_pass_refuted. Qed.
Print Assumptions C26_single_pass_validation_refuted.

(* The pinned commit: every name-loading handler panicked on a swamp name with fewer than three
   parts, Get on an empty key list; the answer was (nil, nil). Kept as the reason for the fix: commits. *)
Theorem C26_well_defined_response_refuted_at_pinned_commit :
  (forall h, In h all_handlers -> h <> HLock -> h <> HUnlock -> validate vcfg_pinned h short_shape = PanicAt) /\
  validate vcfg_pinned HGet emptykeys_shape = PanicAt /\
  existsb is_nilnil (run vcfg_pinned HGetAll short_shape BOk) = true.
Proof. exact well_defined_refuted_pinned. Qed.
Print Assumptions C26_well_defined_response_refuted_at_pinned_commit.
