(* Props/C20.v — Swamp addressing is deterministic, in range and SDK/server-consistent.
   Property theorems only.  Model: [Addr/Name.v] over the Gallina XXH64 of [Addr/XXHash64.v]
   (compared with the Go library on every harness case); clamp = true is the current code. *)
From HV Require Import Base.Prelude Addr.XXHash64 Addr.Name Addr.NameProofs.
Local Open Scope N_scope.

(* The island number is within 1..N for every name and every N >= 1. *)
Theorem C20_in_range : forall t n, 0 < n -> 1 <= island_sdk t n /\ island_sdk t n <= n.
Proof. exact island_in_range. Qed.
Print Assumptions C20_in_range.

(* The server's uint16 computation agrees with the SDK's uint64 one for every N it can hold. *)
Theorem C20_sdk_server_agree : forall t n, 0 < n -> n < 65536 -> island_srv t n = island_sdk t n.
Proof. exact island_sdk_srv_agree. Qed.
Print Assumptions C20_sdk_server_agree.

(* On a fresh name object the result is a function of (name, N) alone ... *)
Theorem C20_deterministic : forall f t n, cached_island f 0 t n = (f t n, f t n).
Proof. exact fresh_object_is_function. Qed.
Print Assumptions C20_deterministic.

(* ... but a reused object keeps the first answer: for a changed N it can be out of range
   (known finding island_cache_ignores_changed_n). *)
Theorem C20_cache_stale_refuted :
  exists t n1 n2, 0 < n2 /\
    n2 < fst (cached_island island_sdk (snd (cached_island island_sdk 0 t n1)) t n2).
Proof. exact cache_stale_refuted. Qed.
Print Assumptions C20_cache_stale_refuted.

(* Computing the location never fails: every path, depth and folders-per-level value. *)
Theorem C20_path_total : forall t island depth maxf, locate true t island depth maxf <> None.
Proof. exact locate_total. Qed.
Print Assumptions C20_path_total.

(* Pinned commit: the unclamped slice panics at depth 7 (1000 per level) and depth 10 (100). *)
Theorem C20_path_total_refuted_without_clamp :
  hashed_dir false (path_of tABC) 7 1000 = None /\ hashed_dir false (path_of tABC) 10 100 = None.
Proof. exact hashed_dir_refuted_without_clamp. Qed.
Print Assumptions C20_path_total_refuted_without_clamp.

Theorem C20_path_total_partial_without_clamp : forall depth hx cpl i,
  (depth = O \/ (i + N.of_nat depth - 1) * cpl <= N.of_nat (length hx)) ->
  dir_parts false hx cpl i depth <> None.
Proof. exact dir_parts_partial_without_clamp. Qed.
Print Assumptions C20_path_total_partial_without_clamp.

(* The repair moves no existing swamp: where the old code gave a location, the new code gives
   the same one. *)
Theorem C20_fix_preserves_locations : forall t island depth maxf l,
  locate false t island depth maxf = Some l -> locate true t island depth maxf = Some l.
Proof. exact fix_preserves_locations. Qed.
Print Assumptions C20_fix_preserves_locations.

(* Two names with separator-free sanctuary and realm share a location only if they are the
   same name or their paths collide under XXH64 (unavoidable for a 64-bit hash; stated). *)
Theorem C20_location_injective_mod_hash : forall c c' t t' i i' d d' m m' l,
  sepfree t -> sepfree t' ->
  locate c t i d m = Some l -> locate c' t' i' d' m' = Some l ->
  t = t' \/ (path_of t <> path_of t' /\ xxh64 (path_of t) = xxh64 (path_of t')).
Proof. exact location_injective_mod_hash. Qed.
Print Assumptions C20_location_injective_mod_hash.

(* With a '/' inside a part, two different names have one location (known finding). *)
Theorem C20_separator_collision_refuted :
  exists t t', t <> t' /\ path_of t = path_of t' /\
               forall i d m, locate true t i d m = locate true t' i d m.
Proof. exact separator_collision. Qed.
Print Assumptions C20_separator_collision_refuted.

(* Load inverts the canonical path for separator-free parts; shorter paths panic. *)
Theorem C20_load_roundtrip : forall t,
  ~ In SEP (sanct t) -> ~ In SEP (realm t) -> ~ In SEP (swamp t) -> load (path_of t) = Some t.
Proof. exact load_roundtrip. Qed.
Print Assumptions C20_load_roundtrip.

Theorem C20_load_total_refuted : load [97; 47; 98] = None /\ load [] = None.
Proof. exact load_short_refuted. Qed.
Print Assumptions C20_load_total_refuted.

Theorem C20_xxh64_vectors :
  xxh64 [] = 0xef46db3751d8e999 /\
  xxh64 [97] = 0xd24ec4f1a98c6e5b /\
  xxh64 [97;98;99] = 0x44bc2cf5ad770999 /\
  xxh64 [97;47;98;47;99] = 0xe94f700086cf8f20.
Proof. exact xxh64_vectors. Qed.
Print Assumptions C20_xxh64_vectors.

(* ---- name objects (builders, shared prefixes, repeated use) -------------------------------- *)

(* Every builder returns an object with empty caches ... *)
Theorem C20_builders_are_fresh : forall o x,
  (o_isl_sdk (obj_realm o x) = 0 /\ o_isl_srv (obj_realm o x) = 0 /\ o_hp (obj_realm o x) = None) /\
  (o_isl_sdk (obj_swamp o x) = 0 /\ o_isl_srv (obj_swamp o x) = 0 /\ o_hp (obj_swamp o x) = None).
Proof. exact builders_are_fresh. Qed.
Print Assumptions C20_builders_are_fresh.

(* ... and an object never queried answers with the pure function of its own parts / path. *)
Theorem C20_fresh_object_answers_pure : forall o n island depth maxf,
  (o_isl_sdk o = 0 -> fst (obj_island_sdk o n) = island_sdk (obj_triple o) n) /\
  (o_isl_srv o = 0 -> fst (obj_island_srv o n) = island_srv (obj_triple o) n) /\
  (o_hp o = None -> fst (obj_path ROOT o island depth maxf) = pure_path ROOT (o_path o) island depth maxf).
Proof. exact fresh_object_answers_pure. Qed.
Print Assumptions C20_fresh_object_answers_pure.

(* Whatever was asked of the sanctuary and sanctuary/realm prefix objects, the swamp name built
   from them has the island and location of its own triple. *)
Theorem C20_prefix_queries_do_not_leak : forall s r w n1 n2 n island depth maxf,
  let o1 := snd (obj_island_srv (snd (obj_island_sdk (obj_sanct s) n1)) n1) in
  let o2 := snd (obj_island_srv (snd (obj_island_sdk (obj_realm o1 r) n2)) n2) in
  let o3 := obj_swamp o2 w in
  let t := {| sanct := s; realm := r; swamp := w |} in
  fst (obj_island_sdk o3 n) = island_sdk t n /\
  fst (obj_island_srv o3 n) = island_srv t n /\
  o_path o3 = path_of t /\
  fst (obj_path ROOT o3 island depth maxf) = model_path t island depth maxf.
Proof. exact prefix_queries_do_not_leak. Qed.
Print Assumptions C20_prefix_queries_do_not_leak.

(* A repeated query with the same N repeats the answer; queries never alter the name. *)
Theorem C20_repeated_query_repeats : forall o n,
  0 < n -> fst (obj_island_sdk (snd (obj_island_sdk o n)) n) = fst (obj_island_sdk o n).
Proof. exact repeated_query_repeats. Qed.
Print Assumptions C20_repeated_query_repeats.

(* ---- SDK client routing over time ---------------------------------------------------------- *)

(* The client's answer is the most recent table assignment covering the name's island ... *)
Theorem C20_route_sound : forall tb island h,
  route_h tb island = Some h ->
  exists pre lo hi post, tb = pre ++ (h, (lo, hi)) :: post /\ lo <= island /\ island <= hi /\
    route_h post island = None.
Proof. exact route_h_sound. Qed.
Print Assumptions C20_route_sound.

(* ... every covered island is routed ... *)
Theorem C20_route_complete : forall tb island h lo hi,
  In (h, (lo, hi)) tb -> lo <= island -> island <= hi -> route_h tb island <> None.
Proof. exact route_h_complete. Qed.
Print Assumptions C20_route_complete.

(* ... and nothing but the island of the name and the current table enters (not the Path
   string, not earlier lookups, not earlier tables). *)
Theorem C20_route_depends_on_island_only : forall tb t t' n,
  island_sdk t n = island_sdk t' n -> route_h tb (island_sdk t n) = route_h tb (island_sdk t' n).
Proof. exact route_depends_on_island_only. Qed.
Print Assumptions C20_route_depends_on_island_only.
