(* Props/C03.v — Compaction never changes the stored state.
   Property theorems only; proofs are in Storage/C03CompactProofs.v, the model in
   Storage/C03Compact.v (entry-level files, interned keys/payloads/names; iteration order,
   trigger decisions and flush boundaries are universally quantified oracles).
   The model is tied to compactor.go / chronicler_v2.go / hydraidectl compact by harness/cmd/c03. *)
From HV Require Import Base.Prelude Storage.C03Compact Storage.C03CompactProofs.
Local Open Scope N_scope.

(* A compacted file written from scratch loads to the same live records, with the same values,
   and carries the name in its header - for every iteration order that visits every live key. *)
Theorem C03_compact_preserves_index : forall ix nm perm,
  covers perm ix ->
  st_equiv (load_entries nm (compact_entries ix perm)) (ix, nm).
Proof. exact compact_preserves_index. Qed.
Print Assumptions C03_compact_preserves_index.

(* Every entry point (Write-inline, Close, ForceCompaction, Load self-heal, hydraidectl compact),
   every pre-existing node at the temp path (absent, valid older file, foreign file, torn file,
   garbage, unremovable directory), every trigger decision, every iteration order: the live
   records after the call are exactly the ones before plus the written batch; the stored name is
   kept (Load's self-heal writes the chronicler's configured name if it has one). *)
Theorem C03_any_entry_point_preserves : forall c e h es,
  hyd (c_fs c) = Some (FGood h es) ->
  let before := load_entries h es in
  let expect := (spec_apply (fst before) (ep_batch e), snd before) in
  covers (ep_perm e) (fst expect) ->
  exists st', state_of (c_fs (step true c e)) = Some st' /\
    (forall k, ilookup k (fst st') = ilookup k (fst expect)) /\
    (snd st' = snd expect \/ (is_load e = true /\ c_name c <> 0 /\ snd st' = c_name c)).
Proof. exact any_entry_point_preserves. Qed.
Print Assumptions C03_any_entry_point_preserves.

(* Concurrent use: every chronicler method runs under the chronicler's mutex, so an execution with
   concurrent callers is some sequence of the atomic steps above. For every such sequence (any mix
   of Write batches and compaction entry points, any trigger decisions, any stale temps) the final
   state is the initial one plus all written batches in lock order ... *)
Theorem C03_any_interleaving_preserves : forall es c st,
  state_of (c_fs c) = Some st -> steps_cover c es ->
  exists st', state_of (c_fs (run_steps c es)) = Some st' /\
    forall k, ilookup k (fst st') = ilookup k (spec_apply (fst st) (flat_map ep_batch es)).
Proof. exact any_interleaving_preserves. Qed.
Print Assumptions C03_any_interleaving_preserves.

(* ... and that state depends, per key, only on the subsequence of writes to that key: writers that
   own disjoint key sets get the same result under every interleaving (this is what the harness's
   concurrent cases compare against). *)
Theorem C03_write_order_per_key : forall k l ix,
  ilookup k (spec_apply ix l) = ilookup k (spec_apply ix (filter (fun w : wr => fst w =? k) l)).
Proof. exact spec_apply_lookup_filter. Qed.
Print Assumptions C03_write_order_per_key.

(* inline trigger: whatever maybeCompactInline and the compactor's own threshold decide *)
Theorem C03_inline_trigger_sound : forall c batch go1 go2 perm h es,
  hyd (c_fs c) = Some (FGood h es) ->
  covers perm (spec_apply (fst (load_entries h es)) batch) ->
  exists st', state_of (c_fs (step true c (EWrite batch go1 go2 perm))) = Some st' /\
    (forall k, ilookup k (fst st') = ilookup k (spec_apply (fst (load_entries h es)) batch)) /\
    snd st' = snd (load_entries h es).
Proof.
  intros c batch go1 go2 perm h es Hh Hc.
  destruct (any_entry_point_preserves c (EWrite batch go1 go2 perm) h es Hh Hc) as [st' [H1 [H2 [H3|[H3 _]]]]].
  - exists st'. auto.
  - discriminate.
Qed.
Print Assumptions C03_inline_trigger_sound.

(* the hysteresis of the inline trigger, as documentation: no compaction below minEntries, below
   twice the live count, or without dead entries *)
Theorem C03_trigger_monotone : forall enabled has_fn total live min_entries frag_gt,
  may_compact_inline enabled has_fn total live min_entries frag_gt = true ->
  (min_entries <= total /\ 2 * live <= total /\ live < total /\ frag_gt = true)%Z.
Proof. exact trigger_monotone. Qed.
Print Assumptions C03_trigger_monotone.

(* Crash at any point of the compaction op sequence (remove stale temp, create, block appends
   with header rewrites, fsync, close, rename), any crash image allowed by the crash semantics,
   any stale temp: after Load's temp cleanup the .hyd is the complete old or the complete new
   file and loads to the old state. *)
Theorem C03_crash_atomic : forall h es perm blocks done rest img,
  let old := FGood h es in
  let st := load_entries h es in
  covers perm (fst st) ->
  concat blocks = compact_entries (fst st) perm ->
  compact_ops (snd st) blocks = done ++ rest ->
  crash_image old done img ->
  let img' := FS (hyd img) (cleanup_tmp (tmp img)) in
  (hyd img' = Some old \/ hyd img' = Some (FGood (snd st) (concat blocks))) /\
  exists st', state_of img' = Some st' /\ st_equiv st' st.
Proof. exact crash_atomic. Qed.
Print Assumptions C03_crash_atomic.

(* the same for any op list that passes the check applied to the observed syscall traces *)
Theorem C03_crash_atomic_any_safe_ops : forall old newf ops done rest img,
  safe_ops newf ops = true -> ops = done ++ rest ->
  crash_image old done img ->
  hyd img = Some old \/ hyd img = Some newf.
Proof. exact crash_atomic_of_safe. Qed.
Print Assumptions C03_crash_atomic_any_safe_ops.

(* The code of the pinned commit (Compactor.Compact appends to an existing temp file) violates
   the property; kept machine-checked as the reason for the fix: commit. *)
Theorem C03_stale_temp_refuted_before_fix :
  exists c perm h es,
    hyd (c_fs c) = Some (FGood h es) /\
    covers perm (fst (load_entries h es)) /\
    exists st', state_of (c_fs (step false c (ECli true perm))) = Some st' /\
      ilookup 2 (fst (load_entries h es)) = None /\ ilookup 2 (fst st') = Some 20 /\
      snd (load_entries h es) = 7 /\ snd st' = 9.
Proof. exact stale_temp_refuted_before_fix. Qed.
Print Assumptions C03_stale_temp_refuted_before_fix.

Theorem C03_torn_stale_temp_refuted_before_fix :
  exists c perm, state_of (c_fs c) <> None /\ state_of (c_fs (step false c (ECli true perm))) = None.
Proof. exact stale_torn_temp_destroys_before_fix. Qed.
Print Assumptions C03_torn_stale_temp_refuted_before_fix.
