(* Props/C14.v — Business lock: exclusive, FIFO, TTL-released, deadlock-free.
   Property theorems only; each is closed by [exact] of a lemma proved in Conc/BLockProofs.v.
   The model (Conc/BLock.v) is tied to lock.go by the C14 correspondence check: traces of the
   hook points lock.enqueue / lock.remove (under q.mu) plus API-level events of 8-64 goroutines
   are replayed through the model, and the oracle is evaluated on the observations alone.
   All theorems hold for [prune = true] (the code after the fix: commit for C28) and for
   [prune = false] (the pinned commit). *)
From HV Require Import Base.Prelude Conc.BLock Conc.BLockProofs.
From Coq Require Import Sorted.

(* At most one caller per key is between the grant (select took the ready branch) and its
   removal; it is the head of the key's current queue. Any number of callers, any trace. *)
Theorem C14_mutex : forall prune n acts s, run prune (init n) acts = Some s ->
  forall p1 q1 e1 p2 q2 e2,
    nth_error (heap s) p1 = Some q1 -> nth_error (heap s) p2 = Some q2 ->
    holder_in s q1 e1 -> holder_in s q2 e2 ->
    p1 = p2 /\ e1 = e2 /\ cur s = Some p1 /\ exists tl, ents q1 = e1 :: tl.
Proof. exact lock_mutex. Qed.
Print Assumptions C14_mutex.

(* Queue non-empty => its head's ready channel is closed and the head is either an enabled
   waiter or the holder, whose removal by Unlock(its id) / its TTL watchdog is enabled. *)
Theorem C14_head_is_ready : forall prune n acts s, run prune (init n) acts = Some s ->
  forall p q e tl, nth_error (heap s) p = Some q -> ents q = e :: tl ->
    cur s = Some p /\ e_ready e = true /\
    ((nth_error (thr s) (e_tok e) = Some (L2 p) /\ exists s', step prune s (AStep (e_tok e)) = Some s') \/
     (nth_error (thr s) (e_tok e) = Some (H p) /\ exists s', step prune s (ARemove p (e_tok e)) = Some s')).
Proof. exact lock_head_is_ready. Qed.
Print Assumptions C14_head_is_ready.

(* No waiter is left blocked: while a caller waits in the select, it is queued in the key's
   current queue whose head is enabled or holding (traces in which Unlock is called only with
   ids that Lock has returned, or with ids no caller has). *)
Theorem C14_no_stuck_waiter : forall prune n acts s,
  valid_trace prune (init n) acts = true -> run prune (init n) acts = Some s ->
  forall t p, nth_error (thr s) t = Some (L2 p) ->
  cur s = Some p /\
  exists q e tl, nth_error (heap s) p = Some q /\ ents q = e :: tl /\ e_ready e = true /\
    ((nth_error (thr s) (e_tok e) = Some (L2 p) /\ exists s', step prune s (AStep (e_tok e)) = Some s') \/
     (nth_error (thr s) (e_tok e) = Some (H p) /\ exists s', step prune s (ARemove p (e_tok e)) = Some s')).
Proof. exact lock_no_stuck_waiter. Qed.
Print Assumptions C14_no_stuck_waiter.

(* Grants happen in strictly increasing enqueue order, and every caller still waiting was
   enqueued after every caller granted so far (a cancelled caller is simply skipped). *)
Theorem C14_fifo : forall prune n acts s, run prune (init n) acts = Some s ->
  StronglySorted gt (glog s) /\
  forall p q e g, nth_error (heap s) p = Some q -> In e (ents q) ->
                  nth_error (thr s) (e_tok e) = Some (L2 p) -> In g (glog s) -> g < e_seq e.
Proof. exact lock_fifo. Qed.
Print Assumptions C14_fifo.

(* A removal with any id other than the holder's leaves the holder queued and holding; a
   removal of an id that is not queued changes nothing and reports not-found. *)
Theorem C14_release_only_by_owner_or_ttl : forall prune n acts s, run prune (init n) acts = Some s ->
  (forall p0 q0 e p id s', nth_error (heap s) p0 = Some q0 -> holder_in s q0 e -> e_tok e <> id ->
     step prune s (ARemove p id) = Some s' ->
     exists q1 e1, nth_error (heap s') p0 = Some q1 /\ holder_in s' q1 e1 /\ e_tok e1 = e_tok e) /\
  (forall p q id, nth_error (heap s) p = Some q -> has_tok id (ents q) = false ->
     do_remove prune s p id = Some (s, false)).
Proof. exact lock_release_only_by_owner_or_ttl. Qed.
Print Assumptions C14_release_only_by_owner_or_ttl.

(* Only callers inside Lock (select) or holding are ever queued: a stale id is never queued again. *)
Theorem C14_stale_id_never_requeued : forall prune n acts s, run prune (init n) acts = Some s ->
  forall p q e, nth_error (heap s) p = Some q -> In e (ents q) ->
    nth_error (thr s) (e_tok e) = Some (L2 p) \/ nth_error (thr s) (e_tok e) = Some (H p).
Proof. exact lock_stale_id_never_requeued. Qed.
Print Assumptions C14_stale_id_never_requeued.

(* Gateway: the TTL handed to the lock is never below the floor (1000 ms in gateway.go). *)
Theorem C14_ttl_floor : forall floor ttl, (floor <= gw_ttl floor ttl)%Z.
Proof. exact gw_ttl_floor. Qed.
Print Assumptions C14_ttl_floor.
