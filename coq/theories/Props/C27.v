(* Props/C27.v — Hydrex reverse index stays consistent with core data.
   Property theorems only; each is closed by [exact] of a lemma proved in Sdk/HydrexProofs.v.
   The model (Sdk/Hydrex.v, fixd = true: the code after the fix: commit for C27) is tied to
   hydrex.go by the C27 correspondence check (real Hydrex on the real SDK over bufconn on the
   in-process gateway; every GetCoreData / GetIndexData answer compared).
   [ops] ranges over every sequence of Save/Destroy on any index names, domains, keys and values;
   each Save carries its own oracle (Go map iteration orders, clock), so the statements hold for
   every iteration order and every clock. *)
From HV Require Import Base.Prelude Sdk.Hydrex Sdk.HydrexProofs.
Local Open Scope N_scope.

(* Looking up a key returns exactly the domains whose current core data contains that key
   (for the code with and without the value rewrite). *)
Theorem C27_index_consistent : forall fixd ops i d k,
  In d (map fst (get_index (run fixd ops) i k)) <-> In k (map fst (get_core (run fixd ops) i d)).
Proof. exact index_consistent. Qed.
Print Assumptions C27_index_consistent.

(* ... which are the domains whose last Save had the key (and that were not destroyed since). *)
Theorem C27_index_is_last_saved : forall fixd ops i d k,
  In d (map fst (get_index (run fixd ops) i k)) <-> In k (map fst (last_saved ops i d)).
Proof. exact index_is_spec. Qed.
Print Assumptions C27_index_is_last_saved.

(* Reading a domain returns exactly its last saved items: the same key -> value function ... *)
Theorem C27_core_is_last_saved : forall ops i d k,
  alookup N.eqb k (core_values (run true ops) i d) = alookup N.eqb k (last_saved ops i d).
Proof. exact core_is_last_saved. Qed.
Print Assumptions C27_core_is_last_saved.

(* ... and no key / no domain is returned twice. *)
Theorem C27_no_row_twice : forall fixd ops i x,
  NoDup (map fst (get_core (run fixd ops) i x)) /\ NoDup (map fst (get_index (run fixd ops) i x)).
Proof. exact no_row_twice. Qed.
Print Assumptions C27_no_row_twice.

(* The code at the pinned commit never rewrote an existing key whose value changed: the value
   clause is false for it (witness: save k:=7, save k:=8), only the key set is right. *)
Theorem C27_core_is_last_saved_refuted_without_rewrite :
  exists ops i d k,
    alookup N.eqb k (core_values (run false ops) i d) <> alookup N.eqb k (last_saved ops i d).
Proof. exact core_is_last_saved_refuted_without_rewrite. Qed.
Print Assumptions C27_core_is_last_saved_refuted_without_rewrite.

Theorem C27_core_keys_partial : forall fixd ops i d k,
  In k (map fst (get_core (run fixd ops) i d)) <-> In k (map fst (last_saved ops i d)).
Proof. exact core_keys_partial. Qed.
Print Assumptions C27_core_keys_partial.
