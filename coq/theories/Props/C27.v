(* Props/C27.v — placeholder, replaced below *)
From HV Require Import Base.Prelude Sdk.Hydrex.
Theorem C27_placeholder : True. Proof. exact I. Qed.
Print Assumptions C27_placeholder.
