(* Props/C28.v — Lock and guard bookkeeping does not grow without bound.
   Model: Conc/BLock.v with the key -> queue map ([cur]) and the heap of queue objects;
   [prune = true] is lock.go after the fix: commit (remove() retires an emptied queue and drops
   its map entry under q.mu, enqueue() refuses a retired queue), [prune = false] the pinned commit.
   Mutual exclusion and FIFO of the pruning variant are C14_mutex / C14_fifo (proved for both). *)
From HV Require Import Base.Prelude Conc.BLock Conc.BLockProofs.

(* A key has a map entry only while a caller is queued on it (holding or waiting) or is between
   getQueue and enqueue. Any number of callers, any trace. *)
Theorem C28_no_residue : forall n acts s, run true (init n) acts = Some s ->
  has_entry s = true -> in_use s = true.
Proof. exact lock_no_residue_pruned. Qed.
Print Assumptions C28_no_residue.

(* The whole lock: number of map entries <= number of keys currently locked, waited on or being
   entered - not the number of distinct keys ever locked. *)
Theorem C28_map_size_bounded : forall ns acts g,
  grun true (map init ns) acts = Some g -> map_size g <= keys_in_use g.
Proof. exact lock_map_size_bounded. Qed.
Print Assumptions C28_map_size_bounded.

(* The pinned commit: Lock k; Unlock k leaves the entry behind ... *)
Theorem C28_no_residue_refuted_without_pruning :
  exists s, run false (init 1) [AStep 0; AStep 0; AStep 0; ARemove 0 0] = Some s /\
            has_entry s = true /\ in_use s = false.
Proof. exact lock_no_residue_refuted_unpruned. Qed.
Print Assumptions C28_no_residue_refuted_without_pruning.

(* ... and no step ever removes an entry: the map grows with the distinct keys ever locked. *)
Theorem C28_growth_without_pruning : forall s a s', step false s a = Some s' ->
  has_entry s = true -> has_entry s' = true.
Proof. exact lock_growth_unpruned. Qed.
Print Assumptions C28_growth_without_pruning.
