(* Props/C29.v — Fast swamp-name discovery agrees with the stored name.
   Property theorems only.  Models: Storage/SwampName.v (ReadSwampName, explorer scanFile /
   scanDirectory / index) on top of the C01 storage models. *)
From HV Require Import Base.Prelude Storage.Format Storage.FormatProofs Storage.Lww Storage.LwwProofs
  Storage.Writer Storage.WriterProofs Storage.Reader Storage.ReaderProofs Storage.ReplayProofs
  Storage.SwampName Storage.SwampNameProofs Storage.C29Proofs.
Local Open Scope N_scope.

(* A file created by the writer under name nm (a fresh swamp file, or the temp file of ANY
   compaction - which is how legacy files are upgraded) and then subjected to any further
   operations, in any number of sessions, whatever their results: it is a V3 file,
   ReadSwampName returns nm, and the explorer's lookup returns nm when nm is not empty. *)
Theorem C29_name_roundtrip :
  forall (compress : list N -> list N) (decompress : list N -> option (list N)) (crc : list N -> N),
  (forall x, decompress (compress x) = Some x) ->
  forall hm nm (ops : list (wop (list N) (list N) (list N))) st' rs f,
  brun compress true init (OOpen nm :: ops) = (st', ROk :: rs) -> s_file st' = Some f ->
  f_ver f = Version3 /\ read_swamp_name decompress crc (render compress crc hm f) = Some nm /\
  (nm <> [] -> scan_name decompress crc (render compress crc hm f) = Some nm).
Proof. exact name_roundtrip. Qed.
Print Assumptions C29_name_roundtrip.

(* Legacy V2 file (name in a metadata entry) appended to by the current writer: any history,
   any results - both lookups keep returning the legacy name and the file stays V2. *)
Theorem C29_legacy_appends_keep_name :
  forall (compress : list N -> list N) (decompress : list N -> option (list N)) (crc : list N -> N),
  (forall x, decompress (compress x) = Some x) ->
  forall hm f0 (ops : list (wop (list N) (list N) (list N))) st' rs f nm,
  f_ver f0 = Version2 -> wf_file (list N) (list N) (list N) nlen nlen (Reader.cfits compress) f0 -> nm <> [] ->
  meta_name (entries_of f0) = nm -> scan_meta (entries_of f0) = nm ->
  brun compress true (mkS (Some f0) None) ops = (st', rs) -> s_file st' = Some f ->
  f_ver f = Version2 /\ read_swamp_name decompress crc (render compress crc hm f) = Some nm /\
  scan_name decompress crc (render compress crc hm f) = Some nm.
Proof. exact v2_appends_keep_name. Qed.
Print Assumptions C29_legacy_appends_keep_name.

(* a name of 65536+ bytes never produces a file (repaired writer) *)
Theorem C29_long_name_rejected :
  forall (compress : list N -> list N) nm st' rs,
  two16 <= nlen nm -> brun compress true init [OOpen nm] = (st', rs) -> s_file st' = None /\ rs = [RErr].
Proof. exact long_name_no_file. Qed.
Print Assumptions C29_long_name_rejected.

(* pinned writer: a file created under a 65536-byte name answers the empty name *)
Theorem C29_long_name_refuted_pinned :
  match final_bytes false long_name_ops with
  | Some b => read_swamp_name idd crc0 b
  | None => None
  end = Some [].
Proof. exact old_writer_long_name_lookup_refuted. Qed.
Print Assumptions C29_long_name_refuted_pinned.

(* the explorer entry of a file whose name has three parts: exactly those parts *)
Theorem C29_scan_three_parts :
  forall (compress : list N -> list N) (decompress : list N -> option (list N)) (crc : list N -> N)
         hm f s r w,
  ver_ok f -> wf_file (list N) (list N) (list N) nlen nlen (Reader.cfits compress) f ->
  slash_free s -> slash_free r ->
  scan_name decompress crc (render compress crc hm f) = Some (s ++ slash :: r ++ slash :: w) ->
  scan_file decompress crc (render compress crc hm f) = Some (s, r, w).
Proof. exact scan_three_parts. Qed.
Print Assumptions C29_scan_three_parts.

(* the listing is exactly the set of names of the scannable files, each once *)
Theorem C29_listing_exact :
  forall (decompress : list N -> option (list N)) (crc : list N -> N) files t,
  (In t (scan_directory decompress crc files) <->
     exists f, In f files /\ scan_file decompress crc f = Some t) /\
  NoDup (scan_directory decompress crc files).
Proof. exact listing_exact. Qed.
Print Assumptions C29_listing_exact.

(* the same explorer used again: after any earlier scans of any earlier directory contents the
   listing is exactly what is on disk at the last scan (nothing stale, nothing missing) *)
Theorem C29_rescan_exact :
  forall (decompress : list N -> option (list N)) (crc : list N -> N) history files t,
  (In t (explorer_run decompress crc (history ++ [files])) <->
     exists f, In f files /\ scan_file decompress crc f = Some t) /\
  NoDup (explorer_run decompress crc (history ++ [files])).
Proof. exact rescan_exact. Qed.
Print Assumptions C29_rescan_exact.

(* chronicler Load self-heal (a compaction entry point of its own): a chronicler created without
   a name, or with the file's name, rewrites the file as V3 under the name the old file carried *)
Theorem C29_load_selfheal_keeps_name :
  forall (compress : list N -> list N) (decompress : list N -> option (list N)) (crc : list N -> N),
  (forall x, decompress (compress x) = Some x) ->
  forall hm cname fname live st' rs f,
  cname = [] \/ cname = fname ->
  brun compress true init (selfheal_ops cname fname live) = (st', ROk :: rs) -> s_file st' = Some f ->
  f_ver f = Version3 /\ read_swamp_name decompress crc (render compress crc hm f) = Some fname /\
  (fname <> [] -> scan_name decompress crc (render compress crc hm f) = Some fname).
Proof. exact selfheal_keeps_name. Qed.
Print Assumptions C29_load_selfheal_keeps_name.

(* paged listing: consecutive pages of any size tile the listing (nothing skipped, nothing shown
   twice), and with a positive page size enough pages give back exactly the whole listing *)
Theorem C29_pages_tile_the_listing :
  forall (A : Type) (n off lim : nat) (l : list A),
  skipn off l = pages n off lim l ++ skipn (off + n * lim) l.
Proof. exact @pages_tile. Qed.
Print Assumptions C29_pages_tile_the_listing.

Theorem C29_pages_cover_the_listing :
  forall (A : Type) (n lim : nat) (l : list A),
  (length l <= n * lim)%nat -> pages n 0 lim l = l.
Proof. exact @pages_cover. Qed.
Print Assumptions C29_pages_cover_the_listing.
