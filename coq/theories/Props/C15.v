(* Props/C15.v — Record guard gives exclusive, arrival-ordered access.
   Property theorems only; each is closed by [exact] of a lemma proved in Conc/GuardProofs.v.
   The model ([Conc/Guard.v], reset = false) is tied to guard.go by the C15 correspondence
   check (exhaustive short operation sequences + random traces on the real guard). *)
From HV Require Import Base.Prelude Conc.Guard Conc.GuardProofs.
From Coq Require Import Sorted.
Local Open Scope Z_scope.

(* For every trace of any number of clients in which a client only releases ids that were
   at some time returned to it (own, duplicate, stale - but not guessed): at most one client
   is inside the guard, and it is the one whose id is at the head of the queue. *)
Theorem C15_mutex : forall tr s',
  own_trace false init tr = true -> run false init tr = Some s' ->
  (length (held s') <= 1)%nat /\
  (forall c id, In (c, id) (held s') -> g_head (g s') = Some id).
Proof. exact guard_mutex. Qed.
Print Assumptions C15_mutex.

(* Waiting operations acquire in arrival order. *)
Theorem C15_fifo : forall tr s',
  own_trace false init tr = true -> run false init tr = Some s' ->
  StronglySorted Z.lt (ids (ret s')) /\
  (forall r q, In r (ids (ret s')) -> In q (ids (pend s')) -> r < q) /\
  (forall x, In x (ids (ret s')) \/ In x (ids (pend s')) -> x <= largest (g s')).
Proof. exact guard_fifo. Qed.
Print Assumptions C15_fifo.

(* Releasing a guard you do not hold has no effect on the guard or on the current holder. *)
Theorem C15_foreign_release_harmless : forall tr s c id,
  own_trace false init tr = true -> run false init tr = Some s ->
  In (c, id) (ret s) -> ~ In (c, id) (held s) ->
  forall s', step false s (ERelease c id) = Some s' -> g s' = g s /\ held s' = held s.
Proof. exact guard_nonholder_release_harmless. Qed.
Print Assumptions C15_foreign_release_harmless.

(* ... and for ids of any origin (never issued by this guard, zero, negative, issued to
   somebody who is still queued): a release of anything but the head id changes nothing. *)
Theorem C15_release_non_head_noop : forall reset (s : gst) id,
  g_head s <> Some id -> g_release reset s id = s.
Proof. exact guard_release_non_head_noop. Qed.
Print Assumptions C15_release_non_head_noop.

(* The head of a non-empty queue is always a holder or an enabled pending start. *)
Theorem C15_head_progress : forall tr s h,
  own_trace false init tr = true -> run false init tr = Some s ->
  g_head (g s) = Some h ->
  (exists c, In (c, h) (held s)) \/ (exists c, In (c, h) (pend s)).
Proof. exact guard_head_progress. Qed.
Print Assumptions C15_head_progress.

(* The id policy of the pinned commit (ids restart at 1 when the queue empties) violates the
   property; kept machine-checked as the reason for the fix: commit. *)
Theorem C15_mutex_refuted_with_id_reset :
  exists tr, own_trace true init tr = true /\
             option_map (fun s => length (held s)) (run true init tr) = Some 2%nat.
Proof. exact guard_mutex_refuted_with_reset. Qed.
Print Assumptions C15_mutex_refuted_with_id_reset.
