(* Props/C01.v — Storage log replays to the last-writer-wins state.
   Property theorems only; each is closed by [exact] of a lemma proved in Storage/*Proofs.v.
   Models: Storage/Format.v (byte codecs with Go's truncating length fields), Writer.v (the
   FileWriter over logical files, flush decisions are inputs), Reader.v (bytes of a logical
   file, FileReader/LoadIndex on bytes), Lww.v (the last-writer-wins specification).
   B = byte strings (list N).  compress/decompress/crc are arbitrary functions with
   decompress (compress x) = Some x. *)
From HV Require Import Base.Prelude Storage.Format Storage.FormatProofs Storage.Lww Storage.LwwProofs
  Storage.Writer Storage.WriterProofs Storage.Reader Storage.ReaderProofs Storage.ReplayProofs
  Storage.ChronV2 Storage.ChronProofs.
Local Open Scope N_scope.

(* an entry with 1..65535 key bytes and < 2^32 payload bytes is read back exactly, whatever follows *)
Theorem C01_entry_roundtrip : forall e r,
  1 <= nlen (e_key e) /\ nlen (e_key e) < two16 /\ nlen (e_data e) < two32 ->
  deser_entry (ser_entry e ++ r) = Some (e, r).
Proof. exact entry_roundtrip. Qed.
Print Assumptions C01_entry_roundtrip.

Theorem C01_block_roundtrip : forall es r,
  Forall wf_entry es -> parse_entries (length es) (ser_entries es ++ r) = Some es.
Proof. exact entries_roundtrip. Qed.
Print Assumptions C01_block_roundtrip.

(* the reader applied to the bytes of any well-formed logical file (V2 or V3, any header
   metadata) returns its name and exactly its blocks *)
Theorem C01_file_roundtrip :
  forall (compress : list N -> list N) (decompress : list N -> option (list N)) (crc : list N -> N),
  (forall x, decompress (compress x) = Some x) ->
  forall hm f, ver_ok f -> wf_file (list N) (list N) (list N) nlen nlen (Reader.cfits compress) f ->
  read_file decompress crc (render compress crc hm f)
  = Some (seen_header hm f, stored_name f, map (map to_entry) (f_blocks f)).
Proof. exact file_roundtrip. Qed.
Print Assumptions C01_file_roundtrip.

(* LoadIndex's fold is last-writer-wins: the most recent write to a key decides, for any
   key type with decidable equality and any payload type *)
Theorem C01_index_fold_is_lww :
  forall (K D : Type) (keqb : K -> K -> bool), (forall a b, keqb a b = true <-> a = b) ->
  forall es k,
    mget K D keqb (replay K D keqb es) k = lww_get K D keqb (writes_of K D es) k /\
    NoDup (mkeys K D (replay K D keqb es)).
Proof. exact index_fold_is_lww. Qed.
Print Assumptions C01_index_fold_is_lww.

(* MAIN.  For every history of open/write/flush/sync/close operations in any number of
   sessions, with every placement of flush boundaries (the [fl] flag of each write is
   universally quantified, hence every block size), starting without a file: if every call
   returned ok and the last session was closed, loading the bytes on disk yields exactly the
   last-writer-wins map of the written entries (each key at most once), and the stored name
   is the one given when the file was created. *)
Theorem C01_replay_lww :
  forall (compress : list N -> list N) (decompress : list N -> option (list N)) (crc : list N -> N),
  (forall x, decompress (compress x) = Some x) ->
  forall hm (ops : list (wop (list N) (list N) (list N))) st' rs f,
  brun compress true init ops = (st', rs) -> all_ok rs = true ->
  s_w st' = None -> s_file st' = Some f ->
  exists m nm,
    load_index decompress crc (render compress crc hm f) = Some (m, nm) /\
    (forall k, mget (list N) (list N) bytes_eqb m k = lww_get (list N) (list N) bytes_eqb (bwrites ops) k) /\
    NoDup (mkeys (list N) (list N) m) /\
    first_open (list N) (list N) (list N) ops = Some (f_name f) /\ f_ver f = Version3 /\
    (f_name f <> [] -> nm = f_name f).
Proof. exact replay_lww_fresh. Qed.
Print Assumptions C01_replay_lww.

(* the same for sessions appending to any well-formed existing file, legacy V2 included *)
Theorem C01_replay_lww_existing_file :
  forall (compress : list N -> list N) (decompress : list N -> option (list N)) (crc : list N -> N),
  (forall x, decompress (compress x) = Some x) ->
  forall hm f0 (ops : list (wop (list N) (list N) (list N))) st' rs f,
  ver_ok f0 -> wf_file (list N) (list N) (list N) nlen nlen (Reader.cfits compress) f0 ->
  brun compress true (mkS (Some f0) None) ops = (st', rs) -> all_ok rs = true ->
  s_w st' = None -> s_file st' = Some f ->
  exists m nm,
    load_index decompress crc (render compress crc hm f) = Some (m, nm) /\
    (forall k, mget (list N) (list N) bytes_eqb m k =
               lww_get (list N) (list N) bytes_eqb
                 (writes_of (list N) (list N) (concat (f_blocks f0) ++ flat_map ents ops)) k) /\
    NoDup (mkeys (list N) (list N) m) /\
    f_name f = f_name f0 /\ f_ver f = f_ver f0.
Proof. exact replay_lww_existing. Qed.
Print Assumptions C01_replay_lww_existing_file.

(* CHRONICLER.  Any history of Write (batches of treasures: deleted / encoded, insert or update)
   / Sync / Close calls of the V2 chronicler on a fresh swamp, any flush placement: if every
   underlying writer call succeeded and the history ends closed, the file loads to the
   last-writer-wins state of the treasures (deleted => absent) under the swamp's name. *)
Theorem C01_chronicler_replay_lww :
  forall (compress : list N -> list N) (decompress : list N -> option (list N)) (crc : list N -> N),
  (forall x, decompress (compress x) = Some x) ->
  forall hm (name : list N) (cs : list (cop (list N) (list N))) st' tr acks f,
  crun (list N) (list N) (list N) nlen nlen nlen (Reader.cfits compress) true [] name init cs = (st', tr, acks) ->
  all_ok (map snd tr) = true -> s_w st' = None -> s_file st' = Some f ->
  exists m nm,
    load_index decompress crc (render compress crc hm f) = Some (m, nm) /\
    (forall k, mget (list N) (list N) bytes_eqb m k =
               lww_get (list N) (list N) bytes_eqb (flat_map cop_writes cs) k) /\
    NoDup (mkeys (list N) (list N) m) /\ f_name f = name /\ (name <> [] -> nm = name).
Proof. exact chronicler_replay_lww. Qed.
Print Assumptions C01_chronicler_replay_lww.

(* every chronicler history performs a run of the writer model (so all writer-level theorems,
   including the ones about rejected calls, apply to it) *)
Theorem C01_chronicler_is_a_writer_run :
  forall (K D NM : Type) (klen : K -> N) (dlen : D -> N) (nmlen : NM -> N) (cfits : list (lentry K D) -> bool)
         (guard : bool) (dnil : D) name cs st st' tr acks,
  crun K D NM klen dlen nmlen cfits guard dnil name st cs = (st', tr, acks) ->
  run K D NM klen dlen nmlen cfits guard st (map fst tr) = (st', map snd tr) /\
  (all_ok (map snd tr) = true ->
   flat_map ents (map fst tr) = flat_map (cop_entries K D dnil) cs).
Proof. exact crun_run. Qed.
Print Assumptions C01_chronicler_is_a_writer_run.

(* histories with failing calls (any key/payload/name type): if no block exceeds the 4 GiB
   header fields, a call that returns an error changes nothing, and file + buffer always
   stand for exactly the accepted entries in order *)
Theorem C01_log_is_the_accepted_writes :
  forall (K D NM : Type) (klen : K -> N) (dlen : D -> N) (nmlen : NM -> N) (cfits : list (lentry K D) -> bool),
  (forall b, cfits b = true) ->
  forall ops st st' rs,
  InvC K D NM st -> run K D NM klen dlen nmlen cfits true st ops = (st', rs) ->
  InvC K D NM st' /\ log st' = log st ++ accepted K D NM ops rs /\ length rs = length ops.
Proof. exact run_gen. Qed.
Print Assumptions C01_log_is_the_accepted_writes.

Theorem C01_failed_call_changes_nothing :
  forall (K D NM : Type) (klen : K -> N) (dlen : D -> N) (nmlen : NM -> N) (cfits : list (lentry K D) -> bool),
  (forall b, cfits b = true) ->
  forall st op st' r,
  InvC K D NM st -> step K D NM klen dlen nmlen cfits true st op = (st', r) ->
  InvC K D NM st' /\ log st' = log st ++ acc1 K D NM op r /\ (r = RErr -> st' = st).
Proof. exact step_gen. Qed.
Print Assumptions C01_failed_call_changes_nothing.

(* REJECTION CLAUSE (current, repaired writer).  Exactly the entries outside the encodable
   range (empty key, key of 65536+ bytes, payload of 2^32+ bytes) are refused, with no effect
   at all; an over-long name is refused and no file appears; and whatever the history, every
   block of the file is well-formed: non-empty, at most 65535 entries, fitting the header. *)
Theorem C01_unencodable_rejected :
  forall (K D NM : Type) (klen : K -> N) (dlen : D -> N) (nmlen : NM -> N) (cfits : list (lentry K D) -> bool),
  (forall st e fl, encodable K D klen dlen e = false ->
     step K D NM klen dlen nmlen cfits true st (OWrite e fl) = (st, RErr)) /\
  (forall st e fl st', step K D NM klen dlen nmlen cfits true st (OWrite e fl) = (st', ROk) ->
     encodable K D klen dlen e = true) /\
  (forall nm, MaxNameSize < nmlen nm -> step K D NM klen dlen nmlen cfits true init (OOpen nm) = (init, RErr)) /\
  (forall ops st, Inv K D NM klen dlen cfits st ->
     Inv K D NM klen dlen cfits (fst (run K D NM klen dlen nmlen cfits true st ops))).
Proof. exact unencodable_rejected. Qed.
Print Assumptions C01_unencodable_rejected.

(* The writer of the pinned commit (guard = false) did not have the rejection clause: every
   call succeeds and the resulting file cannot be loaded at all / loses entries.  Kept
   machine-checked as the reason for the fix: commit. *)
Theorem C01_unencodable_rejected_refuted_pinned_long_key :
  is_some (final_bytes false long_key_ops) = true /\ loads (final_bytes false long_key_ops) = None.
Proof. exact old_writer_long_key_refuted. Qed.
Print Assumptions C01_unencodable_rejected_refuted_pinned_long_key.

Theorem C01_unencodable_rejected_refuted_pinned_empty_key :
  is_some (final_bytes false empty_key_ops) = true /\ loads (final_bytes false empty_key_ops) = None.
Proof. exact old_writer_empty_key_refuted. Qed.
Print Assumptions C01_unencodable_rejected_refuted_pinned_empty_key.

Theorem C01_unencodable_rejected_refuted_pinned_long_name :
  is_some (final_bytes false long_name_ops) = true /\ loads (final_bytes false long_name_ops) = None.
Proof. exact old_writer_long_name_refuted. Qed.
Print Assumptions C01_unencodable_rejected_refuted_pinned_long_name.

Theorem C01_unencodable_rejected_refuted_pinned_block_count :
  forall (compress : list N -> list N) (decompress : list N -> option (list N)) (crc : list N -> N),
  (forall x, decompress (compress x) = Some x) ->
  forall b : list (lentry (list N) (list N)), nlen b = two16 ->
  parse_block decompress crc (trunc_bh (block_header compress crc b)) (block_payload compress b) = Some [].
Proof. exact old_block_count_wraps. Qed.
Print Assumptions C01_unencodable_rejected_refuted_pinned_block_count.
