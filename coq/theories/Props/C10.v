(* Props/C10.v — Concurrent use never crashes the server or races on memory; every read
   returns one committed version.  Property theorems only; proofs are in
   Conc/LocksetProofs.v.  The access table (Conc/Lockset.v) is hand-written from the source
   and validated dynamically: every data race the race detector reports under mixed load is
   mapped (by stack) to a pair of rows, which must be a pair the table predicts racy. *)
From HV Require Import Base.Prelude Conc.Lockset Conc.LocksetProofs.

(* The lockset criterion is sound: in the interleaving semantics (any number of threads, any
   schedule; an access begins by acquiring its locks with RWMutex/guard compatibility), a
   table accepted by [race_free] has no reachable state with two threads inside conflicting accesses. *)
Theorem lockset_sound : forall tbl, race_free tbl = true ->
  forall n tr c', Forall (ev_in_table tbl) tr -> lrun (repeat None n) tr = Some c' ->
  forall i j a b, i <> j -> nth_error c' i = Some (Some a) -> nth_error c' j = Some (Some b) ->
                  conflict a b = false.
Proof. exact lockset_sound_gen. Qed.
Print Assumptions lockset_sound.

(* The table of the current tree is NOT race free: record setters hold the guard only, the
   getters t.mu.RLock only.  The racy pairs are exactly these (row ids). *)
Theorem C10_lockset_race_free_refuted :
  race_free table = false /\
  racy_pairs table =
    [(20,22); (20,23); (20,70); (21,22); (21,23); (21,70); (30,31); (30,71); (32,33); (32,72); (34,35); (34,73); (36,37); (36,74); (38,40); (38,75); (39,40); (39,75); (41,42); (45,45); (45,46); (45,47); (46,47)]%N.
Proof. exact lockset_race_free_refuted. Qed.
Print Assumptions C10_lockset_race_free_refuted.

(* The unchanged tree also raced on the beacon's key map (GetAll handed out the live map that
   Gateway.GetAll and the cold index build iterate) - the crash of the property text;
   repaired by the fix: commit, kept as documentation. *)
Theorem C10_getall_live_map_refuted_before_fix :
  forallb (fun p => existsb (fun q => N.eqb (fst p) (fst q) && N.eqb (snd p) (snd q)) (racy_pairs table_before_fix))
          [(1,50); (2,50); (1,51); (2,51); (3,51)]%N = true.
Proof. exact lockset_getall_refuted_before_fix. Qed.
Print Assumptions C10_getall_live_map_refuted_before_fix.

(* What holds: the beacon rows (after the fix) are race free, and so is the whole table once
   the lock-free getters are left out; every other row is such a getter. *)
Theorem C10_lockset_race_free_partial :
  race_free beacon_rows = true /\ race_free table_guarded = true /\
  (forall a, In a table -> In a table_guarded \/ is_lockfree_getter a = true).
Proof. exact lockset_race_free_partial. Qed.
Print Assumptions C10_lockset_race_free_partial.

(* A read assembled from several getters is not single-version: with versions written as
   (i, i) the reader can obtain (2, 1), writer and reader each running in program order. *)
Theorem C10_read_single_version_refuted :
  exists tr, snd (rw_run {| f_value := 1; f_by := 1 |} (None, None) tr) = (Some 2%Z, Some 1%Z) /\
             filter (fun s => match s with WSetValue _ | WSetBy _ => true | _ => false end) tr
               = [WSetValue 2; WSetBy 2] /\
             filter (fun s => match s with RGetValue | RGetBy => true | _ => false end) tr
               = [RGetValue; RGetBy].
Proof. exact read_single_version_refuted. Qed.
Print Assumptions C10_read_single_version_refuted.

(* Each single getter is atomic. *)
Theorem C10_read_single_getter_partial : forall r got pre,
  fst (snd (rw_run r got (pre ++ [RGetValue]))) = Some (f_value (fst (rw_run r got pre))) /\
  snd (snd (rw_run r got (pre ++ [RGetBy]))) = Some (f_by (fst (rw_run r got pre))).
Proof. exact read_single_getter_partial. Qed.
Print Assumptions C10_read_single_getter_partial.
