(* Props/C12.v — Cap-bearing operations never push the match count above the cap.
   Property theorems only; each is closed by [exact] of a lemma proved in Swamp/CapProofs.v.
   The model (Swamp/Cap.v, configuration [cfg_now]) is tied to gateway_patch.go,
   swamp_patch.go, swamp_patch_expired.go, swamp.go and beacon.go by the C12 correspondence
   check (exhaustive four-cell table, sequential histories, forced schedules through the
   capPreCount / patchExpired hook points, free-running stress with the count oracle). *)
From HV Require Import Base.Prelude Swamp.Cap Swamp.CapProofs.

(* For any number of concurrent cap-bearing PatchTreasures / PatchExpired / ShiftMatching
   batches with the same cap, any number of cap-less operations that cannot move a record into
   the filter (delete, overwrite with a non-matching body, expiry change), any initial swamp
   whose matching count does not exceed the cap, and every schedule: the matching count never
   exceeds the cap. *)
Theorem C12_cap_invariant : forall m rs ps sched,
  matching rs <= m -> matching (recs (run (cfg_now m) sched (init rs ps))) <= m.
Proof. exact cap_invariant. Qed.
Print Assumptions C12_cap_invariant.

(* The four-cell rule of an explicit-key patch: rejected exactly when it would move a record
   from not-matching to matching with an exhausted budget; budget is consumed exactly by an
   accepted not-matching -> matching patch; a rejected patch leaves the budget unchanged; the
   other three cells always proceed with the budget unchanged. *)
Theorem C12_four_cell : forall pre post b,
  let '(ok, b') := patch_fields_cap pre post b in
  (ok = false <-> (pre = false /\ post = true /\ b = 0)) /\
  (b' = b - 1 /\ b' < b <-> (ok = true /\ pre = false /\ post = true)) /\
  (ok = false -> b' = b) /\
  ((pre = true \/ post = false) -> ok = true /\ b' = b).
Proof. exact four_cell_rule. Qed.
Print Assumptions C12_four_cell.

(* One accepted or rejected explicit-key patch never raises matching + remaining budget. *)
Theorem C12_patch_item_budget : forall cr it b l rs b' code,
  patch_item cr it b l = (rs, b', code) -> matching rs + b' <= matching l + b.
Proof. exact patch_item_bound. Qed.
Print Assumptions C12_patch_item_budget.

(* At most one thread is inside a cap-bearing flow (capMu). *)
Theorem C12_single_holder : forall m rs ps sched t1 t2 l1 l2,
  matching rs <= m ->
  let s := run (cfg_now m) sched (init rs ps) in
  nth_error (thr s) t1 = Some l1 -> nth_error (thr s) t2 = Some l2 ->
  holds (lpc l1) = true -> holds (lpc l2) = true -> t1 = t2.
Proof. exact cap_single_holder. Qed.
Print Assumptions C12_single_holder.

(* The pinned commit counted before taking capMu: two batches with max = 1 both count 0 and
   both proceed. Kept machine-checked as the reason for the fix: commit. *)
Theorem C12_cap_invariant_refuted_count_before_lock :
  exists rs ps sched,
    matching rs <= 1 /\
    matching (recs (run {| count_first := true; index_count := false; cmax := 1 |} sched (init rs ps))) = 2.
Proof. exact cap_refuted_count_before_lock. Qed.
Print Assumptions C12_cap_invariant_refuted_count_before_lock.

(* The pinned commit counted Cap.Filter only over the members of the walked index: claimed
   records whose expiry was cleared are invisible to the next PatchExpired. *)
Theorem C12_cap_invariant_refuted_index_only_count :
  exists rs ps sched,
    matching rs <= 1 /\
    matching (recs (run {| count_first := false; index_count := true; cmax := 1 |} sched (init rs ps))) = 3.
Proof. exact cap_refuted_index_only_count. Qed.
Print Assumptions C12_cap_invariant_refuted_index_only_count.
