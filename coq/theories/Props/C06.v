(* Props/C06.v — Single-client API behaves like a simple key-value model.
   Property theorems only; each is closed by [exact] of a lemma proved in Swamp/ApiProofs.v.
   [Api.api_step cfg_now] is the faithful model of the repaired gateway handlers, tied to the code
   by the C06 correspondence check (exact replay of exhaustive short and random long histories);
   [Spec.spec_step] is the reference key-value model. *)
From HV Require Import Base.Prelude Swamp.Api Swamp.Spec Swamp.Abs Swamp.ApiProofs.
Local Open Scope Z_scope.

(* Every request of every history, from every reachable or unreachable server state, returns a
   proper answer: it never hangs, never panics, never answers (nil, nil). *)
Theorem C06_every_request_returns : forall qs s, Forall proper (snd (api_run cfg_now s qs)).
Proof. exact run_returns. Qed.
Print Assumptions C06_every_request_returns.

(* For every history that stays inside the specified inputs (Spec.disc = 0 at every request along
   the reference run), all responses - statuses, returned values, counts, existence flags, error
   classes - equal those of the reference model, and so do the final contents.
   Missing hypothesis for the unrestricted statement: the five input classes of Spec.disc. *)
Theorem C06_refines_spec_partial : forall qs,
  disciplined sstate0 qs = true ->
  snd (api_run cfg_now srv0 qs) = snd (spec_run sstate0 qs) /\
  abs (fst (api_run cfg_now srv0 qs)) = fst (spec_run sstate0 qs).
Proof. exact run_refines. Qed.
Print Assumptions C06_refines_spec_partial.

(* One step of the simulation, from any well-formed server state (not only the empty one). *)
Theorem C06_step_simulation : forall s q,
  wf s = true -> disc (abs s) q = 0 ->
  let '(s', r) := api_step cfg_now s q in
  spec_step (abs s) q = (abs s', r) /\ wf s' = true.
Proof. exact step_sim. Qed.
Print Assumptions C06_step_simulation.

(* The per-request oracle of the correspondence check (ApiCheck.walk) calls a differing response a
   violation when the request is inside the specified inputs and consults no tainted record. In every
   well-formed state all requests are clean, and such a request is answered by the faithful model
   exactly as by the reference model - the oracle never blames the code for the model's own gap. *)
Theorem C06_oracle_clean_requests_agree : forall s q,
  wf s = true -> disc (abs s) q = 0 ->
  clean s q = true /\ snd (spec_step (abs s) q) = snd (api_step cfg_now s q).
Proof. exact clean_step_agrees. Qed.
Print Assumptions C06_oracle_clean_requests_agree.

(* The hypothesis is satisfiable by a non-trivial history (13 requests, all request families). *)
Theorem C06_hypothesis_satisfiable :
  disciplined sstate0 ex_history = true /\ length ex_history = 13%nat.
Proof. split; [exact (proj1 ex_history_disciplined) | reflexivity]. Qed.
Print Assumptions C06_hypothesis_satisfiable.

(* The unrestricted refinement is false of the code that exists: one witness per excluded input
   class (each replayed on the real gateway by the harness and recorded as a finding). *)
Theorem C06_refines_spec_refuted :
  (first_class w_class1 = 1 /\ exists x y, differ_at (snd (api_run cfg_now srv0 w_class1)) (snd (spec_run sstate0 w_class1)) 2 x y) /\
  (first_class w_class2 = 2 /\ exists x y, differ_at (snd (api_run cfg_now srv0 w_class2)) (snd (spec_run sstate0 w_class2)) 2 x y) /\
  (first_class w_class3 = 3 /\ exists x y, differ_at (snd (api_run cfg_now srv0 w_class3)) (snd (spec_run sstate0 w_class3)) 2 x y) /\
  (first_class w_class4 = 4 /\ exists x y, differ_at (snd (api_run cfg_now srv0 w_class4)) (snd (spec_run sstate0 w_class4)) 2 x y) /\
  (first_class w_class5 = 5 /\ exists x y, differ_at (snd (api_run cfg_now srv0 w_class5)) (snd (spec_run sstate0 w_class5)) 1 x y).
Proof. exact refines_refuted_outside_spec. Qed.
Print Assumptions C06_refines_spec_refuted.

(* The pinned commit (change flags never reset, guard held across DeleteTreasure, Keys[0] of an empty
   list) broke both clauses inside the specified inputs; kept as the reason for the fix: commits. *)
Theorem C06_refuted_at_pinned_commit :
  disciplined sstate0 w_sticky = true /\
  nth_error (snd (api_run cfg_pinned srv0 w_sticky)) 1 = Some (RSet [(None, [(1, StUpdated)])]) /\
  nth_error (snd (spec_run sstate0 w_sticky)) 1 = Some (RSet [(None, [(1, StNothing)])]) /\
  nth_error (snd (api_run cfg_pinned srv0 w_hang)) 1 = Some RHang /\
  nth_error (snd (api_run cfg_pinned srv0 w_panic)) 1 = Some RPanic.
Proof. exact refuted_at_pinned_commit. Qed.
Print Assumptions C06_refuted_at_pinned_commit.
