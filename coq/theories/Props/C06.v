(* Props/C06.v — placeholder while the proofs are being written *)
From HV Require Import Base.Prelude Swamp.Api Swamp.Spec.
Theorem C06_placeholder : True. Proof. exact I. Qed.
Print Assumptions C06_placeholder.
