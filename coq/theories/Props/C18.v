From HV Require Import Base.Prelude Conc.Summon.
Theorem C18_placeholder : True. Proof. exact I. Qed.
Print Assumptions C18_placeholder.
