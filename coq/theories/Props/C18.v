(* Props/C18.v — At most one live in-memory instance per swamp.
   Property theorems only; each is closed by [exact] of a lemma proved in Conc/SummonProofs.v.
   The model ([Conc/Summon.v], fixed = true = the slot accounting after the fix: commit) is tied
   to hydra.go:SummonSwamp and swamp.go:Close/Destroy by the C18 correspondence check (forced
   schedules through the hook points, trace acceptance, stress). *)
From HV Require Import Base.Prelude Conc.Summon Conc.SummonProofs.

(* For any number of threads (summoners, Close(i), Destroy(i), context cancellations) and every
   schedule in which no Destroy() teardown starts on an instance whose Close() already started:
   at most one constructed-and-not-cancelled instance exists. *)
Theorem C18_single_instance : forall progs sched,
  no_late_destroy true (init progs) sched = true ->
  forall i j, live (run true (init progs) sched) i -> live (run true (init progs) sched) j -> i = j.
Proof. exact summon_single_instance. Qed.
Print Assumptions C18_single_instance.

Theorem C18_live_count_le_1 : forall progs sched,
  no_late_destroy true (init progs) sched = true -> nlive (run true (init progs) sched) <= 1.
Proof. exact summon_nlive_le_1. Qed.
Print Assumptions C18_live_count_le_1.

(* SummonSwamp hands out (IsClosing() = false at its final check) only the instance that is in
   the map at that moment, and that instance is live. *)
Theorem C18_returns_current : forall progs sched t w i,
  no_late_destroy true (init progs) sched = true ->
  let s := run true (init progs) sched in
  pcs s t = SFound w i -> closing (insts s i) = false -> mapi s = Some i /\ live s i.
Proof. exact summon_returns_current. Qed.
Print Assumptions C18_returns_current.

(* The summoning section (getSwamp ... createNewSwamp ... Store) is never run by two threads. *)
Theorem C18_section_exclusive : forall progs sched t t' w w',
  no_late_destroy true (init progs) sched = true ->
  let s := run true (init progs) sched in
  insec (pcs s t) = Some w -> insec (pcs s t') = Some w' -> t = t' /\ w = w'.
Proof. exact summon_section_exclusive. Qed.
Print Assumptions C18_section_exclusive.

(* Slot bookkeeping (no hypothesis on closes/destroys): count = number of registered summoners,
   the map holds exactly the one slot that is not dead, a dead slot has count 0 (no leak, no
   slot dropped under an owner). *)
Theorem C18_slot_accounting : forall progs sched w,
  let s := run true (init progs) sched in
  count (slots s w) = Z.of_nat (length (owners (slots s w))) /\
  (forall t, In t (owners (slots s w)) <-> reg (pcs s t) = Some w) /\
  (cur s = Some w <-> w < nslots s /\ dead (slots s w) = false) /\
  (dead (slots s w) = true -> count (slots s w) = 0%Z).
Proof. exact summon_slot_accounting. Qed.
Print Assumptions C18_slot_accounting.

(* The hypothesis of C18_single_instance is needed: a Destroy() that starts after a Close() of the
   same instance runs the close callback a second time and removes the successor's map entry. *)
Theorem C18_single_instance_refuted_late_destroy :
  exists progs sched, nlive (run true (init progs) sched) = 2 /\
                      no_late_destroy true (init progs) sched = false.
Proof. exact summon_two_live_late_destroy. Qed.
Print Assumptions C18_single_instance_refuted_late_destroy.

(* The slot accounting of the pinned commit violates the property (kept as the reason for the
   fix: commit), and leaks slots with a negative count. *)
Theorem C18_single_instance_refuted_old_accounting :
  exists progs sched, nlive (run false (init progs) sched) = 2.
Proof. exact summon_two_live_old_accounting. Qed.
Print Assumptions C18_single_instance_refuted_old_accounting.

Theorem C18_slot_leak_old_accounting :
  exists progs sched, let s := run false (init progs) sched in
    count (slots s 0) = (-2)%Z /\ cur s = Some 0 /\ pcs s 0 = SDone (Some 0) /\ pcs s 1 = SDone (Some 0).
Proof. exact summon_slot_leak_old_accounting. Qed.
Print Assumptions C18_slot_leak_old_accounting.
