(* Props/C17.v — Lifecycle waits always terminate.
   Property theorems only; each is closed by [exact] of a lemma proved in Conc/VigilProofs.v.
   The model (Conc/Vigil.v, locked = true: CeaseVigil decrements under the waiter's mutex and
   then broadcasts) is tied to vigil.go by the C17 correspondence check (forced schedules through
   the hook points vigil.wait.check / vigil.cease.gap, replayed through the model; stress). *)
From HV Require Import Base.Prelude Conc.Vigil Conc.VigilProofs.

(* Any number of waiters and operations, any schedule: there is no reachable state in which
   every started operation has ceased, some waiter has not returned and no waiter can move. *)
Theorem C17_no_stuck_waiter : forall nw nops sched s,
  run true (init nw nops) sched = Some s -> stuck s = false.
Proof. exact no_stuck_waiter_locked. Qed.
Print Assumptions C17_no_stuck_waiter.

(* ... and in such a state no waiter sleeps on a ticket that no broadcast has reached. *)
Theorem C17_no_sleeper_without_wakeup : forall nw nops sched s,
  run true (init nw nops) sched = Some s -> quiescent s = true ->
  forall w, In w (ws s) -> w_asleep (shd s) w = false.
Proof. exact no_sleeper_locked. Qed.
Print Assumptions C17_no_sleeper_without_wakeup.

(* Once every started operation has ceased: whatever the order, the waiters make at most
   [measure s] <= 7 * #waiters further steps, and there is a run in which all of them return
   (with the previous theorem: every maximal run ends with all waiters returned). *)
Theorem C17_wait_terminates : forall nw nops sched s,
  run true (init nw nops) sched = Some s -> quiescent s = true ->
  (forall wsched s', Forall is_TW wsched -> run true s wsched = Some s' ->
                     length wsched + measure s' <= measure s) /\
  (exists wsched s', Forall is_TW wsched /\ run true s wsched = Some s' /\
                     forallb w_done (ws s') = true /\ length wsched <= measure s) /\
  measure s <= 7 * length (ws s).
Proof. exact wait_terminates_locked. Qed.
Print Assumptions C17_wait_terminates.

(* The protocol of the pinned commit (decrement and broadcast without the mutex) loses the
   wake-up: one waiter, one operation, seven steps; kept as the reason for the fix: commit. *)
Theorem C17_no_stuck_waiter_refuted_without_lock :
  exists sched s, run false (init 1 1) sched = Some s /\ stuck s = true /\
                  quiescent s = true /\ ws s = [W3 0] /\ nnotify (shd s) = 0.
Proof. exact no_stuck_waiter_refuted_unlocked. Qed.
Print Assumptions C17_no_stuck_waiter_refuted_without_lock.

(* Auto-destroy path (DeleteTreasure / CloneAndDelete* inside a gateway handler), with the
   re-begin after Destroy: the counter equals the number of operations in flight, never < 0. *)
Theorem C17_counter_balance : forall kinds sched s,
  drun true (dinit kinds) sched = Some s ->
  dcnt s = Z.of_nat (d_count_inflight s) /\ (0 <= dcnt s)%Z.
Proof. exact counter_balance_rebalanced. Qed.
Print Assumptions C17_counter_balance.

Theorem C17_counter_balance_refuted_without_rebalance :
  exists s, drun false (dinit [true]) [0; 0; 0; 0] = Some s /\ dcnt s = (-1)%Z.
Proof. exact counter_balance_refuted_without_rebalance. Qed.
Print Assumptions C17_counter_balance_refuted_without_rebalance.

(* Polling waits: GracefulStop's capped loop returns after at most cap+1 polls whatever
   CountActiveSwamps answers; WaitForUnlock returns at the first poll that sees no lock. *)
Theorem C17_polls_terminate_capped : forall fuel cap iter opens k,
  cap - iter < fuel ->
  exists n, poll_capped fuel cap iter opens k = Some n /\ n <= k + (cap - iter).
Proof. exact poll_capped_terminates. Qed.
Print Assumptions C17_polls_terminate_capped.

Theorem C17_polls_terminate_uncapped : forall (d fuel : nat) (locked : nat -> Z) (k : nat),
  (locked (k + d)%nat <= 0)%Z -> d < fuel ->
  exists n, poll_until fuel locked k = Some n /\ n <= k + d /\ (locked n <= 0)%Z.
Proof. exact poll_until_terminates. Qed.
Print Assumptions C17_polls_terminate_uncapped.
