(* Props/C16.v — Acknowledged writes survive eviction, auto-destroy and shutdown.
   Property theorems only; each is closed by [exact] of a lemma of Conc/LifecycleProofs.v.
   The full statement is FALSE of the faithful model (and of the code): two refutations with
   witnesses that reproduce on the real engine. What is proved for all inputs is only the
   sequential core of Close()/GracefulStop (the flush). The all-schedules partial theorem
   planned in DESIGN 7/C16 (C16_partial_no_lifecycle_race) is not proved. *)
From HV Require Import Base.Prelude Conc.Lifecycle Conc.LifecycleProofs.
From HV Require Conc.Buffer Conc.BufferProofs.

(* (i) W1 deletes the last record and decides to auto-destroy while W2 inserts: W2's write is
   acknowledged, Destroy drains W2's vigil and removes the file. Both write modes. *)
Theorem C16_ack_survives_refuted_autodestroy : forall wi0,
  survives (run wi0 1 (init (progs_of w_i_progs)) w_i) = false.
Proof. exact ack_lost_autodestroy. Qed.
Print Assumptions C16_ack_survives_refuted_autodestroy.

(* (ii) the idle listener closes with a lastInteractionTime read before the request's summon;
   the request saves into the closed instance. Lost with a write interval > 0. *)
Theorem C16_ack_survives_refuted_idle_close :
  survives (run false 1 (init (progs_of w_ii_progs)) w_ii) = false.
Proof. exact ack_lost_idle_close_interval_mode. Qed.
Print Assumptions C16_ack_survives_refuted_idle_close.

(* For every write buffer and every file content: after the flush of Close()/GracefulStop every
   key whose last buffered operation is a write is durable, and keys not in the buffer are
   unchanged. *)
Theorem C16_flush_last_write_durable : forall pend dsk k,
  last_op k pend None = Some true -> mem_nat k (flush dsk pend) = true.
Proof. exact flush_last_write_durable. Qed.
Print Assumptions C16_flush_last_write_durable.

Theorem C16_flush_untouched_key : forall pend dsk k,
  last_op k pend None = None -> mem_nat k (flush dsk pend) = mem_nat k dsk.
Proof. exact flush_untouched_key. Qed.
Print Assumptions C16_flush_untouched_key.

Theorem C16_close_flush_durable : forall s i k,
  last_op k (pend (insts s i)) None = Some true -> mem_nat k (disk (close_flush s i)) = true.
Proof. exact close_flush_durable. Qed.
Print Assumptions C16_close_flush_durable.

(* ---- the write buffer of one instance (Conc/Buffer.v: record objects, key-indexed queue,
   concurrent flushers), for EVERY schedule of any number of writers, deleters and flushers [ts]
   in which no key is re-created while an unwritten batch still holds its old record object
   ([no_recreate]); tied to SaveFunction/deleteHandler/fileWriterHandler by trace acceptance of
   forced flush-window schedules ---- *)

(* Whenever nothing is queued and no collected batch is unwritten, the chronicler holds the
   current value of every key that has a record. *)
Theorem C16_buffer_quiescent_durable : forall progs ts sched k v,
  let s := Buffer.run false (Buffer.init progs) sched in
  Buffer.no_recreate (Buffer.init progs) ts sched = true ->
  Buffer.queue s = [] -> (forall t, Buffer.batch (Buffer.pcs s t) = []) ->
  Buffer.memval s k = Some v -> Buffer.disk s k = Some v.
Proof. exact BufferProofs.buffer_quiescent_durable. Qed.
Print Assumptions C16_buffer_quiescent_durable.

(* In every reachable state a record whose current value the chronicler does not hold yet is
   still queued or in a batch a running flusher is going to write: no acknowledged Save is ever
   dropped from the buffer. *)
Theorem C16_buffer_tracks_unwritten : forall progs ts sched k o,
  let s := Buffer.run false (Buffer.init progs) sched in
  Buffer.no_recreate (Buffer.init progs) ts sched = true ->
  Buffer.cur s k = Some o -> Buffer.disk s k <> Some (Buffer.oval (Buffer.objs s o)) ->
  In o (Buffer.queue s) \/ exists t, In o (Buffer.batch (Buffer.pcs s t)).
Proof. exact BufferProofs.buffer_tracks_unwritten. Qed.
Print Assumptions C16_buffer_tracks_unwritten.

(* In every reachable state in which no other flush is in flight, the close-write of
   Close()/GracefulStop run to completion makes every record durable with its current value. *)
Theorem C16_close_write_makes_durable : forall progs ts sched t k v,
  let s := Buffer.run false (Buffer.init progs) sched in
  Buffer.no_recreate (Buffer.init progs) ts sched = true -> In t ts ->
  Buffer.pcs s t = Buffer.FColl -> (forall x, x <> t -> Buffer.batch (Buffer.pcs s x) = []) ->
  let s' := Buffer.run false s (repeat t (3 + length (Buffer.queue s))) in
  Buffer.memval s' k = Some v -> Buffer.disk s' k = Some v.
Proof. exact BufferProofs.close_write_makes_durable. Qed.
Print Assumptions C16_close_write_makes_durable.

(* The hypothesis is needed - refuted for the code as it is: delete + re-create of a key inside a
   flush window brings the old value back, or lets the old object's tombstone delete the key.
   Both reproduce on the real engine (known finding). *)
Theorem C16_buffer_refuted_recreate_old_value :
  let s := Buffer.run false (Buffer.init (Buffer.progs_of Buffer.w_stale_progs)) Buffer.w_stale_value in
  Buffer.memval s 0 = Some 3 /\ Buffer.disk s 0 = Some 1 /\ Buffer.queue s = [] /\
  forallb (fun t => match Buffer.batch (Buffer.pcs s t) with [] => true | _ => false end) [0;1;2;3] = true /\
  Buffer.no_recreate (Buffer.init (Buffer.progs_of Buffer.w_stale_progs)) [0;1;2;3] Buffer.w_stale_value = false.
Proof. exact BufferProofs.recreate_in_window_old_value_back. Qed.
Print Assumptions C16_buffer_refuted_recreate_old_value.

Theorem C16_buffer_refuted_recreate_tombstone :
  let s := Buffer.run false (Buffer.init (Buffer.progs_of Buffer.w_stale_tomb_progs)) Buffer.w_stale_tomb in
  Buffer.memval s 0 = Some 3 /\ Buffer.disk s 0 = None /\ Buffer.queue s = [] /\
  forallb (fun t => match Buffer.batch (Buffer.pcs s t) with [] => true | _ => false end) [0;1;2;3;4] = true /\
  Buffer.no_recreate (Buffer.init (Buffer.progs_of Buffer.w_stale_tomb_progs)) [0;1;2;3;4] Buffer.w_stale_tomb = false.
Proof. exact BufferProofs.recreate_in_window_tombstone_wins. Qed.
Print Assumptions C16_buffer_refuted_recreate_tombstone.

(* Dequeuing the batch only after it was written (instead of before) loses an update that is
   acknowledged while the batch is being written. *)
Theorem C16_late_dequeue_refuted :
  let s := Buffer.run true (Buffer.init (Buffer.progs_of Buffer.w_late_progs)) Buffer.w_late in
  Buffer.memval s 0 = Some 2 /\ Buffer.disk s 0 = Some 1 /\ Buffer.queue s = [] /\
  forallb (fun t => match Buffer.batch (Buffer.pcs s t) with [] => true | _ => false end) [0;1;2;3] = true.
Proof. exact BufferProofs.late_dequeue_loses_update. Qed.
Print Assumptions C16_late_dequeue_refuted.
