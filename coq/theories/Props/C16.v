(* Props/C16.v — Acknowledged writes survive eviction, auto-destroy and shutdown.
   Property theorems only; each is closed by [exact] of a lemma of Conc/LifecycleProofs.v.
   The full statement is FALSE of the faithful model (and of the code): two refutations with
   witnesses that reproduce on the real engine. What is proved for all inputs is only the
   sequential core of Close()/GracefulStop (the flush). The all-schedules partial theorem
   planned in DESIGN 7/C16 (C16_partial_no_lifecycle_race) is not proved. *)
From HV Require Import Base.Prelude Conc.Lifecycle Conc.LifecycleProofs.

(* (i) W1 deletes the last record and decides to auto-destroy while W2 inserts: W2's write is
   acknowledged, Destroy drains W2's vigil and removes the file. Both write modes. *)
Theorem C16_ack_survives_refuted_autodestroy : forall wi0,
  survives (run wi0 1 (init (progs_of w_i_progs)) w_i) = false.
Proof. exact ack_lost_autodestroy. Qed.
Print Assumptions C16_ack_survives_refuted_autodestroy.

(* (ii) the idle listener closes with a lastInteractionTime read before the request's summon;
   the request saves into the closed instance. Lost with a write interval > 0. *)
Theorem C16_ack_survives_refuted_idle_close :
  survives (run false 1 (init (progs_of w_ii_progs)) w_ii) = false.
Proof. exact ack_lost_idle_close_interval_mode. Qed.
Print Assumptions C16_ack_survives_refuted_idle_close.

(* For every write buffer and every file content: after the flush of Close()/GracefulStop every
   key whose last buffered operation is a write is durable, and keys not in the buffer are
   unchanged. *)
Theorem C16_flush_last_write_durable : forall pend dsk k,
  last_op k pend None = Some true -> mem_nat k (flush dsk pend) = true.
Proof. exact flush_last_write_durable. Qed.
Print Assumptions C16_flush_last_write_durable.

Theorem C16_flush_untouched_key : forall pend dsk k,
  last_op k pend None = None -> mem_nat k (flush dsk pend) = mem_nat k dsk.
Proof. exact flush_untouched_key. Qed.
Print Assumptions C16_flush_untouched_key.

Theorem C16_close_flush_durable : forall s i k,
  last_op k (pend (insts s i)) None = Some true -> mem_nat k (disk (close_flush s i)) = true.
Proof. exact close_flush_durable. Qed.
Print Assumptions C16_close_flush_durable.
