(* Props/C16.v — Acknowledged writes survive eviction, auto-destroy and shutdown.
   Property theorems only; each is closed by [exact] of a lemma of Conc/LifecycleProofs.v.
   The full statement is FALSE of the faithful model (and of the code): two refutations with
   witnesses that reproduce on the real engine. What is proved for all inputs is only the
   sequential core of Close()/GracefulStop (the flush). The all-schedules partial theorem
   planned in DESIGN 7/C16 (C16_partial_no_lifecycle_race) is not proved. *)
From HV Require Import Base.Prelude Conc.Lifecycle Conc.LifecycleProofs.
From HV Require Conc.Buffer Conc.BufferProofs.

(* (i) W1 deletes the last record and decides to auto-destroy while W2 inserts: W2's write is
   acknowledged, Destroy drains W2's vigil and removes the file. Both write modes. *)
Theorem C16_ack_survives_refuted_autodestroy : forall wi0,
  survives (run wi0 1 (init (progs_of w_i_progs)) w_i) = false.
Proof. exact ack_lost_autodestroy. Qed.
Print Assumptions C16_ack_survives_refuted_autodestroy.

(* (ii) the idle listener closes with a lastInteractionTime read before the request's summon;
   the request saves into the closed instance. Lost with a write interval > 0. *)
Theorem C16_ack_survives_refuted_idle_close :
  survives (run false 1 (init (progs_of w_ii_progs)) w_ii) = false.
Proof. exact ack_lost_idle_close_interval_mode. Qed.
Print Assumptions C16_ack_survives_refuted_idle_close.

(* For every write buffer and every file content: after the flush of Close()/GracefulStop every
   key whose last buffered operation is a write is durable, and keys not in the buffer are
   unchanged. *)
Theorem C16_flush_last_write_durable : forall pend dsk k,
  last_op k pend None = Some true -> mem_nat k (flush dsk pend) = true.
Proof. exact flush_last_write_durable. Qed.
Print Assumptions C16_flush_last_write_durable.

Theorem C16_flush_untouched_key : forall pend dsk k,
  last_op k pend None = None -> mem_nat k (flush dsk pend) = mem_nat k dsk.
Proof. exact flush_untouched_key. Qed.
Print Assumptions C16_flush_untouched_key.

Theorem C16_close_flush_durable : forall s i k,
  last_op k (pend (insts s i)) None = Some true -> mem_nat k (disk (close_flush s i)) = true.
Proof. exact close_flush_durable. Qed.
Print Assumptions C16_close_flush_durable.

(* ---- the write buffer of one instance, ALL schedules of any number of concurrent writers,
   deleters and flushers (Conc/Buffer.v, tied to fileWriterHandler/SaveFunction by trace
   acceptance of forced flush-window schedules) ---- *)

(* Whenever nothing is queued and no collected batch is unwritten, the chronicler holds the
   current value of every live key. *)
Theorem C16_buffer_quiescent_durable : forall progs sched k v,
  let s := Buffer.run false (Buffer.init progs) sched in
  Buffer.queue s = [] -> (forall t, Buffer.batch (Buffer.pcs s t) = []) ->
  Buffer.mem s k = Buffer.Live v -> Buffer.disk s k = Some v.
Proof. exact BufferProofs.buffer_quiescent_durable. Qed.
Print Assumptions C16_buffer_quiescent_durable.

(* In every reachable state a live key whose current value the chronicler does not hold yet is
   still queued or in a batch a running flusher is going to write: no acknowledged Save is ever
   dropped from the buffer. *)
Theorem C16_buffer_tracks_unwritten : forall progs sched k v,
  let s := Buffer.run false (Buffer.init progs) sched in
  Buffer.mem s k = Buffer.Live v -> Buffer.disk s k <> Some v ->
  Buffer.mem_nat k (Buffer.queue s) = true \/ exists t, In k (Buffer.batch (Buffer.pcs s t)).
Proof. exact BufferProofs.buffer_tracks_unwritten. Qed.
Print Assumptions C16_buffer_tracks_unwritten.

(* In every reachable state in which no other flush is in flight, the close-write of
   Close()/GracefulStop run to completion makes every live key durable with its current value. *)
Theorem C16_close_write_makes_durable : forall progs sched t k v,
  let s := Buffer.run false (Buffer.init progs) sched in
  Buffer.pcs s t = Buffer.FColl -> (forall x, x <> t -> Buffer.batch (Buffer.pcs s x) = []) ->
  let s' := Buffer.run false s (repeat t (3 + length (Buffer.queue s))) in
  Buffer.mem s' k = Buffer.Live v -> Buffer.disk s' k = Some v.
Proof. exact BufferProofs.close_write_makes_durable. Qed.
Print Assumptions C16_close_write_makes_durable.

(* Dequeuing the batch only after it was written (instead of before) loses an update that is
   acknowledged while the batch is being written. *)
Theorem C16_late_dequeue_refuted :
  let s := Buffer.run true (Buffer.init (Buffer.progs_of Buffer.w_late_progs)) Buffer.w_late in
  Buffer.mem s 0 = Buffer.Live 2 /\ Buffer.disk s 0 = Some 1 /\ Buffer.queue s = [] /\
  forallb (fun t => match Buffer.batch (Buffer.pcs s t) with [] => true | _ => false end) [0;1;2;3] = true.
Proof. exact BufferProofs.late_dequeue_loses_update. Qed.
Print Assumptions C16_late_dequeue_refuted.
