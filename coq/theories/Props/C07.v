From HV Require Import Base.Prelude Swamp.Index Swamp.IndexProofs.
Theorem C07_bounds_correct : forall asc a ft tu,
  Sorted.Sorted (ordR asc) a ->
  exists s e, find_bounds asc a ft tu = Some (s, e) /\
    (0 <= s /\ -1 <= e < Z.of_nat (length a) /\ s <= e + 1 /\
    filter (win ft tu) a = firstn (Z.to_nat (e + 1 - s)) (skipn (Z.to_nat s) a))%Z.
Proof. exact bounds_correct. Qed.
Print Assumptions C07_bounds_correct.
