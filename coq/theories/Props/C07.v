(* Props/C07.v — Ordered index reads return the correctly sorted, ranged page.
   Property theorems only; each is closed by [exact] of a lemma proved in Swamp/IndexProofs.v.
   The model (Swamp/Index.v, legacy = false) is tied to swamp.go / beacon.go / gateway.go by the
   C07 correspondence check (histories on the real engine; oracle valid_page + model replay). *)
From HV Require Import Base.Prelude Swamp.Index Swamp.IndexProofs.
From Coq Require Import Sorted Permutation.
Local Open Scope Z_scope.

(* findTimeRangeBounds (its four binary searches) on a slice sorted by the active attribute
   returns exactly the index interval of the entries with from <= ts < to, ascending and
   descending; it neither panics nor runs out of fuel. *)
Theorem C07_bounds_correct : forall asc a ft tu,
  Sorted (ordR asc) a ->
  exists s e, find_bounds asc a ft tu = Some (s, e) /\
    0 <= s /\ -1 <= e < Z.of_nat (length a) /\ s <= e + 1 /\
    filter (win ft tu) a = firstn (Z.to_nat (e + 1 - s)) (skipn (Z.to_nat s) a).
Proof. exact bounds_correct. Qed.
Print Assumptions C07_bounds_correct.

(* GetManyFromOrderPosition on a sorted slice returns the paged cut (drop From, take Limit,
   0 = no limit) of the entries inside the half-open window. *)
Theorem C07_page_correct_on_sorted : forall asc (at_ : skey -> skey) slice from lim ft tu,
  Sorted (fun k1 k2 => ord_leb asc (at_ k1) (at_ k2) = true) slice ->
  0 <= from -> 0 <= lim ->
  get_many asc slice (map at_ slice) from lim ft tu =
    Some (page_of (Z.to_nat from) (Z.to_nat lim) (filter (fun k => win ft tu (at_ k)) slice)).
Proof. exact page_correct_on_sorted. Qed.
Print Assumptions C07_page_correct_on_sorted.

(* Every operation keeps every initialised beacon a sorted permutation of the carriers. *)
Theorem C07_invariant : forall ops, Inv (run false init_st ops).
Proof. intros ops. apply inv_run, inv_init. Qed.
Print Assumptions C07_invariant.

(* The property: after every history (inserts after the first read, updates that move the sort
   attribute or add a timestamp, type changes, deletes, emptied swamps) every index read – any
   index type, order, offset, limit, window – answers, and its page is the paged cut of the
   records that carry the attribute and lie in [from,to), sorted by it, for some order of ties. *)
Theorem C07_reads_correct : forall ops i asc from lim ft tu,
  let s := run false init_st ops in
  exists page, snd (do_read false s i asc from lim ft tu) = Some page /\
               is_spec_page (recs s) i asc from lim ft tu page.
Proof. exact reads_correct. Qed.
Print Assumptions C07_reads_correct.

(* The maintenance rules of the pinned commit (value index always re-sorted as int64; only the
   expiry index refreshed on update) do not have the property; kept as the reason for the fix:
   commits. Both witnesses were reproduced on the real pinned code by the harness. *)
Theorem C07_reads_correct_refuted_legacy_value_insert :
  exists ops i, legacy_read_valid ops i = false.
Proof. exact legacy_reads_refuted. Qed.
Print Assumptions C07_reads_correct_refuted_legacy_value_insert.

Theorem C07_reads_correct_refuted_legacy_time_update :
  exists ops, legacy_read_valid ops IUpdated = false.
Proof. exact legacy_time_reads_refuted. Qed.
Print Assumptions C07_reads_correct_refuted_legacy_time_update.

(* The oracle of the correspondence check: valid_page (a bool) accepts exactly the pages that
   are spec pages for some order of the ties. *)
Theorem C07_valid_page_iff : forall rs i asc from lim ft tu page,
  NoDup (map r_key rs) ->
  (valid_page rs i asc from lim ft tu page = true <-> is_spec_page rs i asc from lim ft tu page).
Proof. exact valid_page_iff. Qed.
Print Assumptions C07_valid_page_iff.
