From HV Require Import Base.Prelude Swamp.Index Swamp.IndexProofs.
Theorem C07_placeholder : True. Proof. exact placeholder. Qed.
Print Assumptions C07_placeholder.
