From HV Require Import Base.Prelude Gen.C22Consts Sdk.Tags Sdk.TagsProofs.
Local Open Scope N_scope.

Theorem C22_tag_dispatch_agrees : forall tag,
  enc_roles false tag = reserved_part (inspect_role tag) /\
  dec_role false tag = reserved_opt (inspect_role tag).
Proof. exact tag_dispatch_agrees. Qed.
Print Assumptions C22_tag_dispatch_agrees.
