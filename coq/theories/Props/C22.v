(* Props/C22.v — SDK model save/read round-trips exactly; a field's tag name never changes how
   another part of the model is encoded or decoded.
   Property theorems only; each is closed by [exact] of a lemma of Sdk/TagsProofs.v or
   Sdk/ConvProofs.v.  Models: Sdk/Tags.v (the three readers of a hydraide tag) and Sdk/Conv.v
   (encoder, gateway slot precedence, decoder; flag sub = false is the current exact-head code,
   sub = true the substring tests before the repair).  The models are tied to the Go code by the
   C22 correspondence check (real SDK over bufconn, generated struct types). *)
From HV Require Import Base.Prelude Gen.C22Consts Sdk.Tags Sdk.TagsProofs Sdk.Conv Sdk.ConvCheck Sdk.ConvProofs.
Local Open Scope N_scope.

(* For every tag, the encoder's and the decoder's chains of tests select exactly the reserved
   slot that inspectCatalogModel assigns to the tag's head (and none for body / ignored tags). *)
Theorem C22_tag_dispatch_agrees : forall tag,
  enc_roles false tag = reserved_part (inspect_role tag) /\
  dec_role false tag = reserved_opt (inspect_role tag).
Proof. exact tag_dispatch_agrees. Qed.
Print Assumptions C22_tag_dispatch_agrees.

(* Before the repair (strings.Contains): "keywords" is the key for the decoder, "values" the value
   for the encoder, and one field can take two encoder branches. *)
Theorem C22_tag_dispatch_refuted_substring :
  (exists tag, dec_role true tag <> reserved_opt (inspect_role tag)) /\
  (exists tag, enc_roles true tag <> reserved_part (inspect_role tag)) /\
  (exists tag, length (enc_roles true tag) = 2%nat).
Proof. exact tag_dispatch_refuted_substring. Qed.
Print Assumptions C22_tag_dispatch_refuted_substring.

(* What held before the repair: tags containing no reserved name anywhere. *)
Theorem C22_tag_dispatch_partial_substring : forall tag,
  no_reserved_substring tag = true ->
  enc_roles true tag = reserved_part (inspect_role tag) /\
  dec_role true tag = reserved_opt (inspect_role tag) /\
  reserved_part (inspect_role tag) = [].
Proof. exact tag_dispatch_partial_substring. Qed.
Print Assumptions C22_tag_dispatch_partial_substring.

(* Renaming a map-body field to any other non-reserved head (same omitempty option) leaves the
   key / typed value / VoidVal / metadata assignments, the shape and every other field's body
   entry unchanged; the renamed field's own entry keeps its value.  Any codec. *)
Theorem C22_field_isolation : forall (B : Type) (C : codec B) msgp pre post nm v t t',
  is_body (inspect_role t) = true -> is_body (inspect_role t') = true -> has_omit t = has_omit t' ->
  let m := pre ++ Build_field nm (Some t) v :: post in
  let m' := pre ++ Build_field nm (Some t') v :: post in
  enc_fields B C false msgp m = enc_fields B C false msgp m' /\
  inspect m = inspect m' /\
  exists e e',
    body_entries m = body_entries pre ++ e ++ body_entries post /\
    body_entries m' = body_entries pre ++ e' ++ body_entries post /\
    map snd e = map snd e' /\ (length e <= 1)%nat.
Proof. exact field_isolation. Qed.
Print Assumptions C22_field_isolation.

(* Decoder side: whatever the treasure holds, a field whose tag head is not reserved is never
   written by the key / value / metadata branches. *)
Theorem C22_field_isolation_decoder : forall (B : Type) (C : codec B) t nm tag v cur,
  is_body (inspect_role tag) = true \/ inspect_role tag = RNone ->
  dec_reserved B C false t (Build_field nm (Some tag) v) cur = Ok cur.
Proof. exact body_field_not_overwritten. Qed.
Print Assumptions C22_field_isolation_decoder.

Theorem C22_field_isolation_refuted_substring :
  enc_fields sblob sym true false witness_title <> enc_fields sblob sym true false witness_values /\
  enc_fields sblob sym false false witness_title = enc_fields sblob sym false false witness_values.
Proof. exact field_isolation_refuted_substring. Qed.
Print Assumptions C22_field_isolation_refuted_substring.

(* Before the repair the accepted model {key "d1", keywords "alpha beta"} read back
   {key "d1", keywords "d1"}; with exact-head tests it round-trips. *)
Theorem C22_roundtrip_refuted_substring :
  save_read sblob sym true false witness_keywords = Ok [VStr w_d1; VStr w_d1] /\
  save_read sblob sym false false witness_keywords = Ok [VStr w_d1; VStr w_ab].
Proof. exact roundtrip_refuted_substring. Qed.
Print Assumptions C22_roundtrip_refuted_substring.

(* Round trip, part 1 (frame): in the assignments made for a whole accepted model, the slots
   owned by a role hold exactly what the single field of that role put there - no other field,
   whatever its tag, interferes. *)
Theorem C22_roundtrip_frame_partial : forall (B : Type) (C : codec B) msgp pre f post l sn,
  enc_fields B C false msgp (pre ++ f :: post) = Ok l ->
  owner sn = frole f ->
  (forall g, In g (pre ++ post) -> frole g <> frole f) ->
  exists lf, enc_field B C false msgp f = Ok lf /\ raw_get B sn l = raw_get B sn lf.
Proof. exact frame. Qed.
Print Assumptions C22_roundtrip_frame_partial.

(* Round trip, part 2 (value slot): for any codec whose gob / msgpack decode inverts encode up to
   nil/empty, what a value field writes (VoidVal + typed slot, with or without omitempty), after
   the gateway's first-non-nil-slot precedence, decodes back to the saved value - for every value
   except sub-second times, plain structs and chan/func (the recorded findings). *)
Theorem C22_roundtrip_value_slot_partial : forall (B : Type) (C : codec B),
  (forall b, c_unraw B C (c_raw B C b) = b) ->
  (forall msgp v b, c_enc B C msgp v = Some b ->
     exists v', c_dec B C b (zero_of v) = Some v' /\ canon v' = canon v) ->
  forall msgp omit v l,
  value_exact v = true ->
  (if omit && is_empty v then Ok (if is_empty v then [(SnVoid, PBool B true)] else [])
   else res_app B (Ok (if is_empty v then [(SnVoid, PBool B true)] else [])) (conv_field B C msgp v)) = Ok l ->
  exists v', set_from B C (pick_content B l) (zero_of v) = Ok v' /\ canon v' = canon v.
Proof. exact value_slot_roundtrip. Qed.
Print Assumptions C22_roundtrip_value_slot_partial.
