From HV Require Import Base.Prelude Storage.Crc32 Storage.Snappy Storage.C04Reader Storage.C04ReaderProofs.
Local Open Scope N_scope.
Theorem C04_crc_check_value : crc32 [49;50;51;52;53;54;55;56;57] = 3421780262.
Proof. exact crc32_check_value. Qed.
Print Assumptions C04_crc_check_value.
