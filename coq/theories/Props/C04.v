(* Props/C04.v — Corrupt storage files are detected, never misread or crash the server.
   Property theorems only; each is closed by [exact] of a lemma proved in
   Storage/C04ReaderProofs.v. The model (Storage/C04Reader.v with Storage/Crc32.v and
   Storage/Snappy.v) is byte-exact and is tied to chronicler/v2 {reader,block,types}.go by the
   C04 correspondence check: the real reader and the model must agree on every generated file,
   including garbage. [policy] = how an incomplete tail is classified (observed from the code)
   and which code version is modelled (p_bound_first/p_sn_bound = true: with the two fix: commits). *)
From HV Require Import Base.Prelude Storage.Crc32 Storage.Snappy Storage.C04Reader Storage.C04ReaderProofs.
Local Open Scope N_scope.

(* For EVERY list of numbers presented as a file, under every tail policy and both code
   versions: loading (NewFileReader+LoadIndex), ScanBlockHeaders, ReadSwampName,
   CalculateFragmentation and ReadAllBlocks end with a
   result or an error - never OutOfFuel (the block loop is given |b|/16 + 2 iterations: it
   consumes at least 16 bytes per iteration, the model-level "never hangs") and never Panic
   (every slice expression and index of the Go code, modelled with checked slicing, is guarded:
   the model-level "never panics"). *)
Theorem C04_total : forall pol b,
  good (fst (read_file_bytes pol b)) /\ good (scan_block_headers b) /\ good (read_swamp_name pol b) /\
  good (calc_fragmentation pol b) /\ good (read_all_blocks pol b).
Proof.
  intros pol b.
  exact (conj (read_file_total pol b) (conj (scan_total b) (conj (read_swamp_name_total pol b)
        (conj (calc_fragmentation_total pol b) (read_all_blocks_total pol b))))).
Qed.
Print Assumptions C04_total.

(* The Snappy decoder model itself never indexes out of range nor needs more than
   |input|+1 iterations. *)
Theorem C04_snappy_total : forall src, sn_good (snappy_decode src).
Proof. exact snappy_decode_good. Qed.
Print Assumptions C04_snappy_total.

(* Repaired code: every allocation request made while loading ANY byte string b is at most
   65535 (a uint16 field: name length, entry-table capacity) or at most 22 x |b|. *)
Theorem C04_alloc_bounded : forall pol b,
  p_bound_first pol = true -> p_sn_bound pol = true -> is_bytes b ->
  Forall (fun a => alloc_ok (lenN b) a = true) (snd (read_file_bytes pol b)).
Proof. exact read_file_alloc_bounded. Qed.
Print Assumptions C04_alloc_bounded.

(* The code before fix a08dea2: an 80-byte file makes the reader request 0xFFFFFFF0 bytes and is
   then accepted as an empty swamp; the repaired code requests 64 + 16 bytes. Replayed on the
   real code by the harness (witness cases 0 and 2). *)
Theorem C04_alloc_bounded_refuted_without_size_bound :
  lenN witness_forged_csize = 80 /\ is_bytes witness_forged_csize /\
  read_file_bytes old_policy witness_forged_csize = (Ok ([], []), [ABuf 64; ABuf 16; ABuf 4294967280]) /\
  snd (read_file_bytes fixed_policy witness_forged_csize) = [ABuf 64; ABuf 16].
Proof. exact alloc_unbounded_before_fix_csize. Qed.
Print Assumptions C04_alloc_bounded_refuted_without_size_bound.

(* The code before fix 445c789: an 87-byte file whose 7-byte block has a consistent CRC makes
   snappy.Decode request 0xFFFFFFFF bytes (harness witness cases 1 and 3). *)
Theorem C04_alloc_bounded_refuted_without_preamble_bound :
  lenN witness_forged_preamble = 87 /\
  read_file_bytes old_policy witness_forged_preamble = (Err ECorrupt, [ABuf 64; ABuf 16; ABuf 7; ABuf 4294967295]) /\
  read_file_bytes fixed_policy witness_forged_preamble = (Err ECorrupt, [ABuf 64; ABuf 16; ABuf 7]).
Proof. exact alloc_unbounded_before_fix_preamble. Qed.
Print Assumptions C04_alloc_bounded_refuted_without_preamble_bound.

(* Whenever loading returns an index: the header stage accepted the file, the block area is a
   sequence of blocks each of which checks out (complete payload, CRC-32 over the compressed
   bytes equal to the header's checksum, Snappy decoding succeeds with the declared length,
   EntryCount entries parse) followed only by a tail too short to hold a block, and the index
   is exactly the last-writer-wins fold over those blocks' entries. (A 32-bit checksum cannot
   exclude a forged or colliding block; "checked" is what the format can promise.) *)
Theorem C04_accepted_blocks_are_checked : forall pol b idx name,
  fst (read_file_bytes pol b) = Ok (idx, name) ->
  exists op blocks tail,
    fst (new_file_reader b) = Ok op /\
    skipN (data_start_offset (o_hdr op)) b = concat (map cb_bytes blocks) ++ tail /\
    Forall block_checked blocks /\
    incomplete_tail tail /\
    (idx, name) = apply_entries (o_name op) (concat (map cb_entries blocks)).
Proof. exact read_file_checked. Qed.
Print Assumptions C04_accepted_blocks_are_checked.

(* Truncation: if the reader accepts f, then for EVERY n reading the first n bytes of f either
   reports io.EOF/io.ErrUnexpectedEOF (EShort) or yields exactly the index of the first k blocks
   of f for some k - a cut is detected or gives a block-boundary prefix, never other records.
   ([block_accepted pol] = the block passes ParseBlock; by C04_accepted_blocks_are_checked such a
   block is checked.) Holds for every tail policy, i.e. with or without torn-tail tolerance. *)
Theorem C04_truncation_detected_or_prefix : forall pol f res,
  fst (read_file_bytes pol f) = Ok res ->
  exists op blocks tail,
    fst (new_file_reader f) = Ok op /\
    skipN (data_start_offset (o_hdr op)) f = concat (map cb_bytes blocks) ++ tail /\
    Forall (block_accepted pol) blocks /\ incomplete_tail tail /\
    res = apply_entries (o_name op) (concat (map cb_entries blocks)) /\
    forall n,
      fst (read_file_bytes pol (firstn n f)) = Err EShort \/
      exists k, fst (read_file_bytes pol (firstn n f)) =
                Ok (apply_entries (o_name op) (concat (map cb_entries (firstn k blocks)))).
Proof. exact read_file_truncation. Qed.
Print Assumptions C04_truncation_detected_or_prefix.
