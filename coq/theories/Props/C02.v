From HV Require Import Base.Prelude Storage.C02Crash.
Theorem C02_placeholder : True. Proof. exact I. Qed.
Print Assumptions C02_placeholder.
