(* Props/C02.v — Crash at any point never loses durable data or the swamp.
   Property theorems only; each is closed by [exact] of a lemma proved in
   Storage/C02Proofs.v / C02WriterProofs.v / C02Examples.v.
   Models: Storage/C02Fs.v (file image, reader), C02Writer.v (writer.go after the repairs,
   flush placement / payload sizes / write faults as oracles), C02Crash.v (crash images).
   They are tied to the code by the C02 correspondence check (strace-captured op logs of the
   real chronicler, every crash image loaded by the real Load, append + reload). *)
From HV Require Import Base.Prelude Storage.C02Fs Storage.C02Writer Storage.C02Crash
  Storage.C02Proofs Storage.C02WriterProofs Storage.C02Examples.
Local Open Scope N_scope.

(* For every swamp-name length, every legal start state (the empty file system, or the disk
   after any earlier crash), every API history h (any placement of flushes, any payload sizes,
   any interleaved write faults), every prefix p of the file operations it issues (a crash
   between or inside any two operations: the cut k of the image may fall at ANY byte of the
   in-flight write) and every crash image img of the state reached:
   the next load does not fail because of the torn tail – the reader errs only when no block
   was ever completely written and the header area itself is incomplete, in which case the
   swamp is legitimately empty –, it returns exactly the blocks up to a flush boundary cs
   with  durable blocks D <= cs <= written blocks B  (so it contains everything synced before
   the crash), D contains what was durable at the start, and the image is again a legal start
   state (the statement therefore covers any number of successive crashes). *)
Theorem C02_crash_recovers_flush_boundary : forall nlen f0 h p q img,
  start_ok nlen f0 -> Forall api_ok h ->
  oplog nlen f0 w_closed h = p ++ q ->
  crash_image nlen (fs_run f0 p) img ->
  let D := loaded_blocks true (dur (fs_run f0 p)) in
  let B := loaded_blocks true (vol (fs_run f0 p)) in
  exists cs,
    (recover true img = Some cs \/ (recover true img = None /\ cs = [] /\ D = [])) /\
    prefix D cs /\ prefix cs B /\
    prefix (loaded_blocks true (dur f0)) D /\
    start_ok nlen (fs_crashed img).
Proof. exact crash_recovers_boundary. Qed.
Print Assumptions C02_crash_recovers_flush_boundary.

(* Everything submitted before a successful Sync/Close is durable after it (in order, nothing
   else), provided no Close failed in between (a failed Close discards its buffer and reports
   the error). With the theorem above: every later crash recovery contains it. Taking f0 =
   [fs_crashed img] this is also "writes made after a recovery are themselves recoverable":
   the durable log is the recovered log followed by the new writes. *)
Theorem C02_synced_entries_durable : forall nlen f0 h f1 w1 ops1 oks1 a w2 ops2,
  start_ok nlen f0 -> Forall api_ok h -> api_ok a -> is_barrier a = true ->
  w_run nlen f0 w_closed h = (f1, w1, ops1, oks1) -> no_failed_close h oks1 = true ->
  w_open w1 = true -> w_step nlen f1 w1 a = (w2, ops2, true) ->
  let f2 := fs_run f1 ops2 in
  elog_of (loaded_blocks true (dur f2)) =
    elog_of (loaded_blocks true (vol f0)) ++ submitted false h /\
  loaded_blocks true (vol f2) = loaded_blocks true (dur f2) /\
  w_buf w2 = [].
Proof. exact synced_entries_durable. Qed.
Print Assumptions C02_synced_entries_durable.

(* The empty file system is a legal start state (the theorems are not vacuous), and a concrete
   torn image is recovered to the synced block. *)
Theorem C02_start_states_exist : forall nlen, start_ok nlen fs_empty.
Proof. exact start_empty. Qed.
Print Assumptions C02_start_states_exist.

Theorem C02_example_torn_payload_recovered :
  crash_image 0 (fs_run fs_empty ex_p) ex_img /\ recover true ex_img = Some [ex_b1].
Proof. exact (conj ex_is_crash_image ex_tolerant_recovers). Qed.
Print Assumptions C02_example_torn_payload_recovered.

(* The code before the repairs (documentation of the defects that were fixed): with the strict
   reader a torn final payload makes a file with a durable block unreadable ... *)
Theorem C02_refuted_for_strict_reader :
  exists h p q img,
    oplog_gen false 0 fs_empty w_closed h = p ++ q /\
    crash_image 0 (fs_run fs_empty p) img /\
    recover false img = None /\
    loaded_blocks false (dur (fs_run fs_empty p)) <> [].
Proof. exact torn_tail_refuted_strict_reader. Qed.
Print Assumptions C02_refuted_for_strict_reader.

(* ... and without truncation on open, writes after the recovery are lost even for a
   tolerant reader. *)
Theorem C02_refuted_without_truncate_on_open :
  let '(f2, _, _, oks) := w_run_gen false 0 (fs_crashed ex_img) w_closed
                            [AOpen; AWrite (3, Some 30) (Some (4, FFok)); AClose 1 FFok true] in
  oks = [true; true; true] /\
  state_of (loaded_blocks true (vol f2)) <> [(1, 10); (3, 30)] /\
  state_of (loaded_blocks false (vol f2)) <> [(1, 10); (3, 30)].
Proof. exact append_after_torn_tail_refuted_no_truncate. Qed.
Print Assumptions C02_refuted_without_truncate_on_open.
