(* Props/C08.v — statements of property C08 (accelerated and full-scan query routes agree). *)
From HV Require Import Base.Prelude Query.Canon Query.Filter Query.Planner Query.Routes.
