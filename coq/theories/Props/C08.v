(* Props/C08.v — statements of property C08 (accelerated and full-scan query routes agree).
   Models: Query/Canon.v, Filter.v, Planner.v, Routes.v (the repaired gateway); proofs in
   Query/FilterProofs.v, PlannerProofs.v, RoutesProofs.v. *)
From HV Require Import Base.Prelude Query.Canon Query.Filter Query.Planner Query.Routes
     Query.FilterProofs Query.PlannerProofs Query.RoutesProofs.
From Coq Require Import Permutation Sorted.
Open Scope string_scope.
Open Scope list_scope.
Open Scope Z_scope.

(* one canonical equality rule: the scan of an indexable leg is the bucket lookup *)
Theorem C08_leg_semantics_agree : forall r l h,
  indexable_hint l = Some h -> not_raw r -> scan_leg r l = matches_hint r h.
Proof. exact leg_semantics_agree. Qed.
Print Assumptions C08_leg_semantics_agree.

Theorem C08_leg_semantics_agree_refuted_float_truncation :
  exists r l h, indexable_hint l = Some h /\ not_raw r /\
                scan_leg_legacy r l = true /\ matches_hint r h = false.
Proof. exact leg_semantics_agree_refuted_float_truncation. Qed.
Print Assumptions C08_leg_semantics_agree_refuted_float_truncation.

Theorem C08_leg_semantics_agree_refuted_uint64_above_2_63 :
  exists r l h, indexable_hint l = Some h /\ not_raw r /\
                scan_leg_legacy r l = true /\ matches_hint r h = false.
Proof. exact leg_semantics_agree_refuted_uint64_above_2_63. Qed.
Print Assumptions C08_leg_semantics_agree_refuted_uint64_above_2_63.

Theorem C08_leg_semantics_agree_refuted_wildcard_path :
  exists r l h, indexable_hint_legacy l = Some h /\ not_raw r /\
                scan_leg r l = true /\ matches_hint r h = false.
Proof. exact leg_semantics_agree_refuted_wildcard_path. Qed.
Print Assumptions C08_leg_semantics_agree_refuted_wildcard_path.

Theorem C08_leg_semantics_agree_refuted_len_path :
  exists r l h, indexable_hint_legacy l = Some h /\ not_raw r /\
                scan_leg r l = true /\ matches_hint r h = false.
Proof. exact leg_semantics_agree_refuted_len_path. Qed.
Print Assumptions C08_leg_semantics_agree_refuted_len_path.

Theorem C08_leg_semantics_agree_refuted_raw_body :
  exists r l h, indexable_hint l = Some h /\ scan_leg r l = false /\ matches_hint r h = true.
Proof. exact leg_semantics_agree_refuted_raw_body. Qed.
Print Assumptions C08_leg_semantics_agree_refuted_raw_body.

(* the planner: match decision and labels are recovered from hints + residual *)
Theorem C08_planner_sound_and : forall g hs resid r,
  plan_filter g = PAnd hs resid -> not_raw r ->
  eval_group scan_leg r g = matches_hints r hs && eval_group scan_leg r resid
  /\ (eval_group scan_leg r g = true -> glabels scan_leg r resid = glabels scan_leg r g).
Proof. exact planner_sound_and. Qed.
Print Assumptions C08_planner_sound_and.

Theorem C08_planner_sound_or : forall g hs resid r,
  plan_filter g = POrUnion hs resid -> not_raw r ->
  eval_group scan_leg r g = matches_hints r hs
  /\ match resid with
     | Some g' => g' = g
     | None => glabels scan_leg r g = []
     end.
Proof. exact planner_sound_or. Qed.
Print Assumptions C08_planner_sound_or.

Theorem C08_planner_sound_refuted_label_dropped :
  exists g r hs resid, plan_filter_legacy g = PAnd hs resid /\ not_raw r /\
    eval_group scan_leg r g = true /\ glabels scan_leg r resid <> glabels scan_leg r g.
Proof. exact planner_sound_refuted_label_dropped. Qed.
Print Assumptions C08_planner_sound_refuted_label_dropped.

(* the routes: paged requests and bypassed filters give identical outputs ... *)
Theorem C08_routes_agree_partial_exact : forall contents ord srt q,
  NoDup (map rkey contents) -> all_not_raw contents -> incl ord contents ->
  paged q = true \/ plan_filter (qfilter q) = PBypass ->
  accel_route scan_leg contents ord srt q = scan_route scan_leg ord q (wrap (qfilter q)).
Proof. exact C08_routes_agree_exact. Qed.
Print Assumptions C08_routes_agree_partial_exact.

(* ... and unpaged bucket-routed requests return the same records with the same labels, each
   output sorted on the index attribute (any tie order), cut by the same MaxResults *)
Theorem C08_routes_agree_partial_unpaged : forall contents ord srt q,
  all_not_raw contents ->
  Permutation ord (filter (eligible (qidx q)) contents) -> StronglySorted (sortedR q) ord ->
  Permutation srt (bucket_unsorted contents q (hints_of (plan_filter (qfilter q)))) ->
  StronglySorted (sortedR q) srt ->
  paged q = false -> plan_filter (qfilter q) <> PBypass ->
  exists S B,
    scan_route scan_leg ord q (wrap (qfilter q)) = take_max (qmax q) (map (rowf (qfilter q)) S)
    /\ accel_route scan_leg contents ord srt q = take_max (qmax q) (map (rowf (qfilter q)) B)
    /\ Permutation S B /\ StronglySorted (sortedR q) S /\ StronglySorted (sortedR q) B.
Proof. exact C08_routes_agree_unpaged. Qed.
Print Assumptions C08_routes_agree_partial_unpaged.

(* the missing hypothesis of the full statement: no msgpack body without the magic prefix *)
Theorem C08_routes_agree_refuted_raw_body :
  exists contents ord srt q,
    NoDup (map rkey contents) /\ incl ord contents /\
    accel_route scan_leg contents ord srt q <> scan_route scan_leg ord q (wrap (qfilter q)).
Proof. exact RoutesProofs.C08_routes_agree_refuted_raw_body. Qed.
Print Assumptions C08_routes_agree_refuted_raw_body.

(* the unrepaired bucket route paged after the indexed restriction *)
Theorem C08_routes_agree_refuted_legacy_paging :
  exists contents ord srt q hs resid,
    plan_filter_legacy (qfilter q) = PAnd hs resid /\
    Permutation srt (candidates contents hs) /\
    accel_route_legacy contents srt q hs (Some resid) <> scan_route scan_leg ord q (wrap (qfilter q)).
Proof. exact RoutesProofs.C08_routes_agree_refuted_legacy_paging. Qed.
Print Assumptions C08_routes_agree_refuted_legacy_paging.

(* the bucket: incremental maintenance around an in-flight build equals a fresh build *)
Theorem C08_bucket_inv : forall (c0 : bstate) (p1 p2 p3 : list bop) (k : string),
  let snapshot := bapply_all c0 p1 in
  let bucket := bapply_all (bapply_all snapshot (p1 ++ p2)) p3 in
  let fresh := bapply_all c0 (p1 ++ p2 ++ p3) in
  bucket k = fresh k.
Proof. exact bucket_inv. Qed.
Print Assumptions C08_bucket_inv.
