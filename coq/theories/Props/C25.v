From HV Require Import Base.Prelude Storage.C25Fault.
Theorem C25_placeholder : True. Proof. exact I. Qed.
Print Assumptions C25_placeholder.
