(* Props/C25.v — Disk write failures never corrupt durable data.
   Property theorems only (proofs in Storage/C02WriterProofs.v, C02Examples.v).
   Fault model (Storage/C02Writer.v, C25Fault.v): any block write of any flush may stop after
   any strict prefix of its bytes (0 = full reject) and fail, the in-place header update may
   fail, the header update / fsync of a Sync or Close may fail, the truncation back after a
   failed block write may fail too (once or repeatedly); faults clear later; any number of
   faults per history. *)
From HV Require Import Base.Prelude Storage.C02Fs Storage.C02Writer Storage.C02Crash
  Storage.C02Proofs Storage.C02WriterProofs Storage.C02Examples Storage.C25Fault.
Local Open Scope N_scope.

(* At every moment – after every single file operation – of every history with arbitrary write
   faults, the file is loadable and contains every block that was complete before, in order:
   a failed write never hides earlier records. (The reader errs only while the header area of
   a brand-new file is still being written and no block ever existed.) *)
Theorem C25_stored_data_stays_readable : forall nlen f0 h p q,
  start_ok nlen f0 -> Forall api_ok h ->
  oplog nlen f0 w_closed h = p ++ q ->
  let B0 := loaded_blocks true (vol f0) in
  let B := loaded_blocks true (vol (fs_run f0 p)) in
  prefix B0 B /\
  (recover true (vol (fs_run f0 p)) = Some B \/
   (recover true (vol (fs_run f0 p)) = None /\ B0 = [] /\ B = [])).
Proof. exact stored_stays_readable. Qed.
Print Assumptions C25_stored_data_stays_readable.

(* Whatever faults occurred, as long as no Close failed: the blocks in the file followed by
   the writer's buffer are exactly the submitted entries in order – entries of a failed block
   write stay buffered, nothing written later is hidden. *)
Theorem C25_file_plus_buffer_is_submitted : forall nlen f0 h f1 w1 ops1 oks1,
  start_ok nlen f0 -> Forall api_ok h ->
  w_run nlen f0 w_closed h = (f1, w1, ops1, oks1) -> no_failed_close h oks1 = true ->
  elog_of (loaded_blocks true (vol f1)) ++ w_buf w1 =
    elog_of (loaded_blocks true (vol f0)) ++ submitted false h.
Proof. exact file_plus_buffer_is_submitted. Qed.
Print Assumptions C25_file_plus_buffer_is_submitted.

(* Once the fault has cleared (a Sync or Close succeeds) everything submitted – before, during
   and after the faults – is stored, durable and recoverable. *)
Theorem C25_later_writes_recoverable : forall nlen f0 h f1 w1 ops1 oks1 a w2 ops2,
  start_ok nlen f0 -> Forall api_ok h -> api_ok a -> is_barrier a = true ->
  w_run nlen f0 w_closed h = (f1, w1, ops1, oks1) -> no_failed_close h oks1 = true ->
  w_open w1 = true -> w_step nlen f1 w1 a = (w2, ops2, true) ->
  let f2 := fs_run f1 ops2 in
  elog_of (loaded_blocks true (dur f2)) =
    elog_of (loaded_blocks true (vol f0)) ++ submitted false h /\
  loaded_blocks true (vol f2) = loaded_blocks true (dur f2) /\
  w_buf w2 = [].
Proof. exact synced_entries_durable. Qed.
Print Assumptions C25_later_writes_recoverable.

(* Non-vacuity: a history with a block write that stops after 20 of 23 bytes satisfies the
   hypotheses, and the repaired writer stores all three records. *)
Theorem C25_example_short_write_repaired :
  Forall api_ok ex_fault_h /\
  let '(f2, _, _, oks) := w_run 0 fs_empty w_closed
        [AOpen; AWrite (1, Some 10) (Some (5, FFok)); AWrite (2, Some 20) (Some (7, FFshort 20));
         AWrite (3, Some 30) (Some (9, FFok)); AClose 1 FFok true] in
  state_of (loaded_blocks true (dur f2)) = [(1, 10); (2, 20); (3, 30)] /\
  oks = [true; true; false; true; true].
Proof. exact (conj ex_fault_hyps_ok ex_fault_repaired). Qed.
Print Assumptions C25_example_short_write_repaired.

(* Non-vacuity for the double fault "block write stops short AND the truncation back fails,
   the next flush still cannot truncate": once the fault clears all four records are stored. *)
Theorem C25_example_failed_truncation_repaired :
  Forall api_ok ex_dirty_h /\
  let '(f2, _, ops, oks) := w_run 0 fs_empty w_closed ex_dirty_h in
  state_of (loaded_blocks true (dur f2)) = [(1, 10); (2, 20); (3, 30); (4, 40)] /\
  oks = [true; true; false; false; true; true] /\
  canon_log ops = [(1, 0); (2, 64); (2, 16); (2, 5); (3, 64); (2, 16); (2, 4);
                   (4, 85); (2, 16); (2, 11); (3, 64); (3, 64); (5, 0); (6, 0)].
Proof. exact (conj ex_dirty_hyps_ok ex_dirty_tail_repaired). Qed.
Print Assumptions C25_example_failed_truncation_repaired.

(* The writer before the repair (documentation of the fixed defect): the partial block stays
   in the middle of the file, nothing behind it can be read and the failed block's entry is
   dropped. *)
Theorem C25_refuted_before_repair :
  let '(f2, _, _, _) := w_run_gen false 0 fs_empty w_closed ex_fault_h in
  state_of (loaded_blocks true (vol f2)) = [] /\
  recover false (vol f2) = None /\
  state_of_entries [] (submitted false ex_fault_h) = [(1, 10); (2, 20); (3, 30)].
Proof. exact short_block_write_refuted_before_repair. Qed.
Print Assumptions C25_refuted_before_repair.
