(* Props/C23.v — V1 to V2 migration preserves exactly the loadable data.
   Property theorems only; proofs in Storage/C23MigrateProofs.v, model in Storage/C23Migrate.v
   (V1 folder = chunk files of segments + meta name; migrator = load/dedupe, write, verify, delete).
   The model is tied to migrator.go and the V1 chronicler by harness/cmd/c23. *)
From HV Require Import Base.Prelude Storage.C03Compact Storage.C03CompactProofs
                       Storage.C23Migrate Storage.C23MigrateProofs.
Local Open Scope N_scope.

(* For every folder the migrator accepts (hex-named readable chunk files, decodable segments) whose
   chunk files agree on shared keys, every flag combination without dry-run, every map iteration
   order of the legacy Load ([order]) and of the migrator ([perm]): the migrated file loads to
   exactly the records - keys and values - the legacy engine loads, and stores the meta name;
   the V1 folder is deleted iff delete-old was requested. *)
Theorem C23_migration_preserves : forall cfg perm folder order,
  let files := v1_files folder in
  clean files -> consistent files ->
  (forall f, In f order <-> In f files) ->
  dry_run cfg = false ->
  v1_load files <> [] ->
  covers perm (v1_load files) ->
  exists hydf st,
    migrate cfg perm WNoFault folder PreNone =
      (MS (if delete_old cfg then None else Some folder) (PreFile hydf), PSuccess) /\
    load_index hydf = Some st /\
    (forall k, ilookup k (fst st) = ilookup k (v1_load order)) /\
    snd st = v1_meta folder.
Proof. exact migration_preserves. Qed.
Print Assumptions C23_migration_preserves.

(* Folders written by the V1 engine: every write/modify/delete history with any chunk roll-over
   decisions keeps each key in at most one chunk file (the swamp submits a key as new only when
   no chunk holds it). *)
Theorem C23_v1_write_inv : forall ops cs cs',
  NoDup (all_keys cs) -> v1_run cs ops = Some cs' -> NoDup (all_keys cs').
Proof. exact v1_write_inv. Qed.
Print Assumptions C23_v1_write_inv.

(* ... hence every folder produced by a V1 history migrates exactly, for every chunk size. *)
Theorem C23_migration_preserves_v1_histories : forall ops cs cfg perm meta order,
  v1_run [] ops = Some cs ->
  let folder := V1 (map chunk_file cs) meta in
  (forall f, In f order <-> In f (v1_files folder)) ->
  dry_run cfg = false -> v1_load (v1_files folder) <> [] -> covers perm (v1_load (v1_files folder)) ->
  exists hydf st,
    migrate cfg perm WNoFault folder PreNone = (MS (if delete_old cfg then None else Some folder) (PreFile hydf), PSuccess) /\
    load_index hydf = Some st /\
    (forall k, ilookup k (fst st) = ilookup k (v1_load order)) /\ snd st = meta.
Proof. exact migration_preserves_v1_histories. Qed.
Print Assumptions C23_migration_preserves_v1_histories.

(* For every configuration, every folder (readable or not), every pre-existing .hyd and every write
   fault: the V1 folder is either untouched or deleted; it is deleted only with delete-old, no dry-run
   and a successful (or empty-skipped) migration; success implies the write did not fail and, with
   verify, that verification passed; a failed verification removes the new file; load failure,
   dry-run and empty-skip leave the target path untouched. *)
Theorem C23_failure_leaves_v1_intact : forall cfg perm wf folder pre st ph,
  migrate cfg perm wf folder pre = (st, ph) ->
  (m_v1 st = Some folder \/ m_v1 st = None) /\
  (m_v1 st = None -> delete_old cfg = true /\ dry_run cfg = false /\ (ph = PSuccess \/ ph = PSkippedEmpty)) /\
  (ph = PSuccess -> wf = WNoFault /\
     (verify cfg = true -> exists ix, mig_load (v1_files folder) = MLOk ix /\ verify_ok (m_hyd st) ix = true)) /\
  (ph = PFailVerify -> m_hyd st = PreNone) /\
  (ph = PFailLoad \/ ph = PDryRun \/ ph = PSkippedEmpty -> m_hyd st = pre).
Proof. exact failure_leaves_v1_intact. Qed.
Print Assumptions C23_failure_leaves_v1_intact.

(* informational: the tool's own verification only checks key presence *)
Theorem C23_verify_is_weak :
  exists hyd expected k, verify_ok (PreFile hyd) expected = true /\
    ilookup k expected = Some 10 /\
    option_map (fun st => ilookup k (fst st)) (load_index hyd) = Some (Some 99).
Proof. exact verify_is_weak. Qed.
Print Assumptions C23_verify_is_weak.

(* The hypothesis "no .hyd at the target path" of C23_migration_preserves is necessary: the writer
   appends to an existing file with a valid header (known finding preexisting_hyd_appended). With the
   repaired writer a torn final block of that file is cut off first, so the old file's complete
   blocks survive; a file shorter than its header is harmless (next theorem). *)
Theorem C23_preexisting_hyd_refuted :
  exists pre st,
    migrate (CFG false true true) [1; 3] WNoFault ex_folder (PreFile pre) = (st, PSuccess) /\
    m_v1 st = None /\
    ilookup 2 (v1_load (v1_files ex_folder)) = None /\
    option_map (fun s => (ilookup 2 (fst s), snd s)) (match hyd_img (m_hyd st) with Some f => load_index f | None => None end)
      = Some (Some 20, 9).
Proof. exact preexisting_hyd_refuted. Qed.
Print Assumptions C23_preexisting_hyd_refuted.

(* a target shorter than its header (interrupted creation) behaves exactly like no target: the
   writer creates it again; on the paths that do not write it is left alone *)
Theorem C23_short_target_harmless : forall cfg perm wf folder,
  migrate cfg perm wf folder PreShort = migrate cfg perm wf folder PreNone \/
  exists ph, (ph = PFailLoad \/ ph = PDryRun \/ ph = PSkippedEmpty) /\
             snd (migrate cfg perm wf folder PreShort) = ph /\ snd (migrate cfg perm wf folder PreNone) = ph /\
             m_v1 (fst (migrate cfg perm wf folder PreShort)) = m_v1 (fst (migrate cfg perm wf folder PreNone)) /\
             m_hyd (fst (migrate cfg perm wf folder PreShort)) = PreShort.
Proof. exact short_target_harmless. Qed.
Print Assumptions C23_short_target_harmless.

(* same finding, second shape: a target with a complete but corrupt block stays unreadable after the
   append; without --verify the run succeeds and --delete-old removes the V1 data *)
Theorem C23_corrupt_target_refuted :
  exists st, migrate (CFG false false true) [1; 3] WNoFault ex_folder (PreFile (FTorn 9 [])) = (st, PSuccess) /\
             m_v1 st = None /\ (match hyd_img (m_hyd st) with Some f => load_index f | None => None end) = None.
Proof. exact corrupt_target_refuted. Qed.
Print Assumptions C23_corrupt_target_refuted.

(* informational: with the same key in two chunk files the legacy Load itself is order dependent *)
Theorem C23_dup_refuted :
  exists f g, ilookup 1 (v1_load [f; g]) <> ilookup 1 (v1_load [g; f]).
Proof. exact dup_refuted. Qed.
Print Assumptions C23_dup_refuted.
