(* Props/C21.v — Swamp settings resolve deterministically from registered patterns.
   Property theorems only.  Model: [Settings/Pattern.v] (registry = the Go map s.patterns as an
   association list in *any* iteration order; skip_quirk = false is the current code), tied to
   app/core/settings/settings.go by the C21 correspondence check. *)
From HV Require Import Base.Prelude Settings.Pattern Settings.PatternProofs.
From Coq Require Import Permutation.
Local Open Scope N_scope.

(* [wf_events]: the registrations are settings as RegisterPattern stores them (in-memory ones
   carry no write interval / file size: [mk_sett_wf]).
   For every history of registrations / re-registrations / deregistrations and every map
   iteration order, GetBySwampName returns the setting of the most specific registered
   pattern that matches the name (the last registration of a pattern counts). *)
Theorem C21_most_specific_wins : forall evs order n,
  wf_events evs ->
  Permutation (run false evs) order ->
  lookup_best order n = spec_lookup evs n.
Proof. exact lookup_is_spec. Qed.
Print Assumptions C21_most_specific_wins.

(* [spec_lookup] is what the property text says: a registered matching pattern at least as
   specific as every other registered matching pattern, or the default when none matches. *)
Theorem C21_spec_is_most_specific : forall evs n,
  wf_events evs ->
  (exists p s, last_reg evs p = Some s /\ matches n p = true /\ spec_lookup evs n = s /\
               forall q s', last_reg evs q = Some s' -> matches n q = true -> rank q <= rank p)
  \/ ((forall q, matches n q = true -> last_reg evs q = None) /\ spec_lookup evs n = default_sett).
Proof. exact spec_lookup_most_specific. Qed.
Print Assumptions C21_spec_is_most_specific.

(* The answer depends only on the set of registrations in force, not on the order in which
   they were made nor on the iteration order of the map. *)
Theorem C21_order_independent : forall evs evs' order order' n,
  wf_events evs -> wf_events evs' ->
  (forall p, last_reg evs p = last_reg evs' p) ->
  Permutation (run false evs) order -> Permutation (run false evs') order' ->
  lookup_best order n = lookup_best order' n.
Proof. exact lookup_order_independent. Qed.
Print Assumptions C21_order_independent.

(* Specificity has no ties among the patterns matching one name. *)
Theorem C21_specificity_total : forall n p q,
  matches n p = true -> matches n q = true -> rank p = rank q -> p = q.
Proof. exact specificity_antisym. Qed.
Print Assumptions C21_specificity_total.

(* The same settings apply after a restart (save to settings.json, reload). *)
Theorem C21_restart_stable : forall evs n,
  wf_events evs ->
  lookup_best (load (save (run false evs))) n = lookup_best (run false evs) n.
Proof. exact restart_stable. Qed.
Print Assumptions C21_restart_stable.

(* Restarts may also happen anywhere inside a history (register, restart, register, look up,
   ...): every lookup is answered as in the history without the restarts. *)
Theorem C21_restarts_invisible : forall evs order order' n,
  wf_events evs ->
  Permutation (run false evs) order ->
  Permutation (run false (filter (fun e => negb (is_restart e)) evs)) order' ->
  lookup_best order n = lookup_best order' n.
Proof. exact restarts_invisible. Qed.
Print Assumptions C21_restarts_invisible.

(* The lookups of a history are answered from the registrations in force at that moment
   (C21_most_specific_wins holds for every prefix of a history); in particular a pattern is
   out of force immediately after its deregistration. *)
Theorem C21_deregistered_pattern_not_in_force : forall evs p,
  last_reg (evs ++ [Dereg p]) p = None.
Proof. exact deregistered_pattern_not_in_force. Qed.
Print Assumptions C21_deregistered_pattern_not_in_force.

(* Pinned commit: first match in map iteration order - two orders, two answers. *)
Theorem C21_order_independent_refuted_for_first_match :
  exists evs order1 order2 n,
    Permutation (run false evs) order1 /\ Permutation (run false evs) order2 /\
    in_mem (lookup_first order1 n) = true /\ in_mem (lookup_first order2 n) = false.
Proof. exact first_match_refuted. Qed.
Print Assumptions C21_order_independent_refuted_for_first_match.

(* ... it was right only when at most one registered pattern matches the name. *)
Theorem C21_first_match_partial : forall r n,
  (forall e1 e2, In e1 r -> In e2 r -> matches n (fst e1) = true -> matches n (fst e2) = true -> e1 = e2) ->
  lookup_first r n = lookup_best r n.
Proof. exact first_match_partial. Qed.
Print Assumptions C21_first_match_partial.

(* Pinned commit: an in-memory pattern re-registered as persistent with zero filesystem
   settings was skipped as "unchanged". *)
Theorem C21_last_registration_refuted_with_skip_quirk :
  exists evs p, option_map in_mem (last_reg evs p) = Some false /\
                option_map in_mem (assoc (run true evs) p) = Some true.
Proof. exact reregistration_refuted. Qed.
Print Assumptions C21_last_registration_refuted_with_skip_quirk.
