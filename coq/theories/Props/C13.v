From HV Require Import Base.Prelude Patch.Msgpack.
Theorem C13_placeholder : True. Proof. exact I. Qed.
Print Assumptions C13_placeholder.
