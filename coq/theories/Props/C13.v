(* Props/C13.v — Structural msgpack patch matches its documented semantics.
   Property theorems only; each is closed by [exact] of a lemma proved in Patch/MsgpackProofs.v
   or Patch/OpsProofs.v.  The models (Patch/{Msgpack,Path,Ops,Cond}.v, configuration cfg_fixed =
   the repaired code, cfg_orig = the code as found) are tied to msgpackpatch by the C13
   correspondence check (exact output bytes / error class on every generated case, all eight
   ops) and by the table Gen/C13Consts.v printed from the compiled package. *)
From Coq Require Import Floats.SpecFloat.
From HV Require Import Base.Prelude Patch.Msgpack Patch.Path Patch.Float Patch.Ops Patch.Cond
  Patch.DocSpec Patch.MsgpackProofs Patch.OpsProofs Patch.FrameProofs Patch.RefineProofs Patch.MergeProofs Patch.FloatExamples Gen.C13Consts.
Local Open Scope N_scope.

(* All 256 lead bytes: the model's classifiers (map/array/string/integer/float code, numeric
   class) and what Decoder.Skip consumes on two probe inputs equal the table printed from the
   compiled Go code. *)
Theorem C13_lead_byte_table : forall c, c < 256 ->
  nth_error c13_lead_table (N.to_nat c) = Some (entry c).
Proof. exact lead_table_matches. Qed.
Print Assumptions C13_lead_byte_table.

(* Decoder.Skip accepts only the msgpack grammar [WF]: whatever it consumes is one well-formed
   value; hence a value that passed the new validation is well-formed. *)
Theorem C13_validated_value_wellformed : forall v, valid_value v = true -> WF v.
Proof. exact valid_value_WF. Qed.
Print Assumptions C13_validated_value_wellformed.

(* Every skeleton produced by Parse has only well-formed leaves. *)
Theorem C13_parse_leaves_wellformed : forall b s, parse b = Ok s -> leaves_wf s.
Proof. exact parse_leaves_wf. Qed.
Print Assumptions C13_parse_leaves_wellformed.

(* A reported success of the repaired code (all eight ops, any condition, any paths, any value
   bytes) is the serialisation of a skeleton with only well-formed leaves; when no container of
   the result has 2^32 or more children and no key 2^32 or more bytes it is exactly one
   well-formed msgpack value. *)
Theorem C13_success_wellformed : forall body ops cd out,
  apply_with_cond cfg_fixed body ops cd = Ok out ->
  exists s', out = serialize s' /\ leaves_wf s' /\ (small s' -> WF out).
Proof. exact success_wellformed. Qed.
Print Assumptions C13_success_wellformed.

(* The code as found: SET x <0xc1> reports success and the body no longer decodes. *)
Theorem C13_success_wellformed_refuted_without_validation :
  exists body ops out,
    apply_with_cond cfg_orig body ops None = Ok out /\ valid_value body = true /\ valid_value out = false.
Proof. exact success_wellformed_refuted_without_validation. Qed.
Print Assumptions C13_success_wellformed_refuted_without_validation.

(* Untouched values keep their exact bytes and relative order: for each of the eight ops (either
   configuration), the sequence of leaf byte strings of the result is that of the input with only
   the segment belonging to the addressed target (empty when the target does not exist) replaced. *)
Theorem C13_untouched_bytes_preserved : forall c s o segs s',
  apply_op c s o segs = Ok s' ->
  exists l1 new l2, leaves s = l1 ++ target_leaves segs s ++ l2 /\ leaves s' = l1 ++ new ++ l2.
Proof. exact untouched_bytes_preserved. Qed.
Print Assumptions C13_untouched_bytes_preserved.

(* A failing patch leaves the stored body unchanged (PatchFields stores only on success). *)
Theorem C13_atomic_on_failure : forall c stored ops cd,
  fst (patch_fields c stored ops cd) <> 0 -> snd (patch_fields c stored ops cd) = stored.
Proof. exact atomic_on_failure. Qed.
Print Assumptions C13_atomic_on_failure.

(* One failing op fails the whole patch, whatever the earlier ops did. *)
Theorem C13_failing_op_fails_patch : forall c body ops1 o ops2 cd s s1 e,
  parse body = Ok s -> apply_ops c s ops1 = Ok s1 -> apply_ops c s1 [o] = Err e ->
  exists e', apply_with_cond c body (ops1 ++ o :: ops2) cd = Err e'.
Proof. exact failing_op_fails_patch. Qed.
Print Assumptions C13_failing_op_fails_patch.

(* An unmet (or failing) condition fails the patch before any op runs. *)
Theorem C13_unmet_condition_fails_patch : forall c body ops cd s e,
  parse body = Ok s -> eval_cond c s cd = Err e -> apply_with_cond c body ops (Some cd) = Err e.
Proof. exact unmet_condition_fails_patch. Qed.
Print Assumptions C13_unmet_condition_fails_patch.

(* INC on an int target: int8/16/32/64 keep their code and the value is the exact sum wrapped in
   two's complement at that width (the documentation is silent about overflow; the wrap is
   stated here); a negative-fixint target comes back as int64. *)
Theorem C13_inc_keeps_type_int : forall code a b nb,
  inc_bytes code (NInt a) (NInt b) = Ok nb ->
  let rc := if in_range 208 210 code then code else 211 in
  leaf_code nb = rc /\
  read_numeric nb = Ok (NInt (signed (width_bits rc) (z_mod_pow (a + b) (width_bits rc)))).
Proof. exact inc_int_type_and_wrap. Qed.
Print Assumptions C13_inc_keeps_type_int.

Theorem C13_inc_keeps_type_uint : forall code a b nb,
  inc_bytes code (NUint a) (NUint b) = Ok nb ->
  let rc := if in_range 204 206 code then code else 207 in
  leaf_code nb = rc /\ read_numeric nb = Ok (NUint ((a + b) mod 2 ^ N.of_nat (width_bits rc))).
Proof. exact inc_uint_type_and_wrap. Qed.
Print Assumptions C13_inc_keeps_type_uint.

Theorem C13_inc_keeps_type_float : forall code a b nb,
  inc_bytes code (NFloat a) (NFloat b) = Ok nb -> leaf_code nb = (if code =? 202 then 202 else 203).
Proof. exact inc_float_type. Qed.
Print Assumptions C13_inc_keeps_type_float.

(* "keeps the target's type" is false for fixint targets: they are widened to 64 bits. *)
Theorem C13_inc_keeps_code_refuted_for_fixint :
  exists body ops out, apply_with_cond cfg_fixed body ops None = Ok out /\
    body = [129; 161; 120; 1] /\ out = [129; 161; 120; 207; 0; 0; 0; 0; 0; 0; 0; 2].
Proof. exact inc_keeps_code_refuted_for_fixint. Qed.
Print Assumptions C13_inc_keeps_code_refuted_for_fixint.

(* Comparisons follow numeric order within a class. *)
Theorem C13_numeric_order_int : forall c a b x y, a <> [] -> b <> [] ->
  read_numeric a = Ok (NInt x) -> read_numeric b = Ok (NInt y) ->
  compare_leaf c a b = Ok (of_comparison (x ?= y)%Z).
Proof. exact compare_int_order. Qed.
Print Assumptions C13_numeric_order_int.

Theorem C13_numeric_order_uint : forall c a b x y, a <> [] -> b <> [] ->
  read_numeric a = Ok (NUint x) -> read_numeric b = Ok (NUint y) ->
  compare_leaf c a b = Ok (of_comparison (x ?= y)).
Proof. exact compare_uint_order. Qed.
Print Assumptions C13_numeric_order_uint.

(* Floats follow IEEE order; a NaN operand is unordered, and an unordered result satisfies
   NOT_EQUAL only. *)
Theorem C13_numeric_order_float : forall a b x y, a <> [] -> b <> [] ->
  read_numeric a = Ok (NFloat x) -> read_numeric b = Ok (NFloat y) ->
  compare_leaf cfg_fixed a b =
    Ok (match SFcompare x y with Some r => of_comparison r | None => CUnord end) /\
  (sf_is_nan x = true \/ sf_is_nan y = true -> compare_leaf cfg_fixed a b = Ok CUnord).
Proof. exact compare_float_order. Qed.
Print Assumptions C13_numeric_order_float.

Theorem C13_nan_equals_nothing : forall cop, cond_met cop CUnord = Some true <-> cop = 1.
Proof. exact unordered_only_not_equal. Qed.
Print Assumptions C13_nan_equals_nothing.

(* The code as found: NaN EQUAL NaN was met, NaN NOT_EQUAL NaN was not. *)
Theorem C13_numeric_order_refuted_for_nan_before_fix :
  apply_with_cond cfg_orig nan_body [] (Some (nan_cond 0)) = Ok nan_body /\
  apply_with_cond cfg_orig nan_body [] (Some (nan_cond 1)) = Err ECondNotMet.
Proof. exact numeric_order_refuted_for_nan_before_fix. Qed.
Print Assumptions C13_numeric_order_refuted_for_nan_before_fix.

(* Refinement of the documented semantics (Patch/DocSpec.v), partial: for ONE op of kind SET,
   DELETE, INC, APPEND, PREPEND or REMOVE_AT (any path, any value bytes) on a skeleton whose
   leaves are scalars (as produced by Parse), the document denoted by the byte-level result is
   the result of the documented operation on the denoted document, and failures have the same
   error class.  Missing for the full statement: REMOVE_VAL and MERGE (validated by the harness
   against DocSpec on every case), and op lists in which a later op addresses a container
   inserted by an earlier one (refuted below). *)
Theorem C13_ops_refine_docspec_partial : forall s o segs,
  clean s -> op_kind o <= 5 ->
  nres (apply_op cfg_fixed s o segs) = doc_op (norm s) o segs.
Proof. exact op_refines_docspec. Qed.
Print Assumptions C13_ops_refine_docspec_partial.

(* SET m {b:1}; SET m.b 2 in one patch: the code rejects the patch (TYPE_MISMATCH), the
   documented semantics give m = {b:2}. *)
Theorem C13_ops_refine_docspec_refuted :
  exists body ops d,
    apply_with_cond cfg_fixed body ops None = Err EType /\
    decode body = Ok d /\ (exists d', doc_patch d ops None = Ok d').
Proof. exact ops_refine_docspec_refuted_for_container_then_navigate. Qed.
Print Assumptions C13_ops_refine_docspec_refuted.

(* MERGE never manufactures duplicate keys: for ANY merge value (repeated keys, keys new to the
   target or not) a target with pairwise distinct keys stays so, and every key of the value is
   present afterwards. *)
Theorem C13_merge_no_duplicate_keys : forall pfs target,
  NoDup (keys target) -> NoDup (keys (merge_into target pfs)).
Proof. exact merge_into_nodup. Qed.
Print Assumptions C13_merge_no_duplicate_keys.

Theorem C13_merge_has_all_keys : forall pfs target k,
  In k (map fst pfs) -> In k (keys (merge_into target pfs)).
Proof. exact merge_into_has_all_keys. Qed.
Print Assumptions C13_merge_has_all_keys.

(* A float32 field is compared with a float64 threshold at float64 precision (the field is widened
   exactly, the threshold never narrowed): 0.1f > 0.1, 0.1f equals only its exact float64 image,
   1f < 1+2^-52, float32 max < 1e300. *)
Theorem C13_float32_field_vs_float64_threshold :
  compare_leaf cfg_fixed f32_0_1 f64_0_1 = Ok CGt /\
  compare_leaf cfg_fixed f64_0_1 f32_0_1 = Ok CLt /\
  compare_leaf cfg_fixed f32_0_1 f64_of_f32_0_1 = Ok CEq /\
  compare_leaf cfg_fixed f32_1 f64_1_eps = Ok CLt /\
  compare_leaf cfg_fixed f32_max f64_1e300 = Ok CLt.
Proof. exact float32_field_vs_float64_threshold. Qed.
Print Assumptions C13_float32_field_vs_float64_threshold.
