(* Props/C30.v — Expiry semantics are consistent across every read and claim path. *)
From HV Require Import Base.Prelude Record.Expiry Record.ExpiryProofs.
Local Open Scope Z_scope.

Theorem C30_spec_decidable : forall now e, expiredb now e = true <-> expired now e.
Proof. exact expiredb_spec. Qed.
Print Assumptions C30_spec_decidable.
