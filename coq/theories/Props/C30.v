(* Props/C30.v — Expiry semantics are consistent across every read and claim path.
   Property theorems only; each is closed by [exact] of a lemma of Record/ExpiryProofs.v.
   Spec: expired now e := e <> 0 /\ e < now.  The model (Record/Expiry.v) transcribes every
   expiry-aware site of treasure.go, beacon.go, swamp.go, swamp_patch(_expired).go,
   filter_native.go, gateway*.go; it is tied to the code by the C30 correspondence check. *)
From HV Require Import Base.Prelude Record.Expiry Record.ExpiryProofs.
Local Open Scope Z_scope.

(* For every e and now (all of Z, so zero and pre-epoch values included): IsExpired, the tests
   of ShiftExpired / SelectExpiredForPatch(WithCap), the filter "ExpiredAt < now" and the
   expiry-index window [.., now) are the spec; index membership (4 maintenance sites),
   IS_EMPTY / IS_NOT_EMPTY and the three wire projections are "e <> 0"; every comparison
   filter is "e <> 0 and the comparison". *)
Theorem C30_predicates_agree : forall now e,
  (site_is_expired now e = expiredb now e /\
   site_shift_expired now e = expiredb now e /\
   site_select_for_patch now e = expiredb now e /\
   site_select_for_patch_cap now e = expiredb now e /\
   site_filter_cmp OpLt now e = expiredb now e /\
   site_index_window None (Some now) e = expiredb now e) /\
  (site_index_add e = has_expiry e /\
   site_index_build e = has_expiry e /\
   site_index_save e = has_expiry e /\
   site_index_reindex e = has_expiry e /\
   site_filter_is_not_empty e = has_expiry e /\
   site_filter_is_empty e = negb (has_expiry e) /\
   site_wire_treasure e = has_expiry e /\
   site_wire_increment e = has_expiry e /\
   site_wire_patch_expired e = has_expiry e) /\
  (forall op ref, site_filter_cmp op ref e = has_expiry e && compare_ordered op e ref).
Proof. exact predicates_agree. Qed.
Print Assumptions C30_predicates_agree.

Theorem C30_spec_decidable : forall now e,
  (expiredb now e = true <-> expired now e) /\ (has_expiry e = true <-> e <> 0).
Proof. intros now e. split; [apply expiredb_spec | apply has_expiry_spec]. Qed.
Print Assumptions C30_spec_decidable.

(* The wire projection of the pinned commit (ExpiredAt reported only when > 0) broke the
   agreement: a pre-epoch expiry is expired, indexed and claimable but was shown as "never
   expires".  Kept as the reason for the fix: commit; it agreed only for e >= 0. *)
Theorem C30_wire_refuted_before_fix :
  exists now e, expired now e /\ site_shift_expired now e = true /\ site_index_build e = true /\
                site_wire_treasure_old e = false.
Proof. exact wire_old_refuted. Qed.
Print Assumptions C30_wire_refuted_before_fix.

Theorem C30_wire_before_fix_partial : forall e, 0 <= e -> site_wire_treasure_old e = has_expiry e.
Proof. exact wire_old_partial. Qed.
Print Assumptions C30_wire_before_fix_partial.

(* A record without expiry never expires on any path. *)
Theorem C30_never_expires : forall now,
  site_is_expired now 0 = false /\ site_shift_expired now 0 = false /\
  site_select_for_patch now 0 = false /\ site_select_for_patch_cap now 0 = false /\
  site_index_add 0 = false /\ site_index_build 0 = false /\ site_index_save 0 = false /\
  site_index_reindex 0 = false /\ site_filter_is_empty 0 = true /\ site_wire_treasure 0 = false /\
  (forall op ref, site_filter_cmp op ref 0 = false) /\
  (forall from to, site_index_window from to 0 = false).
Proof. exact never_expires. Qed.
Print Assumptions C30_never_expires.

(* After every history of Set / Increment-metadata / Patch-meta (set, slide, clear) / Delete /
   index reads / reloads / ShiftExpired / ShiftMatching-window / PatchExpired, with the sticky
   change flags taking any values: a built expiry index holds exactly the keys whose record has
   a non-zero expiry. *)
Theorem C30_index_membership : forall sat h l k,
  idx (run sat init h) = Some l ->
  (In k l <-> exists r, lookup k (recs (run sat init h)) = Some r /\ r_exp r <> 0).
Proof. exact index_membership. Qed.
Print Assumptions C30_index_membership.

(* In every reachable state the three claim paths return exactly the expired records. *)
Theorem C30_claims_exact : forall sat h now k o,
  o = OShiftExpired now \/ o = OShiftWindow now \/ (exists c t f, o = OPatchExpired now c t f) ->
  (In k (claim_result (run sat init h) o) <->
   exists r, lookup k (recs (run sat init h)) = Some r /\ expired now (r_exp r)).
Proof. exact claims_exact. Qed.
Print Assumptions C30_claims_exact.

(* ... and reads through the expiry index (any window) exactly the records with an expiry in it. *)
Theorem C30_index_read_exact : forall sat h from to k,
  In k (claimed_keys (in_window from to) (build_index (run sat init h))) <->
  exists r, lookup k (recs (run sat init h)) = Some r /\ r_exp r <> 0 /\ in_window from to (r_exp r) = true.
Proof. exact index_read_exact. Qed.
Print Assumptions C30_index_read_exact.

(* Before and after a reload: no record and no claim changes. *)
Theorem C30_reload_transparent : forall sat h,
  recs (run sat init (h ++ [OReload])) = recs (run sat init h) /\
  forall now k o,
    o = OShiftExpired now \/ o = OShiftWindow now \/ (exists c t f, o = OPatchExpired now c t f) ->
    (In k (claim_result (run sat init (h ++ [OReload])) o) <-> In k (claim_result (run sat init h) o)).
Proof. exact reload_transparent. Qed.
Print Assumptions C30_reload_transparent.

(* Patch meta: clear wins over set and yields "never expires"; no field => untouched; a set of
   an instant that fits int64 ns stores exactly it; any other valid non-epoch instant is stored
   as a real expiry on the same side of every now (current code, saturating). *)
Theorem C30_clear_slide : forall sat t e,
  patch_path sat true t e = (0, true) /\
  patch_path sat false None e = (e, false) /\
  (forall s n, t = Some (s, n) -> is_zero_time s n = false ->
     min_i64 <= instant s n <= max_i64 ->
     patch_path sat false t e = (instant s n, true)) /\
  (forall s n, t = Some (s, n) -> is_zero_time s n = false -> instant s n <> 0 ->
     forall now, min_i64 < now <= max_i64 ->
     let e' := fst (patch_path true false t e) in
     e' <> 0 /\ (expired now e' <-> instant s n < now)).
Proof. exact clear_slide. Qed.
Print Assumptions C30_clear_slide.

(* SetExpirationTime of the pinned commit let UnixNano wrap: a valid timestamp in the year 2300
   was stored as an already expired instant.  Reason for the second fix: commit. *)
Theorem C30_far_future_wrap_refuted_before_fix :
  exists s n now, ts_is_valid s n = true /\ 0 < now <= max_i64 /\ now < instant s n /\
                  expired now (set_expiration_time false s n).
Proof. exact set_expiration_wrap_refuted. Qed.
Print Assumptions C30_far_future_wrap_refuted_before_fix.

(* What the three input paths accept (they differ: Set ignores whole-second pre-epoch instants and
   the epoch, Increment metadata and Patch meta ignore only Go's zero time), and that what Get
   reports (seconds, nanos) is the stored value. *)
Theorem C30_input_acceptance : forall sat s n e, ts_is_valid s n = true ->
  (snd (set_path sat (Some (s, n)) e) = (0 <? s) || (0 <? n)) /\
  (snd (inc_path sat (Some (s, n)) e) = negb (is_zero_time s n)) /\
  (snd (patch_path sat false (Some (s, n)) e) = negb (is_zero_time s n)).
Proof. exact input_acceptance. Qed.
Print Assumptions C30_input_acceptance.

Theorem C30_wire_roundtrip : forall e,
  instant (wire_seconds e) (wire_nanos e) = e /\ 0 <= wire_nanos e < giga.
Proof. exact wire_roundtrip. Qed.
Print Assumptions C30_wire_roundtrip.
