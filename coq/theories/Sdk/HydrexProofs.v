(* Sdk/HydrexProofs.v — proofs about the Hydrex model (Sdk/Hydrex.v).

   One invariant relates the store reached by any sequence of Save/Destroy to the specification
   state  sp : index -> domain -> items  (the items of the last Save, [] after Destroy):
     - core data of (i,d) has exactly the keys of  sp i d
     - the index swamp of (i,k) lists d  iff  k is a key of  sp i d
     - (code with the value rewrite, fixd = true)  core values are those of  sp i d.
   It holds for every iteration-order oracle and every clock. *)
From HV Require Import Base.Prelude Sdk.Hydrex.
Local Open Scope N_scope.

(* ---- association lists ------------------------------------------------------------------- *)
Section AssocFacts.
  Context {K V : Type} (eqb : K -> K -> bool).
  Hypothesis eqb_spec : forall a b, eqb a b = true <-> a = b.

  Lemma eqb_refl' : forall a, eqb a a = true.
  Proof. intro a. apply eqb_spec. reflexivity. Qed.

  Lemma eqb_sym' : forall a b, eqb a b = eqb b a.
  Proof.
    intros a b. destruct (eqb a b) eqn:E1, (eqb b a) eqn:E2; try reflexivity.
    - apply eqb_spec in E1. subst. rewrite eqb_refl' in E2. discriminate.
    - apply eqb_spec in E2. subst. rewrite eqb_refl' in E1. discriminate.
  Qed.

  Lemma eqb_trans_l : forall a b c, eqb a b = true -> eqb a c = eqb b c.
  Proof. intros a b c E. apply eqb_spec in E. subst. reflexivity. Qed.

  Lemma alookup_aremove : forall k k' (l : list (K * V)),
    alookup eqb k (aremove eqb k' l) = if eqb k k' then None else alookup eqb k l.
  Proof.
    intros k k' l. induction l as [|[a v] t IH]; simpl.
    - destruct (eqb k k'); reflexivity.
    - destruct (eqb k' a) eqn:E1.
      + rewrite IH. destruct (eqb k k') eqn:E2; [reflexivity|].
        destruct (eqb k a) eqn:E3; [|reflexivity].
        apply eqb_spec in E1. apply eqb_spec in E3. subst. rewrite eqb_refl' in E2. discriminate.
      + simpl. destruct (eqb k a) eqn:E3.
        * destruct (eqb k k') eqn:E2; [|reflexivity].
          apply eqb_spec in E2. apply eqb_spec in E3. subst. rewrite eqb_refl' in E1. discriminate.
        * exact IH.
  Qed.

  Lemma alookup_aupsert : forall k k' v (l : list (K * V)),
    alookup eqb k (aupsert eqb k' v l) = if eqb k k' then Some v else alookup eqb k l.
  Proof.
    intros k k' v l. induction l as [|[a w] t IH]; simpl.
    - destruct (eqb k k'); reflexivity.
    - destruct (eqb k' a) eqn:E1; simpl.
      + destruct (eqb k k') eqn:E2; [reflexivity|].
        destruct (eqb k a) eqn:E3; [|reflexivity].
        apply eqb_spec in E1. apply eqb_spec in E3. subst. rewrite eqb_refl' in E2. discriminate.
      + destruct (eqb k a) eqn:E3.
        * destruct (eqb k k') eqn:E2; [|reflexivity].
          apply eqb_spec in E2. apply eqb_spec in E3. subst. rewrite eqb_refl' in E1. discriminate.
        * exact IH.
  Qed.

  Lemma alookup_app : forall k (l1 l2 : list (K * V)),
    alookup eqb k (l1 ++ l2) =
    match alookup eqb k l1 with Some e => Some e | None => alookup eqb k l2 end.
  Proof.
    intros k l1 l2. induction l1 as [|[a v] t IH]; simpl; [reflexivity|].
    destruct (eqb k a); [reflexivity|exact IH].
  Qed.
End AssocFacts.

Lemma Neqb_spec : forall a b : N, N.eqb a b = true <-> a = b.
Proof. exact N.eqb_eq. Qed.

Lemma sname_eqb_spec : forall a b, sname_eqb a b = true <-> a = b.
Proof.
  intros [s1 r1 w1] [s2 r2 w2]. unfold sname_eqb. simpl. split.
  - intro H. apply andb_true_iff in H as [H H3]. apply andb_true_iff in H as [H1 H2].
    apply N.eqb_eq in H2. apply N.eqb_eq in H3. subst.
    destruct s1, s2; simpl in H1; try discriminate; reflexivity.
  - intro H. inversion H; subst. rewrite !N.eqb_refl. destruct s2; reflexivity.
Qed.

Definition is_some {A} (o : option A) : bool := match o with Some _ => true | None => false end.

Lemma amem_is_some : forall {V} k (l : list (N * V)), amem N.eqb k l = is_some (alookup N.eqb k l).
Proof. reflexivity. Qed.

Lemma nmem_map_fst : forall {V} k (l : list (N * V)), nmem k (map fst l) = amem N.eqb k l.
Proof.
  intros V k l. unfold amem. induction l as [|[a v] t IH]; simpl; [reflexivity|].
  destruct (N.eqb k a); simpl; [reflexivity|exact IH].
Qed.

(* ---- folds over a swamp --------------------------------------------------------------------- *)
Lemma alookup_fold_upsert : forall k (kvs : list (N * entry)) (s : swamp),
  alookup N.eqb k (fold_left (fun s kv => aupsert N.eqb (fst kv) (snd kv) s) kvs s) =
  match alookup N.eqb k (rev kvs) with Some e => Some e | None => alookup N.eqb k s end.
Proof.
  intros k kvs. induction kvs as [|[a v] t IH]; intro s; simpl; [reflexivity|].
  rewrite IH. rewrite (alookup_app N.eqb). rewrite (alookup_aupsert N.eqb Neqb_spec). simpl.
  destruct (alookup N.eqb k (rev t)); [reflexivity|].
  destruct (N.eqb k a); reflexivity.
Qed.

Lemma alookup_fold_remove : forall k (keys : list N) (s : swamp),
  alookup N.eqb k (fold_left (fun s k => aremove N.eqb k s) keys s) =
  if nmem k keys then None else alookup N.eqb k s.
Proof.
  intros k keys. induction keys as [|a t IH]; intro s; simpl; [reflexivity|].
  rewrite IH. rewrite (alookup_aremove N.eqb Neqb_spec).
  destruct (N.eqb k a); simpl; destruct (nmem k t); reflexivity.
Qed.

(* ---- the store ------------------------------------------------------------------------------- *)
Definition sget (st : store) (sw : sname) (k : N) : option entry :=
  alookup N.eqb k (read_many st sw).

Lemma read_many_set_swamp : forall st sw s sw',
  read_many (set_swamp st sw s) sw' = if sname_eqb sw' sw then s else read_many st sw'.
Proof.
  intros st sw s sw'. unfold read_many, set_swamp. destruct s as [|x t].
  - rewrite (alookup_aremove sname_eqb sname_eqb_spec). destruct (sname_eqb sw' sw); reflexivity.
  - rewrite (alookup_aupsert sname_eqb sname_eqb_spec). destruct (sname_eqb sw' sw); reflexivity.
Qed.

Lemma read_many_eq : forall st sw sw', sname_eqb sw' sw = true -> read_many st sw' = read_many st sw.
Proof. intros st sw sw' E. apply sname_eqb_spec in E. subst. reflexivity. Qed.

Lemma sget_save_many : forall st sw kvs sw' k,
  sget (save_many st sw kvs) sw' k =
  if sname_eqb sw' sw
  then match alookup N.eqb k (rev kvs) with Some e => Some e | None => sget st sw' k end
  else sget st sw' k.
Proof.
  intros st sw kvs sw' k. unfold sget, save_many. destruct kvs as [|x t].
  - simpl. destruct (sname_eqb sw' sw); reflexivity.
  - rewrite read_many_set_swamp. destruct (sname_eqb sw' sw) eqn:E; [|reflexivity].
    rewrite alookup_fold_upsert. rewrite (read_many_eq st sw sw' E). reflexivity.
Qed.

Lemma sget_delete_many : forall st sw keys sw' k,
  sget (delete_many st sw keys) sw' k =
  if sname_eqb sw' sw && nmem k keys then None else sget st sw' k.
Proof.
  intros st sw keys sw' k. unfold sget, delete_many.
  destruct (alookup sname_eqb sw st) as [s|] eqn:L.
  - rewrite read_many_set_swamp. destruct (sname_eqb sw' sw) eqn:E; simpl; [|reflexivity].
    rewrite alookup_fold_remove. rewrite (read_many_eq st sw sw' E). unfold read_many. rewrite L.
    reflexivity.
  - destruct (sname_eqb sw' sw) eqn:E; simpl; [|reflexivity].
    rewrite (read_many_eq st sw sw' E). unfold read_many. rewrite L. simpl.
    destruct (nmem k keys); reflexivity.
Qed.

Lemma sget_destroy : forall st sw sw' k,
  sget (destroy_swamp st sw) sw' k = if sname_eqb sw' sw then None else sget st sw' k.
Proof.
  intros st sw sw' k. unfold sget, destroy_swamp, read_many.
  rewrite (alookup_aremove sname_eqb sname_eqb_spec). destruct (sname_eqb sw' sw); reflexivity.
Qed.

(* the per-index loops of Save and Destroy *)
Definition hits (i : N) (ks : list N) (sw : sname) : bool :=
  existsb (fun k => sname_eqb sw (idx_name i k)) ks.

Lemma sget_fold_idx_delete : forall i d ks st sw x,
  sget (fold_left (fun s k => delete_many s (idx_name i k) [d]) ks st) sw x =
  if hits i ks sw && N.eqb x d then None else sget st sw x.
Proof.
  intros i d ks. induction ks as [|a t IH]; intros st sw x; simpl; [reflexivity|].
  rewrite IH. rewrite sget_delete_many. simpl. rewrite orb_false_r.
  destruct (sname_eqb sw (idx_name i a)); simpl; destruct (hits i t sw); simpl;
    destruct (N.eqb x d); reflexivity.
Qed.

Lemma sget_fold_idx_save : forall i d e ks st sw x,
  sget (fold_left (fun s k => save_many s (idx_name i k) [(d, e)]) ks st) sw x =
  if hits i ks sw && N.eqb x d then Some e else sget st sw x.
Proof.
  intros i d e ks. induction ks as [|a t IH]; intros st sw x; cbn [fold_left]; [reflexivity|].
  rewrite IH. rewrite sget_save_many.
  change (hits i (a :: t) sw) with (sname_eqb sw (idx_name i a) || hits i t sw).
  cbn [rev app alookup].
  destruct (hits i t sw); destruct (N.eqb x d) eqn:E;
    destruct (sname_eqb sw (idx_name i a)); simpl; reflexivity.
Qed.

Lemma hits_core : forall i ks i' d', hits i ks (core_name i' d') = false.
Proof. intros i ks i' d'. unfold hits. induction ks as [|a t IH]; simpl; [reflexivity|exact IH]. Qed.

Lemma hits_idx : forall i ks i' k', hits i ks (idx_name i' k') = N.eqb i' i && nmem k' ks.
Proof.
  intros i ks i' k'. unfold hits. induction ks as [|a t IH]; simpl.
  - rewrite andb_false_r. reflexivity.
  - rewrite IH. unfold sname_eqb. simpl. destruct (N.eqb i' i); simpl; reflexivity.
Qed.

(* ---- iteration orders ------------------------------------------------------------------------- *)
Lemma nmem_insert_by : forall pri k a l, nmem k (insert_by pri a l) = N.eqb k a || nmem k l.
Proof.
  intros pri k a l. induction l as [|x t IH]; simpl; [reflexivity|].
  destruct (N.ltb (pos_in a pri) (pos_in x pri)); simpl; [reflexivity|].
  rewrite IH. destruct (N.eqb k a), (N.eqb k x); reflexivity.
Qed.

Lemma nmem_order_by : forall pri k l, nmem k (order_by pri l) = nmem k l.
Proof.
  intros pri k l. unfold order_by. induction l as [|a t IH]; simpl; [reflexivity|].
  rewrite nmem_insert_by. rewrite IH. reflexivity.
Qed.

Lemma nmem_filter : forall f k l, nmem k (filter f l) = nmem k l && f k.
Proof.
  intros f k l. induction l as [|a t IH]; simpl; [reflexivity|].
  destruct (f a) eqn:F; simpl; rewrite IH; destruct (N.eqb k a) eqn:E; simpl; try reflexivity.
  - apply N.eqb_eq in E. subst. rewrite F. reflexivity.
  - apply N.eqb_eq in E. subst. rewrite F. rewrite andb_false_r. reflexivity.
Qed.

(* rows appended by the second loop of Save: a function of the key, at most one row *)
Lemma alookup_rev_flat_map : forall (f : N -> list (N * entry)) k l,
  (forall a, f a = [] \/ exists e, f a = [(a, e)]) ->
  alookup N.eqb k (rev (flat_map f l)) = if nmem k l then alookup N.eqb k (f k) else None.
Proof.
  intros f k l Hf. induction l as [|a t IH]; simpl; [reflexivity|].
  rewrite rev_app_distr. rewrite (alookup_app N.eqb). rewrite IH.
  destruct (N.eqb k a) eqn:E; simpl.
  - apply N.eqb_eq in E. subst a.
    assert (R : alookup N.eqb k (rev (f k)) = alookup N.eqb k (f k)).
    { destruct (Hf k) as [H|[e H]]; rewrite H; reflexivity. }
    destruct (nmem k t); [|exact R].
    destruct (alookup N.eqb k (f k)); [reflexivity|exact R].
  - assert (R : alookup N.eqb k (rev (f a)) = None).
    { destruct (Hf a) as [H|[e H]]; rewrite H; simpl; [reflexivity|]. rewrite E. reflexivity. }
    destruct (nmem k t); [|exact R].
    destruct (alookup N.eqb k (f k)); [reflexivity|exact R].
Qed.

Lemma save_row_shape : forall fixd existing its now a,
  save_row fixd existing its now a = [] \/ exists e, save_row fixd existing its now a = [(a, e)].
Proof.
  intros. unfold save_row. destruct (alookup N.eqb a its); [|left; reflexivity].
  destruct (alookup N.eqb a existing).
  - destruct (fixd && negb (N.eqb n (e_val e))); [right; eexists; reflexivity|left; reflexivity].
  - right; eexists; reflexivity.
Qed.

(* ---- effect of Save and Destroy on single cells ------------------------------------------------- *)
Definition same_id (i d i' d' : N) : bool := N.eqb i' i && N.eqb d' d.

Lemma sname_eqb_core : forall i d i' d', sname_eqb (core_name i' d') (core_name i d) = same_id i d i' d'.
Proof. reflexivity. Qed.
Lemma sname_eqb_core_idx : forall i d i' k', sname_eqb (core_name i d) (idx_name i' k') = false.
Proof. reflexivity. Qed.
Lemma sname_eqb_idx_core : forall i d i' k', sname_eqb (idx_name i' k') (core_name i d) = false.
Proof. reflexivity. Qed.

Lemma delete_opt_sget : forall st sw dels sw' k,
  sget (match dels with [] => st | _ => delete_many st sw dels end) sw' k =
  if sname_eqb sw' sw && nmem k dels then None else sget st sw' k.
Proof.
  intros st sw dels sw' k. destruct dels as [|a t].
  - simpl. rewrite andb_false_r. reflexivity.
  - apply sget_delete_many.
Qed.

Lemma hx_save_core : forall fixd st i d its o i' d' k,
  sget (hx_save fixd st i d its o) (core_name i' d') k =
  if same_id i d i' d' then
    match alookup N.eqb k its with
    | None => None
    | Some v =>
        match sget st (core_name i d) k with
        | None => Some (mk_entry v (o_now o))
        | Some e => if fixd && negb (N.eqb v (e_val e)) then Some (mk_entry v (e_created e)) else Some e
        end
    end
  else sget st (core_name i' d') k.
Proof.
  intros fixd st i d its o i' d' k. unfold hx_save.
  rewrite sget_fold_idx_save. rewrite hits_core. simpl.
  rewrite sget_save_many. rewrite sname_eqb_core.
  rewrite delete_opt_sget. rewrite sname_eqb_core.
  rewrite sget_fold_idx_delete. rewrite hits_core. simpl.
  destruct (same_id i d i' d') eqn:S; simpl; [|reflexivity].
  assert (ID : core_name i' d' = core_name i d).
  { unfold same_id in S. apply andb_true_iff in S as [S1 S2].
    apply N.eqb_eq in S1. apply N.eqb_eq in S2. subst. reflexivity. }
  rewrite ID.
  rewrite (alookup_rev_flat_map _ k _ (save_row_shape fixd _ its (o_now o))).
  rewrite nmem_order_by. rewrite nmem_map_fst. rewrite nmem_filter. rewrite nmem_order_by.
  rewrite nmem_map_fst. unfold save_row. unfold sget. unfold amem.
  destruct (alookup N.eqb k its) as [v|] eqn:Li; simpl.
  - destruct (alookup N.eqb k (read_many st (core_name i d))) as [e|] eqn:Le; simpl.
    + destruct (fixd && negb (N.eqb v (e_val e))); simpl; rewrite ?N.eqb_refl; simpl;
        rewrite ?andb_false_r; reflexivity.
    + rewrite ?N.eqb_refl; simpl; reflexivity.
  - destruct (alookup N.eqb k (read_many st (core_name i d))) as [e|] eqn:Le; simpl;
      rewrite ?andb_false_r; reflexivity.
Qed.

Lemma hx_save_idx : forall fixd st i d its o i' k' d',
  sget (hx_save fixd st i d its o) (idx_name i' k') d' =
  if same_id i d i' d' then
    if amem N.eqb k' its && negb (is_some (sget st (core_name i d) k')) then Some (mk_entry 0 (o_now o))
    else if is_some (sget st (core_name i d) k') && negb (amem N.eqb k' its) then None
    else sget st (idx_name i' k') d'
  else sget st (idx_name i' k') d'.
Proof.
  intros fixd st i d its o i' k' d'. unfold hx_save.
  rewrite sget_fold_idx_save. rewrite hits_idx.
  rewrite sget_save_many. rewrite sname_eqb_idx_core.
  rewrite delete_opt_sget. rewrite sname_eqb_idx_core. simpl.
  rewrite sget_fold_idx_delete. rewrite hits_idx.
  rewrite !nmem_filter. rewrite !nmem_order_by. rewrite !nmem_map_fst.
  unfold same_id. unfold sget. unfold amem.
  destruct (N.eqb i' i); simpl; [|reflexivity].
  destruct (N.eqb d' d); simpl; [|rewrite !andb_false_r; reflexivity].
  rewrite !andb_true_r.
  destruct (alookup N.eqb k' its); simpl;
    destruct (alookup N.eqb k' (read_many st (core_name i d))); simpl; reflexivity.
Qed.

Lemma hx_destroy_core : forall st i d i' d' k,
  sget (hx_destroy st i d) (core_name i' d') k =
  if same_id i d i' d' then None else sget st (core_name i' d') k.
Proof.
  intros st i d i' d' k. unfold hx_destroy.
  rewrite sget_fold_idx_delete. rewrite hits_core. simpl.
  rewrite sget_destroy. rewrite sname_eqb_core. reflexivity.
Qed.

Lemma hx_destroy_idx : forall st i d i' k' d',
  sget (hx_destroy st i d) (idx_name i' k') d' =
  if same_id i d i' d' && is_some (sget st (core_name i d) k') then None
  else sget st (idx_name i' k') d'.
Proof.
  intros st i d i' k' d'. unfold hx_destroy.
  rewrite sget_fold_idx_delete. rewrite hits_idx. rewrite nmem_map_fst.
  rewrite sget_destroy. rewrite sname_eqb_idx_core.
  unfold same_id, sget, amem.
  destruct (N.eqb i' i); simpl; [|reflexivity].
  destruct (alookup N.eqb k' (read_many st (core_name i d))); simpl;
    destruct (N.eqb d' d); simpl; reflexivity.
Qed.

(* ---- the invariant --------------------------------------------------------------------------- *)
Definition spec := N -> N -> items.

Definition spec_upd (sp : spec) (i d : N) (its : items) : spec :=
  fun i' d' => if same_id i d i' d' then its else sp i' d'.

Definition spec_step' (sp : spec) (x : op) : spec :=
  match x with
  | OSave i d its _ => spec_upd sp i d its
  | ODestroy i d => spec_upd sp i d []
  end.

Record Inv (fixd : bool) (st : store) (sp : spec) : Prop := {
  inv_core : forall i d k, is_some (sget st (core_name i d) k) = amem N.eqb k (sp i d);
  inv_idx : forall i k d, is_some (sget st (idx_name i k) d) = amem N.eqb k (sp i d);
  inv_val : fixd = true -> forall i d k,
      option_map e_val (sget st (core_name i d) k) = alookup N.eqb k (sp i d)
}.

Lemma inv_init : forall fixd, Inv fixd [] (fun _ _ => []).
Proof. intro fixd. split; intros; reflexivity. Qed.

Lemma same_id_eq : forall i d i' d', same_id i d i' d' = true -> i' = i /\ d' = d.
Proof.
  intros i d i' d' S. unfold same_id in S. apply andb_true_iff in S as [S1 S2].
  apply N.eqb_eq in S1. apply N.eqb_eq in S2. auto.
Qed.

Lemma inv_step : forall fixd st sp x, Inv fixd st sp -> Inv fixd (step fixd st x) (spec_step' sp x).
Proof.
  intros fixd st sp x [Hc Hi Hv]. destruct x as [i d its o|i d]; simpl.
  - (* Save *)
    split.
    + intros i' d' k. rewrite hx_save_core. unfold spec_upd.
      destruct (same_id i d i' d') eqn:S; [|apply Hc].
      unfold amem. destruct (alookup N.eqb k its); [|reflexivity].
      destruct (sget st (core_name i d) k); [|reflexivity].
      destruct (fixd && negb (N.eqb n (e_val e))); reflexivity.
    + intros i' k' d'. rewrite hx_save_idx. unfold spec_upd.
      destruct (same_id i d i' d') eqn:S; [|apply Hi].
      apply same_id_eq in S as [-> ->].
      specialize (Hc i d k'). specialize (Hi i k' d). rewrite <- Hc in Hi.
      destruct (amem N.eqb k' its); destruct (is_some (sget st (core_name i d) k')); simpl;
        try reflexivity; exact Hi.
    + intros F i' d' k. rewrite hx_save_core. unfold spec_upd.
      destruct (same_id i d i' d') eqn:S; [|apply (Hv F)].
      destruct (alookup N.eqb k its) as [v|]; [|reflexivity].
      destruct (sget st (core_name i d) k) as [e|]; [|reflexivity].
      rewrite F. simpl. destruct (N.eqb v (e_val e)) eqn:E; simpl; [|reflexivity].
      apply N.eqb_eq in E. subst. reflexivity.
  - (* Destroy *)
    split.
    + intros i' d' k. rewrite hx_destroy_core. unfold spec_upd.
      destruct (same_id i d i' d'); [reflexivity|apply Hc].
    + intros i' k' d'. rewrite hx_destroy_idx. unfold spec_upd.
      destruct (same_id i d i' d') eqn:S; simpl; [|apply Hi].
      apply same_id_eq in S as [-> ->].
      specialize (Hc i d k'). specialize (Hi i k' d). rewrite <- Hc in Hi.
      destruct (is_some (sget st (core_name i d) k')); simpl; [reflexivity|exact Hi].
    + intros F i' d' k. rewrite hx_destroy_core. unfold spec_upd.
      destruct (same_id i d i' d'); [reflexivity|apply (Hv F)].
Qed.

Lemma inv_fold : forall fixd ops st sp, Inv fixd st sp ->
  Inv fixd (fold_left (step fixd) ops st) (fold_left spec_step' ops sp).
Proof.
  intros fixd ops. induction ops as [|x t IH]; intros st sp H; simpl; [exact H|].
  apply IH. apply inv_step. exact H.
Qed.

(* the functional spec state agrees with [last_saved] *)
Lemma last_saved_fold : forall ops sp acc i d,
  sp i d = acc -> fold_left spec_step' ops sp i d = fold_left (spec_step i d) ops acc.
Proof.
  intros ops. induction ops as [|x t IH]; intros sp acc i d H; simpl; [exact H|].
  apply IH. destruct x as [i' d' its o|i' d']; simpl; unfold spec_upd, same_id; rewrite H;
    reflexivity.
Qed.

Lemma inv_run : forall fixd ops, Inv fixd (run fixd ops) (last_saved ops).
Proof.
  intros fixd ops. unfold run.
  assert (E : forall i d, fold_left spec_step' ops (fun _ _ => []) i d = last_saved ops i d).
  { intros i d. unfold last_saved. apply last_saved_fold. reflexivity. }
  destruct (inv_fold fixd ops [] (fun _ _ => []) (inv_init fixd)) as [Hc Hi Hv].
  split.
  - intros i d k. rewrite <- E. apply Hc.
  - intros i k d. rewrite <- E. apply Hi.
  - intros F i d k. rewrite <- E. apply (Hv F).
Qed.

(* ---- membership views --------------------------------------------------------------------------- *)
Lemma In_map_fst_amem : forall {V} k (l : list (N * V)), In k (map fst l) <-> amem N.eqb k l = true.
Proof.
  intros V k l. rewrite <- nmem_map_fst. unfold nmem. rewrite existsb_exists. split.
  - intro H. exists k. split; [exact H|apply N.eqb_refl].
  - intros [x [H E]]. apply N.eqb_eq in E. subst. exact H.
Qed.

Lemma alookup_core_values : forall st i d k,
  alookup N.eqb k (core_values st i d) = option_map e_val (sget st (core_name i d) k).
Proof.
  intros st i d k. unfold core_values, get_core, sget.
  induction (read_many st (core_name i d)) as [|[a e] t IH]; simpl; [reflexivity|].
  destruct (N.eqb k a); [reflexivity|exact IH].
Qed.

(* ---- theorems ------------------------------------------------------------------------------------ *)
Theorem index_consistent : forall fixd ops i d k,
  In d (map fst (get_index (run fixd ops) i k)) <-> In k (map fst (get_core (run fixd ops) i d)).
Proof.
  intros fixd ops i d k. rewrite !In_map_fst_amem. rewrite !amem_is_some.
  destruct (inv_run fixd ops) as [Hc Hi _].
  unfold get_index, get_core. fold (sget (run fixd ops) (idx_name i k) d).
  fold (sget (run fixd ops) (core_name i d) k). rewrite Hc, Hi. reflexivity.
Qed.

Theorem index_is_spec : forall fixd ops i d k,
  In d (map fst (get_index (run fixd ops) i k)) <-> In k (map fst (last_saved ops i d)).
Proof.
  intros fixd ops i d k. rewrite !In_map_fst_amem. rewrite amem_is_some.
  destruct (inv_run fixd ops) as [_ Hi _].
  unfold get_index. fold (sget (run fixd ops) (idx_name i k) d). rewrite Hi. reflexivity.
Qed.

Theorem core_is_last_saved : forall ops i d k,
  alookup N.eqb k (core_values (run true ops) i d) = alookup N.eqb k (last_saved ops i d).
Proof.
  intros ops i d k. rewrite alookup_core_values.
  destruct (inv_run true ops) as [_ _ Hv]. apply Hv. reflexivity.
Qed.

Theorem core_keys_partial : forall fixd ops i d k,
  In k (map fst (get_core (run fixd ops) i d)) <-> In k (map fst (last_saved ops i d)).
Proof.
  intros fixd ops i d k. rewrite !In_map_fst_amem. rewrite amem_is_some.
  destruct (inv_run fixd ops) as [Hc _ _].
  unfold get_core. fold (sget (run fixd ops) (core_name i d) k). rewrite Hc. reflexivity.
Qed.

Definition or0 : oracle := {| o_old := []; o_new := []; o_now := 1 |}.

(* the pinned code: save k:=7 then k:=8 leaves 7 *)
Theorem core_is_last_saved_refuted_without_rewrite :
  exists ops i d k,
    alookup N.eqb k (core_values (run false ops) i d) <> alookup N.eqb k (last_saved ops i d).
Proof.
  exists [OSave 0 0 [(0, 7)] or0; OSave 0 0 [(0, 8)] or0], 0, 0, 0.
  vm_compute. discriminate.
Qed.

(* ---- no row twice ----------------------------------------------------------------------------- *)
Definition swamp_ok (s : swamp) : Prop := NoDup (map fst s).
Definition store_ok (st : store) : Prop := forall sw, swamp_ok (read_many st sw).

Lemma In_fst_aremove : forall k a (s : swamp), In a (map fst (aremove N.eqb k s)) -> In a (map fst s).
Proof.
  intros k a s. induction s as [|[b e] t IH]; simpl; [auto|].
  destruct (N.eqb k b); simpl; intro H; [right; auto|destruct H; [left; auto|right; auto]].
Qed.

Lemma aremove_ok : forall k s, swamp_ok s -> swamp_ok (aremove N.eqb k s).
Proof.
  intros k s. unfold swamp_ok. induction s as [|[b e] t IH]; simpl; intro H; [constructor|].
  inversion H as [|x l Hn Hd]; subst. destruct (N.eqb k b); simpl; [auto|].
  constructor; [|auto]. intro C. apply Hn. eapply In_fst_aremove. exact C.
Qed.

Lemma In_fst_aupsert : forall k v a (s : swamp),
  In a (map fst (aupsert N.eqb k v s)) -> a = k \/ In a (map fst s).
Proof.
  intros k v a s. induction s as [|[b e] t IH]; simpl.
  - intros [H|[]]; left; auto.
  - destruct (N.eqb k b) eqn:E; simpl.
    + apply N.eqb_eq in E. subst. intros [H|H]; [left; auto|right; right; auto].
    + intros [H|H]; [right; left; auto|]. destruct (IH H); [left; auto|right; right; auto].
Qed.

Lemma aupsert_ok : forall k v s, swamp_ok s -> swamp_ok (aupsert N.eqb k v s).
Proof.
  intros k v s. unfold swamp_ok. induction s as [|[b e] t IH]; simpl; intro H.
  - constructor; [intros []|constructor].
  - inversion H as [|x l Hn Hd]; subst. destruct (N.eqb k b) eqn:E; simpl.
    + apply N.eqb_eq in E. subst. constructor; auto.
    + constructor; [|auto]. intro C. apply In_fst_aupsert in C as [C|C]; [|auto].
      subst. rewrite N.eqb_refl in E. discriminate.
Qed.

Lemma set_swamp_ok : forall st sw s, store_ok st -> swamp_ok s -> store_ok (set_swamp st sw s).
Proof.
  intros st sw s H Hs sw'. rewrite read_many_set_swamp. destruct (sname_eqb sw' sw); [exact Hs|apply H].
Qed.

Lemma save_many_ok : forall st sw kvs, store_ok st -> store_ok (save_many st sw kvs).
Proof.
  intros st sw kvs H. unfold save_many. destruct kvs as [|x t]; [exact H|].
  apply set_swamp_ok; [exact H|]. generalize (H sw). generalize (read_many st sw).
  generalize (x :: t). intro l. induction l as [|[a v] l IH]; intros s Hs; simpl; [exact Hs|].
  apply IH. apply aupsert_ok. exact Hs.
Qed.

Lemma delete_many_ok : forall st sw keys, store_ok st -> store_ok (delete_many st sw keys).
Proof.
  intros st sw keys H. unfold delete_many. destruct (alookup sname_eqb sw st) as [s|] eqn:L; [|exact H].
  apply set_swamp_ok; [exact H|].
  assert (Hs : swamp_ok s). { specialize (H sw). unfold read_many in H. rewrite L in H. exact H. }
  clear L. revert s Hs. induction keys as [|a l IH]; intros s Hs; simpl; [exact Hs|].
  apply IH. apply aremove_ok. exact Hs.
Qed.

Lemma destroy_ok : forall st sw, store_ok st -> store_ok (destroy_swamp st sw).
Proof.
  intros st sw H sw'. unfold destroy_swamp, read_many.
  rewrite (alookup_aremove sname_eqb sname_eqb_spec). destruct (sname_eqb sw' sw); [constructor|apply H].
Qed.

Lemma fold_ok : forall (f : store -> N -> store) ks st,
  (forall s k, store_ok s -> store_ok (f s k)) -> store_ok st -> store_ok (fold_left f ks st).
Proof.
  intros f ks. induction ks as [|a t IH]; intros st Hf H; simpl; [exact H|]. apply IH; auto.
Qed.

Lemma delete_opt_ok : forall st sw (dels : list N), store_ok st ->
  store_ok (match dels with [] => st | _ => delete_many st sw dels end).
Proof. intros st sw dels H. destruct dels; [exact H|apply delete_many_ok; exact H]. Qed.

Lemma step_ok : forall fixd st x, store_ok st -> store_ok (step fixd st x).
Proof.
  intros fixd st x H. destruct x as [i d its o|i d]; simpl.
  - unfold hx_save. apply fold_ok; [intros; apply save_many_ok; auto|].
    apply save_many_ok.
    apply delete_opt_ok. apply fold_ok; [intros; apply delete_many_ok; auto|exact H].
  - unfold hx_destroy. apply fold_ok; [intros; apply delete_many_ok; auto|].
    apply destroy_ok. exact H.
Qed.

Theorem no_row_twice : forall fixd ops i x,
  NoDup (map fst (get_core (run fixd ops) i x)) /\ NoDup (map fst (get_index (run fixd ops) i x)).
Proof.
  intros fixd ops i x.
  assert (H : store_ok (run fixd ops)).
  { unfold run. assert (H0 : store_ok []) by (intro sw; constructor).
    revert H0. generalize ([] : store). induction ops as [|a t IH]; intros st H0; simpl; [exact H0|].
    apply IH. apply step_ok. exact H0. }
  split; apply H.
Qed.

(* ---- non-vacuity ------------------------------------------------------------------------------- *)
Definition ex_ops : list op :=
  [OSave 1 0 [(0, 5); (1, 6)] {| o_old := [1; 0]; o_new := [1; 0]; o_now := 1 |};
   OSave 1 1 [(1, 6); (2, 9)] or0;
   OSave 1 0 [(1, 7); (2, 8)] {| o_old := [2; 1; 0]; o_new := [0; 2; 1]; o_now := 3 |};
   ODestroy 1 1;
   OSave 1 2 [(2, 2)] or0].

Example ex_core : core_values (run true ex_ops) 1 0 = [(1, 7); (2, 8)].
Proof. vm_compute. reflexivity. Qed.
Example ex_index : map fst (get_index (run true ex_ops) 1 2) = [0; 2].
Proof. vm_compute. reflexivity. Qed.
Example ex_old_code_keeps_stale_value : core_values (run false ex_ops) 1 0 = [(1, 6); (2, 8)].
Proof. vm_compute. reflexivity. Qed.
Example ex_last_saved : last_saved ex_ops 1 0 = [(1, 7); (2, 8)] /\ last_saved ex_ops 1 1 = [].
Proof. vm_compute. split; reflexivity. Qed.
