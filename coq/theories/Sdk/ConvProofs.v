(* Sdk/ConvProofs.v — theorems about Sdk/Conv.v: field isolation, the frame/ownership structure
   of the encoder, per-role round trips under codec round-trip hypotheses, and the refutations
   for the substring tag tests of the code before the repair. *)
From HV Require Import Base.Prelude Gen.C22Consts Sdk.Tags Sdk.TagsProofs Sdk.Conv Sdk.ConvCheck.
Local Open Scope N_scope.

Arguments has_omit : simpl never.
Arguments inspect_role : simpl never.

(* ---- what the exact-head tests say about a tag's role ------------------------------------------ *)

Lemma reserved_part_inv : forall r l, reserved_part r = l ->
  match l with
  | [] => is_body r = true \/ r = RNone
  | [x] => r = x /\ is_body r = false /\ r <> RNone
  | _ => False
  end.
Proof. intros r l H; subst; destruct r; simpl; auto; repeat split; auto; discriminate. Qed.

Definition is_meta (r : role) : bool :=
  match r with RExpireAt | RCreatedBy | RCreatedAt | RUpdatedBy | RUpdatedAt => true | _ => false end.

Lemma first_match_meta : forall sub tag r, first_match sub tag meta_chain = Some r -> is_meta r = true.
Proof.
  intros sub tag r. unfold meta_chain. simpl.
  repeat match goal with |- context [if ?c then _ else _] => destruct c end;
    intro H; inversion H; reflexivity.
Qed.

Lemma enc_tests_role : forall tag,
  let k := enc_key_test false tag in
  let v := tag_test false tag_value tag in
  let mm := first_match false tag meta_chain in
  (k = true -> inspect_role tag = RKey) /\
  (k = false -> v = true -> inspect_role tag = RValue /\ mm = None) /\
  (k = false -> forall r, mm = Some r -> inspect_role tag = r /\ v = false) /\
  (k = false -> v = false -> mm = None -> is_body (inspect_role tag) = true \/ inspect_role tag = RNone).
Proof.
  intro tag. cbv zeta.
  destruct (tag_dispatch_agrees tag) as [He _]. unfold enc_roles in He.
  destruct (enc_key_test false tag) eqn:Ek;
  destruct (tag_test false tag_value tag) eqn:Ev;
  destruct (first_match false tag meta_chain) as [r|] eqn:Em; simpl in He;
  symmetry in He; apply reserved_part_inv in He; simpl in He;
  repeat split; intros; try discriminate; try tauto;
  try (destruct He as [He1 _]; congruence);
  try (match goal with H : Some _ = Some _ |- _ => inversion H; subst end; destruct He as [He1 _]; congruence).
Qed.

Lemma dec_role_role : forall tag, dec_role false tag = reserved_opt (inspect_role tag).
Proof. intro tag; apply tag_dispatch_agrees. Qed.

Section Generic.
  Variable B : Type.
  Variable C : codec B.

  Notation enc_field := (enc_field B C).
  Notation enc_fields := (enc_fields B C).
  Notation kvlog := (kvlog B).

  (* ---- field isolation ------------------------------------------------------------------------- *)

  (* A field whose tag head is not reserved contributes nothing to the key, the typed value,
     VoidVal or the metadata, whatever its name and value ... *)
  Lemma body_field_encodes_nothing : forall msgp nm t v,
    is_body (inspect_role t) = true \/ inspect_role t = RNone ->
    enc_field false msgp (Build_field nm (Some t) v) = Ok [].
  Proof.
    intros msgp nm t v Hb. unfold Conv.enc_field. cbn [f_tag f_val].
    destruct (enc_tests_role t) as [H1 [H2 [H3 H4]]].
    destruct (enc_key_test false t) eqn:Ek.
    { rewrite (H1 eq_refl) in Hb. destruct Hb as [Hb|Hb]; discriminate. }
    destruct (first_match false t meta_chain) as [r|] eqn:Em.
    { destruct (H3 eq_refl r eq_refl) as [Hr _]. apply first_match_meta in Em.
      rewrite Hr in Hb. destruct r; try discriminate; destruct Hb as [Hb|Hb]; discriminate. }
    destruct (tag_test false tag_value t) eqn:Ev.
    { destruct (H2 eq_refl eq_refl) as [Hr _]. rewrite Hr in Hb. destruct Hb as [Hb|Hb]; discriminate. }
    reflexivity.
  Qed.

  (* ... and is never written by the key / value / metadata branches of the decoder. *)
  Lemma body_field_not_overwritten : forall t nm tag v cur,
    is_body (inspect_role tag) = true \/ inspect_role tag = RNone ->
    dec_reserved B C false t (Build_field nm (Some tag) v) cur = Ok cur.
  Proof.
    intros t nm tag v cur Hb. unfold dec_reserved. cbn [f_tag]. rewrite dec_role_role.
    destruct (inspect_role tag); simpl; try reflexivity; destruct Hb as [Hb|Hb]; discriminate.
  Qed.

  Lemma enc_fields_app : forall sub msgp m1 m2,
    enc_fields sub msgp (m1 ++ m2) =
    match enc_fields sub msgp m1 with
    | Err e => Err e
    | Ok l1 => match enc_fields sub msgp m2 with Err e => Err e | Ok l2 => Ok (l1 ++ l2) end
    end.
  Proof.
    intros sub msgp m1 m2; induction m1 as [|f t IH]; simpl.
    - destruct (enc_fields sub msgp m2); reflexivity.
    - destruct (enc_field sub msgp f) as [l|e]; [|reflexivity]. rewrite IH.
      destruct (enc_fields sub msgp t) as [l1|e1]; [|reflexivity].
      destruct (enc_fields sub msgp m2) as [l2|e2]; [|reflexivity].
      rewrite app_assoc. reflexivity.
  Qed.

  Lemma body_fields_app : forall m1 m2, body_fields (m1 ++ m2) = body_fields m1 ++ body_fields m2.
  Proof. intros; unfold body_fields; apply filter_app. Qed.

  Lemma body_entries_app : forall m1 m2, body_entries (m1 ++ m2) = body_entries m1 ++ body_entries m2.
  Proof. intros; unfold body_entries. rewrite body_fields_app, filter_app, map_app. reflexivity. Qed.

  Lemma has_value_app : forall m1 m2, has_value (m1 ++ m2) = has_value m1 || has_value m2.
  Proof. intros; unfold has_value; apply existsb_app. Qed.

  (* Renaming a map-body field (both names non-reserved heads, same omitempty option) changes
     nothing but the name of that field's own body entry: the assignments to key / typed value /
     VoidVal / metadata are identical, the shape is identical, the body entries of all other
     fields are identical (and in the same places), and the entry of the renamed field keeps its
     value. *)
  Theorem field_isolation : forall msgp pre post nm v t t',
    is_body (inspect_role t) = true -> is_body (inspect_role t') = true -> has_omit t = has_omit t' ->
    let m := pre ++ Build_field nm (Some t) v :: post in
    let m' := pre ++ Build_field nm (Some t') v :: post in
    enc_fields false msgp m = enc_fields false msgp m' /\
    inspect m = inspect m' /\
    exists e e',
      body_entries m = body_entries pre ++ e ++ body_entries post /\
      body_entries m' = body_entries pre ++ e' ++ body_entries post /\
      map snd e = map snd e' /\ (length e <= 1)%nat.
  Proof.
    intros msgp pre post nm v t t' Hb Hb' Ho m m'. subst m m'.
    split; [|split].
    - rewrite !enc_fields_app. simpl.
      rewrite !body_field_encodes_nothing by (left; assumption). reflexivity.
    - unfold inspect.
      change (Build_field nm (Some t) v :: post) with ([Build_field nm (Some t) v] ++ post).
      change (Build_field nm (Some t') v :: post) with ([Build_field nm (Some t') v] ++ post).
      rewrite !has_value_app, !body_fields_app.
      assert (Hv : forall tt, is_body (inspect_role tt) = true ->
                has_value [Build_field nm (Some tt) v] = false /\
                body_fields [Build_field nm (Some tt) v] = [Build_field nm (Some tt) v]).
      { intros tt Htt. unfold has_value, body_fields, frole. cbn [existsb filter f_tag]. rewrite Htt.
        destruct (inspect_role tt); try discriminate. split; reflexivity. }
      destruct (Hv t Hb) as [A1 A2]; destruct (Hv t' Hb') as [A3 A4]. rewrite A1, A2, A3, A4.
      simpl. destruct (has_value pre || has_value post); destruct (body_fields pre); reflexivity.
    - exists (body_entries [Build_field nm (Some t) v]), (body_entries [Build_field nm (Some t') v]).
      rewrite !(body_entries_app pre).
      change (Build_field nm (Some t) v :: post) with ([Build_field nm (Some t) v] ++ post).
      change (Build_field nm (Some t') v :: post) with ([Build_field nm (Some t') v] ++ post).
      rewrite !body_entries_app. split; [reflexivity|]. split; [reflexivity|].
      unfold body_entries, body_fields, frole, fomit. simpl. rewrite Hb, Hb'.
      cbn [filter f_tag f_val]. rewrite Ho.
      destruct (has_omit t' && is_empty v); simpl; auto.
  Qed.

  (* ---- frame structure of the encoder ------------------------------------------------------------ *)

  Definition owner (sn : sname) : role :=
    match sn with
    | SnKey => RKey | SnTyped _ | SnVoid => RValue | SnExp => RExpireAt | SnCBy => RCreatedBy
    | SnCAt => RCreatedAt | SnUBy => RUpdatedBy | SnUAt => RUpdatedAt
    end.

  Lemma raw_get_acc : forall sn (l : kvlog) acc,
    fold_left (fun acc p => if sname_eqb (fst p) sn then Some (snd p) else acc) l acc =
    match raw_get B sn l with Some x => Some x | None => acc end.
  Proof.
    intros sn l; induction l as [|p t IH]; intro acc; [reflexivity|].
    unfold raw_get. cbn [fold_left]. rewrite IH.
    rewrite (IH (if sname_eqb (fst p) sn then Some (snd p) else None)).
    destruct (raw_get B sn t); [reflexivity|]. destruct (sname_eqb (fst p) sn); reflexivity.
  Qed.

  (* the last assignment wins *)
  Lemma raw_get_app : forall sn (l1 l2 : kvlog),
    raw_get B sn (l1 ++ l2) = match raw_get B sn l2 with Some x => Some x | None => raw_get B sn l1 end.
  Proof. intros. unfold raw_get at 1. rewrite fold_left_app. rewrite raw_get_acc. reflexivity. Qed.

  Lemma sname_eqb_eq : forall a b, sname_eqb a b = true -> a = b.
  Proof. intros [] []; simpl; intro H; try discriminate; try reflexivity. apply N.eqb_eq in H; subst; reflexivity. Qed.

  Lemma raw_get_none : forall sn (l : kvlog),
    Forall (fun p => owner (fst p) <> owner sn) l -> raw_get B sn l = None.
  Proof.
    intros sn l H; induction H as [|p t Hp _ IH]; [reflexivity|].
    change (p :: t) with ([p] ++ t). rewrite raw_get_app, IH. unfold raw_get. simpl.
    destruct (sname_eqb (fst p) sn) eqn:E; [|reflexivity].
    apply sname_eqb_eq in E. rewrite E in Hp. congruence.
  Qed.

  Lemma conv_field_owner : forall msgp v l, conv_field B C msgp v = Ok l ->
    Forall (fun p => owner (fst p) = RValue) l.
  Proof.
    intros msgp v l H. unfold conv_field in H.
    destruct v as [s|b|w n|w z|b|b|st b|s n|k st tok|tok|tok];
      try destruct w; try destruct st; try destruct k; simpl in H;
      try (destruct (c_enc B C msgp _)); try (destruct (_ && _));
      inversion H; subst; repeat constructor.
  Qed.

  Lemma enc_meta_owner : forall r omit v l, is_meta r = true -> enc_meta B r omit v = Ok l ->
    Forall (fun p => owner (fst p) = r) l.
  Proof.
    intros r omit v l Hm H. unfold enc_meta in H.
    destruct (omit && is_empty v); [inversion H; constructor|].
    destruct r; try discriminate; simpl in H;
      destruct v as [s|b|w n|w z|b|b|st b|s n|k st tok|tok|tok]; try discriminate;
      try (destruct s; inversion H; subst; repeat constructor; fail);
      try (destruct (is_empty _); [destruct omit; inversion H; constructor | inversion H; repeat constructor]).
  Qed.

  (* Every assignment a field makes goes to a slot owned by the role of its tag head.  Together
     with [raw_get_app] / [raw_get_none] this is the frame property: what the finished
     KeyValuePair holds in a role's slots is decided by the fields of that role alone. *)
  Theorem enc_field_owner : forall msgp f l, enc_field false msgp f = Ok l ->
    Forall (fun p => owner (fst p) = frole f) l.
  Proof.
    intros msgp [nm [tag|] v] l H; unfold Conv.enc_field in H; cbn [f_tag f_val] in H;
      [|inversion H; constructor].
    unfold frole; cbn [f_tag].
    destruct (enc_tests_role tag) as [H1 [H2 [H3 H4]]].
    destruct (enc_key_test false tag) eqn:Ek.
    { rewrite (H1 eq_refl). destruct v as [s| | | | | | | | | |]; try discriminate.
      destruct s; inversion H; subst. repeat constructor. }
    destruct (first_match false tag meta_chain) as [r|] eqn:Em.
    { destruct (H3 eq_refl r eq_refl) as [Hr Hv]. rewrite Hv in H. rewrite Hr.
      eapply enc_meta_owner; [eapply first_match_meta; exact Em | exact H]. }
    destruct (tag_test false tag_value tag) eqn:Ev; [|inversion H; constructor].
    destruct (H2 eq_refl eq_refl) as [Hr _]. rewrite Hr.
    destruct (omit_test false tag && is_empty v).
    { destruct (is_empty v); inversion H; subst; repeat constructor. }
    unfold res_app in H. destruct (conv_field B C msgp v) as [lc|e] eqn:Ec; [|discriminate].
    inversion H; subst. rewrite app_nil_r. apply Forall_app. split.
    - destruct (is_empty v); repeat constructor.
    - eapply conv_field_owner; exact Ec.
  Qed.

  Lemma enc_fields_owner : forall msgp m l, enc_fields false msgp m = Ok l ->
    Forall (fun p => exists f, In f m /\ owner (fst p) = frole f) l.
  Proof.
    intros msgp m; induction m as [|f t IH]; intros l H; simpl in H.
    - inversion H; constructor.
    - destruct (enc_field false msgp f) as [lf|] eqn:Ef; [|discriminate].
      destruct (enc_fields false msgp t) as [lt|] eqn:Et; [|discriminate].
      inversion H; subst. apply Forall_app; split.
      + apply enc_field_owner in Ef. eapply Forall_impl; [|exact Ef].
        intros p Hp. exists f. split; [left; reflexivity|exact Hp].
      + specialize (IH lt eq_refl). eapply Forall_impl; [|exact IH].
        intros p [g [Hg Hp]]. exists g. split; [right; exact Hg|exact Hp].
  Qed.

  (* Frame theorem: in the assignments of a whole model, the slots of role [r] hold what the
     one field [f] of that role put there, when no other field has role [r]. *)
  Theorem frame : forall msgp pre f post l sn,
    enc_fields false msgp (pre ++ f :: post) = Ok l ->
    owner sn = frole f ->
    (forall g, In g (pre ++ post) -> frole g <> frole f) ->
    exists lf, enc_field false msgp f = Ok lf /\ raw_get B sn l = raw_get B sn lf.
  Proof.
    intros msgp pre f post l sn H Ho Hu.
    rewrite enc_fields_app in H. simpl in H.
    destruct (enc_fields false msgp pre) as [l1|] eqn:E1; [|discriminate].
    destruct (enc_field false msgp f) as [lf|] eqn:Ef; [|discriminate].
    destruct (enc_fields false msgp post) as [l2|] eqn:E2; [|discriminate].
    inversion H; subst. exists lf. split; [reflexivity|].
    assert (Hn : forall m' l', enc_fields false msgp m' = Ok l' -> (forall g, In g m' -> In g (pre ++ post)) ->
                 raw_get B sn l' = None).
    { intros m' l' He Hin. apply raw_get_none. apply enc_fields_owner in He.
      eapply Forall_impl; [|exact He]. intros p [g [Hg Hp]]. rewrite Hp, Ho. apply Hu. apply Hin. exact Hg. }
    rewrite !raw_get_app.
    rewrite (Hn post l2 E2) by (intros g Hg; apply in_or_app; right; exact Hg).
    rewrite (Hn pre l1 E1) by (intros g Hg; apply in_or_app; left; exact Hg).
    destruct (raw_get B sn lf); reflexivity.
  Qed.

End Generic.

(* ---- round trip of one role's slots (abstract codec with round-trip hypotheses) --------------- *)

Section RoundTrip.
  Variable B : Type.
  Variable C : codec B.
  Hypothesis H_raw : forall b, c_unraw B C (c_raw B C b) = b.
  Hypothesis H_enc : forall msgp v b, c_enc B C msgp v = Some b ->
    exists v', c_dec B C b (zero_of v) = Some v' /\ canon v' = canon v.

  (* values for which the typed value slot is exact: no sub-second time, no plain struct, and
     the nil / empty / full state agrees with the content (true of every Go value) *)
  Definition value_exact (v : value) : bool :=
    match v with
    | VTime s n => N.eqb n 0 || is_empty v
    | VStruct _ | VOther _ => false
    | VBytes st b => match st, b with SFull, _ :: _ => true | SNil, [] | SEmpty, [] => true | _, _ => false end
    | VCx CPtr SEmpty _ => false
    | VCx _ SFull _ => true
    | VCx _ _ tok => N.eqb tok 0
    | _ => true
    end.

  (* What a lone value field writes, the server keeps and the decoder reads back is the value. *)
  Theorem value_slot_roundtrip : forall msgp omit v l,
    value_exact v = true ->
    (if omit && is_empty v then Ok (if is_empty v then [(SnVoid, PBool B true)] else [])
     else res_app B (Ok (if is_empty v then [(SnVoid, PBool B true)] else [])) (conv_field B C msgp v)) = Ok l ->
    exists v', set_from B C (pick_content B l) (zero_of v) = Ok v' /\ canon v' = canon v.
  Proof.
    intros msgp omit v l Hx H.
    destruct v as [s|b|w n|w z|b|b|st b|s n|k st tok|tok|tok]; simpl in Hx; try discriminate.
    - (* string *) destruct s; destruct omit; simpl in H; inversion H; subst; vm_compute; eauto.
    - destruct omit; simpl in H; inversion H; subst; vm_compute; eauto.
    - destruct w; simpl in H; destruct (n =? 0) eqn:En; destruct omit; simpl in H; inversion H; subst;
        try (apply N.eqb_eq in En; subst); vm_compute; eauto.
    - destruct w; simpl in H; destruct (z =? 0)%Z eqn:En; destruct omit; simpl in H; inversion H; subst;
        try (apply Z.eqb_eq in En; subst); vm_compute; eauto.
    - simpl in H. destruct (b =? 0) eqn:E0; [apply N.eqb_eq in E0; subst|];
        [|destruct (b =? 2147483648) eqn:E1; [apply N.eqb_eq in E1; subst|]];
        destruct omit; simpl in H; inversion H; subst; vm_compute; eauto.
    - simpl in H. destruct (b =? 0) eqn:E0; [apply N.eqb_eq in E0; subst|];
        [|destruct (b =? 9223372036854775808) eqn:E1; [apply N.eqb_eq in E1; subst|]];
        destruct omit; simpl in H; inversion H; subst; vm_compute; eauto.
    - (* []byte *)
      destruct st; destruct b as [|c b]; try discriminate; destruct omit; simpl in H; inversion H; subst;
        unfold pick_content, get, raw_get; simpl; rewrite ?H_raw; simpl; eauto.
    - (* time *)
      simpl in H. destruct (Z.eqb s zero_time_sec && N.eqb n 0) eqn:Ez.
      + apply andb_true_iff in Ez as [E1 E2]. apply Z.eqb_eq in E1. apply N.eqb_eq in E2. subst.
        destruct omit; simpl in H; inversion H; subst; vm_compute; eauto.
      + rewrite orb_false_r in Hx. apply N.eqb_eq in Hx. subst.
        destruct omit; simpl in H; inversion H; subst;
          unfold pick_content, get, raw_get; simpl; eauto.
    - (* slices, maps, pointers *)
      assert (Hconv : conv_field B C msgp (VCx k st tok) =
                match k, st with
                | CPtr, SNil => Ok []
                | _, _ => match c_enc B C msgp (VCx k st tok) with
                          | Some b => Ok [(SnTyped 12, PTyped B (SlBytes B b))]
                          | None => Err ECodec
                          end
                end) by (destruct k; destruct st; reflexivity).
      rewrite Hconv in H; clear Hconv.
      destruct (c_enc B C msgp (VCx k st tok)) as [bb|] eqn:Ee.
      + destruct (H_enc _ _ _ Ee) as [v' [Hd Hc]]. cbn [zero_of] in Hd.
        destruct k; destruct st; cbn in Hx; try discriminate; try (apply N.eqb_eq in Hx; subst tok);
          destruct omit; cbn in H; inversion H; subst; cbn; rewrite ?Hd; eauto.
      + destruct k; destruct st; cbn in Hx; try discriminate; try (apply N.eqb_eq in Hx; subst tok);
          destruct omit; cbn in H; inversion H; subst; cbn; eauto.
  Qed.

End RoundTrip.

(* ---- the code before the repair (substring tests) ------------------------------------------------ *)

Definition w_key : str := [107;101;121].
Definition w_keywords : str := [107;101;121;119;111;114;100;115].
Definition w_values : str := [118;97;108;117;101;115].
Definition w_title : str := [116;105;116;108;101].
Definition w_d1 : str := [100;49].
Definition w_ab : str := [97;108;112;104;97;32;98;101;116;97].

Definition witness_keywords : list field :=
  [Build_field [73;68] (Some w_key) (VStr w_d1); Build_field [75] (Some w_keywords) (VStr w_ab)].
Definition witness_values : list field :=
  [Build_field [73;68] (Some w_key) (VStr w_d1); Build_field [86] (Some w_values) (VStr w_ab)].
Definition witness_title : list field :=
  [Build_field [73;68] (Some w_key) (VStr w_d1); Build_field [86] (Some w_title) (VStr w_ab)].

(* With substring tests: the body field `keywords` = "alpha beta" of an accepted model reads back
   as the record key "d1"; with exact-head tests the same model round-trips. *)
Theorem roundtrip_refuted_substring :
  save_read sblob sym true false witness_keywords = Ok [VStr w_d1; VStr w_d1] /\
  save_read sblob sym false false witness_keywords = Ok [VStr w_d1; VStr w_ab].
Proof. split; vm_compute; reflexivity. Qed.

(* With substring tests, renaming the body field `title` to `values` changes the typed value slot
   of the KeyValuePair (it gains StringVal, which the server prefers to the body); with exact-head
   tests it does not (field_isolation). *)
Theorem field_isolation_refuted_substring :
  enc_fields sblob sym true false witness_title <> enc_fields sblob sym true false witness_values /\
  enc_fields sblob sym false false witness_title = enc_fields sblob sym false false witness_values.
Proof. split; [vm_compute; discriminate | vm_compute; reflexivity]. Qed.

(* the symbolic codec used by the correspondence check satisfies the round-trip hypotheses *)
Lemma sym_raw : forall b, c_unraw sblob sym (c_raw sblob sym b) = b.
Proof. reflexivity. Qed.

Lemma value_eqb_refl : forall v, value_eqb v v = true.
Proof.
  destruct v; simpl; rewrite ?str_eqb_refl, ?N.eqb_refl, ?Z.eqb_refl, ?Bool.eqb_reflx; try reflexivity;
    try (destruct w; reflexivity); try (destruct st; reflexivity);
    destruct k; destruct st; reflexivity.
Qed.

Lemma zero_of_canon : forall v, zero_of (canon v) = zero_of v.
Proof.
  destruct v as [s|b|w n|w z|b|b|st b|s n|k st tok|tok|tok]; try reflexivity.
  - simpl. destruct b as [|p]; [reflexivity|]. repeat (destruct p as [p|p|]; try reflexivity).
  - simpl. destruct b as [|p]; [reflexivity|]. repeat (destruct p as [p|p|]; try reflexivity).
  - destruct st; reflexivity.
  - destruct k; destruct st; reflexivity.
Qed.

Lemma canon_idem : forall v, canon (canon v) = canon v.
Proof.
  destruct v as [s|b|w n|w z|b|b|st b|s n|k st tok|tok|tok]; try reflexivity.
  - simpl. destruct b as [|p]; [reflexivity|]. repeat (destruct p as [p|p|]; try reflexivity).
  - simpl. destruct b as [|p]; [reflexivity|]. repeat (destruct p as [p|p|]; try reflexivity).
  - destruct st; reflexivity.
  - destruct k; destruct st; reflexivity.
Qed.

Lemma sym_enc : forall msgp v b, c_enc sblob sym msgp v = Some b ->
  exists v', c_dec sblob sym b (zero_of v) = Some v' /\ canon v' = canon v.
Proof.
  intros msgp v b H. simpl in H. destruct (is_other v); [discriminate|]. inversion H; subst.
  exists (canon v). split; [|apply canon_idem].
  cbn [c_dec sym]. unfold same_kind.
  assert (Hz : zero_of (zero_of v) = zero_of v) by (destruct v; reflexivity).
  rewrite zero_of_canon, Hz, value_eqb_refl. reflexivity.
Qed.

(* non-vacuity: the hypotheses of value_slot_roundtrip are satisfiable, e.g. by the symbolic codec
   and a pointer value with omitempty *)
Example value_slot_roundtrip_example :
  exists v', set_from sblob sym (pick_content sblob
     [(SnTyped 12, PTyped sblob (SlBytes sblob (BEnc true (VCx CPtr SFull 7))))]) (VCx CPtr SNil 0) = Ok v'
     /\ canon v' = canon (VCx CPtr SFull 7).
Proof.
  apply (value_slot_roundtrip sblob sym sym_raw sym_enc true true (VCx CPtr SFull 7)); reflexivity.
Qed.
