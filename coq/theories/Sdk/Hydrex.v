(* Sdk/Hydrex.v — executable model of sdk/go/hydraidego/hydrex/hydrex.go on top of an abstract
   catalog store.  Model only (no proofs).

   Identifiers (index names, domains, keys, values) are abstracted to N ids (M4): Hydrex never
   inspects them, it only compares them for equality and uses them as swamp names / map keys.

   The store is   swamp name -> key -> (value, createdAt)   with exactly the catalog operations
   Hydrex issues through the SDK (CatalogReadMany, CatalogSaveMany / SaveManyToMany = gateway
   Set with CreateIfNotExist+Overwrite, CatalogDeleteMany / DeleteManyFromMany = gateway Delete,
   Destroy).  Deleting the last key of a swamp removes the swamp (swamp.go:DeleteTreasure).

   Everything Hydrex's result does not depend on is an oracle of the operation (M2): the Go map
   iteration orders of [existingCoreData] and [items] (priority lists, see [order_by]) and the
   wall clock ([o_now]).

   [fixd] selects the treatment of a key that exists already and whose value differs:
     fixd = true  : the entry is rewritten with the new value and its old CreatedAt
                    (the code after the fix: commit for C27) - faithful model of the current tree
     fixd = false : the entry is left alone (the code at the pinned commit); kept so that the
                    refutation of "core data = last saved items" for the old code stays checked. *)
From HV Require Import Base.Prelude.
Local Open Scope N_scope.

(* ---- association lists ------------------------------------------------------------------ *)
Section Assoc.
  Context {K V : Type} (eqb : K -> K -> bool).

  Fixpoint alookup (k : K) (l : list (K * V)) : option V :=
    match l with
    | [] => None
    | (k', v) :: t => if eqb k k' then Some v else alookup k t
    end.

  Definition amem (k : K) (l : list (K * V)) : bool :=
    match alookup k l with Some _ => true | None => false end.

  Fixpoint aremove (k : K) (l : list (K * V)) : list (K * V) :=
    match l with
    | [] => []
    | (k', v) :: t => if eqb k k' then aremove k t else (k', v) :: aremove k t
    end.

  (* overwrite in place, or append *)
  Fixpoint aupsert (k : K) (v : V) (l : list (K * V)) : list (K * V) :=
    match l with
    | [] => [(k, v)]
    | (k', v') :: t => if eqb k k' then (k, v) :: t else (k', v') :: aupsert k v t
    end.
End Assoc.

Definition nmem (k : N) (l : list N) : bool := existsb (N.eqb k) l.

(* ---- swamp names and the store ------------------------------------------------------------ *)
Inductive sanct := SCore | SIdx.     (* sanctuaries hydraideCoreData / hydraideIndex *)

Record sname := { sn_s : sanct; sn_realm : N; sn_swamp : N }.

Definition sanct_eqb (a b : sanct) : bool :=
  match a, b with SCore, SCore => true | SIdx, SIdx => true | _, _ => false end.

Definition sname_eqb (a b : sname) : bool :=
  sanct_eqb (sn_s a) (sn_s b) && N.eqb (sn_realm a) (sn_realm b) && N.eqb (sn_swamp a) (sn_swamp b).

Record entry := { e_val : N; e_created : N }.

Definition swamp := list (N * entry).
Definition store := list (sname * swamp).

Definition core_name (i d : N) : sname := {| sn_s := SCore; sn_realm := i; sn_swamp := d |}.
Definition idx_name (i k : N) : sname := {| sn_s := SIdx; sn_realm := i; sn_swamp := k |}.

(* CatalogReadMany; a missing swamp is an error that Hydrex ignores: no rows. *)
Definition read_many (st : store) (sw : sname) : swamp :=
  match alookup sname_eqb sw st with Some s => s | None => [] end.

(* a swamp without keys does not exist *)
Definition set_swamp (st : store) (sw : sname) (s : swamp) : store :=
  match s with
  | [] => aremove sname_eqb sw st
  | _ => aupsert sname_eqb sw s st
  end.

(* gateway Set, CreateIfNotExist + Overwrite.  An empty KeyValues list is rejected by the
   gateway (InvalidArgument) before anything is summoned; Hydrex logs the error. *)
Definition save_many (st : store) (sw : sname) (kvs : list (N * entry)) : store :=
  match kvs with
  | [] => st
  | _ => set_swamp st sw (fold_left (fun s kv => aupsert N.eqb (fst kv) (snd kv) s) kvs (read_many st sw))
  end.

(* gateway Delete for one swamp: SwampDoesNotExist if missing, else key by key. *)
Definition delete_many (st : store) (sw : sname) (keys : list N) : store :=
  match alookup sname_eqb sw st with
  | None => st
  | Some s => set_swamp st sw (fold_left (fun s k => aremove N.eqb k s) keys s)
  end.

Definition destroy_swamp (st : store) (sw : sname) : store := aremove sname_eqb sw st.

(* ---- iteration order oracle --------------------------------------------------------------- *)
(* A Go map is ranged over in an arbitrary order.  The oracle is a priority list [pri]: keys are
   visited by their position in [pri] (keys not in it last, stably).  Every list is a valid
   oracle and every permutation of the keys is produced by some oracle. *)
Fixpoint pos_in (k : N) (pri : list N) : N :=
  match pri with
  | [] => 0
  | x :: t => if N.eqb k x then 0 else N.succ (pos_in k t)
  end.

Fixpoint insert_by (pri : list N) (k : N) (l : list N) : list N :=
  match l with
  | [] => [k]
  | x :: t => if N.ltb (pos_in k pri) (pos_in x pri) then k :: x :: t else x :: insert_by pri k t
  end.

Definition order_by (pri : list N) (l : list N) : list N :=
  fold_right (insert_by pri) [] l.

Record oracle := { o_old : list N;     (* range over existingCoreData *)
                   o_new : list N;     (* range over items *)
                   o_now : N }.        (* time.Now() of this call *)

(* ---- Hydrex ------------------------------------------------------------------------------- *)
Definition items := list (N * N).      (* map[string]*CoreData : key -> value *)

Definition mk_entry (v c : N) : entry := {| e_val := v; e_created := c |}.

(* what the second loop of Save appends to itemsForSave for key [k] *)
Definition save_row (fixd : bool) (existing : swamp) (its : items) (now : N) (k : N) : list (N * entry) :=
  match alookup N.eqb k its with
  | None => []
  | Some v =>
      match alookup N.eqb k existing with
      | None => [(k, mk_entry v now)]
      | Some e => if fixd && negb (N.eqb v (e_val e)) then [(k, mk_entry v (e_created e))] else []
      end
  end.

Definition hx_save (fixd : bool) (st : store) (i d : N) (its : items) (o : oracle) : store :=
  let cname := core_name i d in
  let existing := read_many st cname in
  let old_keys := order_by (o_old o) (map fst existing) in
  let dels := filter (fun k => negb (amem N.eqb k its)) old_keys in
  (* one Delete request, one swamp entry per index, processed in order *)
  let st1 := fold_left (fun s k => delete_many s (idx_name i k) [d]) dels st in
  let st2 := match dels with [] => st1 | _ => delete_many st1 cname dels end in
  let new_keys := order_by (o_new o) (map fst its) in
  let to_save := flat_map (save_row fixd existing its (o_now o)) new_keys in
  let adds := filter (fun k => negb (amem N.eqb k existing)) new_keys in
  let st3 := save_many st2 cname to_save in
  fold_left (fun s k => save_many s (idx_name i k) [(d, mk_entry 0 (o_now o))]) adds st3.

Definition hx_destroy (st : store) (i d : N) : store :=
  let cname := core_name i d in
  let keys := map fst (read_many st cname) in
  let st1 := destroy_swamp st cname in
  fold_left (fun s k => delete_many s (idx_name i k) [d]) keys st1.

Definition get_core (st : store) (i d : N) : swamp := read_many st (core_name i d).
Definition get_index (st : store) (i k : N) : swamp := read_many st (idx_name i k).

(* key -> value view of core data *)
Definition core_values (st : store) (i d : N) : items :=
  map (fun p => (fst p, e_val (snd p))) (get_core st i d).

Inductive op :=
| OSave (i d : N) (its : items) (o : oracle)
| ODestroy (i d : N).

Definition step (fixd : bool) (st : store) (x : op) : store :=
  match x with
  | OSave i d its o => hx_save fixd st i d its o
  | ODestroy i d => hx_destroy st i d
  end.

Definition run (fixd : bool) (ops : list op) : store := fold_left (step fixd) ops [].

(* ---- specification: the items of the last Save of (i, d), nothing after a Destroy ------------ *)
Definition spec_step (i d : N) (acc : items) (x : op) : items :=
  match x with
  | OSave i' d' its _ => if N.eqb i i' && N.eqb d d' then its else acc
  | ODestroy i' d' => if N.eqb i i' && N.eqb d d' then [] else acc
  end.

Definition last_saved (ops : list op) (i d : N) : items := fold_left (spec_step i d) ops [].

(* ---- the abstract store against the engine ---------------------------------------------------
   The catalog calls Hydrex issued (recorded by a gRPC client interceptor), in order.  Replaying
   the acknowledged writes on the abstract store must explain every read the engine answered:
   this validates, case by case, the store part of the model (and attributes a failure of the
   engine to the engine, not to Hydrex). *)
Inductive call :=
| CRead (sw : sname) (rows : list (N * N))     (* GetByIndex: key -> value id *)
| CSet (sw : sname) (kvs : list (N * N))       (* Set, CreateIfNotExist + Overwrite *)
| CDel (sw : sname) (keys : list N)            (* Delete *)
| CDestroy (sw : sname).

Fixpoint chk_log (st : store) (l : list call) : N :=
  match l with
  | [] => 0
  | CRead sw rows :: t =>
      let a := map (fun p => (fst p, e_val (snd p))) (read_many st sw) in
      if existsb (fun k => negb (amem N.eqb k a)) (map fst rows) then 7
      else if existsb (fun k => negb (amem N.eqb k rows)) (map fst a) then 8
      else if negb (forallb (fun p => option_eqb N.eqb (alookup N.eqb (fst p) a) (Some (snd p))) rows) then 9
      else chk_log st t
  | CSet sw kvs :: t => chk_log (save_many st sw (map (fun p => (fst p, mk_entry (snd p) 0)) kvs)) t
  | CDel sw keys :: t => chk_log (delete_many st sw keys) t
  | CDestroy sw :: t => chk_log (destroy_swamp st sw) t
  end.

(* ---- case checker (correspondence + property oracle) ---------------------------------------- *)
Record case := {
  c_ops : list op;
  c_idx : list N;  c_dom : list N;  c_key : list N;          (* the universe of the case *)
  c_core : list ((N * N) * items);                            (* observed GetCoreData (i,d) *)
  c_index : list ((N * N) * list N);                          (* observed GetIndexData (i,k) *)
  c_log : list call                                           (* catalog calls issued, in order *)
}.

Definition pair_eqb (a b : N * N) : bool := N.eqb (fst a) (fst b) && N.eqb (snd a) (snd b).

Definition obs_core (c : case) (i d : N) : items :=
  match alookup pair_eqb (i, d) (c_core c) with Some l => l | None => [] end.
Definition obs_index (c : case) (i k : N) : list N :=
  match alookup pair_eqb (i, k) (c_index c) with Some l => l | None => [] end.

Fixpoint nodupb (l : list N) : bool :=
  match l with [] => true | x :: t => negb (nmem x t) && nodupb t end.

Definition all3 (c : case) (f : N -> N -> N -> bool) : bool :=
  forallb (fun i => forallb (fun d => forallb (fun k => f i d k) (c_key c)) (c_dom c)) (c_idx c).
Definition all_id (c : case) (f : N -> N -> bool) : bool :=
  forallb (fun i => forallb (fun d => f i d) (c_dom c)) (c_idx c).
Definition all_ik (c : case) (f : N -> N -> bool) : bool :=
  forallb (fun i => forallb (fun k => f i k) (c_key c)) (c_idx c).

(* same key -> value map over the case's key universe, and no key outside it *)
Definition items_agree (c : case) (a b : items) : bool :=
  forallb (fun k => option_eqb N.eqb (alookup N.eqb k a) (alookup N.eqb k b)) (c_key c)
  && forallb (fun k => nmem k (c_key c)) (map fst a)
  && forallb (fun k => nmem k (c_key c)) (map fst b).

Definition keys_agree (c : case) (a b : items) : bool :=
  forallb (fun k => Bool.eqb (amem N.eqb k a) (amem N.eqb k b)) (c_key c).

Definition chk (c : case) : N :=
  let ops := c_ops c in
  let lg := chk_log [] (c_log c) in
  (* the engine did not behave like a key-value store: report that, it explains the rest *)
  if negb (N.eqb lg 0) then lg else
  (* well-formed observations: no entry listed twice *)
  if negb (all_id c (fun i d => nodupb (map fst (obs_core c i d)))
           && all_ik c (fun i k => nodupb (obs_index c i k))) then 6
  (* clause 1 on the observations alone *)
  else if negb (all3 c (fun i d k => implb (nmem d (obs_index c i k)) (amem N.eqb k (obs_core c i d)))
                && all_ik c (fun i k => forallb (fun d => nmem d (c_dom c)) (obs_index c i k))) then 2
  else if negb (all3 c (fun i d k => implb (amem N.eqb k (obs_core c i d)) (nmem d (obs_index c i k)))) then 3
  (* clause 2 on the observations alone *)
  else if negb (all_id c (fun i d => items_agree c (obs_core c i d) (last_saved ops i d))) then
    (let old := run false ops in
     if all_id c (fun i d => keys_agree c (obs_core c i d) (last_saved ops i d)
                             && items_agree c (obs_core c i d) (core_values old i d))
     then 4 else 5)
  (* replay: faithful model of the current tree *)
  else
    let st := run true ops in
    if all_id c (fun i d => items_agree c (obs_core c i d) (core_values st i d))
       && all_ik c (fun i k => forallb (fun d => Bool.eqb (nmem d (obs_index c i k)) (amem N.eqb d (get_index st i k))) (c_dom c))
    then 0 else 1.

Definition check_all (cs : list case) : list verdict := check_cases chk cs.
