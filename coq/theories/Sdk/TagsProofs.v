(* Sdk/TagsProofs.v — the three readers of a hydraide tag agree (exact-head code), and do not
   agree under the substring tests of the code before the repair. *)
From HV Require Import Base.Prelude Gen.C22Consts Sdk.Tags.
Local Open Scope N_scope.

Lemma N_eqb_iff : forall x y : N, N.eqb x y = true <-> x = y.
Proof. intros; apply N.eqb_eq. Qed.

Lemma str_eqb_eq : forall a b, str_eqb a b = true <-> a = b.
Proof. intros; unfold str_eqb; apply list_eqb_eq; apply N_eqb_iff. Qed.

Lemma str_eqb_refl : forall a, str_eqb a a = true.
Proof. intro a; apply str_eqb_eq; reflexivity. Qed.

Lemma str_eqb_sym : forall a b, str_eqb a b = str_eqb b a.
Proof.
  intros a b. destruct (str_eqb a b) eqn:E1; destruct (str_eqb b a) eqn:E2; try reflexivity.
  - apply str_eqb_eq in E1; subst. rewrite str_eqb_refl in E2; discriminate.
  - apply str_eqb_eq in E2; subst. rewrite str_eqb_refl in E1; discriminate.
Qed.

(* The model's reserved table is exactly the set compiled into reservedHydraideTagNames. *)
Definition str_leb (a b : str) : bool :=
  (fix go (a b : str) : bool :=
     match a, b with
     | [], _ => true
     | _ :: _, [] => false
     | x :: a', y :: b' => if N.ltb x y then true else if N.eqb x y then go a' b' else false
     end) a b.

Fixpoint insert_sorted (x : str) (l : list str) : list str :=
  match l with
  | [] => [x]
  | y :: t => if str_leb x y then x :: l else y :: insert_sorted x t
  end.

Definition sort_strs (l : list str) : list str := fold_right insert_sorted [] l.

Lemma reserved_set_matches_code :
  sort_strs (map fst reserved_table) = reserved_names_sorted.
Proof. vm_compute. reflexivity. Qed.

(* the reserved names are pairwise different and none is empty (re-checked against the
   generated constants) *)
Lemma reserved_names_distinct :
  forallb (fun p => forallb (fun q => Bool.eqb (str_eqb (fst p) (fst q)) (role_eqb (snd p) (snd q)))
                            reserved_table) reserved_table = true
  /\ forallb (fun p => negb (str_eqb (fst p) [])) reserved_table = true.
Proof. split; vm_compute; reflexivity. Qed.

(* ---- exact-head code: encoder, decoder and inspectCatalogModel agree on every tag ---------- *)

Lemma lookup_first_match_head : forall tag chain,
  first_match false tag chain = lookup_name (head_of tag) chain.
Proof.
  intros tag chain; induction chain as [|[n r] t IH]; simpl; [reflexivity|].
  unfold tag_test. rewrite IH. reflexivity.
Qed.

Ltac case_name h n :=
  let E := fresh "E" in
  destruct (str_eqb h n) eqn:E;
  [ apply str_eqb_eq in E; subst h | ].

Theorem tag_dispatch_agrees : forall tag,
  enc_roles false tag = reserved_part (inspect_role tag) /\
  dec_role false tag = reserved_opt (inspect_role tag).
Proof.
  intro tag. unfold enc_roles, dec_role, inspect_role, enc_key_test.
  rewrite !lookup_first_match_head. unfold tag_test.
  remember (head_of tag) as h eqn:Hh. clear Hh tag.
  case_name h tag_key; [vm_compute; auto|].
  case_name h tag_value; [vm_compute; auto|].
  case_name h tag_expireAt; [vm_compute; auto|].
  case_name h tag_createdBy; [vm_compute; auto|].
  case_name h tag_createdAt; [vm_compute; auto|].
  case_name h tag_updatedBy; [vm_compute; auto|].
  case_name h tag_updatedAt; [vm_compute; auto|].
  unfold reserved_table, meta_chain. simpl lookup_name.
  rewrite E, E0, E1, E2, E3, E4, E5.
  destruct h; simpl; auto.
Qed.

Example tag_dispatch_examples :
  (* "keywords", "values,omitempty", "createdAtUtc" are body fields for all three readers;
     "value,omitempty" and "key" are the value and the key for all three. *)
  let keywords := [107;101;121;119;111;114;100;115] in
  let values_o := [118;97;108;117;101;115;44;111;109;105;116;101;109;112;116;121] in
  let value_o := [118;97;108;117;101;44;111;109;105;116;101;109;112;116;121] in
  (inspect_role keywords, enc_roles false keywords, dec_role false keywords) = (RBody keywords, [], None) /\
  (inspect_role values_o, enc_roles false values_o, dec_role false values_o, has_omit values_o)
     = (RBody [118;97;108;117;101;115], [], None, true) /\
  (inspect_role value_o, enc_roles false value_o, dec_role false value_o, has_omit value_o)
     = (RValue, [RValue], Some RValue, true) /\
  (inspect_role tag_key, enc_roles false tag_key, dec_role false tag_key) = (RKey, [RKey], Some RKey).
Proof. vm_compute. repeat split. Qed.

(* ---- the substring tests (code before the repair) ---------------------------------------------- *)

(* "keywords": a body field for inspectCatalogModel, the key for the old decoder;
   "values": a body field for inspectCatalogModel, the value for old encoder and decoder;
   "valueexpireAt": the old encoder takes two branches for one field. *)
Theorem tag_dispatch_refuted_substring :
  (exists tag, dec_role true tag <> reserved_opt (inspect_role tag)) /\
  (exists tag, enc_roles true tag <> reserved_part (inspect_role tag)) /\
  (exists tag, length (enc_roles true tag) = 2%nat).
Proof.
  split; [|split].
  - exists [107;101;121;119;111;114;100;115]. vm_compute. discriminate.
  - exists [118;97;108;117;101;115]. vm_compute. discriminate.
  - exists [118;97;108;117;101;101;120;112;105;114;101;65;116]. vm_compute. reflexivity.
Qed.

Lemma first_match_none_sub : forall tag chain,
  forallb (fun p => negb (containsb (fst p) tag)) chain = true ->
  first_match true tag chain = None.
Proof.
  intros tag chain; induction chain as [|[n r] t IH]; simpl; intro H; [reflexivity|].
  apply andb_true_iff in H as [H1 H2]. unfold tag_test.
  destruct (containsb n tag); [discriminate|]. apply IH; assumption.
Qed.

Lemma prefixb_refl : forall s, prefixb s s = true.
Proof. induction s as [|c s IH]; simpl; [reflexivity|]. rewrite N.eqb_refl, IH. reflexivity. Qed.

Lemma containsb_self : forall s, containsb s s = true.
Proof. intros [|c s]; simpl; [reflexivity|]. rewrite N.eqb_refl, prefixb_refl. reflexivity. Qed.

Lemma prefixb_head_of : forall n tag,
  forallb (fun c => negb (N.eqb c comma)) n = true -> n <> [] ->
  head_of tag = n -> prefixb n tag = true.
Proof.
  induction n as [|c n IH]; intros tag Hn Hne Hh; [congruence|].
  destruct tag as [|d tag]; simpl in Hh; [discriminate|].
  destruct (N.eqb d comma) eqn:Ed; [discriminate|]. inversion Hh; subst.
  simpl. rewrite N.eqb_refl. simpl.
  simpl in Hn. apply andb_true_iff in Hn as [_ Hn].
  destruct (head_of tag) as [|e r] eqn:Eh.
  - reflexivity.
  - apply IH; [assumption|discriminate|exact Eh].
Qed.

(* What did hold before the repair: a tag that contains no reserved name anywhere is a body field
   (or ignored) for all three readers. *)
Theorem tag_dispatch_partial_substring : forall tag,
  no_reserved_substring tag = true ->
  enc_roles true tag = reserved_part (inspect_role tag) /\
  dec_role true tag = reserved_opt (inspect_role tag) /\
  reserved_part (inspect_role tag) = [].
Proof.
  intros tag H. unfold no_reserved_substring in H.
  assert (Hd : dec_role true tag = None).
  { unfold dec_role. apply first_match_none_sub. exact H. }
  assert (Hm : first_match true tag meta_chain = None).
  { apply first_match_none_sub. unfold reserved_table in H. simpl in H.
    apply andb_true_iff in H as [_ H]. apply andb_true_iff in H as [_ H]. exact H. }
  assert (Hi : reserved_part (inspect_role tag) = [] /\ reserved_opt (inspect_role tag) = None).
  { unfold inspect_role. destruct (head_of tag) as [|c h] eqn:Eh; [split; reflexivity|].
    destruct (lookup_name (c :: h) reserved_table) as [r|] eqn:El; [|split; reflexivity].
    exfalso.
    (* the head is a reserved name, hence a prefix of the tag, hence contained in it *)
    assert (Hex : exists n, In (n, r) reserved_table /\ (c :: h) = n).
    { clear - El. induction reserved_table as [|[k r'] t IH]; simpl in El; [discriminate|].
      destruct (str_eqb (c :: h) k) eqn:Ek.
      - inversion El; subst. apply str_eqb_eq in Ek. exists k. split; [left; reflexivity|assumption].
      - destruct (IH El) as [n [Hin Hn]]. exists n. split; [right; assumption|assumption]. }
    destruct Hex as [n [Hin Hn]].
    rewrite forallb_forall in H. specialize (H _ Hin). simpl in H.
    assert (Hp : prefixb n tag = true).
    { apply prefixb_head_of; [| |congruence].
      - clear - Hin. revert n r Hin.
        assert (Hall : forallb (fun p => forallb (fun c => negb (N.eqb c comma)) (fst p)) reserved_table = true)
          by (vm_compute; reflexivity).
        intros n r Hin. rewrite forallb_forall in Hall. apply (Hall _ Hin).
      - rewrite <- Hn. discriminate. }
    destruct tag as [|d tag]; [simpl in Eh; discriminate|].
    simpl in H. rewrite Hp in H. simpl in H. discriminate. }
  destruct Hi as [Hi1 Hi2].
  split; [|split]; [|rewrite Hd, Hi2; reflexivity|exact Hi1].
  rewrite Hi1. unfold enc_roles.
  assert (Hk : enc_key_test true tag = false).
  { unfold enc_key_test. destruct (str_eqb tag tag_key) eqn:E; [|reflexivity].
    apply str_eqb_eq in E; subst. vm_compute in H. discriminate. }
  rewrite Hk, Hm.
  unfold tag_test. simpl in H. apply andb_true_iff in H as [_ H]. apply andb_true_iff in H as [Hv _].
  destruct (containsb tag_value tag); [discriminate|reflexivity].
Qed.

Example tag_dispatch_partial_nonvacuous :
  no_reserved_substring [116;105;116;108;101;44;111;109;105;116;101;109;112;116;121] = true /\
  inspect_role [116;105;116;108;101;44;111;109;105;116;101;109;112;116;121] = RBody [116;105;116;108;101].
Proof. vm_compute. split; reflexivity. Qed.
